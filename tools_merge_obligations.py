#!/usr/bin/env python3
"""3-way merge of lean/obligations.json during a `git merge` of a builder branch (stages :1 base, :2 ours, :3 theirs):
lists are united in order (ours, then what theirs added), dicts merged key-wise, strings: the side that changed wins, and if both
changed and theirs extends the base the extension is appended to ours."""
import json, subprocess, sys
P = "lean/obligations.json"
def stage(n): return json.loads(subprocess.check_output(["git", "show", f":{n}:{P}"]))
def merge(b, o, t):
    if isinstance(o, dict) and isinstance(t, dict):
        b = b if isinstance(b, dict) else {}
        out = {}
        for k in list(o) + [k for k in t if k not in o]:
            if k in o and k in t: out[k] = merge(b.get(k), o[k], t[k])
            elif k in o: out[k] = o[k]
            else: out[k] = t[k]
        return out
    if isinstance(o, list) and isinstance(t, list):
        b = b if isinstance(b, list) else []
        return o + [x for x in t if x not in o and x not in b]
    if o == t or t == b: return o
    if o == b: return t
    if isinstance(o, str) and isinstance(t, str) and isinstance(b, str) and t.startswith(b): return o + t[len(b):]
    if isinstance(o, str) and isinstance(t, str): return o + " " + t
    return o
m = merge(stage(1), stage(2), stage(3))
json.dump(m, open(P, "w"), indent=1, ensure_ascii=True)
print("merged", P, {k: len(v["theorems"]) for k, v in m.items()})
