#!/usr/bin/env python3
"""Self-test with the builders' own mutants and harmless rewrites (seeded_builder/<topic>/{m*,h*}.diff).

  tools_builder_mutants.py [topic...]   apply each patch to /repo, run the quick tier of the topic's properties, undo.
A mutant (m*) must make at least one of the checks report VIOLATION; a harmless rewrite (h*) must leave all of them quiet.
Results: seeded_builder/RESULTS.json.  These patches were written by the builder of the topic (who knew the model); they
are a regression test of the merge, not independent evidence (that is what seeded/ is for)."""
import glob, json, os, subprocess, sys
ROOT = os.path.dirname(os.path.abspath(__file__))
PROPS = {"cmdflow": ["C06", "C07"], "mountfs": ["C09", "C10"], "mtree": ["C05"], "sshpool": ["C14", "C03"],
         "storeopts": ["C15", "C03", "C20", "C14"], "gcs": ["C03", "C06", "C16", "C04", "C14"]}
def sh(c): 
    p = subprocess.run(c, shell=True, capture_output=True, text=True); return p.returncode, p.stdout + p.stderr
def main():
    topics = sys.argv[1:] or sorted(os.listdir(os.path.join(ROOT, "seeded_builder")))
    rp = os.path.join(ROOT, "seeded_builder", "RESULTS.json")
    res = json.load(open(rp)) if os.path.exists(rp) else {}
    if sh("git -C /repo status --porcelain")[1].strip():
        sys.exit("refusing: /repo has local changes")
    for t in topics:
        if t not in PROPS: continue
        for patch in sorted(glob.glob(os.path.join(ROOT, "seeded_builder", t, "[mh]*.diff"))):
            name = t + "/" + os.path.basename(patch)[:-5]
            rc, out = sh(f"git -C /repo apply {patch}")
            if rc != 0:
                res[name] = {"error": "does not apply: " + out[-200:]}; print(name, res[name]); continue
            try:
                hits = {}
                for p in PROPS[t]:
                    rc, out = sh(f"{ROOT}/check {p} --tier quick")
                    hits[p] = {"exit": rc, "lines": [l[:300] for l in out.splitlines() if l.startswith("VIOLATION") or "failing input" in l][:3]}
                    if rc == 1 and os.path.basename(patch).startswith("m"): break
            finally:
                sh("git -C /repo checkout -- . && git -C /repo clean -fdq")
            viol = any(h["exit"] == 1 for h in hits.values())
            ok = viol if os.path.basename(patch).startswith("m") else not any(h["exit"] != 0 for h in hits.values())
            res[name] = {"expected": "violation" if os.path.basename(patch).startswith("m") else "quiet", "as_expected": ok, "checks": hits}
            print(name, "OK" if ok else "UNEXPECTED", json.dumps(hits)[:300]); sys.stdout.flush()
            json.dump(res, open(rp, "w"), indent=1, sort_keys=True)
    sh(f"{ROOT}/check --setup")
if __name__ == "__main__":
    main()
