#!/usr/bin/env python3
"""Seeded property-breaking changes (DESIGN section 11).

  tools_seeded.py confirm <dir>...   confirm candidate changes produced by sub-agents (each <dir> holds
                                     patch.diff, demo_test.go|demo.sh, meta.json) in a scratch worktree
                                     of /repo outside /repo and /verif: the patch applies, the tree
                                     builds, the pinned test suite passes (TestMountIndex excepted: it
                                     fails in this sandbox on the unchanged tree), the demonstration
                                     fails with the patch and passes without it.  Confirmed ones are
                                     copied to /verif/seeded/<property>-<variant>/.
  tools_seeded.py run [ids...]       for every kept change: git -C /repo apply, run ./check <property>
                                     (quick; thorough if quick does not object), git checkout -- .
                                     Results go to /verif/seeded/RESULTS.json.
"""
import json, os, shutil, subprocess, sys, tempfile, time, glob

ENV = dict(os.environ, GOFLAGS="-mod=mod", GOPROXY="off", GOSUMDB="off", GOTOOLCHAIN="local")
ROOT = os.path.dirname(os.path.abspath(__file__))
SEEDED = os.path.join(ROOT, "seeded")
# VERIF_REPO: the tree the changes are applied to and the checks run against (default /repo; a background run
# started with `vp run --with-repo` passes its private snapshot, so that /repo itself is never modified)
REPO = os.environ.get("VERIF_REPO") or os.environ.get("VP_RUN_REPO") or "/repo"
ENV["VERIF_REPO"] = REPO


def sh(cmd, cwd=None, timeout=1800):
    p = subprocess.run(cmd, shell=True, cwd=cwd, env=ENV, capture_output=True, text=True, timeout=timeout)
    return p.returncode, p.stdout + p.stderr


def demo_run(wt, d):
    """run the demonstration inside worktree wt; returns (failed?, output)"""
    demo = os.path.join(d, "demo_test.go")
    if os.path.exists(demo):
        src = open(demo).read()
        pkgdir = wt
        if "\npackage main" in "\n" + src:
            pkgdir = os.path.join(wt, "cmd", "desync")
        dst = os.path.join(pkgdir, "zz_seeded_demo_test.go")
        shutil.copy(demo, dst)
        # extra files the demo needs
        for f in glob.glob(os.path.join(d, "demo_*")):
            if f != demo and not f.endswith(".txt"):
                shutil.copy(f, pkgdir)
        tests = [l.split("(")[0].split()[1] for l in src.splitlines() if l.startswith("func Test")]
        tags = "-tags verif" if "verif" in src.split("package")[0] or "desync.Verif" in src or "Verif" in src else ""
        rc, out = sh(f"go test {tags} -vet=off -count=1 -run '^({'|'.join(tests)})$' .", cwd=pkgdir, timeout=900)
        os.remove(dst)
        return rc != 0, out
    demo = os.path.join(d, "demo.sh")
    if os.path.exists(demo):
        rc, out = sh(f"sh {demo} {wt}", cwd=d, timeout=900)
        return rc != 0, out
    return None, "no demonstration found"


def confirm(dirs):
    head = subprocess.check_output(["git", "-C", "/repo", "rev-parse", "HEAD"], text=True).strip()
    for d in dirs:
        d = d.rstrip("/")
        meta = json.load(open(os.path.join(d, "meta.json")))
        name = f"{meta['property']}-{meta.get('variant', os.path.basename(d))}"
        wt = tempfile.mkdtemp(prefix="seedconfirm_", dir="/tmp")
        os.rmdir(wt)
        res = {"name": name, "base": head}
        try:
            sh(f"git -C /repo worktree add --detach {wt} {head}")
            rc, out = sh(f"git apply --check {d}/patch.diff && git apply {d}/patch.diff", cwd=wt)
            res["applies"] = rc == 0
            if rc != 0:
                res["error"] = out[-500:]
                continue
            rc, out = sh("go build ./... && go build -tags verif ./...", cwd=wt)
            res["builds"] = rc == 0
            rc, out = sh("go test -vet=off -count=1 . ./cmd/... 2>&1 | grep -E '^(--- FAIL|FAIL|ok|panic)'", cwd=wt)
            fails = [l for l in out.splitlines() if l.startswith("--- FAIL")]
            res["suite_failures"] = fails
            res["tests_pass"] = all("TestMountIndex" in f for f in fails) and "panic" not in out
            failed, out = demo_run(wt, d)
            res["demo_fails_patched"] = failed
            res["demo_patched_tail"] = out[-600:]
            sh("git checkout -- . && git clean -fdq", cwd=wt)
            failed, out = demo_run(wt, d)
            res["demo_fails_clean"] = failed
            res["confirmed"] = bool(res["applies"] and res["builds"] and res["tests_pass"] and res["demo_fails_patched"] and res["demo_fails_clean"] is False)
        finally:
            sh(f"git -C /repo worktree remove --force {wt}")
            shutil.rmtree(wt, ignore_errors=True)
            print(json.dumps({k: v for k, v in res.items() if k != "demo_patched_tail"}))
            sys.stdout.flush()
        if res.get("confirmed"):
            dst = os.path.join(SEEDED, name)
            shutil.rmtree(dst, ignore_errors=True)
            shutil.copytree(d, dst)
            meta["confirmed"] = {k: res[k] for k in ("base", "applies", "builds", "tests_pass", "demo_fails_patched", "demo_fails_clean")}
            json.dump(meta, open(os.path.join(dst, "meta.json"), "w"), indent=1)


def run(ids):
    results_path = os.path.join(SEEDED, "RESULTS.json")
    results = json.load(open(results_path)) if os.path.exists(results_path) else {}
    names = sorted(n for n in os.listdir(SEEDED) if os.path.isdir(os.path.join(SEEDED, n)))
    if ids:
        names = [n for n in names if n in ids or n.split("-")[0] in ids]
    rc, out = sh(f"git -C {REPO} status --porcelain")
    if out.strip():
        print(f"refusing: {REPO} has local changes:\n" + out)
        sys.exit(2)
    if not os.path.exists(os.path.join(ROOT, "lean", ".lake", "build", "bin", "driver")):
        sh(f"{ROOT}/check --setup", timeout=3600)
    for n in names:
        d = os.path.join(SEEDED, n)
        prop = n.split("-")[0]
        if json.load(open(os.path.join(d, "meta.json"))).get("obsolete"):
            print(n, "obsolete (no longer breaks the property on the current tree):", json.load(open(os.path.join(d, "meta.json")))["obsolete"][:200])
            continue
        rc, out = sh(f"git -C {REPO} apply {d}/patch.diff")
        entry = {"property": prop}
        if rc != 0:
            entry["error"] = "patch does not apply to the current /repo: " + out[-300:]
            results[n] = entry
            print(n, entry["error"])
            continue
        try:
            for tier in TIERS:
                t0 = time.time()
                rc, out = sh(f"{ROOT}/check {prop} --tier {tier}", timeout=7200)
                lines = [l for l in out.splitlines() if l.startswith("VIOLATION") or "failing input" in l or "obligation" in l.lower()]
                entry[tier] = {"exit": rc, "seconds": round(time.time() - t0, 1), "lines": lines[:8]}
                m_ = [l for l in out.splitlines() if l.startswith("VIOLATION") and "replay=" in l]
                if m_:
                    # keep the failing input this change was caught with (corpus: `tools_seeded.py corpus`)
                    rp = m_[0].split("replay=")[1].split()[0]
                    if os.path.exists(rp):
                        shutil.copy(rp, os.path.join(d, "replay.json"))
                if rc != 0:
                    break
            entry["detected"] = any(entry.get(t, {}).get("exit") == 1 for t in ("quick", "thorough"))
            entry["detected_by"] = next((t for t in ("quick", "thorough") if entry.get(t, {}).get("exit") == 1), None)
            # a change written against property X may break the component another property's check models (the red team
            # chooses the place freely): meta.json's "also_check" names those properties; their verdict is recorded
            # separately and never counted as a detection by X's own check
            if not entry["detected"]:
                for other in json.load(open(os.path.join(d, "meta.json"))).get("also_check", []):
                    rc2, out2 = sh(f"{ROOT}/check {other} --tier quick", timeout=7200)
                    entry.setdefault("other", {})[other] = {"exit": rc2, "lines": [l for l in out2.splitlines() if l.startswith("VIOLATION") or "failing input" in l][:4]}
        finally:
            rc_, out_ = sh(f"git -C {REPO} checkout -- . && git -C {REPO} clean -fdq")
            if rc_ != 0:    # a snapshot that is not a git tree
                sh(f"cd {REPO} && git apply -R {d}/patch.diff")
        results[n] = entry
        print(n, "DETECTED by " + entry["detected_by"] if entry["detected"] else "MISSED", json.dumps(entry.get(entry["detected_by"] or TIERS[-1], {}).get("lines", []))[:300])
        sys.stdout.flush()
        json.dump(results, open(results_path, "w"), indent=1, sort_keys=True)
    # leave the generated facts and binaries matching the clean tree again
    sh(f"{ROOT}/check --setup", timeout=3600)


TIERS = ("quick", "thorough")


def corpus():
    """corpus/<property>/<change>.json: the failing inputs the seeded changes were caught with, as far as they are
    single case lines both sides can re-execute (kind correspondence, command known to harness/cmd/vh/replay.go);
    `check` runs them first on every run"""
    import re
    known = set(re.findall(r'^\s+"([a-z0-9.]+)":\s+impl', open(os.path.join(ROOT, "harness", "cmd", "vh", "replay.go")).read(), re.M))
    n = 0
    for name in sorted(os.listdir(SEEDED)):
        rp = os.path.join(SEEDED, name, "replay.json")
        if not os.path.exists(rp):
            continue
        r = json.load(open(rp))
        keep = [x for x in r.get("disagreements", []) if x.get("kind") == "correspondence"
                and x.get("case", "").split(" ")[0] in known and len(x.get("case", "")) < 60000][:3]
        if not keep:
            continue
        prop = name.split("-")[0]
        os.makedirs(os.path.join(ROOT, "corpus", prop), exist_ok=True)
        json.dump({"property": prop, "seed": r.get("seed", 1), "origin": "seeded/" + name,
                   "disagreements": [{"kind": x["kind"], "case": x["case"], "what": x.get("what", "")} for x in keep]},
                  open(os.path.join(ROOT, "corpus", prop, name + ".json"), "w"), indent=1)
        n += 1
    print("corpus files written:", n)


if __name__ == "__main__":
    if "--quick-only" in sys.argv:
        sys.argv.remove("--quick-only")
        TIERS = ("quick",)
    os.makedirs(SEEDED, exist_ok=True)
    if len(sys.argv) >= 2 and sys.argv[1] == "confirm":
        confirm(sys.argv[2:])
    elif len(sys.argv) >= 2 and sys.argv[1] == "run":
        run(sys.argv[2:])
    elif len(sys.argv) >= 2 and sys.argv[1] == "corpus":
        corpus()
    else:
        print(__doc__)
