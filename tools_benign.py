#!/usr/bin/env python3
"""Behaviour-preserving changes (harmless refactorings) written by sub-agents that saw only a property's text:
the checks must stay quiet on them.

  tools_benign.py confirm <dir>...   each <dir> holds patch.diff + meta.json: the patch applies to a scratch worktree
                                     of /repo, builds with and without the tag, the pinned suite passes
                                     (TestMountIndex excepted); confirmed ones are copied to /verif/benign/<id>/
  tools_benign.py run [ids...]       apply each to $VERIF_REPO (default: a scratch worktree of /repo made for the run),
                                     run ./check <property> --tier quick, restore; results in /verif/benign/RESULTS.json
"""
import json, os, shutil, subprocess, sys, tempfile, time

ENV = dict(os.environ, GOFLAGS="-mod=mod", GOPROXY="off", GOSUMDB="off", GOTOOLCHAIN="local")
ROOT = os.path.dirname(os.path.abspath(__file__))
BENIGN = os.path.join(ROOT, "benign")


def sh(cmd, cwd=None, timeout=3600, env=None):
    p = subprocess.run(cmd, shell=True, cwd=cwd, env=env or ENV, capture_output=True, text=True, timeout=timeout)
    return p.returncode, p.stdout + p.stderr


def scratch_repo():
    head = subprocess.check_output(["git", "-C", "/repo", "rev-parse", "HEAD"], text=True).strip()
    wt = tempfile.mkdtemp(prefix="benign_", dir="/tmp")
    os.rmdir(wt)
    sh(f"git -C /repo worktree add --detach {wt} {head}")
    return wt


def confirm(dirs):
    for d in dirs:
        d = d.rstrip("/")
        meta = json.load(open(os.path.join(d, "meta.json")))
        name = f"{meta['property']}-{meta.get('variant', os.path.basename(d))}"
        wt = scratch_repo()
        res = {"name": name}
        try:
            rc, out = sh(f"git apply --check {d}/patch.diff && git apply {d}/patch.diff", cwd=wt)
            res["applies"] = rc == 0
            if rc != 0:
                res["error"] = out[-300:]
                continue
            rc, out = sh("go build ./... && go build -tags verif ./...", cwd=wt)
            res["builds"] = rc == 0
            rc, out = sh("go test -vet=off -count=1 . ./cmd/... 2>&1 | grep -E '^(--- FAIL|FAIL|ok|panic)'", cwd=wt)
            fails = [l for l in out.splitlines() if l.startswith("--- FAIL")]
            res["tests_pass"] = all("TestMountIndex" in f for f in fails) and "panic" not in out
            res["confirmed"] = bool(res["applies"] and res["builds"] and res["tests_pass"])
        finally:
            sh(f"git -C /repo worktree remove --force {wt}")
            shutil.rmtree(wt, ignore_errors=True)
            print(json.dumps(res))
            sys.stdout.flush()
        if res.get("confirmed"):
            dst = os.path.join(BENIGN, name)
            shutil.rmtree(dst, ignore_errors=True)
            os.makedirs(dst)
            for f in ("patch.diff", "meta.json"):
                shutil.copy(os.path.join(d, f), dst)


def run(ids):
    results_path = os.path.join(BENIGN, "RESULTS.json")
    results = json.load(open(results_path)) if os.path.exists(results_path) else {}
    names = sorted(n for n in os.listdir(BENIGN) if os.path.isdir(os.path.join(BENIGN, n)))
    if ids:
        names = [n for n in names if n in ids or n.split("-")[0] in ids]
    repo = os.environ.get("VERIF_REPO") or os.environ.get("VP_RUN_REPO")
    own = False
    if not repo:
        repo, own = scratch_repo(), True
    env = dict(ENV, VERIF_REPO=repo)
    try:
        if not os.path.exists(os.path.join(ROOT, "lean", ".lake", "build", "bin", "driver")):
            sh(f"{ROOT}/check --setup", env=env)
        for n in names:
            d = os.path.join(BENIGN, n)
            prop = n.split("-")[0]
            rc, out = sh(f"git -C {repo} apply {d}/patch.diff")
            if rc != 0:
                results[n] = {"property": prop, "error": "patch does not apply: " + out[-200:]}
                print(n, "does not apply")
                continue
            try:
                t0 = time.time()
                rc, out = sh(f"{ROOT}/check {prop} --tier quick", timeout=7200, env=env)
                lines = [l for l in out.splitlines() if l.startswith("VIOLATION") or "failing input" in l or "no longer check" in l or l.startswith("check ")]
                results[n] = {"property": prop, "exit": rc, "quiet": rc == 0, "seconds": round(time.time() - t0, 1), "lines": [l[:300] for l in lines[:6]]}
            finally:
                rc_, _ = sh(f"git -C {repo} checkout -- . && git -C {repo} clean -fdq")
                if rc_ != 0:
                    sh(f"cd {repo} && git apply -R {d}/patch.diff")
            print(n, "quiet" if results[n]["quiet"] else "ALARM", json.dumps(results[n]["lines"])[:400])
            sys.stdout.flush()
            json.dump(results, open(results_path, "w"), indent=1, sort_keys=True)
    finally:
        if own:
            sh(f"git -C /repo worktree remove --force {repo}")
            shutil.rmtree(repo, ignore_errors=True)
        sh(f"{ROOT}/check --setup")


if __name__ == "__main__":
    os.makedirs(BENIGN, exist_ok=True)
    if len(sys.argv) >= 2 and sys.argv[1] == "confirm":
        confirm(sys.argv[2:])
    elif len(sys.argv) >= 2 and sys.argv[1] == "run":
        run(sys.argv[2:])
    else:
        print(__doc__)
