/-
  Driver commands for the reading side of `LocalFS` (C05 / C13):

  `lfs.read root=<hex root string> nt=<0|1> ofs=<0|1> mnt=<hex real path>,… fs=<entries>` (`mnt`: mount points of other file
  systems, skipped under `ofs`, --one-file-system) runs `LFS.readTree` and prints the
  record stream `Tar` gets from `NewLocalFS(root).Next()`: `ok <record>;<record>…` or `err`; with `tar=1` the archive
  `Tar` writes from that stream instead (`tarStream`): `ok tar=<hex>`.
  An entry is as for `lfs.untar`, with the kinds `d`, `f`, `l` and `v<type bits>:<major>:<minor>` (a node made by mknod).
  A record is `<hex path>|<hex base>|<hex parent>|<kind>|<mode>|<uid>|<gid>|<mtime>|<size or ->|<hex data>|<hex target>|<major>|<minor>|<khex=vhex,…>`
  (`size` is printed for regular files and symbolic links: for the rest it is the file system's business).

  `lfs.clean p=<hex>` → hex of `path.Clean(p)`; `lfs.base p=<hex>` → hex of `path.Base(basename(p))` and of `basename(p)`;
  `lfs.sort names=<hex>,…` → the names as `readDirNames` orders them.
-/
import Driver.AsmAccept
import Desync.Model.LocalFSRead

namespace Driver
open Desync Desync.LFS

def parseEntryR (s : String) : Option (RPath × Obj) :=
  match s.splitOn "|" with
  | [p, k, _, t, ow, md, xs] =>
    if k.startsWith "v" then
      match ofHex p, (k.drop 1).toString.splitOn ":" with
      | some pb, [ty, ma, mi] =>
        match ty.toNat?, ma.toNat?, mi.toNat? with
        | some ty, some ma, some mi => some (comps pb, .dev ty ma mi (parseAttr ow md xs) (parseMtime t))
        | _, _, _ => none
      | _, _ => none
    else parseEntry s
  | _ => none

def lfsKindStr : Kind → String
  | .dir => "dir" | .reg => "reg" | .symlink => "symlink" | .device => "device" | .other => "other"

def frecStr (f : FileRec) : String :=
  let sz := match f.kind with
    | .reg | .symlink => toString f.size
    | _ => "-"
  let xs := String.intercalate "," (f.xattrs.map fun (k, v) => toHex k ++ "=" ++ toHex v)
  s!"{toHex f.path}|{toHex f.base}|{toHex f.parent}|{lfsKindStr f.kind}|{f.mode}|{f.uid}|{f.gid}|{f.mtime}|{sz}|{toHex f.data}|{toHex f.target}|{f.major}|{f.minor}|{xs}"

def zeroEnv : Env := ⟨fun _ => (0, 0), fun _ => 0, fun _ => 0⟩

def cmdLfsRead (a : Args) : String :=
  match a.bytes "root" with
  | some root =>
    let ents := if (a.get "fs").isEmpty then [] else (a.get "fs").splitOn ";"
    let skips := if (a.get "mnt").isEmpty || !a.bool "ofs" then [] else ((a.get "mnt").splitOn ",").filterMap fun h => (ofHex h).map comps
    match ents.mapM parseEntryR with
    | none => "bad-case"
    | some fs =>
      match readTree zeroEnv (a.bool "nt") (fun q => skips.contains q) fs root with
      | none => "model-out-of-fuel"
      | some (.error _) => "err"
      | some (.ok recs) =>
        if a.bool "tar" then
          match tarStream recs with
          | some b => "ok tar=" ++ toHex b
          | none => "err"
        else "ok " ++ String.intercalate ";" (recs.map frecStr)
  | none => "bad-case"

def runLine8 (l : String) : String :=
  match l.splitOn " " with
  | "lfs.read" :: rest => cmdLfsRead (parseArgs rest)
  | "lfs.clean" :: rest =>
    (match (parseArgs rest).bytes "p" with
     | some p => toHex (clean p)
     | none => "bad-case")
  | "lfs.base" :: rest =>
    (match (parseArgs rest).bytes "p" with
     | some p => toHex (pathBase (osBasename p)) ++ " " ++ toHex (osBasename p)
     | none => "bad-case")
  | "lfs.sort" :: rest =>
    let hs := if ((parseArgs rest).get "names").isEmpty then [] else ((parseArgs rest).get "names").splitOn ","
    (match hs.mapM ofHex with
     | some ns => String.intercalate "," ((sortBy id ns).map toHex)
     | none => "bad-case")
  | _ => runLine7 l

end Driver
