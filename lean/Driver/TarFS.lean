/-
  Driver commands for the tarfs.go model (`Desync/Model/TarFS.lean`, C05).  Core-only; imported by `Driver/Cmds.lean`.

  A header is `tf,name,link,mode,uid,gid,size,sec,nsec,maj,min,xattrs,fmt`: type flag, then hex name and link name,
  the numeric fields as unsigned 64-bit patterns in decimal (`sec` signed), xattrs as `khex=vhex|…` in key order,
  fmt one of `unknown ustar pax gnu`.  A `File` is `name,path,mode,sec,nsec,size,link,uid,gid,xattrs,maj,min`.

    tarfs.mode  tf= mode= name=          -> fm= stat= kind= name= clean=
    tarfs.read  root=0|1 hdrs=h;h;… end=eof|err [bytes=]   -> the Files `TarReader.Next` returns, `;`-joined, then the end
                                          (`end:eof` / `end:err` as archive/tar ends the stream, `end:hardlink:<name>`)
    tarfs.tar   root=0|1 hdrs=h;h;… datas=hex;hex;… end=eof|err [bytes=] -> the catar `Tar` writes from that tar stream, or `err`
    tarfs.write kind=dir|file|symlink|device name= uid= gid= mode= sec= nsec= size= target= major= minor= xattrs=
                                          -> hdr=<header> refuse=0|1 wmt=sec,nsec back=<the header Reader.Next returns, format left out>|-
                … hdr=<header> lib=<x>    -> x when `hdr` is the model's header for the node (x: what archive/tar's
                                             Writer makes of that header, a parameter), `stale-case` otherwise
-/
import Desync.Model.TarFS

namespace Driver.TarFSCmd
open Desync Desync.TarFS

abbrev A := List (String × String)
def get (a : A) (k : String) : String := (a.lookup k).getD ""
def nat (a : A) (k : String) : Nat := (get a k).toNat?.getD 0
def u64 (a : A) (k : String) : UInt64 := UInt64.ofNat (nat a k)
def hexb (s : String) : Option Bytes := ofHex s

def xattrsStr (xs : Xattrs) : String :=
  String.intercalate "|" (xs.map fun (k, v) => toHex k ++ "=" ++ toHex v)

def parseXattrs (s : String) : Option Xattrs :=
  if s.isEmpty then some [] else
  (s.splitOn "|").mapM fun kv =>
    match kv.splitOn "=" with
    | [k, v] => do let k ← ofHex k; let v ← ofHex v; pure (k, v)
    | _ => none

def fmtStr : Fmt → String
  | .unknown => "unknown" | .ustar => "ustar" | .pax => "pax" | .gnu => "gnu"

def parseFmt : String → Fmt
  | "ustar" => .ustar | "pax" => .pax | "gnu" => .gnu | _ => .unknown

def n64 (s : String) : UInt64 := UInt64.ofNat (s.toNat?.getD 0)

def parseHdr (s : String) : Option TarHdr :=
  match s.splitOn "," with
  | [tf, name, link, mode, uid, gid, size, sec, nsec, maj, min, xs, fmt] => do
    let name ← ofHex name
    let link ← ofHex link
    let xs ← parseXattrs xs
    let sec ← sec.toInt?
    pure { typeflag := UInt8.ofNat (tf.toNat?.getD 0), name, linkname := link, mode := n64 mode, uid := n64 uid,
           gid := n64 gid, size := n64 size, mtime := ⟨sec, nsec.toNat?.getD 0⟩, devmajor := n64 maj,
           devminor := n64 min, xattrs := xs, format := parseFmt fmt }
  | _ => none

def hdrStr (h : TarHdr) : String :=
  s!"{h.typeflag.toNat},{toHex h.name},{toHex h.linkname},{h.mode.toNat},{h.uid.toNat},{h.gid.toNat},{h.size.toNat}," ++
  s!"{h.mtime.sec},{h.mtime.nsec},{h.devmajor.toNat},{h.devminor.toNat},{xattrsStr h.xattrs},{fmtStr h.format}"

def fileStr (f : TFile) : String :=
  s!"{toHex f.name},{toHex f.path},{f.mode.toNat},{f.mtime.sec},{f.mtime.nsec},{f.size.toNat},{toHex f.linkTarget}," ++
  s!"{f.uid.toNat},{f.gid.toNat},{xattrsStr f.xattrs},{f.devMajor.toNat},{f.devMinor.toNat}"

def kindStr : Kind → String
  | .dir => "dir" | .reg => "reg" | .symlink => "symlink" | .device => "device" | .other => "other"

def cmdMode (a : A) : String :=
  match hexb (get a "name") with
  | none => "bad-case"
  | some name =>
    let h : TarHdr := { typeflag := UInt8.ofNat (nat a "tf"), name, mode := u64 a "mode" }
    let fm := tarInfoMode h
    s!"fm={fm.toNat} stat={(inputStatMode h).toNat} kind={kindStr (kindOf fm)} name={toHex (infoName h)} clean={toHex (goClean name)}"

def parseHdrs (s : String) : Option (List TarHdr) :=
  if s.isEmpty then some [] else (s.splitOn ";").mapM parseHdr

def parseDatas (s : String) (n : Nat) : List Bytes :=
  let ds := if s.isEmpty then [] else (s.splitOn ";").map fun d => (ofHex d).getD []
  ds ++ List.replicate (n - ds.length) []

def endStr (a : A) : NextResult → String
  | .hardLink name => "end:hardlink:" ++ toHex name
  | _ => "end:" ++ get a "end"     -- archive/tar's own end of the stream (`io.EOF` or an error) is passed on

def cmdRead (a : A) : String :=
  match parseHdrs (get a "hdrs") with
  | none => "bad-case"
  | some hs =>
    let es : List Entry := hs.zip (parseDatas "" hs.length)
    let (fs, e) := readerAll (get a "root" == "1") es
    String.intercalate ";" (fs.map (fun fd => fileStr fd.1) ++ [endStr a e])

def cmdTar (a : A) : String :=
  match parseHdrs (get a "hdrs") with
  | none => "bad-case"
  | some hs =>
    let es : List Entry := hs.zip (parseDatas (get a "datas") hs.length)
    match tarOfStream (get a "root" == "1") es (get a "end" == "eof") with
    | none => "err"
    | some b => toHex b

def parseKind : String → Option NKind
  | "dir" => some .dir | "file" => some .file | "symlink" => some .symlink | "device" => some .device | _ => none

def cmdWrite (a : A) : String :=
  match parseKind (get a "kind"), hexb (get a "name"), hexb (get a "target"), parseXattrs (get a "xattrs"),
      (get a "sec").toInt? with
  | some k, some name, some target, some xs, some sec =>
    let n : TNode := { name, uid := u64 a "uid", gid := u64 a "gid", mode := UInt32.ofNat (nat a "mode"),
                       mtime := ⟨sec, nat a "nsec"⟩, xattrs := xs, size := u64 a "size", target,
                       major := u64 a "major", minor := u64 a "minor" }
    let h := writerHdr k n
    let w := wireMtime h.format n.mtime
    if (a.lookup "lib").isSome then
      if get a "hdr" == hdrStr h then get a "lib" else "stale-case"
    else
      let back := match wire h with | some h' => hdrStr { h' with format := .unknown } | none => "-"
      s!"hdr={hdrStr h} refuse={if wireRefuses h then 1 else 0} wmt={w.sec},{w.nsec} back={back}"
  | _, _, _, _, _ => "bad-case"

def run (cmd : String) (a : A) : Option String :=
  match cmd with
  | "tarfs.mode" => some (cmdMode a)
  | "tarfs.read" => some (cmdRead a)
  | "tarfs.tar" => some (cmdTar a)
  | "tarfs.write" => some (cmdWrite a)
  | _ => none

end Driver.TarFSCmd
