/-
  Driver command for the LocalFS / POSIX model (C18): `lfs.untar root=<hex path> nso= nsp= fs=<entries> bytes=<hex>`
  runs `LFS.untarFS` and prints the verdict and the resulting file system.
  An entry is `<hex of the slash-joined real path>|<d|f|l|v>|<hex data or target>|<mtime or ->|<uid:gid or ->|<mode or ->|<khex=vhex,…>`,
  entries joined by `;`.  The mtime field is the explicitly set modification time (`-` = the kernel's "now") for
  every kind, symbolic links included (`l`: set by `lchtimes`, the no-follow call).
-/
import Driver.ParAccept
import Desync.Model.LocalFS

namespace Driver
open Desync Desync.LFS

def parseMtime (s : String) : Option Nat := if s == "-" then none else s.toNat?

def parseAttr (owner mode xs : String) : Attr :=
  let ow := match owner.splitOn ":" with
    | [u, g] => (match u.toNat?, g.toNat? with | some u, some g => some (u, g) | _, _ => none)
    | _ => none
  let xl := if xs.isEmpty then [] else (xs.splitOn ",").filterMap fun kv =>
    match kv.splitOn "=" with
    | [k, v] => (match ofHex k, ofHex v with | some k, some v => some (k, v) | _, _ => none)
    | _ => none
  { owner := ow, mode := mode.toNat?, xattrs := xl }

def parseEntry (s : String) : Option (RPath × Obj) :=
  match s.splitOn "|" with
  | [p, k, x, t, ow, md, xs] =>
    match ofHex p, ofHex x with
    | some pb, some xb =>
      let rp := comps pb
      let a := parseAttr ow md xs
      match k with
      | "d" => some (rp, .dir a (parseMtime t))
      | "f" => some (rp, .file xb a (parseMtime t))
      | "l" => some (rp, .symlink xb a (parseMtime t))
      | "v" => some (rp, .dev 0 0 0 a (parseMtime t))
      | _ => none
    | _, _ => none
  | _ => none

def pathBytes (rp : RPath) : Bytes := rp.foldl (fun acc c => acc ++ [slash] ++ c) []

def mtStr : Option Nat → String
  | none => "-"
  | some t => toString t

def attrStr (a : Attr) : String :=
  let ow := match a.owner with | some (u, g) => s!"{u}:{g}" | none => "-"
  let md := match a.mode with | some m => toString m | none => "-"
  let xs := String.intercalate "," (a.xattrs.map fun (k, v) => toHex k ++ "=" ++ toHex v)
  s!"{ow}|{md}|{xs}"

def entryStr (e : RPath × Obj) : String :=
  let p := toHex (pathBytes e.1)
  match e.2 with
  | .dir a m => s!"{p}|d||{mtStr m}|{attrStr a}"
  | .file d a m => s!"{p}|f|{toHex d}|{mtStr m}|{attrStr a}"
  | .symlink t a m => s!"{p}|l|{toHex t}|{mtStr m}|{attrStr a}"
  | .dev _ _ _ a m => s!"{p}|v||{mtStr m}|{attrStr a}"

def cmdLfsUntar (a : Args) : String :=
  match a.bytes "root", a.bytes "bytes" with
  | some root, some b =>
    let ents := if (a.get "fs").isEmpty then [] else (a.get "fs").splitOn ";"
    match ents.mapM parseEntry with
    | none => "bad-case"
    | some fs =>
      let o : Opts := ⟨a.bool "nso", a.bool "nsp"⟩
      let (fs', ok) := untarFS o (comps root) fs b
      s!"{if ok then "ok" else "err"} fs={String.intercalate ";" (fs'.map entryStr)}"
  | _, _ => "bad-case"

def runLine5 (l : String) : String :=
  match l.splitOn " " with
  | "lfs.untar" :: rest => cmdLfsUntar (parseArgs rest)
  | _ => runLine4 l

end Driver
