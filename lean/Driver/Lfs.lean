/-
  Driver command for the LocalFS / POSIX model (C18): `lfs.untar root=<hex path> nso= nsp= fs=<entries> bytes=<hex>`
  runs `LFS.untarFS` and prints the verdict and the resulting file system.
  An entry is `<hex of the slash-joined real path>|<d|f|l|v>|<hex data or target>|<mtime or ->`, entries joined by `;`.
-/
import Driver.ParAccept
import Desync.Model.LocalFS

namespace Driver
open Desync Desync.LFS

def parseMtime (s : String) : Option Nat := if s == "-" then none else s.toNat?

def parseEntry (s : String) : Option (RPath × Obj) :=
  match s.splitOn "|" with
  | [p, k, x, t] =>
    match ofHex p, ofHex x with
    | some pb, some xb =>
      let rp := comps pb
      match k with
      | "d" => some (rp, .dir none (parseMtime t))
      | "f" => some (rp, .file xb none (parseMtime t))
      | "l" => some (rp, .symlink xb none)
      | "v" => some (rp, .dev 0 0 none (parseMtime t))
      | _ => none
    | _, _ => none
  | _ => none

def pathBytes (rp : RPath) : Bytes := rp.foldl (fun acc c => acc ++ [slash] ++ c) []

def mtStr : Option Nat → String
  | none => "-"
  | some t => toString t

def entryStr (e : RPath × Obj) : String :=
  let p := toHex (pathBytes e.1)
  match e.2 with
  | .dir _ m => s!"{p}|d||{mtStr m}"
  | .file d _ m => s!"{p}|f|{toHex d}|{mtStr m}"
  | .symlink t _ => s!"{p}|l|{toHex t}|-"
  | .dev _ _ _ m => s!"{p}|v||{mtStr m}"

def cmdLfsUntar (a : Args) : String :=
  match a.bytes "root", a.bytes "bytes" with
  | some root, some b =>
    let ents := if (a.get "fs").isEmpty then [] else (a.get "fs").splitOn ";"
    match ents.mapM parseEntry with
    | none => "bad-case"
    | some fs =>
      let o : Opts := ⟨a.bool "nso", a.bool "nsp"⟩
      let (fs', ok) := untarFS o (comps root) fs b
      s!"{if ok then "ok" else "err"} fs={String.intercalate ";" (fs'.map entryStr)}"
  | _, _ => "bad-case"

def runLine5 (l : String) : String :=
  match l.splitOn " " with
  | "lfs.untar" :: rest => cmdLfsUntar (parseArgs rest)
  | _ => runLine4 l

end Driver
