/-
  Trace validation for `FailoverGroup` and `SwapStore` / `SwapWriteStore` (C11, tie (c) of DESIGN
  section 3): the Go harness runs the real wrappers under a cooperative scheduler (hooks `verifChain`
  in failover.go / swapstore.go, build tag verif; member entry, return and Close are observed in the
  scripted members), so that exactly one goroutine runs between two hook calls, and records the
  totally ordered event list.  `failover.accept` / `swap.accept` replay the list through
  `Failover.step` / `Swap.step`: every event must be enabled in the machine, with the same values
  (the `active` index read, the member called, whether `errorFrom` advanced and where to, which store
  was read / entered / closed / installed).  At the end every caller's state is printed.
-/
import Desync.Model.Failover
import Desync.Model.Swap

namespace Driver.ChainAccept
open Desync

abbrev Args := List (String × String)
def get (a : Args) (k : String) : String := (a.lookup k).getD ""
def nat (a : Args) (k : String) : Nat := (get a k).toNat?.getD 0
def flag (a : Args) (k : String) : Bool := get a k == "1"
def items (s : String) : List String := if s.isEmpty then [] else s.splitOn ","

/-! ### failover -/

def outStr : Failover.Out → String
  | .chunk => "c" | .missing => "m" | .has true => "y" | .has false => "n" | .error => "e"

def parseOut : String → Option Failover.Out
  | "c" => some .chunk | "m" => some .missing | "y" => some (.has true) | "n" => some (.has false)
  | "e" => some .error | _ => none

def parseReq (s : String) : Option (Failover.Op × Bool) :=
  match s with
  | "G1" => some (.get, true) | "G0" => some (.get, false)
  | "H1" => some (.has, true) | "H0" => some (.has, false)
  | _ => none

def foPcStr : Failover.PC → String
  | .ok o a => s!"ok:{outStr o}@{a}"
  | .failed => "failed"
  | .next i => s!"next:{i}"
  | .wantR i => s!"wantR:{i}"
  | .holdR i a => s!"holdR:{i}:{a}"
  | .toCall i a => s!"toCall:{i}:{a}"
  | .calling i a => s!"calling:{i}:{a}"
  | .erred i a => s!"erred:{i}:{a}"
  | .wantW i a => s!"wantW:{i}:{a}"
  | .holdW i a => s!"holdW:{i}:{a}"
  | .advd i => s!"advd:{i}"

/-- one recorded event: the machine's event plus a check of the values the implementation reported -/
def foEvent (s : Failover.St) (e : String) : Except String Failover.St :=
  let stepOr (ev : Failover.Ev) (chk : Failover.St → Option String) : Except String Failover.St :=
    match Failover.step s ev with
    | none =>
      let t := match ev with
        | .wantR t | .rlock t | .runlock t | .call t _ | .ret t _ | .wantW t | .lock t | .errFrom t
        | .unlock t | .giveUp t => t
      .error s!"not enabled in the model (caller {t} is at {(s.callers[t]?.map foPcStr).getD "?"}, active={s.active})"
    | some s' => match chk s' with
      | some m => .error m
      | none => .ok s'
  match e.splitOn ":" with
  | ["wr", t] => match t.toNat? with
    | some t => stepOr (.wantR t) fun _ => none
    | none => .error "unparsable"
  | ["rl", t, a] => match t.toNat?, a.toNat? with
    | some t, some a => stepOr (.rlock t) fun s' =>
      match s'.callers[t]? with
      | some (.holdR _ a') => if a' = a then none else some s!"model reads active={a'}, implementation read {a}"
      | _ => some "model: not holding the read lock"
    | _, _ => .error "unparsable"
  | ["ru", t] => match t.toNat? with
    | some t => stepOr (.runlock t) fun _ => none
    | none => .error "unparsable"
  | ["ca", t, m] => match t.toNat?, m.toNat? with
    | some t, some m => stepOr (.call t m) fun _ => none
    | _, _ => .error "unparsable"
  | ["rt", t, o] => match t.toNat?, parseOut o with
    | some t, some o => stepOr (.ret t o) fun _ => none
    | _, _ => .error "unparsable"
  | ["ww", t, a] => match t.toNat?, a.toNat? with
    | some t, some a => stepOr (.wantW t) fun s' =>
      match s'.callers[t]? with
      | some (.wantW _ a') => if a' = a then none else some s!"model reports member {a'} to errorFrom, implementation {a}"
      | _ => some "model: not in errorFrom"
    | _, _ => .error "unparsable"
  | ["lk", t] => match t.toNat? with
    | some t => stepOr (.lock t) fun _ => none
    | none => .error "unparsable"
  | ["ef", t, adv, new] => match t.toNat?, new.toNat? with
    | some t, some new => stepOr (.errFrom t) fun s' =>
      let madv := match s.callers[t]? with | some (.holdW _ a) => a == s.active | _ => false
      if madv != (adv == "1") then some s!"model: advanced={madv}, implementation: advanced={adv}"
      else if s'.active != new then some s!"model: active={s'.active} afterwards, implementation: {new}"
      else none
    | _, _ => .error "unparsable"
  | ["ul", t] => match t.toNat? with
    | some t => stepOr (.unlock t) fun _ => none
    | none => .error "unparsable"
  | ["gu", t] => match t.toNat? with
    | some t => stepOr (.giveUp t) fun _ => none
    | none => .error "unparsable"
  | ["fi", t] => match t.toNat? with       -- the call has returned an answer: no step of the machine
    | some t => match s.callers[t]? with
      | some (.ok _ _) => .ok s
      | pc => .error s!"the call returned, in the model the caller is at {(pc.map foPcStr).getD "?"}"
    | none => .error "unparsable"
  | _ => .error "unparsable"

def foAll : List String → Nat → Failover.St → Except (Nat × String) Failover.St
  | [], _, s => .ok s
  | e :: es, k, s =>
    match foEvent s e with
    | .ok s' => foAll es (k + 1) s'
    | .error m => .error (k, s!"{e}: {m}")

/-- `failover.accept n= h= wp= tr= reqs=G1,H0,… events=…` -/
def cmdFailoverAccept (a : Args) : String :=
  match (items (get a "reqs")).mapM parseReq with
  | none => "bad-case"
  | some reqs =>
    let s0 := Failover.St.init (nat a "n") (nat a "h") (flag a "wp") (flag a "tr") reqs
    match foAll (items (get a "events")) 0 s0 with
    | .ok s => s!"accept final={String.intercalate "," (s.callers.map foPcStr)} active={s.active}"
    | .error (k, m) => s!"reject@{k} {m}"

/-! ### swap -/

def parseRole : String → Option Swap.Role
  | "G" => some (.req .get) | "H" => some (.req .has) | "T" => some (.req .str) | "S" => some (.req .store)
  | "C" => some (.req .close) | "W1" => some (.swap true) | "W0" => some (.swap false) | _ => none

structure SwSt where
  s : Swap.St
  sids : List (Nat × Nat)    -- store id of the harness ↦ epoch

def SwSt.epochOf (x : SwSt) (sid : Nat) : Option Nat := x.sids.lookup sid
def SwSt.sidOf (x : SwSt) (e : Nat) : String :=
  match x.sids.find? (·.2 == e) with
  | some (sid, _) => toString sid
  | none => s!"?{e}"

def swPcStr (x : SwSt) : Swap.PC → String
  | .idle => "idle" | .wantR => "wantR"
  | .holdR e => s!"holdR@{x.sidOf e}" | .inCall e => s!"inCall@{x.sidOf e}" | .retd e => s!"retd@{x.sidOf e}"
  | .done e => s!"done@{x.sidOf e}" | .panicked e => s!"panicked@{x.sidOf e}"
  | .wantW => "wantW" | .holdW => "holdW" | .closedOld => "closedOld" | .installed => "installed"
  | .refusing => "refusing" | .swapped => "swapped" | .refused => "refused"

def swEvent (x : SwSt) (e : String) : Except String SwSt :=
  let s := x.s
  let fail (t : Nat) : Except String SwSt :=
    .error s!"not enabled in the model (caller {t} is at {(s.callers[t]?.map (swPcStr x)).getD "?"}, installed store {x.sidOf s.current})"
  let stepT (t : Nat) (ev : Swap.Ev) : Except String SwSt :=
    match Swap.step s ev with
    | none => fail t
    | some s' => .ok { x with s := s' }
  let withStore (t sid : String) (mk : Nat → Nat → Swap.Ev) : Except String SwSt :=
    match t.toNat?, sid.toNat? with
    | some t, some sid =>
      match x.epochOf sid with
      | none => .error s!"store {sid} was never installed"
      | some ep => stepT t (mk t ep)
    | _, _ => .error "unparsable"
  let plain (t : String) (mk : Nat → Swap.Ev) : Except String SwSt :=
    match t.toNat? with
    | some t => stepT t (mk t)
    | none => .error "unparsable"
  match e.splitOn ":" with
  | ["wr", t] => plain t .wantR
  | ["rl", t, sid] => withStore t sid .rlock
  | ["en", t, sid] => withStore t sid .enter
  | ["ex", t, sid] => withStore t sid .exit
  | ["cu", t, sid] => withStore t sid .closeU
  | ["ru", t] => plain t .runlock
  | ["ww", t] => plain t .wantW
  | ["lk", t] => plain t .lock
  | ["rf", t] => plain t .refuse
  | ["co", t, sid] => withStore t sid .closeOld
  | ["in", t, sid] => match t.toNat?, sid.toNat? with
    | some t, some sid =>
      match x.epochOf sid with
      | some _ => .error s!"store {sid} is installed a second time"
      | none =>
        match Swap.step s (.install t) with
        | none => fail t
        | some s' => .ok { s := s', sids := (sid, s'.current) :: x.sids }
    | _, _ => .error "unparsable"
  | ["ul", t] => plain t .unlock
  | ["fi", t] => match t.toNat? with       -- the call has returned: no step of the machine
    | some t => match s.callers[t]? with
      | some (.done _) | some (.panicked _) | some .swapped | some .refused => .ok x
      | pc => .error s!"the call returned, in the model the caller is at {(pc.map (swPcStr x)).getD "?"}"
    | none => .error "unparsable"
  | _ => .error "unparsable"

def swAll : List String → Nat → SwSt → Except (Nat × String) SwSt
  | [], _, x => .ok x
  | e :: es, k, x =>
    match swEvent x e with
    | .ok x' => swAll es (k + 1) x'
    | .error m => .error (k, s!"{e}: {m}")

/-- `swap.accept w0= wp= roles=G,S,W1,… events=…` (the initial store has id 0, the store brought by
    the Swap of caller `t` has id `t + 1`) -/
def cmdSwapAccept (a : Args) : String :=
  match (items (get a "roles")).mapM parseRole with
  | none => "bad-case"
  | some roles =>
    let x0 : SwSt := { s := Swap.St.init (flag a "w0") (flag a "wp") roles, sids := [(0, 0)] }
    match swAll (items (get a "events")) 0 x0 with
    | .ok x =>
      let sidList (l : List Nat) := String.intercalate "." (l.reverse.map x.sidOf)
      s!"accept final={String.intercalate "," (x.s.callers.map (swPcStr x))} closed={sidList x.s.closedSwap} user={sidList x.s.closedUser} installed={x.sidOf x.s.current}"
    | .error (k, m) => s!"reject@{k} {m}"

end Driver.ChainAccept
