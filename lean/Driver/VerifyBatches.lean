/-
  `verify.batches chunks=<c> n=<n>`: the slices `idx.Chunks[lo:hi]` the model's feeder of `VerifyIndex`
  hands out (`Desync.batches`, built from the regenerated loop arithmetic), as `lo:hi,lo:hi,…`.
  The Go harness asks for them when it prepares a `pool.accept` case (which batches can validate, how
  many chunks each holds) instead of repeating the arithmetic on its side; what the code really sends
  is then compared with the same list by `pool.accept`.
-/
import Desync.Model.VerifyIndex

namespace Driver.VerifyBatches
open Desync (batches)

def cmd (a : List (String × String)) : String :=
  match ((a.lookup "chunks").getD "").toNat?, ((a.lookup "n").getD "").toNat? with
  | some c, some n =>
    if n = 0 then "panic"      -- integer divide by zero, as in `verifyIndex`
    else "batches " ++ ",".intercalate ((batches c n).map fun (lo, hi) => toString lo ++ ":" ++ toString hi)
  | _, _ => "bad-op"

end Driver.VerifyBatches
