/-
  Commands of the line-protocol driver.  Each command runs an executable model
  definition on the case's parameters and prints a canonical result.
-/
import Desync.Model.IndexCodec
import Desync.Model.Chunker
import Desync.Model.Goodbye
import Desync.Model.Archive
import Desync.Model.FormatWalk
import Desync.Model.Mode
import Desync.Model.Protocol
import Desync.Model.VerifyIndex
import Desync.Hash.Sha2
import Desync.Model.Chunk
import Desync.Model.ReadSeeker
import Desync.Model.Sparse
import Desync.Model.HttpHandler
import Desync.Model.LocalStore
import Desync.Model.LocalVerify
import Desync.Model.SftpStore
import Desync.Model.S3Store
import Desync.Model.Dedup
import Desync.Model.Pool
import Desync.Model.Chain
import Desync.Model.Http
import Driver.SparseAccept
import Driver.IStore
import Driver.ChainAccept
import Driver.PoolAccept
import Driver.VerifyBatches
import Driver.TarFS
import Driver.Mtree
import Driver.ProtoSession
import Driver.MountHandleAccept
import Driver.RemoteStores
import Driver.StoreOpts

namespace Driver
open Desync

abbrev Args := List (String × String)

def parseArgs (ws : List String) : Args :=
  ws.filterMap fun w =>
    match w.splitOn "=" with
    | k :: v :: rest => some (k, String.intercalate "=" (v :: rest))
    | _ => none

def Args.get (a : Args) (k : String) : String := (a.lookup k).getD ""
def Args.nat (a : Args) (k : String) : Nat := (a.get k).toNat?.getD 0
def Args.u64 (a : Args) (k : String) : UInt64 := UInt64.ofNat (a.nat k)
def Args.bytes (a : Args) (k : String) : Option Bytes := ofHex (a.get k)
def Args.bool (a : Args) (k : String) : Bool := a.get k == "1" || a.get k == "true"

def resStr {α} (f : α → String) : Res α → String
  | .ok a => "ok " ++ f a
  | .err e => "err " ++ e.name
  | .panic _ => "panic"

def algOf (s : String) : DigestAlg := if s == "sha256" then .sha256 else .sha512_256

def chunksStr (cs : List IndexChunk) : String :=
  String.intercalate "," (cs.map fun c => s!"{c.start.toNat}:{c.size.toNat}:{toHex c.id}")

def indexStr (i : Index) : String :=
  s!"flags={i.flags.toNat} min={i.min.toNat} avg={i.avg.toNat} max={i.max.toNat} n={i.chunks.length} table={chunksStr i.chunks}"

/-- `size:idhex,size:idhex,…` with cumulative starts (what a well-formed `Index` holds) -/
def parseChunks (s : String) : Option (List IndexChunk) :=
  if s.isEmpty then some [] else
  let rec go (ps : List String) (start : UInt64) (acc : List IndexChunk) : Option (List IndexChunk) :=
    match ps with
    | [] => some acc.reverse
    | p :: ps =>
      match p.splitOn ":" with
      | [sz, id] =>
        match sz.toNat?, ofHex id with
        | some n, some idb =>
          let z := UInt64.ofNat n
          go ps (start + z) (⟨idb, start, z⟩ :: acc)
        | _, _ => none
      | _ => none
  go (s.splitOn ",") 0 []

def cmdIdxDecode (a : Args) : String :=
  match a.bytes "bytes" with
  | none => "bad-op"
  | some b => resStr indexStr (decodeIndex (algOf (a.get "alg")) b)

def cmdIdxEncode (a : Args) : String :=
  match parseChunks (a.get "chunks") with
  | none => "bad-op"
  | some cs => toHex (encodeIndex ⟨a.u64 "flags", a.u64 "min", a.u64 "avg", a.u64 "max", cs⟩)

def pairsStr (l : List (Nat × Nat)) : String :=
  String.intercalate "," (l.map fun (a, b) => s!"{a}:{b}")

def natList (s : String) : List Nat :=
  if s.isEmpty then [] else (s.splitOn ",").filterMap String.toNat?

def paramsOf (a : Args) : ChunkParams :=
  { min := a.nat "min", max := a.nat "max", d := UInt32.ofNat (a.nat "d") }

/-- `chunk.all min= max= d= data=` : the chunk sequence of a whole input -/
def cmdChunkAll (a : Args) : String :=
  match a.bytes "data" with
  | none => "bad-op"
  | some data => pairsStr (chunkAll (paramsOf a) data)

/-- `chunk.buffered … frags=` : the buffered chunker over a fragmenting reader -/
def cmdChunkBuffered (a : Args) : String :=
  match a.bytes "data" with
  | none => "bad-op"
  | some data =>
    pairsStr (Buffered.all (paramsOf a) (data.length + 1) ⟨⟨data, natList (a.get "frags")⟩, [], 0, false⟩)

/-- `chunk.ops … ops=N,A17,N,N,A4096,N` : a sequence of `Next()` (N) and `Advance(n)` (A<n>) calls on a
    chunker over a seekable reader; prints `start:size` per `Next` (`0`-size = end of stream) -/
def cmdChunkOps (a : Args) : String :=
  match a.bytes "data" with
  | none => "bad-op"
  | some data =>
    let p := paramsOf a
    let ops := if (a.get "ops").isEmpty then [] else (a.get "ops").splitOn ","
    let rec go (ops : List String) (c : Buffered) (acc : List String) : List String :=
      match ops with
      | [] => acc.reverse
      | op :: rest =>
        if op == "N" then
          let ((s, b), c') := c.next p
          go rest c' (s!"{s}:{b.length}" :: acc)
        else
          let n := (op.drop 1).toNat?.getD 0
          go rest (c.advance n) acc
    String.intercalate "," (go ops ⟨⟨data, natList (a.get "frags")⟩, [], 0, false⟩ [])

def cmdChunkDisc (a : Args) : String := toString (Gen.discriminatorFromAvg (a.u64 "avg")).toNat

def cmdSip (a : Args) : String :=
  match a.bytes "data" with
  | none => "bad-op"
  | some d => toString (sipHashName d).toNat

/-- `bst n=` : heap layout of 0..n-1 -/
def cmdBst (a : Args) : String :=
  let n := a.nat "n"
  match bstAssign (List.range n) 0 (bstLevel n) with
  | none => "panic"
  | some as => String.intercalate "," ((placeAll n as).toList.map toString)

def u (x : UInt64) : String := toString x.toNat

def elemStr : Elem → String
  | .entry sz ff mode fl uid gid mt =>
    let fm := Mode.statToFilemode (UInt32.ofNat (mode.toNat % 4294967296))
    s!"entry:{u sz}:{u ff}:{fm.toNat}:{u fl}:{u uid}:{u gid}:{u mt}"
  | .user sz n => s!"user:{u sz}:{toHex n}"
  | .group sz n => s!"group:{u sz}:{toHex n}"
  | .xattr sz n => s!"xattr:{u sz}:{toHex n}"
  | .selinux sz n => s!"selinux:{u sz}:{toHex n}"
  | .filename sz n => s!"filename:{u sz}:{toHex n}"
  | .symlink sz n => s!"symlink:{u sz}:{toHex n}"
  | .device sz ma mi => s!"device:{u sz}:{u ma}:{u mi}"
  | .payload sz => s!"payload:{u sz}"
  | .fcaps sz d => s!"fcaps:{u sz}:{toHex d}"
  | .aclUser sz uid perm n => s!"acluser:{u sz}:{u uid}:{u perm}:{toHex n}"
  | .aclGroup sz gid perm n => s!"aclgroup:{u sz}:{u gid}:{u perm}:{toHex n}"
  | .aclGroupObj sz p => s!"aclgroupobj:{u sz}:{u p}"
  | .aclDefault sz a b c d => s!"acldefault:{u sz}:{u a}:{u b}:{u c}:{u d}"
  | .goodbye sz items => s!"goodbye:{u sz}:" ++ String.intercalate "," (items.map fun i => s!"{u i.offset}/{u i.size}/{u i.hash}")
  | .index sz ff mn av mx => s!"index:{u sz}:{u ff}:{u mn}:{u av}:{u mx}"
  | .table sz items => s!"table:{u sz}:" ++ String.intercalate "," (items.map fun i => s!"{u i.offset}/{toHex i.id}")

/-- `fmt.next bytes=` : one call of `FormatDecoder.Next` -/
def cmdFmtNext (a : Args) : String :=
  match a.bytes "bytes" with
  | none => "bad-op"
  | some b =>
    match decNext { rest := b } with
    | .ok (none, _) => "ok end"
    | .ok (some e, s) => s!"ok {elemStr e} rest={s.rest.length} alloc={s.alloc}"
    | .err e => "err " ++ e.name
    | .panic _ => "panic"

/-- `fmt.walk bytes= takes=k1,k2,…` : `FormatDecoder.Next` until the end; after the i-th payload
    element the caller reads `k_i` bytes of it (nothing once the list is used up) -/
def cmdFmtWalk (a : Args) : String :=
  match a.bytes "bytes" with
  | none => "bad-op"
  | some b =>
    let takes := if a.get "takes" = "" then [] else ((a.get "takes").splitOn ",").filterMap (·.toNat?)
    match fmtWalk b takes with
    | .ok l => "ok " ++ String.intercalate ";" (l.map fun (e, d) =>
        if e.isPayload then elemStr e ++ "=" ++ toHex d else elemStr e)
    | .err e => "err " ++ e.name
    | .panic _ => "panic"

def sortXattrs (xs : List (Bytes × Bytes)) : List (Bytes × Bytes) :=
  (xs.toArray.qsort (fun a b => toHex a.1 < toHex b.1)).toList

def xattrsStr (xs : List (Bytes × Bytes)) : String :=
  String.intercalate "|" ((sortXattrs xs).map fun (k, v) => toHex k ++ "=" ++ toHex v)

def metaStr (m : Meta) : String :=
  let fm := Mode.statToFilemode (UInt32.ofNat (m.mode.toNat % 4294967296))
  s!"{u m.uid}:{u m.gid}:{fm.toNat}:{u m.mtime}:{xattrsStr m.xattrs}"

def nodeStr : Node → String
  | .dir n m => s!"D:{toHex n}:{metaStr m}"
  | .file n m sz d => s!"F:{toHex n}:{metaStr m}:{u sz}:{toHex d}"
  | .device n m ma mi => s!"V:{toHex n}:{metaStr m}:{u ma}:{u mi}"
  | .symlink n m t => s!"L:{toHex n}:{metaStr m}:{toHex t}"

/-- `arch.untar bytes=` : the node sequence `UnTar` hands to the filesystem writer -/
def cmdUntar (a : Args) : String :=
  match a.bytes "bytes" with
  | none => "bad-op"
  | some b => resStr (fun ns => String.intercalate ";" (ns.map nodeStr)) (untar b)

def parseXattrs (s : String) : Option (List (Bytes × Bytes)) :=
  if s.isEmpty then some [] else
  (s.splitOn "|").mapM fun kv =>
    match kv.splitOn "=" with
    | [k, v] => do let k ← ofHex k; let v ← ofHex v; pure (k, v)
    | _ => none

def parseKind : String → Kind
  | "dir" => .dir | "reg" => .reg | "symlink" => .symlink | "device" => .device | _ => .other

/-- one record: base,path,parent,kind,mode,uid,gid,mtime,size,data,target,major,minor,xattrs -/
def parseRec (s : String) : Option FileRec :=
  match s.splitOn "," with
  | [base, path, parent, kind, mode, uid, gid, mtime, size, data, target, major, minor, xattrs] => do
    let base ← ofHex base
    let path ← ofHex path
    let parent ← ofHex parent
    let data ← ofHex data
    let target ← ofHex target
    let xs ← parseXattrs xattrs
    let n (x : String) : UInt64 := UInt64.ofNat (x.toNat?.getD 0)
    pure { base, path, parent, kind := parseKind kind, mode := n mode, uid := n uid, gid := n gid,
           mtime := n mtime, size := n size, data, target, major := n major, minor := n minor, xattrs := xs }
  | _ => none

/-- `arch.tar recs=r1;r2;…` : the archive bytes `Tar` writes for a record stream -/
def cmdTar (a : Args) : String :=
  match ((a.get "recs").splitOn ";").mapM parseRec with
  | none => "bad-op"
  | some recs =>
    match tarStream recs with
    | none => "err"
    | some b => toHex b

def cmdMode (which : String) (a : Args) : String :=
  match which with
  | "s2f" => toString (Mode.statToFilemode (UInt32.ofNat (a.nat "m"))).toNat
  | "f2s" => toString (Mode.filemodeToStat (UInt32.ofNat (a.nat "m"))).toNat
  | "mkdev" => u (Mode.mkdev (a.u64 "ma") (a.u64 "mi"))
  | _ => s!"{u (Mode.rdevMajor (a.u64 "r"))}:{u (Mode.rdevMinor (a.u64 "r"))}"

/-- `proto.read bytes=` : `Protocol.ReadMessage` -/
def cmdProtoRead (a : Args) : String :=
  match a.bytes "bytes" with
  | none => "bad-op"
  | some b =>
    match readMessage { rest := b } with
    | .ok (m, s) => s!"ok {u m.typ}:{toHex m.body} rest={s.rest.length} alloc={s.alloc}"
    | .err e => "err " ++ e.name
    | .panic _ => "panic"

def digestOf (alg : String) : Digest :=
  if alg == "sha256" then Sha2.sha256 else Sha2.sha512_256

/-- `start:size:idhex,…` with explicit starts -/
def parseChunksAbs (s : String) : Option (List IndexChunk) :=
  if s.isEmpty then some [] else
  (s.splitOn ",").mapM fun p =>
    match p.splitOn ":" with
    | [st, sz, id] => do
      let st ← st.toNat?
      let sz ← sz.toNat?
      let id ← ofHex id
      pure ⟨id, UInt64.ofNat st, UInt64.ofNat sz⟩
    | _ => none

def cmdHash (a : Args) : String :=
  match a.bytes "data" with
  | none => "bad-op"
  | some d => toHex (digestOf (a.get "alg") d)

/-- `verify.index alg= n= dev= chunks= file=` : `VerifyIndex` -/
def cmdVerifyIndex (a : Args) : String :=
  match parseChunksAbs (a.get "chunks"), a.bytes "file" with
  | some cs, some file =>
    match verifyIndex (digestOf (a.get "alg")) file (a.bool "dev") ⟨0, 0, 0, 0, cs⟩ (a.nat "n") with
    | .ok => "ok" | .mismatch => "mismatch" | .sizeMismatch => "size" | .panic => "panic"
  | _, _ => "bad-op"

/-- `chunk.fromstorage alg= id= raw= dec=ok:<hex>|err comp=0|1 skip=0|1` :
    `NewChunkFromStorage` followed by `Data()`; `dec` is what `Decompress(raw)` returns -/
def cmdFromStorage (a : Args) : String :=
  match a.bytes "id", a.bytes "raw" with
  | some id, some raw =>
    let decRes : Option Bytes :=
      let d := a.get "dec"
      if d.startsWith "ok:" then ofHex ((d.drop 3).toString) else none
    let dec : Bytes → Option Bytes := fun _ => decRes
    let convs : List Conv := if a.bool "comp" then [.compressor] else []
    match newChunkFromStorage (digestOf (a.get "alg")) dec id raw convs (a.bool "skip") with
    | .invalid => "invalid"
    | .ok c =>
      match (c.getData dec).1 with
      | some b => "ok " ++ toHex b
      | none => "ok nodata"
  | _, _ => "bad-op"

def parseRChunks (s : String) : List RChunk :=
  if s.isEmpty then [] else
  (s.splitOn ",").filterMap fun p =>
    match p.splitOn ":" with
    | [id, st, sz] => some ⟨id.toNat?.getD 0, st.toNat?.getD 0, sz.toNat?.getD 0⟩
    | _ => none

def parseBlobs (s : String) : List (Nat × Bytes) :=
  if s.isEmpty then [] else
  (s.splitOn ";").filterMap fun p =>
    match p.splitOn "=" with
    | [id, h] => (ofHex h).map fun b => (id.toNat?.getD 0, b)
    | _ => none

def parseInt (s : String) : Int :=
  if s.startsWith "-" then - ((s.drop 1).toString.toNat?.getD 0 : Nat) else (s.toNat?.getD 0 : Nat)

/-- `ip.ops chunks=id:start:size,… len= nullid= nulllen= blobs=id=hex;… fail=k,k ops=S0:17,S1:-5,S2:0,R100,F40:10` -/
def cmdIpOps (a : Args) : String :=
  let chunks := parseRChunks (a.get "chunks")
  let blobs := parseBlobs (a.get "blobs")
  let fails := natList (a.get "fail")
  -- a chunk object cannot hold empty data (`Data()` fails with "no data in chunk")
  let fetch : Fetch := fun k id =>
    if fails.contains k then none else
    match blobs.lookup id with
    | some [] => none
    | x => x
  let ip0 := IdxPos.new chunks (a.nat "len") (a.nat "nullid") (a.nat "nulllen")
  let ops := if (a.get "ops").isEmpty then [] else (a.get "ops").splitOn ","
  let step (st : IdxPos × Nat × List String) (op : String) : IdxPos × Nat × List String :=
    let (ip, calls, out) := st
    if op.startsWith "S" then
      match ((op.drop 1).toString).splitOn ":" with
      | [w, off] =>
        let wh := if w == "0" then Whence.start else if w == "1" then Whence.current else Whence.end_
        match ip.seek (parseInt off) wh with
        | .ok ip' => (ip', calls, out ++ [s!"s:{ip'.pos}"])
        | .error _ => (ip, calls, out ++ [s!"s:err:{ip.pos}"])
      | _ => (ip, calls, out ++ ["bad-op"])
    else if op.startsWith "R" then
      let n := ((op.drop 1).toString).toNat?.getD 0
      match ip.read fetch n calls with
      | (.data b, ip', c) => (ip', c, out ++ ["r:" ++ toHex b])
      | (.eof b, ip', c) => (ip', c, out ++ ["e:" ++ toHex b])
      | (.err b, ip', c) => (ip', c, out ++ ["x:" ++ toHex b])
      | (.panic, ip', c) => (ip', c, out ++ ["panic"])
    else if op.startsWith "F" then
      match ((op.drop 1).toString).splitOn ":" with
      | [off, n] =>
        match ip.fuseRead fetch (off.toNat?.getD 0) (n.toNat?.getD 0) calls with
        | (some b, ip', c) => (ip', c, out ++ ["f:" ++ toHex b])
        | (none, ip', c) => (ip', c, out ++ ["f:EIO"])
      | _ => (ip, calls, out ++ ["bad-op"])
    else (ip, calls, out ++ ["bad-op"])
  let (_, _, out) := ops.foldl step (ip0, 0, [])
  String.intercalate "," out

/-- `sparse.ops chunks= len= nullid= blobs= fail= ops=R0:10,S,O0,O1,O2,O3` -/
def cmdSparseOps (a : Args) : String :=
  let chunks := parseRChunks (a.get "chunks")
  let blobs := parseBlobs (a.get "blobs")
  let fails := natList (a.get "fail")
  let fetch : Fetch := fun k id =>
    if fails.contains k then none else
    match blobs.lookup id with
    | some [] => none
    | x => x
  let len := a.nat "len"
  let nullID := a.nat "nullid"
  let s0 := SparseSt.open fetch chunks nullID len [] none none 0
  let ops := if (a.get "ops").isEmpty then [] else (a.get "ops").splitOn ","
  let step (st : SparseSt × Option (List Bool) × List String × Bool) (op : String) :=
    let (s, saved, out, down) := st
    let fetch : Fetch := if down then (fun _ _ => none) else fetch
    if op.startsWith "R" then
      match ((op.drop 1).toString).splitOn ":" with
      | [off, n] =>
        match s.readAt fetch (off.toNat?.getD 0) (n.toNat?.getD 0) with
        | (.data b eof, s') => (s', saved, out ++ ["d:" ++ toHex b ++ (if eof then ":eof" else "")], down)
        | (.err, s') => (s', saved, out ++ ["x"], down)
      | _ => (s, saved, out ++ ["bad-op"], down)
    else if op.startsWith "M" then
      -- a read request on the sparse mount's file node
      match ((op.drop 1).toString).splitOn ":" with
      | [off, n] =>
        match s.mountRead fetch (off.toNat?.getD 0) (n.toNat?.getD 0) with
        | (some b, s') => (s', saved, out ++ ["m:" ++ toHex b], down)
        | (none, s') => (s', saved, out ++ ["m:EIO"], down)
      | _ => (s, saved, out ++ ["bad-op"], down)
    else if op == "S" then (s, some s.saveState, out ++ ["s"], down)
    else if op == "D" then (s, saved, out ++ ["dn"], true)
    else if op == "U" then (s, saved, out ++ ["up"], false)
    else if op.startsWith "O" && op.endsWith "m" then
      -- a start that fails because its state-init file is missing: the file is read first, before anything is
      -- touched, so the state file and the cache file stay as they were found
      let k := ((((op.drop 1).toString).takeWhile Char.isDigit).toString).toNat?.getD 0
      let file := if k == 2 then [] else if k == 3 then s.file.take (s.file.length / 2) else s.file
      let accepted := match saved with
        | some st => decide (file.length = len) && decide (st.length = chunks.length)
        | none => false
      if accepted then (s, saved, out ++ ["unexpected-open"], down)   -- the saved state is used: no pre-load, the start succeeds
      else ({ s with file := file }, saved, out ++ ["open-failed"], down)
    else if op.startsWith "O" then
      let withInit := op.endsWith "i"
      let k := ((((op.drop 1).toString).takeWhile Char.isDigit).toString).toNat?.getD 0
      let file := if k == 2 then [] else if k == 3 then s.file.take (s.file.length / 2) else s.file
      let state := if k == 1 then none else saved
      -- a (re-)initialised sparse file writes its state (blank, plus what a pre-load fetched) over whatever state file was there
      let accepted := match state with
        | some st => decide (file.length = len) && decide (st.length = chunks.length)
        | none => false
      -- "i": the state-init file is a copy of the state file; "j": it is the state-save file itself (it is read before
      -- the state file is blanked, so both pre-load from what was saved)
      let init := if withInit || op.endsWith "j" then saved else none
      let s' := SparseSt.open fetch chunks nullID len file state init s.calls
      -- the pre-load runs in the background; `WriteState` at the end of `NewSparseFile` may see none of it yet
      let saved' := if accepted then saved else some (List.replicate chunks.length false)
      (s', saved', out ++ ["o"], down)
    else (s, saved, out ++ ["bad-op"], down)
  let (_, _, out, _) := ops.foldl step (s0, some (List.replicate chunks.length false), [], false)
  String.intercalate "," out

def callStr : Call → String
  | .getChunk id => "G:" ++ toHex id
  | .hasChunk id => "H:" ++ toHex id
  | .storeChunk id _ => "S:" ++ toHex id
  | .getIndex n => "GI:" ++ toHex n
  | .getIndexReader n => "GR:" ++ toHex n
  | .storeIndex n => "SI:" ++ toHex n

def methodOf : String → Method
  | "GET" => .get | "HEAD" => .head | "PUT" => .put | _ => .other

def tri (s : String) : Option Bool := if s == "1" then some true else if s == "0" then some false else none

/-- `http.chunk` / `http.index`: one request against the chunk / index handler -/
def cmdHttp (index : Bool) (a : Args) : String :=
  let hexArg (k : String) : Bytes := (ofHex (a.get k)).getD []
  let cfg : HandlerCfg := { auth := hexArg "auth", writable := a.bool "writable", skipVerifyWrite := a.bool "skipverify",
                            compressed := a.bool "comp", storeIsWritable := a.bool "storewr" }
  let getRes : Option (Option Bytes) :=
    match a.get "get" with
    | "ok" => some (some []) | "missing" => some none | _ => none
  let o : StoreOracle := { getChunk := getRes, hasChunk := tri (a.get "has"), storeOK := a.bool "storeok",
                           indexGet := tri (a.get "iget"), indexValid := a.bool "ivalid" }
  let r : Request := { method := methodOf (a.get "method"), path := hexArg "path", authHeader := hexArg "hdr", body := hexArg "body" }
  let decRes : Option Bytes :=
    let d := a.get "dec"
    if d.startsWith "ok:" then ofHex ((d.drop 3).toString) else none
  let resp := if index then serveIndex cfg o r else serveChunk (digestOf (a.get "alg")) (fun _ => decRes) cfg o r
  s!"{resp.status} " ++ String.intercalate "," (resp.calls.map callStr)

def cmdStoreName (a : Args) : String :=
  let (d, n) := nameFromID (a.bool "unc") ((ofHex (a.get "id")).getD [])
  toHex d ++ "/" ++ toHex n

def actStr : FileAct → String
  | .skip => "skip" | .removeTemp => "tmp" | .consider id => "id:" ++ toHex id

def cmdPruneClassify (a : Args) : String :=
  actStr (pruneClassify (a.bool "unc") ((ofHex (a.get "name")).getD []))

def parseFiles (s : String) : List (Bytes × Bytes) :=
  if s.isEmpty then [] else
  (s.splitOn ";").filterMap fun p =>
    match p.splitOn "/" with
    | [d, n] => do let d ← ofHex d; let n ← ofHex n; pure (d, n)
    | _ => none

def filesStr (d : StoreDir) : String :=
  String.intercalate ";" ((d.map fun (a, b) => toHex a ++ "/" ++ toHex b).toArray.qsort (· < ·)).toList

/-- `prune.run unc= keep=idhex,… files=dirhex/namehex;…` (files in walk order) -/
def cmdPruneRun (a : Args) : String :=
  let keepIds := if (a.get "keep").isEmpty then [] else ((a.get "keep").splitOn ",").filterMap ofHex
  if a.get "backend" == "s3" then
    "ok " ++ filesStr (s3Prune (a.bool "unc") (fun id => keepIds.contains id) (parseFiles (a.get "files")))
  else
  let run := if a.get "backend" == "sftp" then sftpPrune else prune
  match run (a.bool "unc") (fun id => keepIds.contains id) (parseFiles (a.get "files")) with
  | .ok d => "ok " ++ filesStr d
  | .failed d => "failed " ++ filesStr d

/-- `verify.run unc= repair= files=dirhex/namehex/v;…` (files in walk order; v = 1: the content is what the verifying
    constructor accepts for the ID the file's own name spells): remaining files and report lines, sorted -/
def cmdVerifyRun (a : Args) : String :=
  let files : StoreFiles :=
    if (a.get "files").isEmpty then [] else
    ((a.get "files").splitOn ";").filterMap fun p =>
      match p.splitOn "/" with
      | [d, n, v] => do let d ← ofHex d; let n ← ofHex n; pure ((d, n), if v == "1" then [1] else [0])
      | _ => none
  let (d, lines) := verify (a.bool "unc") (a.bool "repair") (fun _ content => content == [1]) files
  let ls := lines.map fun l => match l with
    | .invalid id removed => "i:" ++ toHex id ++ (if removed then ":removed" else "")
    | .error id => "e:" ++ toHex id
  "files=" ++ filesStr (d.map (·.1)) ++ " lines=" ++ String.intercalate "," (ls.toArray.qsort (· < ·)).toList

/-- `dedup.accept ids=1,1,2 events=c:0,c:1,u:0:7,m:0,d:0,w:1` : validate an event trace recorded
    from the implementation against the machine; prints the kind each `call` resolved to and
    every caller's final state -/
def cmdDedupAccept (a : Args) : String :=
  let ids := natList (a.get "ids")
  let evs := if (a.get "events").isEmpty then [] else (a.get "events").splitOn ","
  let parseEv (e : String) : Option Dedup.Ev :=
    match e.splitOn ":" with
    | ["c", t] => t.toNat?.map .call
    | ["u", t, v] => do let t ← t.toNat?; let v ← v.toNat?; pure (.upRet t v)
    | ["m", t] => t.toNat?.map .markDone
    | ["d", t] => t.toNat?.map .delete
    | ["w", t] => t.toNat?.map .wake
    | _ => none
  let rec go (s : Dedup.St) (es : List String) (k : Nat) (kinds : List String) : String :=
    match es with
    | [] =>
      let fin := s.callers.map fun c => match c with
        | .returned v _ => s!"ret:{v}"
        | .start _ => "start" | .upstream _ => "upstream" | .got _ _ => "got"
        | .published _ _ => "published" | .follower _ => "follower"
      "accept kinds=" ++ String.intercalate "" kinds.reverse ++ " final=" ++ String.intercalate "," fin
    | e :: rest =>
      match parseEv e with
      | none => s!"bad-op@{k}"
      | some ev =>
        match Dedup.step s ev with
        | none => s!"reject@{k}:{e}"
        | some s' =>
          let kinds' := match ev with
            | .call t => (match s'.callers[t]? with | some (.follower _) => "F" | _ => "L") :: kinds
            | _ => kinds
          go s' rest (k + 1) kinds'
  go (Dedup.St.init ids) evs 0 []

/-- leaves: `id:tag:valid.id:tag:valid/1.4/1;…` (content / fault call numbers / verify) -/
def parseLeaves (s : String) : List Chain.Leaf :=
  if s.isEmpty then [] else
  (s.splitOn ";").map fun l =>
    match l.splitOn "/" with
    | [content, faults, verify] =>
      let objs := if content.isEmpty then [] else (content.splitOn ".").filterMap fun o =>
        match o.splitOn ":" with
        | [id, tag, v] => some (id.toNat?.getD 0, (⟨tag.toNat?.getD 0, v == "1"⟩ : Chain.Obj))
        | _ => none
      let fs := if faults.isEmpty then [] else (faults.splitOn ".").filterMap String.toNat?
      { content := objs, faults := fs, verify := verify == "1" }
    | _ => { content := [], faults := [] }

def chainR : Chain.R → String
  | .chunk t v => s!"c:{t}:{if v then 1 else 0}"
  | .missing => "m" | .invalid => "i" | .fail => "f"

/-- `chain.ops groups=0.1|2 cache=3:1|- leaves=… ops=G1,H2,…` -/
def cmdChainOps (a : Args) : String :=
  let groups := if (a.get "groups").isEmpty then [] else
    ((a.get "groups").splitOn "|").map fun g => (g.splitOn ".").filterMap String.toNat?
  let cache : Option (Nat × Bool) :=
    match (a.get "cache").splitOn ":" with
    | [c, r] => c.toNat?.map fun c => (c, r == "1")
    | _ => none
  let cfg : Chain.Cfg := { groups, cache }
  let w0 : Chain.World := { leaves := parseLeaves (a.get "leaves"), active := List.replicate groups.length 0 }
  let ops := if (a.get "ops").isEmpty then [] else (a.get "ops").splitOn ","
  let (w, out) := ops.foldl (fun (acc : Chain.World × List String) op =>
    let (w, out) := acc
    let id := ((op.drop 1).toString).toNat?.getD 0
    if op.startsWith "G" then
      let (r, w') := Chain.getChunk cfg w id
      (w', out ++ [chainR r])
    else
      let (r, w') := Chain.hasChunk cfg w id
      (w', out ++ [match r with | some true => "t" | some false => "n" | none => "e"])) (w0, [])
  let logs := w.leaves.map fun l => String.intercalate "." (l.log.reverse.map fun (o, id) => s!"{o.take 1}{id}")
  String.intercalate "," out ++ " logs=" ++ String.intercalate ";" logs ++ " active=" ++
    String.intercalate "." (w.active.map toString)

def parseResps (s : String) : List Http.Resp :=
  if s.isEmpty then [] else
  (s.splitOn ",").map fun r =>
    match r.splitOn ":" with
    | [c, b] => match c.toNat? with
      | some n => .status n ((ofHex b).getD [])
      | none => .transportErr
    | [c] => match c.toNat? with
      | some n => .status n []
      | none => .transportErr
    | _ => .transportErr

/-- `http.retry op=get|has|store retry= resps=503,err,200:hex` -/
def cmdHttpRetry (a : Args) : String :=
  let rs := parseResps (a.get "resps")
  let retry := a.nat "retry"
  let attempts := (Http.issueRetryable retry rs).2
  let res := match a.get "op" with
    | "get" => (match Http.getObject retry rs with | .ok b => "ok:" ++ toHex b | .missing => "missing" | .error => "error")
    | "has" => (match Http.hasChunk retry rs with | .present => "present" | .absent => "absent" | .error => "error")
    | _ => if Http.storeObject retry rs then "stored" else "error"
  s!"{res} attempts={attempts}"

def runLine (l : String) : String :=
  match l.splitOn " " with
  | [] => "bad-op"
  | cmd :: rest =>
    let a := parseArgs rest
    match cmd with
    | "idx.decode" => cmdIdxDecode a
    | "idx.encode" => cmdIdxEncode a
    | "istore.ops" => IStoreCmd.cmdIStoreOps a
    | "chunk.all" => cmdChunkAll a
    | "chunk.ops" => cmdChunkOps a
    | "hash" => cmdHash a
    | "ip.ops" => cmdIpOps a
    | "mh.accept" => MountHandleAccept.run (parseRChunks (a.get "chunks")) (a.nat "len") (a.nat "nullid") (a.nat "nulllen") (parseBlobs (a.get "blobs")) (natList (a.get "fail")) (a.get "reqs") (a.get "events")
    | "http.retry" => cmdHttpRetry a
    | "chain.ops" => cmdChainOps a
    | "dedup.accept" => cmdDedupAccept a
    | "failover.accept" => ChainAccept.cmdFailoverAccept a
    | "swap.accept" => ChainAccept.cmdSwapAccept a
    | "pool.accept" => PoolAccept.cmd a
    | "poolcs.accept" => PoolAccept.cmdCS a
    | "store.name" => cmdStoreName a
    | "prune.classify" => cmdPruneClassify a
    | "prune.run" => cmdPruneRun a
    | "verify.run" => cmdVerifyRun a
    | "http.chunk" => cmdHttp false a
    | "http.index" => cmdHttp true a
    | "sparse.ops" => cmdSparseOps a
    | "sparse.accept" => SparseAccept.run (a.get "isnull") (a.get "readers") (a.get "events")
    | "chunk.fromstorage" => cmdFromStorage a
    | "verify.index" => cmdVerifyIndex a
    | "verify.batches" => VerifyBatches.cmd a
    | "fmt.next" => cmdFmtNext a
    | "fmt.walk" => cmdFmtWalk a
    | "arch.untar" => cmdUntar a
    | "arch.tar" => cmdTar a
    | "mode.s2f" => cmdMode "s2f" a
    | "mode.f2s" => cmdMode "f2s" a
    | "mode.mkdev" => cmdMode "mkdev" a
    | "mode.rdev" => cmdMode "rdev" a
    | "proto.read" => cmdProtoRead a
    | "proto.serve" => Proto.cmdServe false a
    | "proto.serve.alloc" => Proto.cmdServe true a
    | "proto.client" => Proto.cmdClient false a
    | "proto.client.alloc" => Proto.cmdClient true a
    | "proto.session" => Proto.cmdSession a
    | "chunk.buffered" => cmdChunkBuffered a
    | "chunk.disc" => cmdChunkDisc a
    | "sip" => cmdSip a
    | "bst" => cmdBst a
    | "s3.store" | "s3.get" | "s3.has" | "sftp.has" | "sftp.store" | "sftp.get" => (Remote.run cmd a).getD "bad-op"
    | "tarfs.mode" | "tarfs.read" | "tarfs.tar" | "tarfs.write" => (TarFSCmd.run cmd a).getD "bad-op"
    | "mtree.line" | "mtree.parse" | "mtree.name" => (MtreeCmd.run cmd a).getD "bad-op"
    | "so.srv" | "so.glob" | "so.locmatch" | "so.store" | "so.index" => (StoreOptsCmd.run cmd a).getD "bad-op"
    | _ => "bad-op"

end Driver
