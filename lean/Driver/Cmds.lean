/-
  Commands of the line-protocol driver.  Each command runs an executable model
  definition on the case's parameters and prints a canonical result.
-/
import Desync.Model.IndexCodec
import Desync.Model.Chunker
import Desync.Model.Goodbye

namespace Driver
open Desync

abbrev Args := List (String × String)

def parseArgs (ws : List String) : Args :=
  ws.filterMap fun w =>
    match w.splitOn "=" with
    | k :: v :: rest => some (k, String.intercalate "=" (v :: rest))
    | _ => none

def Args.get (a : Args) (k : String) : String := (a.lookup k).getD ""
def Args.nat (a : Args) (k : String) : Nat := (a.get k).toNat?.getD 0
def Args.u64 (a : Args) (k : String) : UInt64 := UInt64.ofNat (a.nat k)
def Args.bytes (a : Args) (k : String) : Option Bytes := ofHex (a.get k)
def Args.bool (a : Args) (k : String) : Bool := a.get k == "1" || a.get k == "true"

def resStr {α} (f : α → String) : Res α → String
  | .ok a => "ok " ++ f a
  | .err e => "err " ++ e.name
  | .panic _ => "panic"

def algOf (s : String) : DigestAlg := if s == "sha256" then .sha256 else .sha512_256

def chunksStr (cs : List IndexChunk) : String :=
  String.intercalate "," (cs.map fun c => s!"{c.start.toNat}:{c.size.toNat}:{toHex c.id}")

def indexStr (i : Index) : String :=
  s!"flags={i.flags.toNat} min={i.min.toNat} avg={i.avg.toNat} max={i.max.toNat} n={i.chunks.length} table={chunksStr i.chunks}"

/-- `size:idhex,size:idhex,…` with cumulative starts (what a well-formed `Index` holds) -/
def parseChunks (s : String) : Option (List IndexChunk) :=
  if s.isEmpty then some [] else
  let rec go (ps : List String) (start : UInt64) (acc : List IndexChunk) : Option (List IndexChunk) :=
    match ps with
    | [] => some acc.reverse
    | p :: ps =>
      match p.splitOn ":" with
      | [sz, id] =>
        match sz.toNat?, ofHex id with
        | some n, some idb =>
          let z := UInt64.ofNat n
          go ps (start + z) (⟨idb, start, z⟩ :: acc)
        | _, _ => none
      | _ => none
  go (s.splitOn ",") 0 []

def cmdIdxDecode (a : Args) : String :=
  match a.bytes "bytes" with
  | none => "bad-op"
  | some b => resStr indexStr (decodeIndex (algOf (a.get "alg")) b)

def cmdIdxEncode (a : Args) : String :=
  match parseChunks (a.get "chunks") with
  | none => "bad-op"
  | some cs => toHex (encodeIndex ⟨a.u64 "flags", a.u64 "min", a.u64 "avg", a.u64 "max", cs⟩)

def pairsStr (l : List (Nat × Nat)) : String :=
  String.intercalate "," (l.map fun (a, b) => s!"{a}:{b}")

def natList (s : String) : List Nat :=
  if s.isEmpty then [] else (s.splitOn ",").filterMap String.toNat?

def paramsOf (a : Args) : ChunkParams :=
  { min := a.nat "min", max := a.nat "max", d := UInt32.ofNat (a.nat "d") }

/-- `chunk.all min= max= d= data=` : the chunk sequence of a whole input -/
def cmdChunkAll (a : Args) : String :=
  match a.bytes "data" with
  | none => "bad-op"
  | some data => pairsStr (chunkAll (paramsOf a) data)

/-- `chunk.buffered … frags=` : the buffered chunker over a fragmenting reader -/
def cmdChunkBuffered (a : Args) : String :=
  match a.bytes "data" with
  | none => "bad-op"
  | some data =>
    pairsStr (Buffered.all (paramsOf a) (data.length + 1) ⟨⟨data, natList (a.get "frags")⟩, [], 0, false⟩)

def cmdChunkDisc (a : Args) : String := toString (Gen.discriminatorFromAvg (a.u64 "avg")).toNat

def cmdSip (a : Args) : String :=
  match a.bytes "data" with
  | none => "bad-op"
  | some d => toString (sipHashName d).toNat

/-- `bst n=` : heap layout of 0..n-1 -/
def cmdBst (a : Args) : String :=
  let n := a.nat "n"
  match bstAssign (List.range n) 0 (bstLevel n) with
  | none => "panic"
  | some as => String.intercalate "," ((placeAll n as).toList.map toString)

def runLine (l : String) : String :=
  match l.splitOn " " with
  | [] => "bad-op"
  | cmd :: rest =>
    let a := parseArgs rest
    match cmd with
    | "idx.decode" => cmdIdxDecode a
    | "idx.encode" => cmdIdxEncode a
    | "chunk.all" => cmdChunkAll a
    | "chunk.buffered" => cmdChunkBuffered a
    | "chunk.disc" => cmdChunkDisc a
    | "sip" => cmdSip a
    | "bst" => cmdBst a
    | _ => "bad-op"

end Driver
