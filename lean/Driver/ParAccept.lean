/-
  Trace validation for the parallel file chunker (C02, tie (c) of DESIGN section 3): the Go harness runs
  `IndexFromFile` under a cooperative scheduler (hooks `verifPar` in make.go, build tag verif), so
  that exactly one goroutine runs between two hook calls, and records what each goroutine did.
  `par.accept` replays the record list through `Par.step` on the environment of the same file:
  every record must be the next *visible* step of its goroutine in the model (steps that touch no
  shared state visibly — `look`, a loop test that fails, `decide`, a skip check that does not
  skip — are taken silently), with the same values.  At the end the model's index is printed.
-/
import Driver.Par
import Desync.Model.ParChunkEnv

namespace Driver
open Desync Desync.Par

structure PRec where
  actor : Option Nat     -- worker index; `none` = the main routine
  ev : String
  target : Nat           -- worker whose bucket/state the event concerns
  a : Nat
  b : Nat
  null : Bool

def parsePRec (s : String) : Option PRec :=
  match s.splitOn ":" with
  | [ac, ev, tg, a, b, nl] =>
    some { actor := if ac == "m" then none else ac.toNat?, ev := ev, target := tg.toNat?.getD 0,
           a := a.toNat?.getD 0, b := b.toNat?.getD 0, null := nl == "1" }
  | _ => none

/-- what the model expects to see for worker `i`'s next step: `none` = silent step;
    `some (ev, target, a, b, null)` = a visible one -/
def expectW (e : Env) (s : Par.St) (i : Nat) : Option (Ev × Option (String × Nat × Nat × Nat × Bool)) :=
  match s.workers[i]? with
  | none => none
  | some w =>
    match w.pc with
    | .top =>
      if w.pos ≥ e.size then some (.produce i, some ("eof", i, 0, 0, false))
      else
        let c : Chunk := ⟨w.pos, e.cut w.pos⟩
        some (.produce i, some ("pushed", i, c.start, c.size, e.isNull c))
    | .pushed _ => some (.look i, none)
    | .popping c _ =>
      match w.next with
      | some j =>
        match s.workers[j]? with
        | some wj =>
          if Gen.parLoopCond c.start wj.sync.start then
            match tryRecv wj with
            | some (some x) => some (.pop i, some ("popped", j, x.start, x.size, e.isNull x))
            | some none => some (.pop i, some ("popClosed", j, 0, 0, false))
            | none => some (.pop i, some ("popEmpty", j, 0, 0, false))
          else some (.pop i, none)
        | none => none
      | none => none
    | .decide _ _ => some (.decide i, none)
    | .nullScan _ _ =>
      match w.next with
      | some j =>
        match s.workers[j]? with
        | some wj =>
          match tryRecv wj with
          | some (some x) => some (.scan i, some ("scanned", j, x.start, x.size, e.isNull x))
          | some none => some (.scan i, some ("scanClosed", j, 0, 0, false))
          | none => some (.scan i, some ("scanEmpty", j, 0, 0, false))
        | none => none
      | none => none
    | .advance last _ => some (.pushNull i, some ("nullPushed", i, last.fin, e.max, e.isNull ⟨last.fin, e.max⟩))
    | .skipCheck =>
      match w.next with
      | some j =>
        match s.workers[j]? with
        | some wj =>
          if Gen.parSkipCond true (!wj.stopped) wj.bucket.length then some (.skip i, some ("skipped", i, 0, 0, false))
          else some (.skip i, none)
        | none => none
      | none => some (.skip i, none)
    | .stopping => some (.stop i, some ("stopped", i, 0, 0, false))
    | .closing => some (.close i, some ("closed", i, 0, 0, false))
    | .done => none

def recStr (r : String × Nat × Nat × Nat × Bool) : String :=
  let (ev, t, a, b, n) := r
  s!"{ev}:{t}:{a}:{b}:{if n then 1 else 0}"

/-- run worker `i` up to and including its next visible step and compare that with the record -/
def acceptW (e : Env) (r : PRec) (i : Nat) : Nat → Par.St → Except String Par.St
  | 0, _ => .error "too many silent steps"
  | fuel + 1, s =>
    match expectW e s i with
    | none => .error s!"worker {i} has no step left in the model"
    | some (ev, vis) =>
      match step e s ev with
      | none => .error s!"model step {evName ev} not enabled"
      | some s' =>
        match vis with
        | none => acceptW e r i fuel s'
        | some x =>
          let got := (r.ev, r.target, r.a, r.b, r.null)
          -- the worker-identifying target of own-bucket events is the actor itself
          if x == got then .ok s'
          else .error s!"model expects {recStr x}, implementation did {recStr got}"

def acceptMain (e : Env) (r : PRec) (s : Par.St) : Except String Par.St :=
  match r.ev with
  | "mainAt" =>
    match s.main with
    | .reading m =>
      if m == r.target && s.index.isEmpty && r.target == 0 then .ok s   -- the very first one
      else match step e s .mainNext with
        | some s' => if s'.main == .reading r.target then .ok s' else .error s!"model: main {repr s'.main}, implementation moved to worker {r.target}"
        | none => .error "model: the main routine cannot leave this bucket (not closed and drained)"
    | _ => .error "model: main routine already finished"
  | "mainPopped" =>
    match step e s .mainPop with
    | some s' =>
      match s'.index.getLast? with
      | some c => if c.start == r.a && c.size == r.b then .ok s' else .error s!"model: main receives {c.start}:{c.size}, implementation received {r.a}:{r.b}"
      | none => .error "model: empty index after a receive"
    | none => .error "model: nothing to receive for the main routine"
  | "finished" =>
    match step e s .mainNext with
    | some s' =>
      match s'.main with
      | .finished ok => if ok == (r.a == 1) then .ok s' else .error s!"model: finished ok={ok}, implementation ok={r.a}"
      | m => .error s!"model: main {repr m}, implementation returned"
    | none => .error "model: the main routine cannot finish here"
  | ev => .error s!"unknown main event {ev}"

def acceptAll (e : Env) : List String → Nat → Par.St → Except (Nat × String) Par.St
  | [], _, s => .ok s
  | x :: xs, k, s =>
    match parsePRec x with
    | none => .error (k, s!"unparsable record {x}")
    | some r =>
      let res := match r.actor with
        | none => acceptMain e r s
        | some i => if r.ev == "start" then .ok s else acceptW e r i 8 s
      match res with
      | .ok s' => acceptAll e xs (k + 1) s'
      | .error m => .error (k, m)

/-- `par.accept min= max= d= n= data=<hex> trace=<rec,rec,…>` -/
def cmdParAccept (a : Args) : String :=
  match a.bytes "data" with
  | none => "bad-case"
  | some data =>
    let p : ChunkParams := ⟨a.nat "min", a.nat "max", UInt32.ofNat (a.nat "d")⟩
    let e := envOf p data (a.nat "n")
    let tr := if (a.get "trace").isEmpty then [] else (a.get "trace").splitOn ","
    match acceptAll e tr 0 (init e) with
    | .ok s =>
      let fin := match s.main with | .finished ok => s!"finished:{if ok then 1 else 0}" | _ => "running"
      s!"accept workers={e.offsets.length} {fin} index={chunksStr' s.index} seq={if s.index == seqAll e then "same" else chunksStr' (seqAll e)}"
    | .error (k, m) => s!"reject@{k} {m}"

def runLine4 (l : String) : String :=
  match l.splitOn " " with
  | "par.accept" :: rest => cmdParAccept (parseArgs rest)
  | _ => runLine3 l

end Driver
