/-
  Driver commands for the casync protocol session model (`Desync/Model/ProtoSession.lean`).

    proto.serve   input=<hex> cancel=<n|-> wfail=<n|-> store=<entries> zd=<pairs> zc=<pairs>
        -> end=<verdict> rest=<unread bytes> sent=<hex of everything written>
    proto.serve.alloc / proto.client.alloc (same arguments) -> alloc=<bytes charged for input-sized buffers>
    proto.client  ids=<hex,hex,…> from=<hex> zd=<pairs>
        -> hs=<ok|verdict> results=<r,r,…> rest=<n> sent=<hex>
    proto.session ids=<hex,…> store=<entries> zd=<pairs> zc=<pairs>
        -> hs=… results=… server=<verdict> c2s=<hex> s2c=<hex>

  store entries are joined by `;` (an id that is not listed is missing):
    <id>|missing   <id>|fail   <id>|new|<data>   <id>|withid|<cid>|<data>|<skip>
    <id>|storage|<cid>|<raw>|<compressed 0/1>|<skip>
  (the chunk object is built with the model's constructors; a constructor error is a store failure).
  zstd enters as data (DESIGN §3b): `zd` = `raw:plain` or `raw:!` (decompression fails), `zc` =
  `plain:compressed`, pairs joined by `,`.  The digest is SHA-512/256.
-/
import Desync.Model.ProtoSession
import Desync.Hash.Sha2

namespace Driver.Proto
open Desync Desync.PS

abbrev KV := List (String × String)

def get (a : KV) (k : String) : String := (a.lookup k).getD ""

def optNat (s : String) : Option Nat := if s == "-" || s.isEmpty then none else s.toNat?

def parsePairs (s : String) : List (Bytes × Option Bytes) :=
  if s.isEmpty then [] else
  (s.splitOn ",").filterMap fun p =>
    match p.splitOn ":" with
    | [a, b] =>
      match ofHex a with
      | some x => if b == "!" then some (x, none) else (ofHex b).map fun y => (x, some y)
      | none => none
    | _ => none

def mkZstd (zd zc : String) : Http.Zstd :=
  let d := parsePairs zd
  let c := parsePairs zc
  { dec := fun x => (d.lookup x).getD none
    comp := fun x => ((c.lookup x).getD none).getD [] }

def H : Bytes → Bytes := Sha2.sha512_256

def parseEntry (z : Http.Zstd) (s : String) : Option (Bytes × PS.StoreAns) :=
  match s.splitOn "|" with
  | [id, "missing"] => (ofHex id).map fun i => (i, .missing)
  | [id, "fail"] => (ofHex id).map fun i => (i, .failure)
  | [id, "new", d] =>
    match ofHex id, ofHex d with
    | some i, some b => some (i, .chunk { data := b })
    | _, _ => none
  | [id, "withid", cid, d, skip] =>
    match ofHex id, ofHex cid, ofHex d with
    | some i, some ci, some b =>
      match newChunkWithID H z.dec ci b (skip == "1") with
      | .ok c => some (i, .chunk c)
      | .invalid => some (i, .failure)
    | _, _, _ => none
  | [id, "storage", cid, raw, comp, skip] =>
    match ofHex id, ofHex cid, ofHex raw with
    | some i, some ci, some r =>
      match newChunkFromStorage H z.dec ci r (if comp == "1" then [.compressor] else []) (skip == "1") with
      | .ok c => some (i, .chunk c)
      | .invalid => some (i, .failure)
    | _, _, _ => none
  | _ => none

def mkEnv (a : KV) : Option Env :=
  let z := mkZstd (get a "zd") (get a "zc")
  let es := if (get a "store").isEmpty then [] else (get a "store").splitOn ";"
  match es.mapM (parseEntry z) with
  | none => none
  | some tbl => some { H := H, z := z, store := fun id => (tbl.lookup id).getD .missing }

def parseIds (s : String) : Option (List Bytes) :=
  if s.isEmpty then some [] else (s.splitOn ",").mapM ofHex

def cresStr (dec : Bytes → Option Bytes) : CRes → String
  | .missing => "missing"
  | .fail e => "err:" ++ e.name
  | .ok c =>
    match (c.getData dec).1 with
    | some b => "ok:" ++ toHex b
    | none => "ok:nodata"

/-- `Serve` returns nil both after a goodbye and for a done context: one verdict on the wire -/
def endStr : End → String
  | .nilGoodbye => "nil"
  | .nilCancelled => "nil"
  | e => e.name

def cmdServe (alloc : Bool) (a : KV) : String :=
  match ofHex (get a "input"), mkEnv a with
  | some input, some E =>
    let o := serverRun E (optNat (get a "cancel")) (optNat (get a "wfail")) input
    if alloc then s!"alloc={o.st.alloc}"
    else s!"end={endStr o.end_} rest={o.st.rest.length} sent={toHex o.written}"
  | _, _ => "bad-case"

def clientStr (dec : Bytes → Option Bytes) (o : ClientOut) : String :=
  let hs := match o.hs with | none => "ok" | some e => e.name
  s!"hs={hs} results={String.intercalate "," (o.results.map (cresStr dec))}"

def cmdClient (alloc : Bool) (a : KV) : String :=
  match parseIds (get a "ids"), ofHex (get a "from") with
  | some ids, some from_ =>
    let z := mkZstd (get a "zd") ""
    let o := clientRun H z.dec ids from_
    if alloc then s!"alloc={o.conn.st.alloc}"
    else s!"{clientStr z.dec o} rest={o.conn.st.rest.length} sent={toHex (wire o.conn.sent)}"
  | _, _ => "bad-case"

def cmdSession (a : KV) : String :=
  match parseIds (get a "ids"), mkEnv a with
  | some ids, some E =>
    let o := session E ids
    s!"{clientStr E.z.dec o.client} server={endStr o.server.end_} c2s={toHex (wire o.client.conn.sent)} s2c={toHex o.server.written}"
  | _, _ => "bad-case"

end Driver.Proto
