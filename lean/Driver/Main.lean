/-
  Line-protocol driver (DESIGN §3.1): one case per input line, one result line out.
  Core-only so that it links as a `lean_exe`.
-/
import Driver.MountFS
import Driver.CmdFlow
import Driver.GCS
import Driver.SshPool

open Desync Driver

partial def loop (h : IO.FS.Stream) (out : IO.FS.Stream) : IO Unit := do
  let line ← h.getLine
  if line.isEmpty then return ()
  let l := line.trimAscii.toString
  if l.isEmpty || l.startsWith "#" then
    loop h out
  else
    let r := runLineSshPool l
    out.putStrLn r
    out.flush
    loop h out

def main : IO Unit := do
  let stdin ← IO.getStdin
  let stdout ← IO.getStdout
  loop stdin stdout
  stdout.flush
