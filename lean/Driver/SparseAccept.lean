/-
  Trace validation for the concurrent readers of a copy-on-read sparse file (C10, tie (c) of DESIGN
  section 3): the Go harness (harness/cmd/vh/c10conc.go) runs several `SparseFileHandle.ReadAt`
  callers and the pre-load goroutines of `preloadChunksFromState` on ONE sparse file under a
  cooperative scheduler (hooks `verifSparse` in sparse-file.go, build tag verif), so that exactly one
  goroutine runs between two hook calls, and records what each call did.  `sparse.accept` replays the
  record list through `SparseConc.step`: every record must be enabled in the machine and must concern
  the chunk the machine's call is working on (and, for the done check, see the value the machine's
  bitmap holds).  On acceptance the final state of every call is printed.
-/
import Desync.Model.SparseConc

namespace Driver.SparseAccept
open Desync Desync.SparseConc

def nats (s : String) : List Nat :=
  if s.isEmpty then [] else (s.splitOn ",").map fun x => x.toNat?.getD 0

/-- the chunk a call is working on: the one whose mutex it holds, or is about to take -/
def pcChunk : PC → Option Nat
  | .want _ (i :: _) => some i
  | .locked _ _ i => some i
  | .fetching _ _ i => some i
  | .fetched _ _ i => some i
  | .written _ _ i => some i
  | .marked _ _ i => some i
  | .failed _ i => some i
  | _ => none

structure Rec where
  ev : Ev
  chunk : Option Nat := none     -- payload: the chunk index the implementation reported
  done : Option Bool := none     -- payload of the done check

def parseRec (x : String) : Option Rec :=
  match x.splitOn ":" with
  | ["s", r, first, n] => do
    let r ← r.toNat?; let f ← first.toNat?; let n ← n.toNat?
    pure { ev := .start r ((List.range n).map (· + f)) }
  | ["p", r, i] => do let r ← r.toNat?; let i ← i.toNat?; pure { ev := .preload r i }
  | ["a", r, i] => do let r ← r.toNat?; let i ← i.toNat?; pure { ev := .acquire r, chunk := some i }
  | ["c", r, i, d] => do let r ← r.toNat?; let i ← i.toNat?; pure { ev := .check r, chunk := some i, done := some (d == "1") }
  | ["fo", r, i] => do let r ← r.toNat?; let i ← i.toNat?; pure { ev := .fetchOk r, chunk := some i }
  | ["ff", r, i] => do let r ← r.toNat?; let i ← i.toNat?; pure { ev := .fetchFail r, chunk := some i }
  | ["df", r, i] => do let r ← r.toNat?; let i ← i.toNat?; pure { ev := .dataFail r, chunk := some i }
  | ["w", r, i] => do let r ← r.toNat?; let i ← i.toNat?; pure { ev := .write r, chunk := some i }
  | ["wf", r, i] => do let r ← r.toNat?; let i ← i.toNat?; pure { ev := .writeFail r, chunk := some i }
  | ["m", r, i] => do let r ← r.toNat?; let i ← i.toNat?; pure { ev := .mark r, chunk := some i }
  | ["rl", r, i] => do let r ← r.toNat?; let i ← i.toNat?; pure { ev := .release r, chunk := some i }
  | ["rdy", r] => do let r ← r.toNat?; pure { ev := .ready r }
  | ["rd", r] => do let r ← r.toNat?; pure { ev := .read r }
  | ["ld", r] => do let r ← r.toNat?; pure { ev := .loaded r }
  | _ => none

def evReader : Ev → Nat
  | .start r _ => r | .preload r _ => r | .acquire r => r | .ready r => r | .check r => r
  | .fetchOk r => r | .fetchFail r => r | .dataFail r => r | .write r => r | .writeFail r => r
  | .mark r => r | .release r => r | .read r => r | .loaded r => r

def pcName : PC → String
  | .idle => "idle" | .want _ _ => "want" | .locked _ _ _ => "locked" | .fetching _ _ _ => "fetching"
  | .fetched _ _ _ => "fetched" | .written _ _ _ => "written" | .marked _ _ _ => "marked"
  | .failed _ _ => "failed" | .readFile _ => "readFile"
  | .returned ok _ saw => s!"ret:{if ok then 1 else 0}:{if saw then 1 else 0}"

/-- why the machine does not take this step (for the reject line) -/
def why (s : St) (rc : Rec) : String :=
  let r := evReader rc.ev
  match s.readers[r]? with
  | none => s!"no call {r}"
  | some pc =>
    match rc.ev, pc with
    | .acquire _, .want _ (i :: _) => s!"call {r} takes the mutex of chunk {i} while the machine has it held by call {repr (s.lock.getD i none)}"
    | _, _ => s!"not enabled: call {r} is in state {pcName pc}"

def acceptAll : List String → Nat → St → Except (Nat × String) St
  | [], _, s => .ok s
  | x :: xs, k, s =>
    match parseRec x with
    | none => .error (k, s!"unparsable record {x}")
    | some rc =>
      let r := evReader rc.ev
      let pc := (s.readers[r]?).getD .idle
      -- payload: the chunk the implementation names is the one the machine's call works on
      let chunkOk := match rc.chunk with
        | none => true
        | some i => pcChunk pc == some i
      if !chunkOk then
        .error (k, s!"{x}: the machine's call {r} ({pcName pc}) works on chunk {repr (pcChunk pc)}")
      else
        let doneOk := match rc.done, pcChunk pc with
          | some d, some i => s.done.getD i false == d
          | _, _ => true
        if !doneOk then .error (k, s!"{x}: the done bit the implementation read differs from the machine's bitmap")
        else match step s rc.ev with
          | none => .error (k, s!"{x}: {why s rc}")
          | some s' => acceptAll xs (k + 1) s'

/-- `sparse.accept isnull=0,1,0 readers=4 events=s:0:0:2,a:0:0,…` -/
def run (isnull readers events : String) : String :=
  let isNull := (nats isnull).map (· == 1)
  let k := readers.toNat?.getD 0
  let evs := if events.isEmpty then [] else events.splitOn ","
  match acceptAll evs 0 (St.init isNull k) with
  | .ok s =>
    let fin := s.readers.map pcName
    let flag (l : List Bool) := String.intercalate "" (l.map fun b => if b then "1" else "0")
    let held := s.lock.filter (·.isSome)
    s!"accept final={String.intercalate "," fin} done={flag s.done} populated={flag s.populated} held={held.length}"
  | .error (k, m) => s!"reject@{k} {m}"

end Driver.SparseAccept
