/-
  Driver commands for the option / location plumbing model (`Desync/Model/StoreOpts.lean`).

    so.srv kind=<chunk|index> fauth=<hex|-> eauth=<hex|-> w=<0|1|-> svw=<0|1|-> svr=<0|1|-> u=<0|1|-> cfgsv=<0|1> cfgu=<0|1> […]
        "-": the flag / variable was not given — the model takes the default from the REGENERATED flag table
        -> auth=<hex> anon=<0|1> writable=<0|1> verifyW=<0|1|-> upSkip=<0|1|-> compressed=<0|1|-> storeU=<0|1|->
    so.glob pat=<hex> name=<hex>                      -> true | false | bad | nonascii
    so.locmatch scheme=<n|err> cwd=<hex> pat=<hex> loc=<hex>   -> 1 | 0 | unsupported
    so.store scheme=<n|err> sname=<hex> cwd=<hex> loc=<hex> ents=<hexpattern:sv:unc:retry|->;… skip=<0|1> retry=<n|-> n=<n> ti=<0|1>
        -> err=parse | err=multiple | unsupported | ok backend=<b> sv=<0|1> unc=<0|1> retry=<n> n=<n> layers=<k>
    so.index loc=<hex> scheme=<n|err> sname=<hex> upath=<hex>
        -> err=parse | key=<hex> backend=<b> name=<hex> dir=<hex>
-/
import Desync.Model.StoreOpts

namespace Driver.StoreOptsCmd
open Desync Desync.StoreOpts

abbrev KV := List (String × String)

def get (a : KV) (k : String) : String := (a.lookup k).getD ""
def hexOr (a : KV) (k : String) : Bytes := (ofHex (get a k)).getD []

/-- default of a flag in a regenerated flag table (entries `name|short|type|default|field`) -/
def flagDefault (flags : List String) (name : String) : Option String :=
  flags.findSome? fun f =>
    match f.splitOn "|" with
    | [n, _, _, d, _] => if n == name then some d else none
    | _ => none

/-- a boolean flag: given value, or the registered default -/
def boolFlag (flags : List String) (a : KV) (key name : String) : Option Bool :=
  match get a key with
  | "1" => some true
  | "0" => some false
  | "-" => match flagDefault flags name with
    | some "true" => some true
    | some "false" => some false
    | _ => none
  | _ => none

def strOfHex (h : String) : Option String :=
  if h == "-" then some "" else (ofHex h).bind fun b => String.fromUTF8? ⟨b.toArray⟩

def b01 (b : Bool) : String := if b then "1" else "0"

def cmdSrv (a : KV) : String :=
  let chunk := get a "kind" == "chunk"
  let flags := if chunk then Gen.storeoptsCSFlags else Gen.storeoptsISFlags
  match strOfHex (get a "fauth"), strOfHex (get a "eauth"), boolFlag flags a "w" "writeable" with
  | some fauth, some eauth, some w =>
    let svw := if chunk then boolFlag flags a "svw" "skip-verify-write" else some false
    let svr := if chunk then boolFlag flags a "svr" "skip-verify-read" else some false
    let u := if chunk then boolFlag flags a "u" "uncompressed" else some false
    match svw, svr, u with
    | some svw, some svr, some u =>
      let s : ServerIn := ⟨fauth, eauth, w, svw, svr, u, false, ""⟩
      let enc : String → Bytes := fun x => x.toUTF8.toList
      let cfg := if chunk then chunkServerCfg enc s true else indexServerCfg enc s true
      let entry : StoreOptions := { defaults with skipVerify := get a "cfgsv" == "1", uncompressed := get a "cfgu" == "1" }
      let common := s!"auth={toHex cfg.auth} anon={b01 (cfg.auth == [])} writable={b01 cfg.writable}"
      if chunk then
        let vw := if cfg.writable then b01 (!cfg.skipVerifyWrite) else "-"
        s!"{common} verifyW={vw} upSkip={b01 (upstreamSkipVerify s entry)} compressed={b01 cfg.compressed} storeU={b01 entry.uncompressed}"
      else s!"{common} verifyW=- upSkip=- compressed=- storeU=-"
    | _, _, _ => "bad-case"
  | _, _, _ => "bad-case"

def cmdGlob (a : KV) : String :=
  match globMatch (hexOr a "pat") (hexOr a "name") with
  | .matched b => if b then "true" else "false"
  | .bad => "bad"
  | .fuel => "model-out-of-fuel"
  | .nonAscii => "nonascii"

def schemeOf (a : KV) : Option Nat := (get a "scheme").toNat?

def cmdLocMatch (a : KV) : String :=
  match locationMatch (schemeOf a) (hexOr a "cwd") (hexOr a "pat") (hexOr a "loc") with
  | some true => "1"
  | some false => "0"
  | none => "unsupported"

def backendStr : Backend → String
  | .ssh => "ssh" | .sftp => "sftp" | .http => "http" | .s3 => "s3" | .gcs => "gcs" | .localDir => "local"
  | .noIndexOverSsh => "no-index-over-ssh"

def parseEntry (s : String) : Option (Bytes × StoreOptions) :=
  match s.splitOn ":" with
  | [p, sv, unc, retry] =>
    (ofHex p).map fun pb =>
      let r : Int := match retry.toNat? with
        | some n => n
        | none => defaults.errorRetry
      (pb, { defaults with skipVerify := sv == "1", uncompressed := unc == "1", errorRetry := r })
  | _ => none

def cmdStore (a : KV) : String :=
  match schemeOf a with
  | none => "err=parse"
  | some n =>
    let ents := if (get a "ents").isEmpty then [] else (get a "ents").splitOn ";"
    match ents.mapM parseEntry with
    | none => "bad-case"
    | some es =>
      let loc := hexOr a "loc"
      let cwd := hexOr a "cwd"
      -- a match the model cannot decide (non-ASCII) makes the whole case unsupported
      let ms := es.map fun e => locationMatch (some n) cwd e.1 loc
      if ms.any (· == none) then "unsupported"
      else
        let cmd : CmdStoreOptions :=
          { n := (get a "n").toNat?.getD 0, clientCert := "", clientKey := "", caCert := "", skipVerify := get a "skip" == "1",
            errorRetry := (get a "retry").toNat?.getD 0, errorRetryBaseInterval := 0,
            chClientCert := false, chClientKey := false, chCaCert := false, chTrustInsecure := get a "ti" == "1",
            chErrorRetry := (get a "retry").toNat?.isSome, chErrorRetryBaseInterval := false }
        match storeOptionsFor (fun p => locationMatch (some n) cwd p loc == some true) es cmd with
        | none => "err=multiple"
        | some o =>
          let sname := (strOfHex (get a "sname")).getD ""
          s!"ok backend={backendStr (backendOf sname)} sv={b01 o.skipVerify} unc={b01 o.uncompressed} retry={o.errorRetry} n={o.n} layers={(converters o).length}"

/-- `path.Dir` / `filepath.Dir` (Unix) -/
def goDir (p : Bytes) : Bytes :=
  LFS.clean ((p.reverse.dropWhile (· ≠ cSlash)).reverse)

def cmdIndex (a : KV) : String :=
  match schemeOf a with
  | none => "err=parse"
  | some _ =>
    let loc := hexOr a "loc"
    let sname := (strOfHex (get a "sname")).getD ""
    let b := indexBackendOf sname
    let key := indexConfigKey loc
    if b = .localDir then
      s!"key={toHex key} backend=local name={toHex (goBase loc)} dir={toHex (goDir loc)}"
    else
      let up := hexOr a "upath"
      s!"key={toHex key} backend={backendStr b} name={toHex (goBase up)} dir={toHex (goDir up)}"

def run (cmd : String) (a : KV) : Option String :=
  match cmd with
  | "so.srv" => some (cmdSrv a)
  | "so.glob" => some (cmdGlob a)
  | "so.locmatch" => some (cmdLocMatch a)
  | "so.store" => some (cmdStore a)
  | "so.index" => some (cmdIndex a)
  | _ => none

end Driver.StoreOptsCmd
