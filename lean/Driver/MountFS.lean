/-
  Driver commands for the FUSE node layer (C09 / C10, Model/MountFS.lean) and for `desync cat` (cmd/desync/cat.go).

  `mfs.index name= chunks=id:start:size,… nullid= nulllen= blobs=id=hex;… fail=k,… reqs=G,L<name>,O,R<fh>:<off>:<len>,C<fh>`
      the replies of an index mount to the request sequence: `a:<mode>:<size>`, `l:<mode>` / `e:ENOENT`, `o:<fh>:<flags>`,
      `d:<hex>` / `e:EIO` / `e:EBADF`, `c`; then ` calls=<store calls>`.
  `mfs.sparse … len= … reqs=…,X,T<k>,K`  the same on a sparse mount, plus `X` = Close (state save; prints `x:<flags>`),
      `T<k>` = the process dies inside a state save, k bytes of the bitmap written (`t`), `K` = the process dies and the mount
      is started again on the same cache file and state file (prints `k:<flags of the state file after the start>`).
  `cat.run chunks=… len= nullid= nulllen= blobs=… fail= off=<int> n=<int>`  what `desync cat -o off -l n` writes and
      whether it fails: `ok:<hex>` / `err:<hex written before the failure>`.
-/
import Driver.LfsRead
import Desync.Model.MountFS

namespace Driver
open Desync Desync.MountFS

def mfsFetch (a : Args) : Fetch :=
  let blobs := parseBlobs (a.get "blobs")
  let fails := natList (a.get "fail")
  fun k id =>
    if fails.contains k then none else
    match blobs.lookup id with
    | some [] => none
    | x => x

def mfsReq (op : String) : Option MountFS.Req :=
  if op == "G" then some .getattr
  else if op == "O" then some .open_
  else if op.startsWith "L" then some (.lookup (op.drop 1).toString)
  else if op.startsWith "C" then ((op.drop 1).toString.toNat?).map .release
  else if op.startsWith "R" then
    match ((op.drop 1).toString).splitOn ":" with
    | [fh, off, n] =>
      match fh.toNat?, off.toNat?, n.toNat? with
      | some fh, some off, some n => some (.read fh off n)
      | _, _, _ => none
    | _ => none
  else none

def errnoStr : MountFS.Errno → String
  | .eio => "EIO" | .enoent => "ENOENT" | .ebadf => "EBADF"

def respStr : MountFS.Resp → String
  | .entry m => s!"l:{m}"
  | .attr m sz => s!"a:{m}:{sz}"
  | .opened fh fl => s!"o:{fh}:{fl}"
  | .data b => "d:" ++ toHex b
  | .err e => "e:" ++ errnoStr e
  | .released => "c"
  | .unmodelled => "unmodelled"

def bitsStr (l : List Bool) : String := String.ofList (l.map fun b => if b then '1' else '0')

def cmdMfsIndex (a : Args) : String :=
  let fetch := mfsFetch a
  let m0 : IdxMount := { fname := a.get "name", chunks := parseRChunks (a.get "chunks"), nullID := a.nat "nullid",
                         nullLen := a.nat "nulllen" }
  let ops := if (a.get "reqs").isEmpty then [] else (a.get "reqs").splitOn ","
  let (m, out) := ops.foldl (fun (st : IdxMount × List String) op =>
    match mfsReq op with
    | some q => let (r, m') := st.1.serve modelledFacts fetch q; (m', st.2 ++ [respStr r])
    | none => (st.1, st.2 ++ ["bad-op"])) (m0, [])
  String.intercalate "," out ++ s!" calls={m.calls}"

def cmdMfsSparse (a : Args) : String :=
  let fetch := mfsFetch a
  let chunks := parseRChunks (a.get "chunks")
  let len := a.nat "len"
  let nullID := a.nat "nullid"
  let n := chunks.length
  let start (file : Bytes) (state : Option (List Bool)) (calls : Nat) : SpMount × Option (List Bool) :=
    let accepted := match state with
      | some st => decide (file.length = len) && decide (st.length = n)
      | none => false
    ({ fname := a.get "name", s := SparseSt.open fetch chunks nullID len file state none calls },
     if accepted then state else some (List.replicate n false))
  let ops := if (a.get "reqs").isEmpty then [] else (a.get "reqs").splitOn ","
  let (m0, st0) := start [] none 0
  let (m, _, out) := ops.foldl (fun (st : SpMount × Option (List Bool) × List String) op =>
    let (m, sf, out) := st
    if op == "X" then (m, some m.close, out ++ ["x:" ++ bitsStr m.close])
    else if op.startsWith "T" then
      let k := ((op.drop 1).toString.toNat?).getD 0
      (m, some (m.close.take (8 * k)), out ++ ["t"])
    else if op == "K" then
      let (m', sf') := start m.s.file sf m.s.calls
      (m', sf', out ++ ["k:" ++ bitsStr (sf'.getD [])])
    else match mfsReq op with
      | some q => let (r, m') := m.serve modelledFacts fetch q; (m', sf, out ++ [respStr r])
      | none => (m, sf, out ++ ["bad-op"])) (m0, st0, [])
  String.intercalate "," out ++ s!" calls={m.s.calls}"

/-- `desync cat -o off -l n`: `Seek(off, SeekStart)` (fails outside `[0, L]`: nothing is written), then `io.CopyN(n)` when
    `n > 0` (fewer than `n` bytes available: io.EOF, an error, after the bytes there are), else `io.Copy` to the end;
    a failing store ends either copy with an error after the bytes read so far.  `io.Copy`/`CopyN` read through a buffer of
    32 KiB: the reads of the model use the same size (`buf`), which matters only for where a store failure cuts. -/
def catRun (fetch : Fetch) (ip : IdxPos) (off n : Int) (buf : Nat) : Bool × Bytes :=
  match ip.seek off .start with
  | .error _ => (false, [])
  | .ok ip =>
    let limited := decide (n > 0)
    let want := n.toNat
    let rec go (fuel : Nat) (ip : IdxPos) (calls : Nat) (acc : Bytes) : Bool × Bytes :=
      match fuel with
      | 0 => (false, acc)
      | fuel + 1 =>
        if limited && acc.length == want then (true, acc)
        else
          let ask := if limited then min buf (want - acc.length) else buf
          match ip.read fetch ask calls with
          | (.data b, ip', c) => if b.isEmpty then (false, acc) else go fuel ip' c (acc ++ b)
          | (.eof b, _, _) => (!limited, acc ++ b)
          | (.err b, _, _) => (false, acc ++ b)
          | (.panic, _, _) => (false, acc)
    go (ip.length + want + 2) ip 0 []

def cmdCatRun (a : Args) : String :=
  let fetch := mfsFetch a
  let ip0 := IdxPos.new (parseRChunks (a.get "chunks")) (a.nat "len") (a.nat "nullid") (a.nat "nulllen")
  let (ok, b) := catRun fetch ip0 (parseInt (a.get "off")) (parseInt (a.get "n")) 32768
  (if ok then "ok:" else "err:") ++ toHex b

def runLine9 (l : String) : String :=
  match l.splitOn " " with
  | "mfs.index" :: rest => cmdMfsIndex (parseArgs rest)
  | "mfs.sparse" :: rest => cmdMfsSparse (parseArgs rest)
  | "cat.run" :: rest => cmdCatRun (parseArgs rest)
  | _ => runLine8 l

end Driver
