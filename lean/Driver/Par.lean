/-
  Driver commands for the parallel chunker machine (C02): random schedules over small synthetic
  chunkers (support: looks for schedules on which the machine's result differs from the
  single-stream sequence) and replay of one schedule.
-/
import Driver.Asm
import Desync.Model.ParChunk
import Desync.Proofs.ParChunkDefs

namespace Driver
open Desync Desync.Par

def lcg (x : Nat) : Nat := (x * 6364136223846793005 + 1442695040888963407) % 18446744073709551616

/-- a synthetic chunker: bytes in [za, zb) are zero; a position followed by at least `max` zero
    bytes cuts at `max`; everywhere else the cut is a fixed pseudo-random function of the position -/
def synthEnv (size max n za zb salt : Nat) : Env :=
  let cut := fun pos =>
    let raw := if za ≤ pos ∧ pos + max ≤ zb then max else 1 + (lcg (pos + salt) / 65536) % max
    if pos + raw > size then size - pos else raw
  let nn := if size / max + 1 < n then size / max + 1 else n
  let span := size / nn
  { size := size, max := max, cut := cut,
    isNull := fun c => c.size == max && decide (za ≤ c.start ∧ c.fin ≤ zb),
    offsets := (List.range nn).map (· * span) }

def allEvents (nw : Nat) : List Ev :=
  (List.range nw).flatMap (fun i => [Ev.produce i, .look i, .pop i, .decide i, .scan i, .pushNull i, .skip i, .stop i, .close i])
    ++ [.mainPop, .mainNext]

def evName : Ev → String
  | .produce i => s!"produce:{i}" | .look i => s!"look:{i}" | .pop i => s!"pop:{i}" | .decide i => s!"decide:{i}"
  | .scan i => s!"scan:{i}" | .pushNull i => s!"pushNull:{i}" | .skip i => s!"skip:{i}" | .stop i => s!"stop:{i}"
  | .close i => s!"close:{i}" | .mainPop => "mainPop" | .mainNext => "mainNext"

def chunksStr' (l : List Chunk) : String := String.intercalate "," (l.map fun c => s!"{c.start}:{c.size}")

def evWho (nw : Nat) : Ev → Nat
  | .produce i | .look i | .pop i | .decide i | .scan i | .pushNull i | .skip i | .stop i | .close i => i
  | _ => nw

/-- per-run weights of the workers and the main routine (index nw): 1, 2, 9 or 28 -/
def weightOf (seed0 who : Nat) : Nat :=
  let r := (lcg (seed0 + who * 7919 + 3) / 65536) % 4
  1 + r * r * r

def pickWeighted (l : List (Ev × Par.St)) (nw seed0 r : Nat) : Option (Ev × Par.St) :=
  let tot := l.foldl (fun a p => a + weightOf seed0 (evWho nw p.1)) 0
  let rec go (l : List (Ev × Par.St)) (x : Nat) : Option (Ev × Par.St) :=
    match l with
    | [] => none
    | p :: rest => let w := weightOf seed0 (evWho nw p.1); if x < w then some p else go rest (x - w)
  if tot = 0 then none else go l ((r / 65536) % tot)

/-- run under a pseudo-random schedule until nothing is enabled (the workers go on after the main routine has
    finished); the invariant is evaluated after every step.  Result: final state, trace, finished, violation -/
def runRandom (e : Env) (zero : Nat → Bool) (seed0 : Nat) : Nat → Nat → Par.St → List String → (Par.St × List String × String)
  | 0, _, s, tr => (s, tr, "fuel")
  | fuel + 1, rnd, s, tr =>
    if !invB e zero s then (s, tr, "inv:" ++ invWhy e zero s) else
      let en := (allEvents s.workers.length).filterMap fun ev => (step e s ev).map fun s' => (ev, s')
      match en with
      | [] => (s, tr, match s.main with | .finished _ => "" | _ => "stuck")
      | _ =>
        let r := lcg rnd
        match pickWeighted en s.workers.length seed0 r with
        | some (ev, s') => runRandom e zero seed0 fuel r s' (evName ev :: tr)
        | none => (s, tr, "pick")

def stStr (s : Par.St) : String :=
  s!"main={repr s.main} index={chunksStr' s.index} " ++ String.intercalate " | " (s.workers.map fun w =>
    s!"pos={w.pos} b=[{chunksStr' w.bucket}] cl={w.closed} st={w.stopped} eof={w.eof} next={w.next} sync={w.sync.start}:{w.sync.size} pc={repr w.pc}")

/-- `par.fuzz size= max= n= za= zb= salt= seed= runs=` -/
def cmdParFuzz (a : Args) : String :=
  let za := a.nat "za"; let zb := a.nat "zb"
  let e := synthEnv (a.nat "size") (a.nat "max") (a.nat "n") za zb (a.nat "salt")
  let zero := fun x => decide (za ≤ x ∧ x < zb)
  let want := seqAll e
  let stat := a.bool "stat"
  let rec go (k : Nat) (seed : Nat) (cnt : Nat) : String :=
    match k with
    | 0 => if stat then s!"ok pushNull={cnt}" else "ok"
    | k + 1 =>
      let (s, tr, bad) := runRandom e zero seed 100000 seed (init e) []
      let cnt := cnt + (tr.filter fun x => x.startsWith "pushNull").length
      if bad != "" then s!"{bad} seed={seed} state: {stStr s} trace={String.intercalate " " tr.reverse}"
      else match s.main with
        | .finished true =>
          if s.index == want then go k (lcg (seed + 17)) cnt
          else s!"wrong seed={seed} index={chunksStr' s.index} want={chunksStr' want} trace={String.intercalate " " tr.reverse}"
        | _ => s!"error-result seed={seed} index={chunksStr' s.index} want={chunksStr' want} trace={String.intercalate " " tr.reverse}"
  go (a.nat "runs") (a.nat "seed") 0

/-- `par.replay size= max= n= za= zb= salt= ev=produce:0,look:0,…`: replay a schedule, print the final state and the invariant -/
def cmdParReplay (a : Args) : String :=
  let za := a.nat "za"; let zb := a.nat "zb"
  let e := synthEnv (a.nat "size") (a.nat "max") (a.nat "n") za zb (a.nat "salt")
  let zero := fun x => decide (za ≤ x ∧ x < zb)
  let evs := (a.get "ev").splitOn ","
  let all := allEvents e.offsets.length
  let rec go (l : List String) (s : Par.St) : String :=
    match l with
    | [] => s!"end inv={invB e zero s} {invWhy e zero s} want={chunksStr' (seqAll e)} {stStr s}"
    | x :: rest =>
      match all.find? (fun ev => evName ev == x) with
      | none => s!"bad event {x}"
      | some ev => match step e s ev with
        | none => s!"not enabled: {x} in {stStr s}"
        | some s' => if invB e zero s' then go rest s' else s!"inv fails after {x}: {invWhy e zero s'} {stStr s'}"
  go evs (init e)

def runLine3 (l : String) : String :=
  match l.splitOn " " with
  | "par.fuzz" :: rest => cmdParFuzz (parseArgs rest)
  | "par.replay" :: rest => cmdParReplay (parseArgs rest)
  | _ => runLine2 l

end Driver
