/-
  Driver commands for the parallel chunker machine (C02): random schedules over small synthetic
  chunkers (support: looks for schedules on which the machine's result differs from the
  single-stream sequence) and replay of one schedule.
-/
import Driver.Asm
import Desync.Model.ParChunk

namespace Driver
open Desync Desync.Par

def lcg (x : Nat) : Nat := (x * 6364136223846793005 + 1442695040888963407) % 18446744073709551616

/-- a synthetic chunker: bytes in [za, zb) are zero; a position followed by at least `max` zero
    bytes cuts at `max`; everywhere else the cut is a fixed pseudo-random function of the position -/
def synthEnv (size max n za zb salt : Nat) : Env :=
  let cut := fun pos =>
    let raw := if za ≤ pos ∧ pos + max ≤ zb then max else 1 + (lcg (pos + salt) / 65536) % max
    if pos + raw > size then size - pos else raw
  let nn := if size / max + 1 < n then size / max + 1 else n
  let span := size / nn
  { size := size, max := max, cut := cut,
    isNull := fun c => c.size == max && decide (za ≤ c.start ∧ c.fin ≤ zb),
    offsets := (List.range nn).map (· * span) }

def allEvents (nw : Nat) : List Ev :=
  (List.range nw).flatMap (fun i => [Ev.produce i, .look i, .pop i, .decide i, .scan i, .pushNull i, .skip i, .stop i, .close i])
    ++ [.mainPop, .mainNext]

def evName : Ev → String
  | .produce i => s!"produce:{i}" | .look i => s!"look:{i}" | .pop i => s!"pop:{i}" | .decide i => s!"decide:{i}"
  | .scan i => s!"scan:{i}" | .pushNull i => s!"pushNull:{i}" | .skip i => s!"skip:{i}" | .stop i => s!"stop:{i}"
  | .close i => s!"close:{i}" | .mainPop => "mainPop" | .mainNext => "mainNext"

def chunksStr' (l : List Chunk) : String := String.intercalate "," (l.map fun c => s!"{c.start}:{c.size}")

/-- run under a pseudo-random schedule until the main routine finishes or nothing is enabled -/
def runRandom (e : Env) : Nat → Nat → Par.St → List String → (Par.St × List String × Bool)
  | 0, _, s, tr => (s, tr, false)
  | fuel + 1, rnd, s, tr =>
    match s.main with
    | .finished _ => (s, tr, true)
    | _ =>
      let en := (allEvents s.workers.length).filterMap fun ev => (step e s ev).map fun s' => (ev, s')
      match en with
      | [] => (s, tr, false)
      | _ =>
        let r := lcg rnd
        -- bias: now and then starve the main routine / favour one worker
        let pick := (r / 65536) % en.length
        match en[pick]? with
        | some (ev, s') => runRandom e fuel r s' (evName ev :: tr)
        | none => (s, tr, false)

/-- `par.fuzz size= max= n= za= zb= salt= seed= runs=` -/
def cmdParFuzz (a : Args) : String :=
  let e := synthEnv (a.nat "size") (a.nat "max") (a.nat "n") (a.nat "za") (a.nat "zb") (a.nat "salt")
  let want := seqAll e
  let rec go (k : Nat) (seed : Nat) : String :=
    match k with
    | 0 => "ok"
    | k + 1 =>
      let (s, tr, fin) := runRandom e 100000 seed (init e) []
      if !fin then s!"stuck seed={seed} main={repr s.main} index={chunksStr' s.index} trace={String.intercalate " " tr.reverse}"
      else match s.main with
        | .finished true =>
          if s.index == want then go k (lcg (seed + 17))
          else s!"wrong seed={seed} index={chunksStr' s.index} want={chunksStr' want} trace={String.intercalate " " tr.reverse}"
        | _ => s!"error-result seed={seed} index={chunksStr' s.index} want={chunksStr' want} trace={String.intercalate " " tr.reverse}"
  go (a.nat "runs") (a.nat "seed")

def runLine3 (l : String) : String :=
  match l.splitOn " " with
  | "par.fuzz" :: rest => cmdParFuzz (parseArgs rest)
  | _ => runLine2 l

end Driver
