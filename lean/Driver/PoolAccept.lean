/-
  Trace validation for the "feeder + N workers + errgroup" functions (C06/C07/C17, tie (c) of DESIGN
  section 3): the Go harness runs `VerifyIndex`, `ChopFile` and `Copy` under a cooperative scheduler
  (hooks `verifPool` in verifyindex.go / chop.go / copy.go, build tag verif) and records the totally
  ordered event trace.  `pool.accept` replays it through `Pool.step` (or `Pool.stepJ` when the case
  says which jobs can succeed) with the regenerated `PoolShape` of the function; an event that is not
  enabled rejects the trace.  The answer carries the machine's result and `done` list, which the
  harness compares with what the function returned and with the jobs that really completed.

    pool.accept fn=VerifyIndex n=3 chunks=25 good=1,1,0,1 events=fs:0:0:1,pc,ok:0,fb,fe,exit:0,wait
    pool.accept fn=Copy n=2 jobs=7 events=…            [marks=0|1 reports=0|1 override the shape]
    pool.accept fn=VerifyIndex pre=err …               the function returned before starting its pool

  `en=s0/s1/…/sk` (optional): before every event, and at the end, the set of next events the harness'
  scheduler knows the code can produce; it must be the set the machine enables there.
  events: `pc` parentCancel · `fs:w[:lo:len]` feedSend to worker w (for VerifyIndex with the batch
  `idx.Chunks[lo:lo+len]` that was sent: it must be the next batch of `batches chunks n`) · `fb`
  feedBreak · `fe` feedEnd · `ok:w` · `fail:w` · `exit:w` · `wait`.
-/
import Desync.Model.Pool
import Desync.Model.PoolJobs
import Desync.Model.PoolCS
import Desync.Model.VerifyIndex

namespace Driver.PoolAccept
open Desync.Pool
open Desync (batches)

abbrev Args := List (String × String)

def get (a : Args) (k : String) : String := (a.lookup k).getD ""
def nat (a : Args) (k : String) : Nat := (get a k).toNat?.getD 0

def shapeOf (fn : String) : Option PoolShape :=
  let mk (p : Bool × Bool) : Option PoolShape := some ⟨p.1, p.2⟩
  match fn with
  | "VerifyIndex" => mk Desync.Gen.poolShape_VerifyIndex
  | "ChopFile" => mk Desync.Gen.poolShape_ChopFile
  | "Copy" => mk Desync.Gen.poolShape_Copy
  | "ChunkStream" => mk Desync.Gen.poolShape_ChunkStream
  | "PlanValidate" => mk Desync.Gen.poolShape_PlanValidate
  | "AssembleFile" => mk Desync.Gen.poolShape_AssembleFile
  | _ => none

/-- an event with the batch that travelled with it (VerifyIndex only) -/
def parseEv (e : String) : Option (Ev × Option (Nat × Nat)) :=
  match e.splitOn ":" with
  | ["pc"] => some (.parentCancel, none)
  | ["fs", w] => w.toNat?.map fun w => (.feedSend w, none)
  | ["fs", w, lo, len] => do
    let w ← w.toNat?; let lo ← lo.toNat?; let len ← len.toNat?
    pure (.feedSend w, some (lo, len))
  | ["fb"] => some (.feedBreak, none)
  | ["fe"] => some (.feedEnd, none)
  | ["ok", w] => w.toNat?.map fun w => (.workOk w, none)
  | ["fail", w] => w.toNat?.map fun w => (.workFail w, none)
  | ["exit", w] => w.toNat?.map fun w => (.workExit w, none)
  | ["wait"] => some (.wait, none)
  | _ => none

def resStr : Option Res → String
  | none => "none" | some .ok => "ok" | some .err => "err" | some .interrupted => "interrupted"

def doneStr (s : St) : String :=
  String.intercalate "," (s.done.map fun b => if b then "1" else "0")

def answer (s : St) : String := s!"accept result={resStr s.result} done={doneStr s}"

/-- the events the machine allows in `s`, in a canonical order (`fin:w` = worker w can finish its job,
    one way or the other); compared with what the scheduler of the harness knows the code can do next -/
def enabledStr (sh : PoolShape) (good : Option (List Bool)) (n : Nat) (s : St) : String :=
  let st (e : Ev) : Bool := match good with
    | some g => (stepJ sh (fun j => g.getD j true) s e).isSome
    | none => (step sh s e).isSome
  let head := (if st .parentCancel then ["pc"] else []) ++ (if st .feedBreak then ["fb"] else []) ++
    (if st .feedEnd then ["fe"] else [])
  let per := (List.range n).flatMap fun w =>
    (if st (.feedSend w) then [s!"fs:{w}"] else []) ++
    (if st (.workOk w) || st (.workFail w) then [s!"fin:{w}"] else []) ++
    (if st (.workExit w) then [s!"exit:{w}"] else [])
  let all := head ++ per ++ (if st .wait then ["wait"] else [])
  if all.isEmpty then "-" else String.intercalate "+" all

/-- replay: `bs` = the batches of VerifyIndex (empty for the other functions), `good` = the job
    oracle if the case gives one -/
def replay (sh : PoolShape) (bs : List (Nat × Nat)) (good : Option (List Bool)) (n : Nat) :
    List String → List String → Nat → St → String
  | [], en, k, s =>
    match en with
    | e :: _ => if e == enabledStr sh good n s then answer s
                else s!"reject@{k} enabled at the end: model {enabledStr sh good n s}, implementation {e}"
    | [] => answer s
  | x :: xs, en, k, s =>
    match parseEv x with
    | none => s!"bad-op@{k}"
    | some (ev, payload) =>
      let batchOk : Option String :=
        match en with
        | e :: _ =>
          if e == enabledStr sh good n s then none
          else some s!"enabled before {x}: model {enabledStr sh good n s}, implementation {e}"
        | [] => none
      let batchOk : Option String := if batchOk.isSome then batchOk else
        match ev, payload with
        | .feedSend _, some (lo, len) =>
          match bs[s.next]? with
          | some (blo, bhi) =>
            if blo == lo && bhi - blo == len then none
            else some s!"job {s.next} is the batch [{blo},{bhi}) in the model, the feeder sent [{lo},{lo + len})"
          | none => some s!"the model has no batch {s.next}"
        | _, _ => none
      match batchOk with
      | some m => s!"reject@{k} {m}"
      | none =>
        let r := match good with
          | some g => stepJ sh (fun j => g.getD j true) s ev
          | none => step sh s ev
        match r with
        | none => s!"reject@{k} {x} is not enabled (next={s.next} closed={s.feederClosed} cancelled={s.parentCancelled} groupErr={s.groupErr})"
        | some s' => replay sh bs good n xs en.tail (k + 1) s'

def cmd (a : Args) : String :=
  let fn := get a "fn"
  match shapeOf fn with
  | none => "bad-op"
  | some sh0 =>
    let sh : PoolShape :=
      ⟨if (get a "marks").isEmpty then sh0.marksInterrupt else get a "marks" == "1",
       if (get a "reports").isEmpty then sh0.reportsInterrupt else get a "reports" == "1"⟩
    let n := nat a "n"
    let evs := if (get a "events").isEmpty then [] else (get a "events").splitOn ","
    if get a "pre" == "err" then
      -- the function returned an error before it started its pool: nothing may have happened
      if evs.all (· == "pc") then "accept result=err done=" else "reject@0 events after an early return"
    else
      let bs := if (get a "chunks").isEmpty then [] else batches (nat a "chunks") n
      let jobs := if (get a "chunks").isEmpty then nat a "jobs" else bs.length
      let good : Option (List Bool) :=
        if (get a "good").isEmpty then none else some (((get a "good").splitOn ",").map (· == "1"))
      let en := if (get a "en").isEmpty then [] else (get a "en").splitOn "/"
      replay sh bs good n evs en 0 (St.init jobs n)

/-! ### the pool with `ChunkStorage.StoreChunk` jobs (ChopFile, ChunkStream): `poolcs.accept`

    poolcs.accept ids=0,1,0,2 n=3 events=fs:1,mark:1,pc,hasF:1,stO:1,fb,exit:0,exit:1,exit:2,wait

  `ids` = the chunk ID of every job (equal numbers = equal chunks); events: `pc` · `fs:w` · `fb` · `fe` ·
  `mark:w` (markProcessed) · `hasT:w` / `hasF:w` / `hasE:w` (HasChunk true / false / error) · `stO:w` /
  `stE:w` (StoreChunk nil / error) · `exit:w` · `wait`.  The answer carries the machine's result, the
  jobs whose StoreChunk returned nil, and the IDs it saw stored / already present. -/

def parseEvCS (e : String) : Option Desync.PoolCS.Ev :=
  match e.splitOn ":" with
  | ["pc"] => some .parentCancel
  | ["fs", w] => w.toNat?.map .feedSend
  | ["fb"] => some .feedBreak
  | ["fe"] => some .feedEnd
  | ["mark", w] => w.toNat?.map .mark
  | ["hasT", w] => w.toNat?.map .hasTrue
  | ["hasF", w] => w.toNat?.map .hasFalse
  | ["hasE", w] => w.toNat?.map .hasErr
  | ["stO", w] => w.toNat?.map .storeOk
  | ["stE", w] => w.toNat?.map .storeErr
  | ["exit", w] => w.toNat?.map .workExit
  | ["wait"] => some .wait
  | _ => none

def setStr (l : List Nat) : String :=
  let sorted := (l.toArray.qsort (· < ·)).toList.eraseDups
  String.intercalate "." (sorted.map toString)

def answerCS (s : Desync.PoolCS.St) : String :=
  let r := match s.result with
    | none => "none" | some .ok => "ok" | some .err => "err" | some .interrupted => "interrupted"
  let done := (List.range s.ids.length).map fun j => if s.doneOK.contains j then "1" else "0"
  s!"accept result={r} done={String.intercalate "," done} stored={setStr s.stored} had={setStr s.had}"

def replayCS : List String → Nat → Desync.PoolCS.St → String
  | [], _, s => answerCS s
  | x :: xs, k, s =>
    match parseEvCS x with
    | none => s!"bad-op@{k}"
    | some ev =>
      match Desync.PoolCS.step s ev with
      | none => s!"reject@{k} {x} is not enabled (next={s.next} closed={s.feederClosed} cancelled={s.parentCancelled} groupErr={s.groupErr} processed={setStr s.processed})"
      | some s' => replayCS xs (k + 1) s'

def cmdCS (a : Args) : String :=
  let ids := if (get a "ids").isEmpty then [] else ((get a "ids").splitOn ",").filterMap String.toNat?
  let evs := if (get a "events").isEmpty then [] else (get a "events").splitOn ","
  replayCS evs 0 (Desync.PoolCS.St.init ids (nat a "n"))

end Driver.PoolAccept
