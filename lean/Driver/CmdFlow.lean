/-
  `cmdflow.run fn=<run function> conds=a:1,b:0 iters=args:2 fail=<callee>:<occ>,… cancel=<callee>:<occ> stop=0|1 cmp=ICP`
  runs `Cmd.run` on the REGENERATED flow of the function and prints what an observer of the real command sees:
  the exit status `main` makes of the result and the visible phases in order (I = an index is read, C = chunk traffic
  of a long-running call, P = the index is written), filtered to the letters of `cmp`.
  `fail` lists the calls that fail (callee and how many calls of the same callee came before), `cancel` names the call
  during which SIGINT/SIGTERM arrives: that call and every later long-running call fail if (and only if) they were
  given the command's context.
-/
import Driver.MountFS
import Desync.Model.CmdFlow
import Desync.Generated.Facts

namespace Driver.CmdFlowCmd
open Desync Desync.Cmd

def flowOf : String → Option Flow
  | "runMake" => some Gen.cmdflow_runMake
  | "runChop" => some Gen.cmdflow_runChop
  | "runCache" => some Gen.cmdflow_runCache
  | "runTar" => some Gen.cmdflow_runTar
  | "runVerifyIndex" => some Gen.cmdflow_runVerifyIndex
  | "runExtract" => some Gen.cmdflow_runExtract
  | "runUntar" => some Gen.cmdflow_runUntar
  | "runPrune" => some Gen.cmdflow_runPrune
  | "runCat" => some Gen.cmdflow_runCat
  | "runVerify" => some Gen.cmdflow_runVerify
  | "runPull" => some Gen.cmdflow_runPull
  | "readCaibxFile" => some Gen.cmdflow_readCaibxFile
  | "storeCaibxFile" => some Gen.cmdflow_storeCaibxFile
  | "writeWithTmpFile" => some Gen.cmdflow_writeWithTmpFile
  | "writeInplace" => some Gen.cmdflow_writeInplace
  | _ => none

/-- `a:1,b:0` -/
def pairs (s : String) : List (String × Nat) :=
  if s.isEmpty then [] else
  (s.splitOn ",").filterMap fun f =>
    match f.splitOn ":" with
    | [] => none
    | [_] => none
    | parts => match parts.getLast?.bind String.toNat? with
      | some n => some (":".intercalate parts.dropLast, n)
      | none => none

def occ (hist : List Effect) (c : String) : Nat :=
  (hist.filter fun e => e.callee == c && (e.kind == .call || e.kind == .started)).length

def visible (c : String) : Option Char :=
  if c == "readCaibxFile" then some 'I'
  else if isIndexStore c then some 'P'
  else if isChunkOp c || ["writeInplace", "writeWithTmpFile", "desync.UnTarIndex", "desync.AssembleFile"].contains c then some 'C'
  else none

def collapse : List Char → List Char
  | a :: b :: r => if a == b then collapse (b :: r) else a :: collapse (b :: r)
  | l => l

def cmd (a : List (String × String)) : String :=
  let get := fun k => (a.lookup k).getD ""
  match flowOf (get "fn") with
  | none => "bad-case"
  | some f =>
    let conds := pairs (get "conds")
    let iters := pairs (get "iters")
    let fails := pairs (get "fail")
    let cancel := pairs (get "cancel")
    let env : Env := { cond := fun n => (conds.lookup n).getD 0 != 0, iters := fun n => (iters.lookup n).getD 0 }
    let hit := fun (l : List (String × Nat)) (hist : List Effect) (c : String) => l.any fun (n, k) => n == c && k == occ hist c
    let cancelled := fun (hist : List Effect) => cancel.any fun (n, k) => occ hist n > k
    let orc : Oracle :=
      { fails := fun hist s => hit fails hist s.callee ||
          (isLong s.callee && s.ctx == .cmd && (hit cancel hist s.callee || cancelled hist))
        stops := fun _ _ => get "stop" == "1" }
    let r := run f env orc
    let cmp := (get "cmp").toList
    let vis := collapse ((r.2.filterMap fun e => if e.kind == .call || e.kind == .started then visible e.callee else none).filter cmp.contains)
    let res := match r.1 with | .ok => "ok" | .err => "err" | .noReturn => "noreturn"
    let tr := ",".intercalate (r.2.map fun e => e.callee ++ (if e.ok then "" else "!"))
    if get "trace" == "1" then s!"exit={exitStatus Gen.cmdflowMain r.1} res={res} vis={String.ofList vis} trace={tr}"
    else s!"exit={exitStatus Gen.cmdflowMain r.1} vis={String.ofList vis}"

end Driver.CmdFlowCmd

namespace Driver

def runLineCmdFlow (l : String) : String :=
  match l.splitOn " " with
  | "cmdflow.run" :: rest => CmdFlowCmd.cmd (parseArgs rest)
  | _ => runLine9 l

end Driver
