/-
  Trace validation for concurrent read requests on ONE handle of an index mount (C09, tie (c) of
  DESIGN section 3): the Go harness (harness/cmd/vh/mounthandle.go) runs several
  `indexFileHandle.read` requests on one handle under a cooperative scheduler (hooks
  `verifMountHandle` in mount-index.go, build tag verif), so that exactly one goroutine runs between
  two hook calls, and records which request did what: `l` took the mutex, `s` called Seek, `r` called
  Read, `u` released the mutex.  `mh.accept` replays the record list through `MountHandle.step` with
  the locked shape: every record must be the next operation of its request's program (operations
  skipped after a failed Seek aside) and must be enabled in the machine; at the end every request
  must have returned.  On acceptance the result of every request is printed.
-/
import Desync.Model.MountHandle

namespace Driver.MountHandleAccept
open Desync Desync.MountHandle

def parseReqs (s : String) : List Req :=
  if s.isEmpty then [] else
  (s.splitOn ",").filterMap fun p =>
    match p.splitOn ":" with
    | [o, n] => some ⟨o.toNat?.getD 0, n.toNat?.getD 0⟩
    | _ => none

def parseEv (x : String) : Option (HOp × Nat) :=
  match x.splitOn ":" with
  | ["l", r] => r.toNat?.map fun r => (.lock, r)
  | ["s", r] => r.toNat?.map fun r => (.seek, r)
  | ["r", r] => r.toNat?.map fun r => (.read, r)
  | ["u", r] => r.toNat?.map fun r => (.unlock, r)
  | _ => none

/-- after a failed Seek the function returns: the operations the machine skips leave no record -/
def skipFailed (shape : Shape) (fetch : Fetch) (rq : List Req) (r : Nat) : Nat → St → St
  | 0, s => s
  | fuel + 1, s =>
    match s.reqs[r]? with
    | some st =>
      if st.failed then
        match shape[st.pc]? with
        | some .unlock => if s.holder = some r then s else
            match step shape fetch rq s r with
            | some s' => skipFailed shape fetch rq r fuel s'
            | none => s
        | some _ =>
          match step shape fetch rq s r with
          | some s' => skipFailed shape fetch rq r fuel s'
          | none => s
        | none => s
      else s
    | none => s

def opName : HOp → String
  | .lock => "lock" | .seek => "seek" | .read => "read" | .unlock => "unlock"

def replay (shape : Shape) (fetch : Fetch) (rq : List Req) : List String → Nat → St → Except String St
  | [], _, s => .ok s
  | x :: xs, k, s =>
    match parseEv x with
    | none => .error s!"rejected@{k}:bad-record:{x}"
    | some (op, r) =>
      let s := skipFailed shape fetch rq r shape.length s
      match s.reqs[r]? with
      | none => .error s!"rejected@{k}:no-such-request:{r}"
      | some st =>
        match shape[st.pc]? with
        | none => .error s!"rejected@{k}:request-{r}-has-returned-in-the-model"
        | some want =>
          if want ≠ op then .error s!"rejected@{k}:request-{r}-does-{opName op}-where-the-model-does-{opName want}"
          else match step shape fetch rq s r with
            | none => .error s!"rejected@{k}:{opName op}-of-request-{r}-is-not-enabled"
            | some s' => replay shape fetch rq xs (k + 1) s'

def showRes : Option (Option Bytes) → String
  | none => "none"
  | some none => "EIO"
  | some (some b) => "d" ++ toHex b

/-- `mh.accept chunks= len= nullid= nulllen= blobs= fail= reqs=off:n,… events=l:0,s:0,l:1,…` -/
def run (chunks : List RChunk) (len nullID nullLen : Nat) (blobs : List (Nat × Bytes)) (fails : List Nat)
    (reqs events : String) : String :=
  let fetch : Fetch := fun k id =>
    if fails.contains k then none else
    match blobs.lookup id with
    | some [] => none
    | x => x
  let rq := parseReqs reqs
  let ip0 := IdxPos.new chunks len nullID nullLen
  let evs := if events.isEmpty then [] else events.splitOn ","
  match replay lockedShape fetch rq evs 0 (St.init ip0 0 rq.length) with
  | .error e => e
  | .ok s =>
    let s := (List.range rq.length).foldl (fun s r => skipFailed lockedShape fetch rq r lockedShape.length s) s
    let out := s.reqs.map fun st =>
      if st.pc = lockedShape.length then showRes st.res else s!"running@{st.pc}"
    "ok " ++ String.intercalate "," out ++ s!" calls={s.calls}"

end Driver.MountHandleAccept
