/-
  Trace validation for one `WriteDedupQueue` (C12, tie (c) of DESIGN section 3): the Go harness runs writers
  (`StoreChunk`), readers (`GetChunk`) and `HasChunk` callers on ONE real `WriteDedupQueue` under a cooperative
  scheduler (hook sites `wdq.store.*`, `wdq.get.*`, `dedup.get.*`, `dedup.has.*` through `verifYieldID`, build
  tag verif), so that exactly one goroutine runs between two hook calls, and records the totally ordered events.

  `wdq.accept roles=W1.2,R1,… has=1,2,… events=wc:0,rp:1,…` replays them through `WdqSys.step`
  (`Model/WdqSystem.lean`: the write queue's machine `WDedup.step`, and `Dedup.step` once for the readers that
  passed into `DedupQueue.GetChunk` and once for `DedupQueue.HasChunk`).  A role is `W<id>.<data>` (writer) or
  `R<id>` (reader); `has` lists the chunk IDs of the `HasChunk` callers, which are numbered on their own.
  Events: `wc:t` loadOrStore of writer t, `wu:t:e` its upstream `StoreChunk` returned error e (0 = nil),
  `wm:t` markDone, `wd:t` delete, `ww:t` a following writer's wait returned, `rp:t` reader t's locked look at the
  write queue, `rw:t` a reader's wait on a write returned; `gc gu gm gd gw` / `hc hu hm hd hw` are call, upstream
  return (with the value), markDone, delete, wake of the `GetChunk` / `HasChunk` machine.
  Answer: `accept kinds=… final=…` — what every call / look resolved to (leader or follower, joined or passed)
  and what every caller returned — or `reject@k:<event> <the caller's state>` when event k is not enabled.
-/
import Driver.Lfs
import Desync.Model.WdqSystem

namespace Driver
open Desync

def parseWdqRole (s : String) : Option WDedup.Role :=
  if s.startsWith "W" then
    match ((s.drop 1).toString).splitOn "." with
    | [id, d] => do let id ← id.toNat?; let d ← d.toNat?; pure (.writer id d)
    | _ => none
  else if s.startsWith "R" then ((s.drop 1).toString).toNat?.map .reader
  else none

def parseDedupEv (op : String) (args : List String) : Option Dedup.Ev :=
  match op, args with
  | "c", [t] => t.toNat?.map .call
  | "u", [t, v] => do let t ← t.toNat?; let v ← v.toNat?; pure (.upRet t v)
  | "m", [t] => t.toNat?.map .markDone
  | "d", [t] => t.toNat?.map .delete
  | "w", [t] => t.toNat?.map .wake
  | _, _ => none

def parseWdqEv (e : String) : Option WdqSys.Ev :=
  match e.splitOn ":" with
  | ["wc", t] => t.toNat?.map fun t => .w (.wcall t)
  | ["wu", t, v] => do let t ← t.toNat?; let v ← v.toNat?; pure (.w (.wupRet t v))
  | ["wm", t] => t.toNat?.map fun t => .w (.wmarkDone t)
  | ["wd", t] => t.toNat?.map fun t => .w (.wdelete t)
  | ["ww", t] => t.toNat?.map fun t => .w (.wwake t)
  | ["rp", t] => t.toNat?.map fun t => .w (.rpeek t)
  | ["rw", t] => t.toNat?.map fun t => .w (.rwake t)
  | op :: args =>
    if op.startsWith "g" then (parseDedupEv ((op.drop 1).toString) args).map .g
    else if op.startsWith "h" then (parseDedupEv ((op.drop 1).toString) args).map .h
    else none
  | _ => none

def wdqCStr : WDedup.C → String
  | .wstart _ _ => "wstart" | .wupstream _ _ => "wupstream" | .wgot _ _ _ => "wgot"
  | .wpublished _ _ _ => "wpublished" | .wfollower _ => "wfollower" | .wreturned e _ => s!"w:{e}"
  | .rstart _ => "rstart" | .rwait _ => "rwait" | .rreturned d e _ => s!"rj:{d}:{e}" | .rpass _ => "rpass"

def dedupCStr : Dedup.C → String
  | .start _ => "start" | .upstream _ => "upstream" | .got _ _ => "got" | .published _ _ => "published"
  | .follower _ => "follower" | .returned v _ => s!"ret:{v}"

/-- the state of the caller an event belongs to, for the reject message -/
def wdqCallerState (s : WdqSys.St) : WdqSys.Ev → String
  | .w e => ((s.w.callers[e.caller]?).map wdqCStr).getD "no-such-caller"
  | .g e =>
    let t := WdqSys.evCaller e
    "write-queue:" ++ ((s.w.callers[t]?).map wdqCStr).getD "no-such-caller" ++ ",read-path:" ++
      ((s.g.callers[t]?).map dedupCStr).getD "no-such-caller"
  | .h e => ((s.h.callers[WdqSys.evCaller e]?).map dedupCStr).getD "no-such-caller"

/-- what a call / look resolved to -/
def wdqKind (s' : WdqSys.St) : WdqSys.Ev → Option String
  | .w (.wcall t) => some (match s'.w.callers[t]? with | some (.wfollower _) => "WF" | _ => "WL")
  | .w (.rpeek t) => some (match s'.w.callers[t]? with | some (.rwait _) => "RJ" | _ => "RP")
  | .g (.call t) => some (match s'.g.callers[t]? with | some (.follower _) => "GF" | _ => "GL")
  | .h (.call t) => some (match s'.h.callers[t]? with | some (.follower _) => "HF" | _ => "HL")
  | _ => none

def wdqFinal (s : WdqSys.St) : String :=
  let ws := s.w.callers.zipIdx.map fun (c, t) =>
    match c with
    | .rpass _ =>
      (match s.g.callers[t]? with
       | some (.returned v _) => s!"rp:{v}"
       | some c' => "rpass-" ++ dedupCStr c'
       | none => "rpass")
    | c => wdqCStr c
  let hs := s.h.callers.map fun c =>
    match c with
    | .returned v _ => s!"h:{v}"
    | c => dedupCStr c
  String.intercalate "," ws ++ ";" ++ String.intercalate "," hs

def cmdWdqAccept (a : Args) : String :=
  let rs := if (a.get "roles").isEmpty then [] else (a.get "roles").splitOn ","
  match rs.mapM parseWdqRole with
  | none => "bad-case"
  | some roles =>
    let hids := natList (a.get "has")
    let evs := if (a.get "events").isEmpty then [] else (a.get "events").splitOn ","
    let rec go (s : WdqSys.St) (es : List String) (k : Nat) (kinds : List String) : String :=
      match es with
      | [] => "accept kinds=" ++ String.intercalate "." kinds.reverse ++ " final=" ++ wdqFinal s
      | e :: rest =>
        match parseWdqEv e with
        | none => s!"bad-op@{k}"
        | some ev =>
          match WdqSys.step s ev with
          | none => s!"reject@{k}:{e} caller-state={wdqCallerState s ev}"
          | some s' =>
            go s' rest (k + 1) (match wdqKind s' ev with | some x => x :: kinds | none => kinds)
    go (WdqSys.St.init roles hids) evs 0 []

def runLine6 (l : String) : String :=
  match l.splitOn " " with
  | "wdq.accept" :: rest => cmdWdqAccept (parseArgs rest)
  | _ => runLine5 l

end Driver
