/-
  Trace validation of `desync.RemoteSSH` (remotessh.go) against the step machine
  `Desync/Model/SshPool.lean`.  The Go harness (harness/cmd/vh/sshpool.go) runs the real store over
  `n` sessions whose server side it plays itself (a proxy child process per session, a unix socket
  behind it), starts callers, answers their requests with scripted bytes and records the machine's
  events in an order that is consistent with what it observed.

    sshpool.accept n=<N> ops=<op,…> zd=<pairs> events=<ev,…>
       op:  g:<hex id> (GetChunk)   h:<hex id> (HasChunk)   c (Close)
       ev:  call:c take:c send:c recv:c put:c bye:c   w:i:<hex> (srvWrite)   x:i (srvExit)
       zd:  `raw:plain` / `raw:!` pairs as in the proto.* commands (zstd enters as data)
    -> rejected@<k>:<event>                       the k-th event is not enabled
     | ok <result per caller,…> pool=<i;i;…> retired=<i;…>
-/
import Driver.GCS
import Desync.Model.SshPool

namespace Driver.SshPoolAccept
open Desync Desync.SshPool

def parseOp (s : String) : Option Op :=
  match s.splitOn ":" with
  | ["g", h] => (ofHex h).map Op.get
  | ["h", h] => (ofHex h).map Op.has
  | ["c"] => some .close
  | _ => none

def parseEv (s : String) : Option Ev :=
  match s.splitOn ":" with
  | ["call", c] => c.toNat?.map Ev.call
  | ["take", c] => c.toNat?.map Ev.take
  | ["send", c] => c.toNat?.map Ev.send
  | ["recv", c] => c.toNat?.map Ev.recv
  | ["put", c] => c.toNat?.map Ev.put
  | ["bye", c] => c.toNat?.map Ev.bye
  | ["w", i, h] =>
    match i.toNat?, ofHex h with
    | some i, some b => some (.srvWrite i b)
    | _, _ => none
  | ["x", i] => i.toNat?.map Ev.srvExit
  | _ => none

def endOpt : Option PS.End → String
  | none => "nil"
  | some e => e.name

def outStr (dec : Bytes → Option Bytes) : Pc → String
  | .done (.chunk (.ok ch)) =>
    match (ch.getData dec).1 with
    | some b => "chunk:" ++ toHex b
    | none => "chunk:nodata"
  | .done (.chunk .missing) => "missing"
  | .done (.chunk (.fail e)) => "fail:" ++ e.name
  | .done (.has p err) => s!"has:{p}:{endOpt err}"
  | .done (.closed err) => if err then "closed:err" else "closed:ok"
  | _ => "running"

def natsStr (l : List Nat) : String :=
  if l.isEmpty then "-" else String.intercalate ";" (l.map toString)

def replay (H : Bytes → Bytes) (dec : Bytes → Option Bytes) (ops : List Op) :
    List String → Nat → State → Except String State
  | [], _, s => .ok s
  | x :: xs, k, s =>
    match parseEv x with
    | none => .error s!"rejected@{k}:bad-event:{x}"
    | some e =>
      match step H dec ops s e with
      | none => .error s!"rejected@{k}:{x}"
      | some s' => replay H dec ops xs (k + 1) s'

def cmd (a : Args) : String :=
  let opsS := if (a.get "ops").isEmpty then [] else (a.get "ops").splitOn ","
  match opsS.mapM parseOp with
  | none => "bad-case"
  | some ops =>
    let z := Proto.mkZstd (a.get "zd") ""
    let evs := if (a.get "events").isEmpty then [] else (a.get "events").splitOn ","
    match replay Proto.H z.dec ops evs 0 (init (a.nat "n")) with
    | .error e => e
    | .ok s =>
      let outs := (List.range ops.length).map fun c => outStr z.dec (s.pc c)
      s!"ok {String.intercalate "," outs} pool={natsStr s.pool} retired={natsStr s.retired}"

end Driver.SshPoolAccept

namespace Driver

def runLineSshPool (l : String) : String :=
  match l.splitOn " " with
  | "sshpool.accept" :: rest => SshPoolAccept.cmd (parseArgs rest)
  | _ => runLineGCS l

end Driver
