/-
  Driver commands for the mtreefs.go model (`Desync/Model/MtreeFS.lean`, C05).  Core-only; imported by `Driver/Cmds.lean`.

  An op is `kind,name,uid,gid,mode,sec,nsec,size,target,major,minor,data`: kind one of `dir file symlink device`, name and
  target in hex, uid/gid/sec signed decimals, mode the 32-bit `os.FileMode`, data the hex of what `n.Data` delivers, `err`
  for a reader that fails, `-` for the kinds without data.

    mtree.line  room=<n|-> alg=sha512-256|sha256|other ops=op;op;…
                  -> new=<ret> ret=<ret of the last Create* call made> calls=<number of Create* calls made> out=<hex>
                  `NewMtreeFS` on a writer that takes `room` bytes, then the `Create*` calls up to the first error
    mtree.parse alg=… op=<op> line=<hex>
                  -> what the independent reader makes of `line` (the bytes the REAL writer printed for `op`):
                     blank | comment | bad | entry path=<hex> type= mode= uid= gid= sec= nsec= size=<n|-> link=<hex|-> dg=<alg:hex|->
    mtree.name  s=<hex> -> <hex of mtreeFilename s> back=<hex of unescape of that|none>
-/
import Desync.Model.MtreeFS
import Desync.Hash.Sha2

namespace Driver.MtreeCmd
open Desync Desync.MtreeFS

abbrev A := List (String × String)
def get (a : A) (k : String) : String := (a.lookup k).getD ""

def hashes : Hashes := { h512 := Sha2.sha512_256, h256 := Sha2.sha256 }

def parseAlg : String → Alg
  | "sha512-256" => .sha512_256 | "sha256" => .sha256 | _ => .other

def algStr : Alg → String
  | .sha512_256 => "sha512-256" | .sha256 => "sha256" | .other => "other"

def retStr : Ret → String
  | .ok => "ok" | .writeErr => "writeErr" | .readErr => "readErr" | .unsupported => "unsupported"

def parseOp (alg : Alg) (s : String) : Option Op :=
  match s.splitOn "," with
  | [kind, name, uid, gid, mode, sec, nsec, size, target, major, minor, data] => do
    let name ← ofHex name
    let target ← ofHex target
    let uid ← uid.toInt?
    let gid ← gid.toInt?
    let sec ← sec.toInt?
    let n : MNode := { name, uid, gid, mode := UInt32.ofNat (mode.toNat?.getD 0), sec, nsec := nsec.toNat?.getD 0,
                       size := size.toNat?.getD 0, target, major := major.toNat?.getD 0, minor := minor.toNat?.getD 0 }
    match kind with
    | "dir" => pure (.dir n)
    | "symlink" => pure (.symlink n)
    | "device" => pure (.device n)
    | "file" =>
      if data == "err" then pure (.file n alg none)
      else do let d ← ofHex data; pure (.file n alg (some d))
    | _ => none
  | _ => none

/-- `createAll` that also counts the calls made -/
def createCount : Sink → List Op → Nat → Sink × Ret × Nat
  | s, [], k => (s, .ok, k)
  | s, op :: ops, k =>
    match create hashes s op with
    | (s', .ok) => createCount s' ops (k + 1)
    | (s', r) => (s', r, k + 1)

def cmdLine (a : A) : String :=
  let alg := parseAlg (get a "alg")
  let room : Option Nat := (get a "room").toNat?
  let opsS := get a "ops"
  match (if opsS.isEmpty then some [] else (opsS.splitOn ";").mapM (parseOp alg)) with
  | none => "bad-case"
  | some ops =>
    let s0 : Sink := { out := [], room }
    match newMtreeFS s0 with
    | (s1, .ok) =>
      let (s2, r, k) := createCount s1 ops 0
      s!"new=ok ret={retStr r} calls={k} out={toHex s2.out}"
    | (s1, r) => s!"new={retStr r} ret=- calls=0 out={toHex s1.out}"

def typeStr : MType → String
  | .dir => "dir" | .file => "file" | .link => "link" | .char => "char" | .block => "block"

def fieldsStr (f : Fields) : String :=
  let size := match f.size with | some n => toString n | none => "-"
  let link := match f.link with | some t => "x" ++ toHex t | none => "-"
  let dg := match f.digest with | some (al, d) => algStr al ++ ":" ++ toHex d | none => "-"
  s!"entry path={toHex f.path} type={typeStr f.type} mode={f.mode} uid={f.uid} gid={f.gid} sec={f.sec} nsec={f.nsec} size={size} link={link} dg={dg}"

def cmdParse (a : A) : String :=
  match ofHex (get a "line") with
  | none => "bad-case"
  | some l =>
    match parseLine l with
    | .blank => "blank"
    | .comment => "comment"
    | .bad => "bad"
    | .entry f => fieldsStr f

def cmdName (a : A) : String :=
  match ofHex (get a "s") with
  | none => "bad-case"
  | some s =>
    let e := mtreeFilename s
    let back := match unescape e with | some b => toHex b | none => "none"
    s!"{toHex e} back={back}"

def run (cmd : String) (a : A) : Option String :=
  match cmd with
  | "mtree.line" => some (cmdLine a)
  | "mtree.parse" => some (cmdParse a)
  | "mtree.name" => some (cmdName a)
  | _ => none

end Driver.MtreeCmd
