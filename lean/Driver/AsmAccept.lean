/-
  Trace validation for the concurrent assembler (C01, tie (c) of DESIGN section 3; appendix A.8).

  The Go harness (harness/cmd/vh/c01trace.go) runs the real `AssembleFile` with N > 1 workers under a
  cooperative scheduler installed through the `verifAsm` hooks (assemble.go, selfseed.go, fileseed.go,
  nullseed.go; build tag verif) and through its FICLONERANGE emulation, so that exactly one goroutine
  runs between two hook calls, and records what every goroutine did, in one total order.

  `asmconc.accept` takes the same case line as `asm.run` (index, store, seeds, seed files, prior
  content of the target, options, n) plus `trace=`.  It computes the plan with the sequential
  model (`Asm.findPlan`), builds the environment of the step machine `AsmConc` from it and replays the
  records: every record must be something the worker's Go code can do at that point (the driver
  follows the control flow of the worker loop and of `writeChunk`: `APhase`), the values it carries
  must be the ones the model computes on *its own* file and seed contents (bytes a copy or clone
  moved, the verdict of every re-hash and in-place comparison, what `selfSeed.getChunk` answered,
  `selfSeed.written` after an `add`), and the corresponding event must be enabled in `AsmConc.step`
  (`none` → `reject@k`).  The answer carries the machine's final file and whether it is `Done`, read off
  `AsmConc.run` applied to the list of machine events the records were mapped to (theorem
  `C01.accepted_trace_safe` is about exactly that function).

  How records map to machine events: job → `take`; copy / clone / zero → `scribble` with the bytes moved;
  rehash ok and in-place ok → `verify`; ssget found → `selfRead`; wcself → `selfWrite` (the copy's own writes were
  scribbles before; the driver checks that the range already holds what `selfRead` saw); store → `storeWrite`;
  add → `finish`.  A re-hash or in-place comparison that fails, a refused clone, exits and the main routine's
  records change only the driver's bookkeeping.

  Records (`actor:event:…`, actor = worker number or `m`):
    w:job:first:last:kind          kind = S (store) | N (null seed) | F<k> (seed file k) | FT (the target as a seed)
    w:copy:src:so:len:do:hex       `fileSeedSegment.copy` moved len bytes; hex = what the target holds there afterwards
    w:clone:src:so:len:do:res:hex  FICLONERANGE (src = k | T | Z, the null seed's block of zeros); res = 0: refused
    w:zero:off:len:hex             `nullChunkSection.copy`
    w:rehash:off:ok                the re-hash of one chunk after the seed write
    w:ssget:found:pos              `selfSeed.getChunk` in `writeChunk`
    w:wcself:off                   `writeChunk` has copied the chunk from the self seed
    w:inplace:off:ok               `writeChunk` compared what the target holds already
    w:store:off:len:hex            `writeChunk` wrote the chunk it took from the store
    w:add:first:last:written       `selfSeed.add`, recorded with the lock still held; written = `selfSeed.written` now
    w:done:first:last              the worker is back from `selfSeed.add`
    w:exit                         the worker's goroutine ends
    m:mut:k:hex|!                  (harness) seed file k was overwritten / removed at this point
    m:closed:intr                  the feeder closed the channel (intr = 1: it saw the cancelled context)
    m:returned:ok                  `AssembleFile` returned (ok = 1: nil)
-/
import Driver.WdqAccept
import Desync.Model.AssembleConc

namespace Driver
open Desync Desync.Asm

/-- where a worker's Go code is: the worker loop of `AssembleFile` and `writeChunk` -/
inductive APhase
  | idle                 -- waiting for a job
  | writing              -- inside `job.source.WriteInto`
  | verifying            -- the re-hash loop after the write
  | wc0                  -- `writeChunk` entered: `ss.getChunk` comes next
  | wcSelf (p : Nat)     -- copying from the self seed's position p
  | wc1                  -- the self seed had nothing: in-place comparison (unless blank) or store
  | wc2                  -- the in-place comparison failed: store
  | finishing            -- `writeChunk` of a store job returned nil: `ss.add` comes next
  | added                -- inside `ss.add`, the segment is published
  | failing              -- an error return is the only thing left
  deriving Repr, BEq

def APhase.name : APhase → String
  | .idle => "idle" | .writing => "WriteInto" | .verifying => "re-hash loop" | .wc0 => "writeChunk (before getChunk)"
  | .wcSelf p => s!"writeChunk (self-seed copy from position {p})" | .wc1 => "writeChunk (after getChunk = nil)"
  | .wc2 => "writeChunk (store fetch)" | .finishing => "before ss.add" | .added => "ss.add" | .failing => "error return"

structure ACtx where
  H : Bytes → Bytes
  e : Asm.Env
  ce : AsmConc.Env
  items : List PlanItem
  store : Bytes → Option Bytes
  isBlank : Bool
  act : Action

structure AState where
  m : AsmConc.St
  evs : List AsmConc.Ev := []       -- the machine events taken so far, latest first
  phase : List APhase
  files : List (Bytes × Bool)       -- the seed files as they are now, and whether the path has been removed
  opened : List Bool                -- the worker's `WriteInto` has opened its seed file already (it reads on after a removal)
  failed : Bool := false            -- some worker ended with an error
  exited : Nat := 0
  closed : Bool := false
  returned : Option Bool := none

abbrev AR := Except String AState

def AState.ph (st : AState) (w : Nat) : APhase := st.phase.getD w .idle
def AState.setPh (st : AState) (w : Nat) (p : APhase) : AState := { st with phase := st.phase.set w p }
def AState.job (st : AState) (w : Nat) : Option AsmConc.Job := (st.m.workers[w]?).bind (·.job)

def ACtx.source (c : ACtx) (j : AsmConc.Job) : Option Source := (c.items[j.k]?).map (·.source)

def AState.removed (st : AState) (src : String) : Bool :=
  match src.toNat? with
  | some k => ((st.files[k]?).map (·.2)).getD (src != "T" && src != "Z")
  | none => false

def srcName : Src → String
  | .target => "T"
  | .seed k => toString k

def kindStr : Source → String
  | .store => "S"
  | .null _ _ _ => "N"
  | .file _ seg => "F" ++ srcName seg.src

def mstep (c : ACtx) (st : AState) (ev : AsmConc.Ev) (what : String) : AR :=
  match AsmConc.step c.ce st.m ev with
  | some m' => .ok { st with m := m', evs := ev :: st.evs }
  | none => .error s!"machine: {what} is not enabled"

/-- content of the file a copy or clone reads from, now -/
def srcBytes (c : ACtx) (st : AState) (src : String) : Option Bytes :=
  if src == "T" then some st.m.file
  else if src == "Z" then some (zeros c.e.bs)
  else match src.toNat? with
    | some k => (st.files[k]?).map (·.1)
    | none => none

/-- may the worker read `[so, so+len)` of `src` here? -/
def readAllowed (c : ACtx) (st : AState) (w : Nat) (j : AsmConc.Job) (src : String) (so len : Nat) (clone : Bool) : Except String Unit :=
  match st.ph w with
  | .writing =>
    match c.source j with
    | some (.file _ seg) =>
      if srcName seg.src != src then .error s!"the job's seed segment is in {srcName seg.src}, the implementation read {src}"
      else if st.removed src ∧ ¬ st.opened.getD w false then .error s!"seed file {src} was removed before worker {w} opened it"
      else if so < seg.srcStart ∨ so + len > seg.srcStart + seg.size then
        .error s!"read of {so}+{len} outside the seed segment {seg.srcStart}+{seg.size}"
      else .ok ()
    | some (.null _ _ _) => if clone ∧ src == "Z" then .ok () else .error "a null-seed job reads a file"
    | _ => .error "a copy in a job that has no seed segment"
  | .wcSelf p =>
    if src != "T" then .error s!"a self-seed copy reads {src}"
    else if so < c.ce.startOf p ∨ so + len > c.ce.endOf p then
      .error s!"self-seed copy reads {so}+{len}, outside position {p} = {c.ce.startOf p}+{c.ce.sizeOf p}"
    else .ok ()
  | ph => .error s!"a copy during {ph.name}"

def scribble (c : ACtx) (st : AState) (w dO : Nat) (data : Bytes) : AR :=
  if data.isEmpty then .ok st else mstep c st (.scribble w dO data) s!"a write of {data.length} bytes at {dO} by worker {w} (outside the unsettled part of its segment?)"

/-- the verdict of reading position `cur` back and hashing it -/
def rehash (c : ACtx) (st : AState) (p : Nat) : Option Bool :=
  (readFull st.m.file (c.ce.startOf p) (c.ce.sizeOf p)).map fun b => c.H b == c.ce.idOf p

/-- where the worker goes on after `writeChunk` returned nil -/
def afterWc (c : ACtx) (j : AsmConc.Job) : APhase :=
  match c.source j with
  | some .store => .finishing
  | _ => .verifying

def b01s (b : Bool) : String := if b then "1" else "0"

def acAcceptWorker (c : ACtx) (st : AState) (w : Nat) (f : List String) : AR :=
  match f with
  | ["job", fi, la, kind] =>
    if st.ph w != .idle then .error s!"worker {w} receives a job during {(st.ph w).name}" else
    let k := st.m.taken
    match mstep c st (.take w) s!"take by worker {w} (plan exhausted or worker busy)" with
    | .error m => .error m
    | .ok st' =>
      match st'.job w, c.items[k]? with
      | some j, some it =>
        if some j.first != fi.toNat? ∨ some j.last != la.toNat? then
          .error s!"plan item {k} is {j.first}..{j.last}, the worker received {fi}..{la}"
        else if kindStr it.source != kind then .error s!"plan item {k} has source {kindStr it.source}, the worker received {kind}"
        else .ok ({ st' with opened := st'.opened.set w false }.setPh w (match it.source with | .store => .wc0 | _ => .writing))
      | _, _ => .error "no job after take"
  | ["copy", src, so, len, dO, hex] =>
    match st.job w, so.toNat?, len.toNat?, dO.toNat?, ofHex hex with
    | some j, some so, some len, some dO, some data =>
      match readAllowed c st w j src so len false with
      | .error m => .error m
      | .ok _ =>
        match srcBytes c st src with
        | none => .error s!"copy from {src}, which does not exist"
        | some sb =>
          let exp := readUpTo sb so len
          if exp != data then .error s!"copy {src}@{so}+{len} -> {dO}: the target holds {toHex data}, the source held {toHex exp}"
          else scribble c { st with opened := st.opened.set w true } w dO data
    | _, _, _, _, _ => .error "copy without a job (or unparsable)"
  | ["clone", src, so, len, dO, res, hex] =>
    match st.job w, so.toNat?, len.toNat?, dO.toNat?, ofHex hex with
    | some j, some so, some len, some dO, some data =>
      match readAllowed c st w j src so len true with
      | .error m => .error m
      | .ok _ =>
        match srcBytes c st src with
        | none => .error s!"clone from {src}, which does not exist"
        | some sb =>
          let st := { st with opened := st.opened.set w true }
          match cloneRange st.m.file sb (src == "T") so len dO c.e.bs, res == "1" with
          | none, false => .ok st
          | none, true => .error s!"clone {src}@{so}+{len} -> {dO} was carried out; the model's FICLONERANGE rules refuse it"
          | some _, false => .error s!"clone {src}@{so}+{len} -> {dO} was refused; the model's FICLONERANGE rules accept it"
          | some t, true =>
            let n := if len = 0 then sb.length - so else len
            let exp := readUpTo sb so n
            if exp != data then .error s!"clone {src}@{so}+{len} -> {dO}: the target holds {toHex data}, the source held {toHex exp}"
            else match scribble c st w dO data with
              | .error m => .error m
              | .ok st' => if st'.m.file == t then .ok st' else .error "clone: the machine's file differs from the model's cloneRange"
    | _, _, _, _, _ => .error "clone without a job (or unparsable)"
  | ["zero", off, len, hex] =>
    match st.job w, off.toNat?, len.toNat?, ofHex hex with
    | some j, some off, some len, some data =>
      match st.ph w, c.source j with
      | .writing, some (.null _ _ _) =>
        if data != zeros len then .error s!"zero fill at {off}+{len}: the target holds {toHex data}"
        else scribble c st w off data
      | ph, _ => .error s!"a zero fill during {ph.name} of a job that is not a null-seed job"
    | _, _, _, _ => .error "zero fill without a job (or unparsable)"
  | ["rehash", off, ok] =>
    match st.job w with
    | none => .error "re-hash without a job"
    | some j =>
      let ph := st.ph w
      if ph != .writing ∧ ph != .verifying then .error s!"a re-hash during {ph.name}" else
      if kindStr ((c.source j).getD .store) == "S" then .error "a re-hash in a store job" else
      if j.cur > j.last then .error "a re-hash beyond the segment" else
      if some (c.ce.startOf j.cur) != off.toNat? then .error s!"re-hash of the chunk at {off}; the next unsettled one is at {c.ce.startOf j.cur}" else
      match rehash c st j.cur with
      | none => .error "the model cannot read the chunk back (file too short)"
      | some v =>
        if v != (ok == "1") then .error s!"re-hash of position {j.cur}: model {b01s v}, implementation {ok}"
        else if v then (mstep c st (.verify w) "verify").map (·.setPh w .verifying)
        else if c.act == .regenerate then .ok (st.setPh w .wc0)
        else .ok (st.setPh w .failing)
  | ["ssget", found, pos] =>
    match st.job w with
    | none => .error "getChunk without a job"
    | some j =>
      if st.ph w != .wc0 then .error s!"selfSeed.getChunk during {(st.ph w).name}" else
      let exp := st.m.ss.getChunk c.e.chunks (c.ce.idOf j.cur)
      let got : Option Nat := if found == "1" then pos.toNat? else none
      if exp != got then .error s!"selfSeed.getChunk for position {j.cur}: model {repr exp}, implementation {repr got} (written = {st.m.ss.written})"
      else match got with
        | some p => (mstep c st (.selfRead w p) s!"selfRead of position {p} (not below written = {st.m.ss.written}?)").map (·.setPh w (.wcSelf p))
        | none => .ok (st.setPh w .wc1)
  | ["wcself", off] =>
    match st.job w, st.ph w with
    | some j, .wcSelf _ =>
      if some (c.ce.startOf j.cur) != off.toNat? then .error s!"self-seed copy into {off}; the chunk being written is at {c.ce.startOf j.cur}" else
      match (st.m.workers[w]?).bind (·.buf) with
      | some (_, b) =>
        let now := readUpTo st.m.file (c.ce.startOf j.cur) (c.ce.sizeOf j.cur)
        if now != b then .error s!"after the self-seed copy position {j.cur} holds {toHex now}, the offered position held {toHex b}"
        else (mstep c st (.selfWrite w) "selfWrite").map (·.setPh w (afterWc c j))
      | none => .error "no self-seed read in progress"
    | _, ph => .error s!"end of a self-seed copy during {ph.name}"
  | ["inplace", off, ok] =>
    match st.job w with
    | none => .error "in-place comparison without a job"
    | some j =>
      if st.ph w != .wc1 then .error s!"in-place comparison during {(st.ph w).name}" else
      if c.isBlank then .error "in-place comparison although the target was blank" else
      if some (c.ce.startOf j.cur) != off.toNat? then .error s!"in-place comparison at {off}; the chunk being written is at {c.ce.startOf j.cur}" else
      match rehash c st j.cur with
      | none => .error "the model cannot read the chunk (file too short)"
      | some v =>
        if v != (ok == "1") then .error s!"in-place comparison of position {j.cur}: model {b01s v}, implementation {ok}"
        else if v then (mstep c st (.verify w) "verify (in place)").map (·.setPh w (afterWc c j))
        else .ok (st.setPh w .wc2)
  | ["store", off, _len, hex] =>
    match st.job w, ofHex hex with
    | some j, some data =>
      let ph := st.ph w
      if ¬ (ph == .wc2 ∨ (ph == .wc1 ∧ c.isBlank)) then .error s!"a store write during {ph.name}" else
      if some (c.ce.startOf j.cur) != off.toNat? then .error s!"store write at {off}; the chunk being written is at {c.ce.startOf j.cur}" else
      (mstep c st (.storeWrite w data) s!"storeWrite (the data does not hash to the ID of position {j.cur} or has the wrong length)").map
        (·.setPh w (afterWc c j))
    | _, _ => .error "store write without a job (or unparsable)"
  | ["done", fi, la] =>
    if st.ph w != .added then .error s!"return from selfSeed.add during {(st.ph w).name}" else
    match st.m.finished.head? with
    | some _ => if fi.toNat?.isSome ∧ la.toNat?.isSome then .ok (st.setPh w .idle) else .error "unparsable"
    | none => .error "return from selfSeed.add, but nothing has finished"
  | ["add", fi, la, written] =>
    match st.job w with
    | none => .error "selfSeed.add without a job"
    | some j =>
      let ph := st.ph w
      if ¬ (ph == .finishing ∨ ph == .verifying) then .error s!"selfSeed.add during {ph.name}" else
      if some j.first != fi.toNat? ∨ some j.last != la.toNat? then .error s!"selfSeed.add of {fi}..{la}; the job is {j.first}..{j.last}" else
      match mstep c st (.finish w) s!"finish (position {j.cur} of {j.first}..{j.last} is not settled)" with
      | .error m => .error m
      | .ok st' =>
        if some st'.m.ss.written != written.toNat? then .error s!"selfSeed.written after add: model {st'.m.ss.written}, implementation {written}"
        else .ok (st'.setPh w .added)
  | ["exit"] =>
    let st' := { st with exited := st.exited + 1 }
    match st.job w with
    | none =>
      if st.closed then .ok st' else .error s!"worker {w} ends although the channel is open"
    | some j =>
      -- an error return: only where the Go code has one
      let okHere : Except String Unit :=
        match st.ph w with
        | .failing => .ok ()
        | .writing =>
          match c.source j with
          | some (.file _ seg) =>
            let length := c.ce.endOf j.last - c.ce.startOf j.first
            if (st.removed (srcName seg.src) ∧ ¬ st.opened.getD w false) ∨ length != seg.size then .ok ()
            else .error "WriteInto failed although the seed file exists and the sizes agree"
          | _ => .error "a null-seed write failed"
        | .wc1 | .wc2 =>
          match c.store (c.ce.idOf j.cur) with
          | none => .ok ()
          | some d => if d.length != c.ce.sizeOf j.cur then .ok () else .error s!"writeChunk failed although the store holds the chunk of position {j.cur}"
        | ph => .error s!"worker {w} ends during {ph.name}"
      match okHere with
      | .error m => .error m
      | .ok _ => .ok { st' with failed := true }
  | _ => .error "unknown worker record"

def acAcceptMain (c : ACtx) (st : AState) (f : List String) : AR :=
  match f with
  | ["mut", k, hex] =>
    match k.toNat? with
    | none => .error "mut: bad seed number"
    | some k =>
      if hex == "!" then .ok { st with files := st.files.modify k fun (b, _) => (b, true) }
      else match ofHex hex with
        | some b => .ok { st with files := st.files.set k (b, false) }
        | none => .error "mut: bad content"
  | ["closed", intr] =>
    if st.closed then .error "closed twice" else
    if intr == "1" then
      if st.failed then .ok { st with closed := true } else .error "the feeder saw a cancelled context although no worker has failed"
    else if st.m.taken != c.items.length then .error s!"the feeder closed the channel after {st.m.taken} of {c.items.length} plan items"
    else .ok { st with closed := true }
  | ["returned", ok] =>
    let done := (List.range c.items.length).all fun k => st.m.finished.contains k
    if ok == "1" then
      if ¬ done then .error "AssembleFile returned nil although not every plan item has completed"
      else if st.failed then .error "AssembleFile returned nil although a worker failed"
      else .ok { st with returned := some true }
    else if ¬ st.failed then .error "AssembleFile returned an error although no worker failed"
    else .ok { st with returned := some false }
  | _ => .error "unknown record of the main routine"

def acAcceptRecs (c : ACtx) : List String → Nat → AState → Except (Nat × String) AState
  | [], _, st => .ok st
  | x :: xs, k, st =>
    let res : AR :=
      if st.returned.isSome then .error "a record after AssembleFile returned" else
      match x.splitOn ":" with
      | "m" :: f => acAcceptMain c st f
      | ws :: f =>
        match ws.toNat? with
        | some w => if w < st.m.workers.length then acAcceptWorker c st w f else .error s!"no worker {w}"
        | none => .error s!"unparsable record {x}"
      | [] => .error "empty record"
    match res with
    | .ok st' => acAcceptRecs c xs (k + 1) st'
    | .error m => .error (k, m)

/-- `asmconc.accept` + the fields of `asm.run` + `trace=rec,rec,…` -/
def cmdAsmConcAccept (a : Args) : String :=
  let H := digestOf (a.get "alg")
  let seedStrs := if (a.get "seeds").isEmpty then [] else (a.get "seeds").splitOn ";"
  let fileStrs := if (a.get "files") == "-" then [] else (a.get "files").splitOn ";"
  match parseIdx (a.get "idx"), parseStore (a.get "store"), seedStrs.mapM parseSeed, fileStrs.mapM ofHex with
  | some idx, some stl, some specs, some files =>
    let prior : Option Bytes := if a.get "prior" == "none" then none else ofHex (a.get "prior")
    let e : Asm.Env := { chunks := mkChunks 0 idx, nullID := H (zeros (a.nat "max")), nullReflink := a.bool "nr",
                         selfReflink := a.bool "sr", bs := a.nat "bs" }
    let rechunk : Nat → Bytes → Option (List IChunk) := fun k data =>
      match specs[k]? with
      | none => none
      | some sp =>
        if sp.min < 48 ∨ sp.min > sp.max then none else
        some ((chunkAll { min := sp.min, max := sp.max, d := UInt32.ofNat sp.d } data).map fun (s, n) =>
          { id := H (readUpTo data s n), start := s, size := n })
    let act := actOf (a.get "act")
    let seeds := specs.map (·.seed)
    let fs : FS := { target := truncate (prior.getD []) (indexLength e.chunks), seeds := files }
    let tr := if (a.get "trace").isEmpty then [] else (a.get "trace").splitOn ","
    match findPlan H rechunk e fs act (seeds.length + 1) seeds with
    | none =>
      -- no plan validates (bail-out, or regenerate failed): AssembleFile returns the error before it feeds a job
      if tr == ["m:returned:0"] then s!"accept done=0 finished=0 written=0 file={toHex fs.target}"
      else "reject@0 the model finds no valid plan: AssembleFile returns an error without feeding a job"
    | some (items, _) =>
      let ce : AsmConc.Env := AsmConc.envOf H e items
      let n := a.nat "n"
      let c : ACtx := { H := H, e := e, ce := ce, items := items, store := fun id => (stl.lookup id).join,
                        isBlank := isBlankOf prior, act := act }
      let files0 : List (Bytes × Bool) := files.map fun b => (b, false)
      let st0 : AState := { m := AsmConc.init ce (prior.getD []) n, phase := List.replicate n .idle, files := files0,
                            opened := List.replicate n false }
      match acAcceptRecs c tr 0 st0 with
      | .error (k, m) => s!"reject@{k} {m}"
      | .ok st =>
        if st.returned.isNone then s!"reject@{tr.length} the trace ends before AssembleFile returned" else
        -- the answer is read off `AsmConc.run` on the machine events the records were mapped to: the state theorem
        -- `C01.accepted_trace_safe` speaks about
        match AsmConc.run ce (AsmConc.init ce (prior.getD []) n) st.evs.reverse with
        | none => s!"reject@{tr.length} the machine events do not replay"
        | some m =>
          if m.file != st.m.file ∨ m.finished != st.m.finished then s!"reject@{tr.length} the replay of the machine events ends in another state" else
          let done := (List.range items.length).all fun k => m.finished.contains k
          s!"accept done={b01s (done && st.returned == some true)} finished={m.finished.length} written={m.ss.written} file={toHex m.file}"
  | _, _, _, _ => "bad-op"

def runLine7 (l : String) : String :=
  match l.splitOn " " with
  | "asmconc.accept" :: rest => cmdAsmConcAccept (parseArgs rest)
  | _ => runLine6 l

end Driver
