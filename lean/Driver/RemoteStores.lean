/-
  Driver commands for the S3 / SFTP chunk store model (`Desync/Model/RemoteStores.lean`).

    s3.store  retry=<n> script=<s,s,…> pre=<hex|->  [data=… comp=…: for the implementation side]
        script: the service's answers to the PUT requests in order (`200` succeeds, anything else fails); when the
        script is used up every further request succeeds
        -> res=<ok|error> puts=<n> obj=<new|old|none>
    s3.get    retry=<n> script=<s,s,…> id=<hex> raw=<hex> dec=<ok:hex|err> comp=<0|1> skip=<0|1> alg=<sha256|sha512>
        script entries: `200` (the body `raw`), `404k` NoSuchKey, `404b` NoSuchBucket, `trunc` (read error), any other
        status an error response; after the script: `200`
        -> <ok hex | ok nodata | missing | invalid | other> gets=<n>
    s3.has / sftp.has   stat=<found|notfound|failure>  -> has=<0|1> err=<0|1>
    sftp.store exists=<0|1> create1= mkdir= create2= copyfail=<-|k> remove= close= rename= data=<hex> pre=<hex|->
        [scen=…: the obstacle in the server's file system, for the implementation side]
        -> res=<ok|error> final=<hex|-> tmp=<hex|-> pool=ok
    sftp.get  out=<notexist|openerr|readerr|body> id= raw= dec= comp= skip= alg=  -> as s3.get, without gets= ; pool=ok
-/
import Desync.Model.RemoteStores
import Desync.Hash.Sha2

namespace Driver.Remote
open Desync Desync.Remote

abbrev KV := List (String × String)

def get (a : KV) (k : String) : String := (a.lookup k).getD ""
def flag (a : KV) (k : String) : Bool := get a k == "1"
def nat (a : KV) (k : String) : Nat := (get a k).toNat?.getD 0

def script (a : KV) : List String :=
  let s := get a "script"
  if s.isEmpty then [] else s.splitOn ","

def putOut (sc : List String) (k : Nat) : PutOutcome :=
  match sc[k - 1]? with
  | some s => if s == "200" then .ok else .fail
  | none => .ok

def cmdS3Store (a : KV) : String :=
  let pre := if get a "pre" == "-" then none else ofHex (get a "pre")
  -- the new object is represented by a token: the harness compares the stored bytes with toStorage(data) itself
  let r := s3StoreChunk (nat a "retry") (some [1]) some (putOut (script a)) (pre.map fun _ => [0])
  let obj := match r.obj with
    | none => "none"
    | some b => if b == [1] then "new" else "old"
  s!"res={if r.res == .ok then "ok" else "error"} puts={r.attempts} obj={obj}"

def digestOf (alg : String) : Bytes → Bytes :=
  if alg == "sha256" then Sha2.sha256 else Sha2.sha512_256

def getOut (sc : List String) (raw : Bytes) (k : Nat) : GetOutcome :=
  match sc[k - 1]? with
  | none => .body raw
  | some s =>
    if s == "200" then .body raw
    else if s == "404k" then .noSuchKey
    else if s == "404b" then .noSuchBucket
    else if s == "trunc" then .readErr
    else if s == "open" then .openErr
    else .otherResponse

def resStr (dec : Bytes → Option Bytes) : GetRes → String
  | .ok c =>
    (match (c.getData dec).1 with
     | some b => "ok " ++ toHex b
     | none => "ok nodata")
  | .missing => "missing"
  | .invalid => "invalid"
  | .error => "other"

def decOf (a : KV) : Bytes → Option Bytes :=
  let d := get a "dec"
  let r : Option Bytes := if d.startsWith "ok:" then ofHex ((d.drop 3).toString) else none
  fun _ => r

def convsOf (a : KV) : List Conv := if flag a "comp" then [.compressor] else []

def cmdS3Get (a : KV) : String :=
  match ofHex (get a "id"), ofHex (get a "raw") with
  | some id, some raw =>
    let dec := decOf a
    let (r, n) := s3GetChunk (digestOf (get a "alg")) dec (nat a "retry") id (convsOf a) (flag a "skip")
      (getOut (script a) raw)
    s!"{resStr dec r} gets={n}"
  | _, _ => "bad-op"

def statOf (s : String) : StatOutcome :=
  if s == "found" then .found else if s == "notfound" then .notFound else .failure

def hasStr (h : HasRes) : String := s!"has={if h.has then 1 else 0} err={if h.err then 1 else 0}"

def cmdSftpStore (a : KV) : String :=
  match ofHex (get a "data") with
  | none => "bad-op"
  | some b =>
    let name : Bytes := [110]          -- "n": the final name;  temp name = "n0"
    let digits : Bytes := [48]
    let pre := if get a "pre" == "-" then none else ofHex (get a "pre")
    let d : RDir := ⟨flag a "exists", match pre with | some p => [(name, p)] | none => []⟩
    let e : SftpEnv := ⟨flag a "create1", flag a "mkdir", flag a "create2",
      (if get a "copyfail" == "-" then none else some (nat a "copyfail")), flag a "remove", flag a "close", flag a "rename"⟩
    let r := sftpStoreObject name digits b e d
    let show_ := fun (o : Option Bytes) => match o with | some x => "x" ++ toHex x | none => "-"
    s!"res={if r.res == .ok then "ok" else "error"} final={show_ (r.dir.get name)} tmp={show_ (r.dir.get (name ++ digits))} pool=ok"

def cmdSftpGet (a : KV) : String :=
  match ofHex (get a "id"), ofHex (get a "raw") with
  | some id, some raw =>
    let dec := decOf a
    let o : SftpGetOutcome :=
      match get a "out" with
      | "notexist" => .openNotExist
      | "openerr" => .openErr
      | "readerr" => .readErr
      | _ => .body raw
    s!"{resStr dec (sftpGetChunk (digestOf (get a "alg")) dec id (convsOf a) (flag a "skip") o)} pool=ok"
  | _, _ => "bad-op"

def run (cmd : String) (a : KV) : Option String :=
  match cmd with
  | "s3.store" => some (cmdS3Store a)
  | "s3.get" => some (cmdS3Get a)
  | "s3.has" => some (hasStr (s3HasChunk (statOf (get a "stat"))))
  | "sftp.has" => some (hasStr (sftpHasChunk (statOf (get a "stat"))) ++ " pool=ok")
  | "sftp.store" => some (cmdSftpStore a)
  | "sftp.get" => some (cmdSftpGet a)
  | _ => none

end Driver.Remote
