/-
  Driver commands for the Google Cloud Storage backend model (`Desync/Model/GCStore.lean`).

    gcs.get    script=<s,s,…> id=<hex> raw=<hex> dec=<ok:hex|err> comp=<0|1> skip=<0|1> alg=<sha256|sha512>
        script: the service's answers to the successive download requests for the object (harness/cmd/vh/gcsfake.go):
        `200`, `404`, another status, `trunc:k`, `badcrc`, `wrong`; after the script: `200`.
        `clientRead` below is this file's CLAIM about what the client library (cloud.google.com/go/storage) turns
        such a sequence into before gcs.go sees anything: 408/429/5xx are retried, a broken body is re-opened at the
        offset reached, 404 becomes ErrObjectNotExist, the announced CRC32C of the FIRST answer is checked at the end.
        -> <ok hex | ok nodata | missing | invalid | other> gets=<n>
    gcs.store  script=<s> pre=<hex|->  [data= comp=: implementation side]   (`200`/empty: stored, `lost`: stored, no reply; else refused)
        -> res=<ok|error> posts=<n> obj=<new|old|none>
    gcs.has    stat=<found|notfound|failure>  -> has=<0|1> err=<0|1>
    gcs.bulk   stat= script= pre=  -> as gcs.store (ChunkStorage.StoreChunk's HasChunk-then-StoreChunk)
    gcs.prune  unc= keep=idhex,… files=dirhex/namehex;… page=<n≥1> listfail=<n|-> dels=<normal|refuse|lost>,…
        -> <ok|failed> files
    gcsindex.ops ops=<op;op;…>   s:<namehex>:<bytes hex>:<answer>  |  g:<namehex>:<script with + for ,>
        -> per op: ok | err | ok:<hex>
-/
import Desync.Model.GCStore
import Driver.CmdFlow

namespace Driver.GCSCmd
open Desync Desync.Remote Desync.GCS Driver.Remote

def retried (s : String) : Bool :=
  match s.toNat? with
  | some n => n == 408 || n == 429 || (500 ≤ n && n < 600)
  | none => false

def wrongOf (raw : Bytes) : Bytes := if raw.isEmpty then [120] else raw.map (· ^^^ 0x5a)

/-- the client library between the service and gcs.go: (what GetChunk sees, number of HTTP requests).
    `crc`: none — nothing to check; some none — an announced checksum nothing fits; some (some e) — the checksum of `e` -/
def clientRead (raw : Bytes) : List String → Bool → Bytes → Option (Option Bytes) → Nat → GCS.GetOutcome × Nat
  | [], opened, seen, crc, n =>
    let crc' := if opened then crc else some (some raw)
    let all := seen ++ raw.drop seen.length
    (match crc' with
     | some (some e) => if all == e then .body all else .readErr
     | some none => .readErr
     | none => .body all, n + 1)
  | s :: rest, opened, seen, crc, n =>
    if s == "404" then (if opened then .readNotExist else .openNotExist, n + 1)
    else if retried s then clientRead raw rest opened seen crc (n + 1)
    else if s == "200" || s == "badcrc" || s == "wrong" || s.startsWith "trunc:" then
      let src := if s == "wrong" then wrongOf raw else raw
      let crc' := if opened then crc else some (if s == "badcrc" then none else some src)
      let part := src.drop seen.length
      let k := if s.startsWith "trunc:" then ((s.drop 6).toString.toNat?.getD 0) else part.length
      if k < part.length then clientRead raw rest true (seen ++ part.take k) crc' (n + 1)
      else
        let all := seen ++ part
        (match crc' with
         | some (some e) => if all == e then .body all else .readErr
         | some none => .readErr
         | none => .body all, n + 1)
    else (if opened then .readErr else .openErr, n + 1)

def cmdGet (a : KV) : String :=
  match ofHex (get a "id"), ofHex (get a "raw") with
  | some id, some raw =>
    -- `dec=`: what desync.Decompress makes of `raw`; `wdec=`: of the other bytes a `wrong` answer carries
    let d := get a "wdec"
    let w : Option Bytes := if d.startsWith "ok:" then ofHex ((d.drop 3).toString) else none
    let dec : Bytes → Option Bytes := fun b => if b == raw then decOf a b else w
    let (o, n) := clientRead raw (script a) false [] none 0
    s!"{Remote.resStr dec (gcsGetChunk (digestOf (get a "alg")) dec id (convsOf a) (flag a "skip") o)} gets={n}"
  | _, _ => "bad-op"

def uploadOf (s : String) : UploadOutcome :=
  if s == "" || s == "200" then .stored else if s == "lost" then .storedNoReply else if s == "copyfail" then .copyFailed else .refused

def storeStr (r : StoreOut) : String :=
  let obj := match r.obj with
    | none => "none"
    | some b => if b == [1] then "new" else "old"
  s!"res={if r.res == .ok then "ok" else "error"} posts={r.uploads} obj={obj}"

def preOf (a : KV) : Option Bytes := if get a "pre" == "-" then none else some [0]

def cmdStore (a : KV) : String :=
  storeStr (gcsStoreChunk (some [1]) some (uploadOf (get a "script")) (preOf a))

def cmdBulk (a : KV) : String :=
  storeStr (gcsBulkStore (some [1]) some (statOf (get a "stat")) (uploadOf (get a "script")) (preOf a))

def delOf (s : String) : DelAnswer := if s == "refuse" then .refuse else if s == "lost" then .lost else .normal

def cmdPrune (a : KV) : String :=
  let keepIds := if (get a "keep").isEmpty then [] else ((get a "keep").splitOn ",").filterMap ofHex
  let dels := if (get a "dels").isEmpty then [] else ((get a "dels").splitOn ",")
  let lf := (get a "listfail").toNat?
  let env : PruneEnv := ⟨nat a "page" - 1, fun n => lf == some n, fun k => delOf (dels.getD k "normal")⟩
  match gcsPrune (flag a "unc") (fun id => keepIds.contains id) env (parseFiles (get a "files")) with
  | .ok d => "ok " ++ filesStr d
  | .failed d => "failed " ++ filesStr d

/-- the index store as a map name ↦ bytes under a sequence of StoreIndex / GetIndex calls -/
def idxOps (ops : List String) (st : List (String × Bytes)) (acc : List String) : List String :=
  match ops with
  | [] => acc.reverse
  | op :: rest =>
    match op.splitOn ":" with
    | ["s", name, hex, ans] =>
      (match ofHex hex with
       | none => idxOps rest st ("bad-op" :: acc)
       | some b =>
         let (r, obj) := gcsIndexStore (some b) [] (uploadOf ans) (st.lookup name)
         let st' := match obj with
           | some o => (name, o) :: st.filter (·.1 != name)
           | none => st.filter (·.1 != name)
         idxOps rest st' ((if r == .ok then "ok" else "err") :: acc))
    | "g" :: name :: scParts =>
      let sc := String.intercalate ":" scParts
      let script := if sc.isEmpty then [] else sc.splitOn "+"
      let o : IdxGetOutcome :=
        match st.lookup name with
        | none => if script.all retried then .openNotExist else
            -- the first answer that is not retried decides: a scripted refusal, or 404 from the service itself
            (match script.find? (fun s => !retried s) with
             | some s => if s == "404" || s == "200" || s == "badcrc" || s == "wrong" || s.startsWith "trunc:" then .openNotExist else .openErr
             | none => .openNotExist)
        | some b =>
          match (clientRead b script false [] none 0).1 with
          | .body x => .body x
          | .openNotExist => .openNotExist
          | .openErr => .openErr
          | .readNotExist => .readErr []
          | .readErr => .readErr []
      idxOps rest st ((match gcsIndexGet o with | .ok b => "ok:" ++ toHex b | .error => "err") :: acc)
    | _ => idxOps rest st ("bad-op" :: acc)

def cmdIndexOps (a : KV) : String :=
  let ops := if (get a "ops").isEmpty then [] else (get a "ops").splitOn ";"
  String.intercalate "," (idxOps ops [] [])

end Driver.GCSCmd

namespace Driver
open Desync

def runLineGCS (l : String) : String :=
  match l.splitOn " " with
  | "gcs.get" :: rest => GCSCmd.cmdGet (parseArgs rest)
  | "gcs.store" :: rest => GCSCmd.cmdStore (parseArgs rest)
  | "gcs.bulk" :: rest => GCSCmd.cmdBulk (parseArgs rest)
  | "gcs.has" :: rest => Remote.hasStr (GCS.gcsHasChunk (Remote.statOf (Remote.get (parseArgs rest) "stat")))
  | "gcs.prune" :: rest => GCSCmd.cmdPrune (parseArgs rest)
  | "gcsindex.ops" :: rest => GCSCmd.cmdIndexOps (parseArgs rest)
  | _ => runLineCmdFlow l

end Driver
