/-
  Driver commands for the assemble model (C01, C08).
-/
import Driver.Cmds
import Desync.Model.Assemble
import Desync.Model.CrashFS

namespace Driver
open Desync Desync.Asm

/-- `size:idhex,…` -/
def parseIdx (s : String) : Option (List (Bytes × Nat)) :=
  if s.isEmpty then some [] else
  (s.splitOn ",").mapM fun p =>
    match p.splitOn ":" with
    | [sz, id] => match sz.toNat?, ofHex id with
      | some n, some b => some (b, n)
      | _, _ => none
    | _ => none

/-- `idhex:datahex` or `idhex:!` (a failing fetch) -/
def parseStore (s : String) : Option (List (Bytes × Option Bytes)) :=
  if s.isEmpty then some [] else
  (s.splitOn ",").mapM fun p =>
    match p.splitOn ":" with
    | [id, "!"] => (ofHex id).map fun b => (b, none)
    | [id, d] => match ofHex id, ofHex d with
      | some b, some x => some (b, some x)
      | _, _ => none
    | _ => none

structure SeedSpec where
  seed : Seed
  min : Nat
  max : Nat
  d : Nat

/-- `T|k / reflink / min / avg / d / max / size:id,…` -/
def parseSeed (s : String) : Option SeedSpec :=
  match s.splitOn "/" with
  | [src, rf, mn, _avg, d, mx, cs] =>
    let src' : Option Src := if src == "T" then some .target else src.toNat?.map .seed
    match src', parseIdx cs with
    | some sr, some l =>
      some { seed := { src := sr, chunks := mkChunks 0 l, canReflink := rf == "1" },
             min := mn.toNat?.getD 0, max := mx.toNat?.getD 0, d := d.toNat?.getD 0 }
    | _, _ => none
  | _ => none

def actOf (s : String) : Action :=
  if s == "skip" then .skip else if s == "regen" then .regenerate else .bailOut

def statsStr (s : Stats) : String := s!"{s.fromStore},{s.inPlace},{s.fromSeed},{s.copied},{s.cloned}"

def planStr (p : List PlanItem) : String :=
  String.intercalate "," (p.map fun it =>
    let k := match it.source with
      | .store => "S"
      | .file k _ => s!"F{k}"
      | .null _ _ _ => "N"
    s!"{it.first}-{it.last}:{k}")

/-- `asm.run alg= bs= max= nr= sr= act= prior=none|hex idx= store= seeds=a;b files=hex;hex` -/
def cmdAsmRun (a : Args) (planOnly : Bool) : String :=
  let H := digestOf (a.get "alg")
  let seedStrs := if (a.get "seeds").isEmpty then [] else (a.get "seeds").splitOn ";"
  let fileStrs := if (a.get "files") == "-" then [] else (a.get "files").splitOn ";"
  match parseIdx (a.get "idx"), parseStore (a.get "store"), seedStrs.mapM parseSeed, fileStrs.mapM ofHex with
  | some idx, some st, some specs, some files =>
    let prior : Option Bytes := if a.get "prior" == "none" then none else ofHex (a.get "prior")
    let e : Env := { chunks := mkChunks 0 idx, nullID := H (zeros (a.nat "max")), nullReflink := a.bool "nr",
                     selfReflink := a.bool "sr", bs := a.nat "bs" }
    let rechunk : Nat → Bytes → Option (List IChunk) := fun k data =>
      match specs[k]? with
      | none => none
      | some sp =>
        if sp.min < 48 ∨ sp.min > sp.max then none else
        some ((chunkAll { min := sp.min, max := sp.max, d := UInt32.ofNat sp.d } data).map fun (s, n) =>
          { id := H (readUpTo data s n), start := s, size := n })
    let cf : Cfg := { H := H, store := fun id => (st.lookup id).join, ovl := fun t so _ len => readUpTo t so len,
                      rechunk := rechunk, isBlank := isBlankOf prior, act := actOf (a.get "act") }
    let seeds := specs.map (·.seed)
    if planOnly then planStr (plan e seeds) else
    match assemble cf e seeds files prior with
    | none => "err"
    | some r => s!"ok t={toHex r.fs.target} st={statsStr r.stats} fuzzy={if r.fuzzy then 1 else 0}"
  | _, _, _, _ => "bad-op"

/-- `asm.clone dst= src= same= so= len= do= bs=` : the FICLONERANGE emulation -/
def cmdAsmClone (a : Args) : String :=
  match a.bytes "dst", a.bytes "src" with
  | some d, some s =>
    match cloneRange d s (a.bool "same") (a.nat "so") (a.nat "len") (a.nat "do") (a.nat "bs") with
    | none => "einval"
    | some t => "ok " ++ toHex t
  | _, _ => "bad-op"

/-- `crash.accept writers=finalhex|tmphex|payloadhex;… events=mk:i,create:i,write:i:k,close:i,rename:i,werr:i` :
    replay a syscall trace of `LocalStore.StoreChunk` through the crash machine -/
def cmdCrashAccept (a : Args) : String :=
  let ws : Option (List CrashFS.Writer) :=
    (if (a.get "writers").isEmpty then [] else (a.get "writers").splitOn ";").mapM fun w =>
      match w.splitOn "|" with
      | [f, t, p] => match ofHex f, ofHex t, ofHex p with
        | some f, some t, some p => some { final := f, tmp := t, payload := p }
        | _, _, _ => none
      | _ => none
  let evs : Option (List CrashFS.Ev) :=
    (if (a.get "events").isEmpty then [] else (a.get "events").splitOn ",").mapM fun e =>
      match e.splitOn ":" with
      | ["mk", i] => i.toNat?.map .mkdir
      | ["create", i] => i.toNat?.map .create
      | ["write", i, k] => match i.toNat?, k.toNat? with
        | some i, some k => some (.write i k)
        | _, _ => none
      | ["werr", i] => i.toNat?.map .writeErr
      | ["close", i] => i.toNat?.map .close
      | ["rename", i] => i.toNat?.map .rename
      | _ => none
  match ws, evs with
  | some ws, some evs =>
    let rec go (s : CrashFS.St) (k : Nat) : List CrashFS.Ev → String
      | [] =>
        let ents := s.dir.map fun (n, c) => toHex n ++ ":" ++ toHex c
        "ok dir=" ++ String.intercalate "," (ents.toArray.qsort (· < ·)).toList
      | e :: es => match CrashFS.step s e with
        | none => s!"reject at event {k}"
        | some s' => go s' (k + 1) es
    go { dir := [], writers := ws } 0 evs
  | _, _ => "bad-op"

def runLine2 (l : String) : String :=
  match l.splitOn " " with
  | "asm.run" :: rest => cmdAsmRun (parseArgs rest) false
  | "asm.plan" :: rest => cmdAsmRun (parseArgs rest) true
  | "asm.clone" :: rest => cmdAsmClone (parseArgs rest)
  | "crash.accept" :: rest => cmdCrashAccept (parseArgs rest)
  | _ => runLine l

end Driver
