/-
  Driver command for the index stores (C04): `istore.ops kind=local|http|s3|sftp alg= retry= writable= ops=<op>;<op>;…`
  runs a history of store / get operations with faults on `Model/IndexStore.lean` and prints every result and
  the final content of the store.

  op      = S|<name hex>|<faults>|<flags>:<min>:<avg>:<max>|<size>:<id hex>,…      StoreIndex
          | G|<name hex>|<faults>                                                  GetIndex
  faults  = -                       none
          | w<k>                    (local) `WriteTo` fails after k bytes; (s3/sftp) any fault: the put fails
          | f1,f2,…                 (http) one fate per attempt:  b = 503 in front of the handler, r = connection reset,
                                    p = the handler runs, l = it runs and the response is lost,
                                    w<k> / w<k>l = it runs, its store fails after k bytes (response delivered / lost)
  result  = ok | err  (store; `@attempts` appended for http),  ok <index> | notfound | err <kind>  (get)
-/
import Desync.Model.IndexStore

namespace Driver.IStoreCmd
open Desync Desync.IStore

def arg (a : List (String × String)) (k : String) : String := (a.lookup k).getD ""

def parseChunks (s : String) : Option (List IndexChunk) :=
  if s.isEmpty then some [] else
  let rec go (ps : List String) (start : UInt64) (acc : List IndexChunk) : Option (List IndexChunk) :=
    match ps with
    | [] => some acc.reverse
    | p :: ps =>
      match p.splitOn ":" with
      | [sz, id] =>
        match sz.toNat?, ofHex id with
        | some n, some idb =>
          let z := UInt64.ofNat n
          go ps (start + z) (⟨idb, start, z⟩ :: acc)
        | _, _ => none
      | _ => none
  go (s.splitOn ",") 0 []

def parseIndex (hdr chunks : String) : Option Index :=
  match hdr.splitOn ":" with
  | [f, mn, av, mx] =>
    match f.toNat?, mn.toNat?, av.toNat?, mx.toNat?, parseChunks chunks with
    | some f, some mn, some av, some mx, some cs =>
      some ⟨UInt64.ofNat f, UInt64.ofNat mn, UInt64.ofNat av, UInt64.ofNat mx, cs⟩
    | _, _, _, _, _ => none
  | _ => none

def indexStr (i : Index) : String :=
  s!"{i.flags.toNat}/{i.min.toNat}/{i.avg.toNat}/{i.max.toNat}/" ++
    String.intercalate "," (i.chunks.map fun c => s!"{c.start.toNat}:{c.size.toNat}:{toHex c.id}")

def getStr : GetRes → String
  | .ok i => "ok " ++ indexStr i
  | .notFound => "notfound"
  | .decodeErr e => "err " ++ e.name
  | .otherErr => "err other"
  | .panicked => "panic"

def parseLocalFault (s : String) : Option StoreFault :=
  if s == "-" then some .none
  else if s.startsWith "w" then ((s.drop 1).toString.toNat?).map .writeFails
  else none

def parseFate (s : String) : Option Fate :=
  match s with
  | "b" => some .busy
  | "r" => some .reset
  | "p" => some (.run .none false)
  | "l" => some (.run .none true)
  | _ =>
    if s.startsWith "w" then
      let lost := s.endsWith "l"
      let num := if lost then (s.drop 1).toString.dropEnd 1 |>.toString else (s.drop 1).toString
      num.toNat?.map fun k => .run (.writeFails k) lost
    else none

def parseFates (s : String) : Option (List Fate) :=
  if s == "-" || s.isEmpty then some [] else (s.splitOn ",").mapM parseFate

def dirStr (d : Dir) : String :=
  String.intercalate "," ((d.map fun (n, b) => toHex n ++ ":" ++ toHex b).toArray.qsort (· < ·)).toList

structure Env where
  kind : String
  alg : DigestAlg
  client : ClientCfg
  srv : Srv

def runOp (e : Env) (d : Dir) (op : String) : Option (Dir × String) :=
  match op.splitOn "|" with
  | ["S", name, faults, hdr, chunks] => do
    let n ← ofHex name
    let i ← parseIndex hdr chunks
    match e.kind with
    | "local" =>
      let f ← parseLocalFault faults
      let (d', ok) := localStore localCfg d n i f
      pure (d', if ok then "ok" else "err")
    | "http" =>
      let fs ← parseFates faults
      let (d', ok, k) := httpStore e.client e.srv d n i fs
      pure (d', (if ok then "ok" else "err") ++ s!"@{k}")
    | _ =>
      let (d', ok) := atomicStore d n i (faults != "-")
      pure (d', if ok then "ok" else "err")
  | ["G", name, faults] => do
    let n ← ofHex name
    match e.kind with
    | "local" => pure (d, getStr (localGet e.alg d n))
    | "http" =>
      let fs ← parseFates faults
      let (d', r, k) := httpGet e.client e.srv d n fs
      pure (d', getStr r ++ s!"@{k}")
    | _ => pure (d, getStr (atomicGet e.alg d n))
  | _ => none

def cmdIStoreOps (a : List (String × String)) : String :=
  let alg : DigestAlg := if arg a "alg" == "sha256" then .sha256 else .sha512_256
  let retry := (arg a "retry").toNat?.getD 0
  let writable := arg a "writable" != "0"
  let e : Env := { kind := arg a "kind", alg := alg, client := clientCfg retry [],
                   srv := ⟨{ auth := [], writable := writable, skipVerifyWrite := false, compressed := false,
                             storeIsWritable := true }, alg, localCfg⟩ }
  let ops := if (arg a "ops").isEmpty then [] else (arg a "ops").splitOn ";"
  let rec go (ops : List String) (d : Dir) (acc : List String) : String :=
    match ops with
    | [] => String.intercalate ";" acc.reverse ++ " dir=" ++ dirStr d
    | op :: rest =>
      match runOp e d op with
      | none => "bad-op"
      | some (d', r) => go rest d' (r :: acc)
  go ops [] []

end Driver.IStoreCmd
