import Desync.Basic.Bytes
import Desync.Generated.Facts
import Desync.Model.Format
import Desync.Model.IndexCodec
import Desync.Properties.C04
import Desync.Model.Archive
import Desync.Proofs.GoodbyeProofs
import Desync.Properties.C02
