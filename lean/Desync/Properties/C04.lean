/-
  C04 — Index files round-trip exactly and malformed ones are rejected.

  Property theorems only (helper lemmas live in `Proofs/`).  Model: `Model/IndexCodec.lean`
  (`encodeIndex` = `Index.WriteTo`, `decodeIndex` = `IndexFromReader`), tied to /repo by
  the regenerated constants/tail-record expressions in `Generated/Facts.lean` and by the
  behavioural correspondence `idx.encode` / `idx.decode`.
-/
import Desync.Proofs.IndexCodecProofs

namespace Desync.C04
open Desync

/-- the digest flag of the index agrees with the digest the process is configured for -/
def FlagOK (alg : DigestAlg) (flags : UInt64) : Prop :=
  match alg with
  | .sha512_256 => flags &&& Gen.CaFormatSHA512256 ≠ 0
  | .sha256 => flags &&& Gen.CaFormatSHA512256 = 0

instance (alg : DigestAlg) (flags : UInt64) : Decidable (FlagOK alg flags) := by
  unfold FlagOK; cases alg <;> exact inferInstance

/-- an index as the rest of desync produces them: cumulative starts, 32-byte IDs, sizes within
    the declared maximum, every end offset in `(0, 2^64)`, digest flag matching -/
def WF (alg : DigestAlg) (i : Index) : Prop :=
  FlagOK alg i.flags ∧ ChunksOK i.max 0 i.chunks

/-- what a reader may rely on after `IndexFromReader` succeeded: starts are cumulative from 0
    without wrap-around (so offsets never decrease) and no chunk exceeds the declared max -/
def Consistent (max : UInt64) : Nat → List IndexChunk → Prop
  | _, [] => True
  | st, c :: cs =>
    c.start.toNat = st ∧ c.size ≤ max ∧ st + c.size.toNat < 2 ^ 64 ∧
    Consistent max (st + c.size.toNat) cs

/-! ### round trip -/

theorem decode_encode_st (alg : DigestAlg) (i : Index) (h : WF alg i) (r : Bytes) (a : Nat) :
    decodeIndexSt alg ⟨encodeIndex i ++ r, a⟩ = .ok (i, ⟨r, a + 32 * i.chunks.length⟩) := by
  obtain ⟨hflag, hch⟩ := h
  obtain ⟨hoff, hid, hlen⟩ := tableItemsFrom_props i.max 0 0 i.chunks rfl hch
  unfold decodeIndexSt encodeIndex
  rw [List.append_assoc, decNext_index_enc]
  simp only [Res.ok_bind]
  have hnot : ¬((alg = .sha512_256 ∧ ¬ (i.flags &&& Gen.CaFormatSHA512256 ≠ 0)) ∨
      (alg = .sha256 ∧ (i.flags &&& Gen.CaFormatSHA512256 ≠ 0))) := by
    unfold FlagOK at hflag
    cases alg <;> simp_all
  rw [if_neg hnot, decNext_table_enc _ _ _ hoff hid]
  simp only [Res.ok_bind]
  rw [chunksFromTable_tableItemsFrom i.max 0 0 i.chunks rfl hch]
  simp only [Res.ok_bind, Res.pure_eq, hlen]

/-- **Round trip**: reading back what `WriteTo` wrote yields the same parameters and table. -/
theorem decode_encode (alg : DigestAlg) (i : Index) (h : WF alg i) :
    decodeIndex alg (encodeIndex i) = .ok i := by
  unfold decodeIndex
  have := decode_encode_st alg i h [] 0
  rw [List.append_nil] at this
  rw [this]; rfl

/-! ### malformed input -/

theorem decodeIndexSt_ext (alg : DigestAlg) (s s' : St) (i : Index) (q : Bytes)
    (h : decodeIndexSt alg s = .ok (i, s')) :
    decodeIndexSt alg (s.app q) = .ok (i, s'.app q) := by
  unfold decodeIndexSt at h ⊢
  cases h1 : decNext s with
  | err e => rw [h1] at h; cases h
  | panic p => rw [h1] at h; cases h
  | ok a =>
    obtain ⟨e, s1⟩ := a
    rw [h1] at h
    simp only [Res.ok_bind] at h
    cases e with
    | none => simp at h
    | some e =>
      rw [decNext_ext s q e s1 h1]
      simp only [Res.ok_bind]
      cases e <;> try (simp at h; done)
      rename_i sz ff mn av mx
      simp only at h ⊢
      split at h
      · cases h
      · rename_i hc
        rw [if_neg hc]
        cases h2 : decNext s1 with
        | err e => rw [h2] at h; cases h
        | panic p => rw [h2] at h; cases h
        | ok a =>
          obtain ⟨e2, s2⟩ := a
          rw [h2] at h
          simp only [Res.ok_bind] at h
          cases e2 with
          | none => simp at h
          | some e2 =>
            rw [decNext_ext s1 q e2 s2 h2]
            simp only [Res.ok_bind]
            cases e2 <;> try (simp at h; done)
            rename_i tsz items
            simp only at h ⊢
            cases h3 : chunksFromTable mx 0 items with
            | err e => rw [h3] at h; cases h
            | panic p => rw [h3] at h; cases h
            | ok cs =>
              rw [h3] at h
              simp only [Res.ok_bind, Res.pure_eq] at h ⊢
              injection h with h
              injection h with hi hs
              subst hi; subst hs; rfl

theorem chunksFromTable_nopanic (max last : UInt64) (items : List TableItem) :
    NoPanic (chunksFromTable max last items) := by
  induction items generalizing last with
  | nil => exact NoPanic.ok _
  | cons r rs ih =>
    unfold chunksFromTable
    apply NoPanic.ite <;> intro _
    · exact NoPanic.err _
    · apply NoPanic.ite <;> intro _
      · exact NoPanic.err _
      · apply NoPanic.bind (ih _)
        intro _ _; exact NoPanic.pure _

/-- `IndexFromReader` never panics, whatever the bytes. -/
theorem decodeIndexSt_nopanic (alg : DigestAlg) (s : St) : NoPanic (decodeIndexSt alg s) := by
  unfold decodeIndexSt
  apply NoPanic.bind (decNext_nopanic s)
  intro ⟨e, s1⟩ _
  dsimp only
  split
  · apply NoPanic.ite <;> intro _
    · exact NoPanic.err _
    · apply NoPanic.bind (decNext_nopanic _)
      intro ⟨e2, s2⟩ _
      dsimp only
      split
      · apply NoPanic.bind (chunksFromTable_nopanic _ _ _)
        intro _ _; exact NoPanic.pure _
      · exact NoPanic.err _
  · exact NoPanic.err _

/-- **Truncation**: every strict prefix of a written index is rejected with an error. -/
theorem prefix_rejected (alg : DigestAlg) (i : Index) (h : WF alg i) (k : Nat)
    (hk : k < (encodeIndex i).length) :
    ∃ e, decodeIndex alg ((encodeIndex i).take k) = .err e := by
  unfold decodeIndex
  cases hd : decodeIndexSt alg ⟨(encodeIndex i).take k, 0⟩ with
  | err e => exact ⟨e, rfl⟩
  | panic p => exact absurd hd (decodeIndexSt_nopanic alg _ p)
  | ok a =>
    exfalso
    obtain ⟨j, s'⟩ := a
    have hext := decodeIndexSt_ext alg _ s' j ((encodeIndex i).drop k) hd
    simp only [St.app_mk, List.take_append_drop] at hext
    have hfull := decode_encode_st alg i h [] 0
    rw [List.append_nil] at hfull
    rw [hfull] at hext
    injection hext with hext
    injection hext with _ hs
    have hr := congrArg St.rest hs
    simp only [St.app_rest] at hr
    have hl := congrArg List.length hr
    simp only [List.length_nil, List.length_append, List.length_drop] at hl
    omega

theorem chunksFromTable_consistent (max last : UInt64) (items : List TableItem)
    (cs : List IndexChunk) (h : chunksFromTable max last items = .ok cs) :
    Consistent max last.toNat cs := by
  induction items generalizing last cs with
  | nil => simp [chunksFromTable] at h; subst h; trivial
  | cons r rs ih =>
    unfold chunksFromTable at h
    split at h
    · cases h
    · rename_i hlt
      split at h
      · cases h
      · rename_i hgt
        cases hrec : chunksFromTable max r.offset rs with
        | err e => rw [hrec] at h; cases h
        | panic p => rw [hrec] at h; cases h
        | ok cs' =>
          rw [hrec] at h
          simp only [Res.ok_bind, Res.pure_eq] at h
          injection h with h
          subst h
          have hle : last ≤ r.offset := by
            rw [UInt64.le_iff_toNat_le]; rw [UInt64.lt_iff_toNat_lt] at hlt; omega
          have hsub := UInt64.toNat_sub_of_le _ _ hle
          have hle' := UInt64.le_iff_toNat_le.mp hle
          have hroff := r.offset.toNat_lt
          refine ⟨rfl, ?_, ?_, ?_⟩
          · show r.offset - last ≤ max
            rw [UInt64.le_iff_toNat_le]
            have : ¬ (max < r.offset - last) := hgt
            rw [UInt64.lt_iff_toNat_lt] at this; omega
          · simp only; omega
          · have := ih r.offset cs' hrec
            simp only
            rw [hsub]
            have he : last.toNat + (r.offset.toNat - last.toNat) = r.offset.toNat := by omega
            rw [he]; exact this

/-- **Soundness of acceptance**: a table that is accepted has cumulative, non-decreasing
    offsets without wrap-around, and no chunk exceeds the declared maximum. -/
theorem decode_consistent (alg : DigestAlg) (b : Bytes) (i : Index)
    (h : decodeIndex alg b = .ok i) : Consistent i.max 0 i.chunks ∧ FlagOK alg i.flags := by
  unfold decodeIndex at h
  cases hd : decodeIndexSt alg ⟨b, 0⟩ with
  | err e => rw [hd] at h; cases h
  | panic p => rw [hd] at h; cases h
  | ok a =>
    obtain ⟨j, s'⟩ := a
    rw [hd] at h
    simp only [Res.ok_bind, Res.pure_eq] at h
    injection h with h
    subst h
    unfold decodeIndexSt at hd
    cases h1 : decNext ⟨b, 0⟩ with
    | err e => rw [h1] at hd; cases hd
    | panic p => rw [h1] at hd; cases hd
    | ok a =>
      obtain ⟨e, s1⟩ := a
      rw [h1] at hd
      simp only [Res.ok_bind] at hd
      cases e with
      | none => simp at hd
      | some e =>
        cases e <;> try (simp at hd; done)
        rename_i sz ff mn av mx
        simp only at hd
        split at hd
        · cases hd
        · rename_i hc
          cases h2 : decNext s1 with
          | err e => rw [h2] at hd; cases hd
          | panic p => rw [h2] at hd; cases hd
          | ok a =>
            obtain ⟨e2, s2⟩ := a
            rw [h2] at hd
            simp only [Res.ok_bind] at hd
            cases e2 with
            | none => simp at hd
            | some e2 =>
              cases e2 <;> try (simp at hd; done)
              rename_i tsz items
              simp only at hd
              cases h3 : chunksFromTable mx 0 items with
              | err e => rw [h3] at hd; cases hd
              | panic p => rw [h3] at hd; cases hd
              | ok cs =>
                rw [h3] at hd
                simp only [Res.ok_bind, Res.pure_eq] at hd
                injection hd with hd
                injection hd with hi _
                subst hi
                refine ⟨chunksFromTable_consistent mx 0 items cs h3, ?_⟩
                unfold FlagOK
                cases alg <;> simp_all

/-- **Digest flag**: bytes whose index header disagrees with the configured digest are never
    accepted (contrapositive of the second half of `decode_consistent`). -/
theorem digest_mismatch_rejected (alg : DigestAlg) (b : Bytes) (i : Index)
    (h : decodeIndex alg b = .ok i) : FlagOK alg i.flags :=
  (decode_consistent alg b i h).2

/-! ### layout -/

theorem encTableItems_length (items : List TableItem) (hid : ∀ it ∈ items, it.id.length = 32) :
    (encTableItems items).length = 40 * items.length := by
  induction items with
  | nil => rfl
  | cons it items ih =>
    have h1 := hid it (by simp)
    have h2 := ih (fun x hx => hid x (by simp [hx]))
    simp only [encTableItems, List.flatMap_cons, List.length_append, le64_length,
      List.length_cons] at h2 ⊢
    omega

/-- **Layout**: the bytes written are casync's caibx/caidx layout — a 48-byte index header, a
    table header with size 2^64-1, one 40-byte item (end offset, 32-byte ID) per chunk, and a
    40-byte tail record `[0, 0, 48, 16+40k+40, marker]`.  The literals on the right-hand side
    are casync's; the left-hand side uses the expressions regenerated from `format.go`. -/
theorem encode_layout (i : Index) (hid : ∀ c ∈ i.chunks, c.id.length = 32) :
    encodeIndex i =
      (le64 48 ++ le64 Gen.CaFormatIndex ++ le64 i.flags ++ le64 i.min ++ le64 i.avg ++ le64 i.max)
      ++ (le64 0xFFFFFFFFFFFFFFFF ++ le64 Gen.CaFormatTable)
      ++ encTableItems (tableItemsFrom 0 i.chunks)
      ++ (le64 0 ++ le64 0 ++ le64 48 ++ le64 (UInt64.ofNat (16 + 40 * i.chunks.length + 40))
          ++ le64 Gen.CaFormatTableTailMarker) := by
  have hlen : ∀ (off : UInt64) (cs : List IndexChunk), (∀ c ∈ cs, c.id.length = 32) →
      (∀ it ∈ tableItemsFrom off cs, it.id.length = 32) ∧ (tableItemsFrom off cs).length = cs.length := by
    intro off cs
    induction cs generalizing off with
    | nil => intro _; simp [tableItemsFrom]
    | cons c cs ih =>
      intro h
      obtain ⟨h1, h2⟩ := ih (off + c.size) (fun x hx => h x (by simp [hx]))
      refine ⟨?_, by simp [tableItemsFrom, h2]⟩
      intro it hit
      simp only [tableItemsFrom, List.mem_cons] at hit
      rcases hit with rfl | hit
      · exact h c (by simp)
      · exact h1 it hit
  obtain ⟨h32, hk⟩ := hlen 0 i.chunks hid
  have hbody : (encU64s [0xFFFFFFFFFFFFFFFF, Gen.CaFormatTable]
      ++ encTableItems (tableItemsFrom 0 i.chunks)).length = 16 + 40 * i.chunks.length := by
    simp [encU64s, encTableItems_length _ h32, hk]; omega
  unfold encodeIndex
  simp only [encElem, hbody]
  have hsz : Gen.tableTailSize (UInt64.ofNat (16 + 40 * i.chunks.length))
      = UInt64.ofNat (16 + 40 * i.chunks.length + 40) := by
    unfold Gen.tableTailSize
    simp [UInt64.ofNat_add]
  have hoff : Gen.tableTailIndexOffset = 48 := by decide
  rw [hsz, hoff]
  simp [encU64s, List.append_assoc]

theorem encode_length (i : Index) (hid : ∀ c ∈ i.chunks, c.id.length = 32) :
    (encodeIndex i).length = 48 + 16 + 40 * i.chunks.length + 40 := by
  rw [encode_layout i hid]
  have hlen : ∀ (off : UInt64) (cs : List IndexChunk), (∀ c ∈ cs, c.id.length = 32) →
      (encTableItems (tableItemsFrom off cs)).length = 40 * cs.length := by
    intro off cs
    induction cs generalizing off with
    | nil => intro _; rfl
    | cons c cs ih =>
      intro h
      have h1 := ih (off + c.size) (fun x hx => h x (by simp [hx]))
      have h2 := h c (by simp)
      simp only [tableItemsFrom, encTableItems, List.flatMap_cons, List.length_append, le64_length,
        List.length_cons] at h1 ⊢
      omega
  simp only [List.length_append, le64_length, hlen 0 i.chunks hid]

/-! ### an independent parser (written from casync's format description, sharing nothing
    with `decNext`) recovers the same table -/

def indepItems : Nat → Bytes → Option (List TableItem)
  | 0, _ => none
  | f+1, b =>
    if b.length < 8 then none
    else if u64OfLE b = 0 then some []
    else if b.length < 40 then none
    else (indepItems f (b.drop 40)).map (⟨u64OfLE b, (b.drop 8).take 32⟩ :: ·)

/-- skip the 48-byte index header and the 16-byte table header, then read 40-byte items up
    to the zero offset -/
def indepParse (b : Bytes) : Option (List TableItem) :=
  if b.length < 64 then none else indepItems b.length (b.drop 64)

theorem indepItems_enc (items : List TableItem) (r : Bytes) (f : Nat) (hf : items.length < f)
    (hoff : ∀ it ∈ items, it.offset ≠ 0) (hid : ∀ it ∈ items, it.id.length = 32) :
    indepItems f (encTableItems items ++ (le64 0 ++ r)) = some items := by
  induction items generalizing f with
  | nil =>
    obtain ⟨g, rfl⟩ : ∃ g, f = g + 1 := ⟨f - 1, by simp at hf; omega⟩
    simp [indepItems, encTableItems, u64OfLE_le64_append]
  | cons it items ih =>
    obtain ⟨g, rfl⟩ : ∃ g, f = g + 1 := ⟨f - 1, by simp at hf; omega⟩
    have ho := hoff it (by simp)
    have hi := hid it (by simp)
    have henc : encTableItems (it :: items) ++ (le64 0 ++ r)
        = le64 it.offset ++ (it.id ++ (encTableItems items ++ (le64 0 ++ r))) := by
      simp [encTableItems, List.append_assoc]
    rw [henc]
    unfold indepItems
    have hl8 : ¬ (le64 it.offset ++ (it.id ++ (encTableItems items ++ (le64 0 ++ r)))).length < 8 := by
      simp
    have hl40 : ¬ (le64 it.offset ++ (it.id ++ (encTableItems items ++ (le64 0 ++ r)))).length < 40 := by
      simp [hi]; omega
    rw [if_neg hl8, u64OfLE_le64_append, if_neg ho, if_neg hl40]
    have hd40 : (le64 it.offset ++ (it.id ++ (encTableItems items ++ (le64 0 ++ r)))).drop 40
        = encTableItems items ++ (le64 0 ++ r) := by
      rw [← List.append_assoc, List.drop_append_of_le_length (by simp [hi])]
      simp [hi]
    have hd8 : ((le64 it.offset ++ (it.id ++ (encTableItems items ++ (le64 0 ++ r)))).drop 8).take 32
        = it.id := by
      rw [List.drop_append_of_le_length (by simp)]
      have h0 : List.drop 8 (le64 it.offset) = [] := List.drop_of_length_le (by simp)
      rw [h0, List.nil_append, List.take_append_of_le_length (by omega)]
      exact List.take_of_length_le (by omega)
    rw [hd40, hd8, ih g (by simp at hf; omega) (fun x hx => hoff x (by simp [hx]))
      (fun x hx => hid x (by simp [hx]))]
    rfl

/-- **Independent parser**: the table an independent caibx parser reads from the written bytes
    is exactly the list of (end offset, ID) pairs of the index. -/
theorem indep_parse (alg : DigestAlg) (i : Index) (h : WF alg i) :
    indepParse (encodeIndex i) = some (tableItemsFrom 0 i.chunks) := by
  obtain ⟨_, hch⟩ := h
  obtain ⟨hoff, hid, hlen⟩ := tableItemsFrom_props i.max 0 0 i.chunks rfl hch
  have hid' : ∀ c ∈ i.chunks, c.id.length = 32 := by
    have : ∀ (st : Nat) (cs : List IndexChunk), ChunksOK i.max st cs → ∀ c ∈ cs, c.id.length = 32 := by
      intro st cs
      induction cs generalizing st with
      | nil => intro _ c hc; cases hc
      | cons c cs ih =>
        intro hok x hx
        obtain ⟨h1, _, _, _, _, h6⟩ := hok
        simp only [List.mem_cons] at hx
        rcases hx with rfl | hx
        · exact h1
        · exact ih _ h6 x hx
    exact this 0 i.chunks hch
  have hL := encode_length i hid'
  unfold indepParse
  rw [if_neg (by omega)]
  rw [encode_layout i hid']
  have hdrop : ∀ (t : Bytes), ((le64 48 ++ le64 Gen.CaFormatIndex ++ le64 i.flags ++ le64 i.min ++ le64 i.avg
      ++ le64 i.max) ++ (le64 0xFFFFFFFFFFFFFFFF ++ le64 Gen.CaFormatTable) ++ t).drop 64 = t := by
    intro t
    rw [List.drop_append_of_le_length (by simp)]
    simp
  rw [List.append_assoc (_ ++ _) (encTableItems _) _, hdrop]
  have := indepItems_enc (tableItemsFrom 0 i.chunks)
    (le64 0 ++ le64 48 ++ le64 (UInt64.ofNat (16 + 40 * i.chunks.length + 40)) ++ le64 Gen.CaFormatTableTailMarker)
    ((le64 48 ++ le64 Gen.CaFormatIndex ++ le64 i.flags ++ le64 i.min ++ le64 i.avg ++ le64 i.max ++
            (le64 18446744073709551615 ++ le64 Gen.CaFormatTable) ++
          (encTableItems (tableItemsFrom 0 i.chunks) ++
      (le64 0 ++ le64 0 ++ le64 48 ++ le64 (UInt64.ofNat (16 + 40 * i.chunks.length + 40)) ++
        le64 Gen.CaFormatTableTailMarker))).length)
    (by simp [hlen, encTableItems_length _ hid]; omega) hoff hid
  simp only [List.append_assoc] at this ⊢
  exact this

/-- regenerated sites this property depends on were all found in /repo -/
theorem gen_sites :
    Gen.site_format_tableTail_offset_found = true ∧ Gen.site_format_tableTail_size_found = true ∧
    Gen.site_const_CaFormatIndex_found = true ∧ Gen.site_const_CaFormatTable_found = true ∧
    Gen.site_const_CaFormatTableTailMarker_found = true ∧ Gen.site_const_CaFormatSHA512256_found = true := by
  decide

/-! ### non-vacuity: a concrete two-chunk index satisfies `WF` -/

def sampleIndex : Index :=
  { flags := Gen.CaFormatSHA512256, min := 16, avg := 64, max := 256,
    chunks := [⟨List.replicate 32 7, 0, 100⟩, ⟨List.replicate 32 9, 100, 256⟩] }

example : WF .sha512_256 sampleIndex := by
  refine ⟨by decide, ?_⟩
  simp [sampleIndex, ChunksOK]

end Desync.C04
