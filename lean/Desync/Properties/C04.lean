/-
  C04 — Index files round-trip exactly and malformed ones are rejected.

  Property theorems only (helper lemmas live in `Proofs/`).  Model: `Model/IndexCodec.lean`
  (`encodeIndex` = `Index.WriteTo`, `decodeIndex` = `IndexFromReader`), tied to /repo by
  the regenerated constants/tail-record expressions in `Generated/Facts.lean` and by the
  behavioural correspondence `idx.encode` / `idx.decode`.
-/
import Desync.Proofs.IndexCodecProofs
import Desync.Proofs.IndexStoreProofs

namespace Desync.C04
open Desync

/-- the digest flag of the index agrees with the digest the process is configured for -/
def FlagOK (alg : DigestAlg) (flags : UInt64) : Prop :=
  match alg with
  | .sha512_256 => flags &&& Gen.CaFormatSHA512256 ≠ 0
  | .sha256 => flags &&& Gen.CaFormatSHA512256 = 0

instance (alg : DigestAlg) (flags : UInt64) : Decidable (FlagOK alg flags) := by
  unfold FlagOK; cases alg <;> exact inferInstance

/-- an index as the rest of desync produces them: cumulative starts, 32-byte IDs, sizes within
    the declared maximum, every end offset in `(0, 2^64)`, digest flag matching -/
def WF (alg : DigestAlg) (i : Index) : Prop :=
  FlagOK alg i.flags ∧ ChunksOK i.max 0 i.chunks

/-- what a reader may rely on after `IndexFromReader` succeeded: starts are cumulative from 0
    without wrap-around (so offsets never decrease) and no chunk exceeds the declared max -/
def Consistent (max : UInt64) : Nat → List IndexChunk → Prop
  | _, [] => True
  | st, c :: cs =>
    c.start.toNat = st ∧ c.size ≤ max ∧ st + c.size.toNat < 2 ^ 64 ∧
    Consistent max (st + c.size.toNat) cs

/-! ### round trip -/

theorem decode_encode_st (alg : DigestAlg) (i : Index) (h : WF alg i) (r : Bytes) (a : Nat) :
    decodeIndexSt alg ⟨encodeIndex i ++ r, a⟩ = .ok (i, ⟨r, a + 32 * i.chunks.length⟩) := by
  obtain ⟨hflag, hch⟩ := h
  obtain ⟨hoff, hid, hlen⟩ := tableItemsFrom_props i.max 0 0 i.chunks rfl hch
  unfold decodeIndexSt encodeIndex
  rw [List.append_assoc, decNext_index_enc]
  simp only [Res.ok_bind]
  have hnot : ¬((alg = .sha512_256 ∧ ¬ (i.flags &&& Gen.CaFormatSHA512256 ≠ 0)) ∨
      (alg = .sha256 ∧ (i.flags &&& Gen.CaFormatSHA512256 ≠ 0))) := by
    unfold FlagOK at hflag
    cases alg <;> simp_all
  rw [if_neg hnot, decNext_table_enc _ _ _ hoff hid]
  simp only [Res.ok_bind]
  rw [chunksFromTable_tableItemsFrom i.max 0 0 i.chunks rfl hch]
  simp only [Res.ok_bind, Res.pure_eq, hlen]

/-- **Round trip**: reading back what `WriteTo` wrote yields the same parameters and table. -/
theorem decode_encode (alg : DigestAlg) (i : Index) (h : WF alg i) :
    decodeIndex alg (encodeIndex i) = .ok i := by
  unfold decodeIndex
  have := decode_encode_st alg i h [] 0
  rw [List.append_nil] at this
  rw [this]; rfl

/-! ### malformed input -/

theorem decodeIndexSt_ext (alg : DigestAlg) (s s' : St) (i : Index) (q : Bytes)
    (h : decodeIndexSt alg s = .ok (i, s')) :
    decodeIndexSt alg (s.app q) = .ok (i, s'.app q) := by
  unfold decodeIndexSt at h ⊢
  cases h1 : decNext s with
  | err e => rw [h1] at h; cases h
  | panic p => rw [h1] at h; cases h
  | ok a =>
    obtain ⟨e, s1⟩ := a
    rw [h1] at h
    simp only [Res.ok_bind] at h
    cases e with
    | none => simp at h
    | some e =>
      rw [decNext_ext s q e s1 h1]
      simp only [Res.ok_bind]
      cases e <;> try (simp at h; done)
      rename_i sz ff mn av mx
      simp only at h ⊢
      split at h
      · cases h
      · rename_i hc
        rw [if_neg hc]
        cases h2 : decNext s1 with
        | err e => rw [h2] at h; cases h
        | panic p => rw [h2] at h; cases h
        | ok a =>
          obtain ⟨e2, s2⟩ := a
          rw [h2] at h
          simp only [Res.ok_bind] at h
          cases e2 with
          | none => simp at h
          | some e2 =>
            rw [decNext_ext s1 q e2 s2 h2]
            simp only [Res.ok_bind]
            cases e2 <;> try (simp at h; done)
            rename_i tsz items
            simp only at h ⊢
            cases h3 : chunksFromTable mx 0 items with
            | err e => rw [h3] at h; cases h
            | panic p => rw [h3] at h; cases h
            | ok cs =>
              rw [h3] at h
              simp only [Res.ok_bind, Res.pure_eq] at h ⊢
              injection h with h
              injection h with hi hs
              subst hi; subst hs; rfl

theorem chunksFromTable_nopanic (max last : UInt64) (items : List TableItem) :
    NoPanic (chunksFromTable max last items) := by
  induction items generalizing last with
  | nil => exact NoPanic.ok _
  | cons r rs ih =>
    unfold chunksFromTable
    apply NoPanic.ite <;> intro _
    · exact NoPanic.err _
    · apply NoPanic.ite <;> intro _
      · exact NoPanic.err _
      · apply NoPanic.bind (ih _)
        intro _ _; exact NoPanic.pure _

/-- `IndexFromReader` never panics, whatever the bytes. -/
theorem decodeIndexSt_nopanic (alg : DigestAlg) (s : St) : NoPanic (decodeIndexSt alg s) := by
  unfold decodeIndexSt
  apply NoPanic.bind (decNext_nopanic s)
  intro ⟨e, s1⟩ _
  dsimp only
  split
  · apply NoPanic.ite <;> intro _
    · exact NoPanic.err _
    · apply NoPanic.bind (decNext_nopanic _)
      intro ⟨e2, s2⟩ _
      dsimp only
      split
      · apply NoPanic.bind (chunksFromTable_nopanic _ _ _)
        intro _ _; exact NoPanic.pure _
      · exact NoPanic.err _
  · exact NoPanic.err _

/-- **Truncation**: every strict prefix of a written index is rejected with an error. -/
theorem prefix_rejected (alg : DigestAlg) (i : Index) (h : WF alg i) (k : Nat)
    (hk : k < (encodeIndex i).length) :
    ∃ e, decodeIndex alg ((encodeIndex i).take k) = .err e := by
  unfold decodeIndex
  cases hd : decodeIndexSt alg ⟨(encodeIndex i).take k, 0⟩ with
  | err e => exact ⟨e, rfl⟩
  | panic p => exact absurd hd (decodeIndexSt_nopanic alg _ p)
  | ok a =>
    exfalso
    obtain ⟨j, s'⟩ := a
    have hext := decodeIndexSt_ext alg _ s' j ((encodeIndex i).drop k) hd
    simp only [St.app_mk, List.take_append_drop] at hext
    have hfull := decode_encode_st alg i h [] 0
    rw [List.append_nil] at hfull
    rw [hfull] at hext
    injection hext with hext
    injection hext with _ hs
    have hr := congrArg St.rest hs
    simp only [St.app_rest] at hr
    have hl := congrArg List.length hr
    simp only [List.length_nil, List.length_append, List.length_drop] at hl
    omega

theorem chunksFromTable_consistent (max last : UInt64) (items : List TableItem)
    (cs : List IndexChunk) (h : chunksFromTable max last items = .ok cs) :
    Consistent max last.toNat cs := by
  induction items generalizing last cs with
  | nil => simp [chunksFromTable] at h; subst h; trivial
  | cons r rs ih =>
    unfold chunksFromTable at h
    split at h
    · cases h
    · rename_i hlt
      split at h
      · cases h
      · rename_i hgt
        cases hrec : chunksFromTable max r.offset rs with
        | err e => rw [hrec] at h; cases h
        | panic p => rw [hrec] at h; cases h
        | ok cs' =>
          rw [hrec] at h
          simp only [Res.ok_bind, Res.pure_eq] at h
          injection h with h
          subst h
          have hle : last ≤ r.offset := by
            rw [UInt64.le_iff_toNat_le]; rw [UInt64.lt_iff_toNat_lt] at hlt; omega
          have hsub := UInt64.toNat_sub_of_le _ _ hle
          have hle' := UInt64.le_iff_toNat_le.mp hle
          have hroff := r.offset.toNat_lt
          refine ⟨rfl, ?_, ?_, ?_⟩
          · show r.offset - last ≤ max
            rw [UInt64.le_iff_toNat_le]
            have : ¬ (max < r.offset - last) := hgt
            rw [UInt64.lt_iff_toNat_lt] at this; omega
          · simp only; omega
          · have := ih r.offset cs' hrec
            simp only
            rw [hsub]
            have he : last.toNat + (r.offset.toNat - last.toNat) = r.offset.toNat := by omega
            rw [he]; exact this

/-- **Soundness of acceptance**: a table that is accepted has cumulative, non-decreasing
    offsets without wrap-around, and no chunk exceeds the declared maximum. -/
theorem decode_consistent (alg : DigestAlg) (b : Bytes) (i : Index)
    (h : decodeIndex alg b = .ok i) : Consistent i.max 0 i.chunks ∧ FlagOK alg i.flags := by
  unfold decodeIndex at h
  cases hd : decodeIndexSt alg ⟨b, 0⟩ with
  | err e => rw [hd] at h; cases h
  | panic p => rw [hd] at h; cases h
  | ok a =>
    obtain ⟨j, s'⟩ := a
    rw [hd] at h
    simp only [Res.ok_bind, Res.pure_eq] at h
    injection h with h
    subst h
    unfold decodeIndexSt at hd
    cases h1 : decNext ⟨b, 0⟩ with
    | err e => rw [h1] at hd; cases hd
    | panic p => rw [h1] at hd; cases hd
    | ok a =>
      obtain ⟨e, s1⟩ := a
      rw [h1] at hd
      simp only [Res.ok_bind] at hd
      cases e with
      | none => simp at hd
      | some e =>
        cases e <;> try (simp at hd; done)
        rename_i sz ff mn av mx
        simp only at hd
        split at hd
        · cases hd
        · rename_i hc
          cases h2 : decNext s1 with
          | err e => rw [h2] at hd; cases hd
          | panic p => rw [h2] at hd; cases hd
          | ok a =>
            obtain ⟨e2, s2⟩ := a
            rw [h2] at hd
            simp only [Res.ok_bind] at hd
            cases e2 with
            | none => simp at hd
            | some e2 =>
              cases e2 <;> try (simp at hd; done)
              rename_i tsz items
              simp only at hd
              cases h3 : chunksFromTable mx 0 items with
              | err e => rw [h3] at hd; cases hd
              | panic p => rw [h3] at hd; cases hd
              | ok cs =>
                rw [h3] at hd
                simp only [Res.ok_bind, Res.pure_eq] at hd
                injection hd with hd
                injection hd with hi _
                subst hi
                refine ⟨chunksFromTable_consistent mx 0 items cs h3, ?_⟩
                unfold FlagOK
                cases alg <;> simp_all

/-- **Digest flag**: bytes whose index header disagrees with the configured digest are never
    accepted (contrapositive of the second half of `decode_consistent`). -/
theorem digest_mismatch_rejected (alg : DigestAlg) (b : Bytes) (i : Index)
    (h : decodeIndex alg b = .ok i) : FlagOK alg i.flags :=
  (decode_consistent alg b i h).2

/-! ### layout -/

theorem encTableItems_length (items : List TableItem) (hid : ∀ it ∈ items, it.id.length = 32) :
    (encTableItems items).length = 40 * items.length := by
  induction items with
  | nil => rfl
  | cons it items ih =>
    have h1 := hid it (by simp)
    have h2 := ih (fun x hx => hid x (by simp [hx]))
    simp only [encTableItems, List.flatMap_cons, List.length_append, le64_length,
      List.length_cons] at h2 ⊢
    omega

/-- **Layout**: the bytes written are casync's caibx/caidx layout — a 48-byte index header, a
    table header with size 2^64-1, one 40-byte item (end offset, 32-byte ID) per chunk, and a
    40-byte tail record `[0, 0, 48, 16+40k+40, marker]`.  The literals on the right-hand side
    are casync's; the left-hand side uses the expressions regenerated from `format.go`. -/
theorem encode_layout (i : Index) (hid : ∀ c ∈ i.chunks, c.id.length = 32) :
    encodeIndex i =
      (le64 48 ++ le64 Gen.CaFormatIndex ++ le64 i.flags ++ le64 i.min ++ le64 i.avg ++ le64 i.max)
      ++ (le64 0xFFFFFFFFFFFFFFFF ++ le64 Gen.CaFormatTable)
      ++ encTableItems (tableItemsFrom 0 i.chunks)
      ++ (le64 0 ++ le64 0 ++ le64 48 ++ le64 (UInt64.ofNat (16 + 40 * i.chunks.length + 40))
          ++ le64 Gen.CaFormatTableTailMarker) := by
  have hlen : ∀ (off : UInt64) (cs : List IndexChunk), (∀ c ∈ cs, c.id.length = 32) →
      (∀ it ∈ tableItemsFrom off cs, it.id.length = 32) ∧ (tableItemsFrom off cs).length = cs.length := by
    intro off cs
    induction cs generalizing off with
    | nil => intro _; simp [tableItemsFrom]
    | cons c cs ih =>
      intro h
      obtain ⟨h1, h2⟩ := ih (off + c.size) (fun x hx => h x (by simp [hx]))
      refine ⟨?_, by simp [tableItemsFrom, h2]⟩
      intro it hit
      simp only [tableItemsFrom, List.mem_cons] at hit
      rcases hit with rfl | hit
      · exact h c (by simp)
      · exact h1 it hit
  obtain ⟨h32, hk⟩ := hlen 0 i.chunks hid
  have hbody : (encU64s [0xFFFFFFFFFFFFFFFF, Gen.CaFormatTable]
      ++ encTableItems (tableItemsFrom 0 i.chunks)).length = 16 + 40 * i.chunks.length := by
    simp [encU64s, encTableItems_length _ h32, hk]; omega
  unfold encodeIndex
  simp only [encElem, hbody]
  have hsz : Gen.tableTailSize (UInt64.ofNat (16 + 40 * i.chunks.length))
      = UInt64.ofNat (16 + 40 * i.chunks.length + 40) := by
    unfold Gen.tableTailSize
    simp [UInt64.ofNat_add]
  have hoff : Gen.tableTailIndexOffset = 48 := by decide
  rw [hsz, hoff]
  simp [encU64s, List.append_assoc]

theorem encode_length (i : Index) (hid : ∀ c ∈ i.chunks, c.id.length = 32) :
    (encodeIndex i).length = 48 + 16 + 40 * i.chunks.length + 40 := by
  rw [encode_layout i hid]
  have hlen : ∀ (off : UInt64) (cs : List IndexChunk), (∀ c ∈ cs, c.id.length = 32) →
      (encTableItems (tableItemsFrom off cs)).length = 40 * cs.length := by
    intro off cs
    induction cs generalizing off with
    | nil => intro _; rfl
    | cons c cs ih =>
      intro h
      have h1 := ih (off + c.size) (fun x hx => h x (by simp [hx]))
      have h2 := h c (by simp)
      simp only [tableItemsFrom, encTableItems, List.flatMap_cons, List.length_append, le64_length,
        List.length_cons] at h1 ⊢
      omega
  simp only [List.length_append, le64_length, hlen 0 i.chunks hid]

/-! ### an independent parser (written from casync's format description, sharing nothing
    with `decNext`) recovers the same table -/

def indepItems : Nat → Bytes → Option (List TableItem)
  | 0, _ => none
  | f+1, b =>
    if b.length < 8 then none
    else if u64OfLE b = 0 then some []
    else if b.length < 40 then none
    else (indepItems f (b.drop 40)).map (⟨u64OfLE b, (b.drop 8).take 32⟩ :: ·)

/-- skip the 48-byte index header and the 16-byte table header, then read 40-byte items up
    to the zero offset -/
def indepParse (b : Bytes) : Option (List TableItem) :=
  if b.length < 64 then none else indepItems b.length (b.drop 64)

theorem indepItems_enc (items : List TableItem) (r : Bytes) (f : Nat) (hf : items.length < f)
    (hoff : ∀ it ∈ items, it.offset ≠ 0) (hid : ∀ it ∈ items, it.id.length = 32) :
    indepItems f (encTableItems items ++ (le64 0 ++ r)) = some items := by
  induction items generalizing f with
  | nil =>
    obtain ⟨g, rfl⟩ : ∃ g, f = g + 1 := ⟨f - 1, by simp at hf; omega⟩
    simp [indepItems, encTableItems, u64OfLE_le64_append]
  | cons it items ih =>
    obtain ⟨g, rfl⟩ : ∃ g, f = g + 1 := ⟨f - 1, by simp at hf; omega⟩
    have ho := hoff it (by simp)
    have hi := hid it (by simp)
    have henc : encTableItems (it :: items) ++ (le64 0 ++ r)
        = le64 it.offset ++ (it.id ++ (encTableItems items ++ (le64 0 ++ r))) := by
      simp [encTableItems, List.append_assoc]
    rw [henc]
    unfold indepItems
    have hl8 : ¬ (le64 it.offset ++ (it.id ++ (encTableItems items ++ (le64 0 ++ r)))).length < 8 := by
      simp
    have hl40 : ¬ (le64 it.offset ++ (it.id ++ (encTableItems items ++ (le64 0 ++ r)))).length < 40 := by
      simp [hi]; omega
    rw [if_neg hl8, u64OfLE_le64_append, if_neg ho, if_neg hl40]
    have hd40 : (le64 it.offset ++ (it.id ++ (encTableItems items ++ (le64 0 ++ r)))).drop 40
        = encTableItems items ++ (le64 0 ++ r) := by
      rw [← List.append_assoc, List.drop_append_of_le_length (by simp [hi])]
      simp [hi]
    have hd8 : ((le64 it.offset ++ (it.id ++ (encTableItems items ++ (le64 0 ++ r)))).drop 8).take 32
        = it.id := by
      rw [List.drop_append_of_le_length (by simp)]
      have h0 : List.drop 8 (le64 it.offset) = [] := List.drop_of_length_le (by simp)
      rw [h0, List.nil_append, List.take_append_of_le_length (by omega)]
      exact List.take_of_length_le (by omega)
    rw [hd40, hd8, ih g (by simp at hf; omega) (fun x hx => hoff x (by simp [hx]))
      (fun x hx => hid x (by simp [hx]))]
    rfl

/-- **Independent parser**: the table an independent caibx parser reads from the written bytes
    is exactly the list of (end offset, ID) pairs of the index. -/
theorem indep_parse (alg : DigestAlg) (i : Index) (h : WF alg i) :
    indepParse (encodeIndex i) = some (tableItemsFrom 0 i.chunks) := by
  obtain ⟨_, hch⟩ := h
  obtain ⟨hoff, hid, hlen⟩ := tableItemsFrom_props i.max 0 0 i.chunks rfl hch
  have hid' : ∀ c ∈ i.chunks, c.id.length = 32 := by
    have : ∀ (st : Nat) (cs : List IndexChunk), ChunksOK i.max st cs → ∀ c ∈ cs, c.id.length = 32 := by
      intro st cs
      induction cs generalizing st with
      | nil => intro _ c hc; cases hc
      | cons c cs ih =>
        intro hok x hx
        obtain ⟨h1, _, _, _, _, h6⟩ := hok
        simp only [List.mem_cons] at hx
        rcases hx with rfl | hx
        · exact h1
        · exact ih _ h6 x hx
    exact this 0 i.chunks hch
  have hL := encode_length i hid'
  unfold indepParse
  rw [if_neg (by omega)]
  rw [encode_layout i hid']
  have hdrop : ∀ (t : Bytes), ((le64 48 ++ le64 Gen.CaFormatIndex ++ le64 i.flags ++ le64 i.min ++ le64 i.avg
      ++ le64 i.max) ++ (le64 0xFFFFFFFFFFFFFFFF ++ le64 Gen.CaFormatTable) ++ t).drop 64 = t := by
    intro t
    rw [List.drop_append_of_le_length (by simp)]
    simp
  rw [List.append_assoc (_ ++ _) (encTableItems _) _, hdrop]
  have := indepItems_enc (tableItemsFrom 0 i.chunks)
    (le64 0 ++ le64 48 ++ le64 (UInt64.ofNat (16 + 40 * i.chunks.length + 40)) ++ le64 Gen.CaFormatTableTailMarker)
    ((le64 48 ++ le64 Gen.CaFormatIndex ++ le64 i.flags ++ le64 i.min ++ le64 i.avg ++ le64 i.max ++
            (le64 18446744073709551615 ++ le64 Gen.CaFormatTable) ++
          (encTableItems (tableItemsFrom 0 i.chunks) ++
      (le64 0 ++ le64 0 ++ le64 48 ++ le64 (UInt64.ofNat (16 + 40 * i.chunks.length + 40)) ++
        le64 Gen.CaFormatTableTailMarker))).length)
    (by simp [hlen, encTableItems_length _ hid]; omega) hoff hid
  simp only [List.append_assoc] at this ⊢
  exact this

/-- regenerated sites this property depends on were all found in /repo -/
theorem gen_sites :
    Gen.site_format_tableTail_offset_found = true ∧ Gen.site_format_tableTail_size_found = true ∧
    Gen.site_const_CaFormatIndex_found = true ∧ Gen.site_const_CaFormatTable_found = true ∧
    Gen.site_const_CaFormatTableTailMarker_found = true ∧ Gen.site_const_CaFormatSHA512256_found = true := by
  decide

/-! ### non-vacuity: a concrete two-chunk index satisfies `WF` -/

def sampleIndex : Index :=
  { flags := Gen.CaFormatSHA512256, min := 16, avg := 64, max := 256,
    chunks := [⟨List.replicate 32 7, 0, 100⟩, ⟨List.replicate 32 9, 100, 256⟩] }

example : WF .sha512_256 sampleIndex := by
  refine ⟨by decide, ?_⟩
  simp [sampleIndex, ChunksOK]

/-! ### index stores (`Model/IndexStore.lean`): the stores refine a map name → index

  `LocalIndexStore` (open flags and error handling regenerated from localindex.go), the HTTP index
  client composed with `HTTPIndexHandler` over a local index store, and the object-replacing
  S3 / SFTP index stores. -/

open IStore in
theorem roundTrip_WF (alg : DigestAlg) : RoundTrip alg (WF alg) := fun i h => decode_encode alg i h

open IStore in
theorem prefixRejected_WF (alg : DigestAlg) : PrefixRejected alg (WF alg) :=
  fun i k h hk => prefix_rejected alg i h k hk

/-- regenerated: `LocalIndexStore.StoreIndex` opens with `O_TRUNC` (`os.Create`), returns the error of the
    open, writes into the file it opened and returns the error of `WriteTo` -/
theorem gen_istore_local :
    IStore.localCfg = ⟨true, true⟩ ∧ Gen.istoreLocalOpenErrReturned = true ∧
    Gen.istoreLocalWritesOpenedFile = true ∧ Gen.site_istore_local_store_found = true := by decide

/-- regenerated: `LocalIndexStore.GetIndex` opens the file of that name, decodes it and returns the decoded
    index together with the decode error -/
theorem gen_istore_local_get :
    Gen.istoreLocalReaderOpen = "os.Open(s.Path+name)" ∧
    Gen.istoreLocalGetShape = ["open:GetIndexReader(name)", "open-error-returned", "decode:IndexFromReader(opened)",
      "return:decoded,decode-error"] ∧
    Gen.istoreLocalGetReturnsDecodeErr = true ∧ Gen.site_istore_local_get_found = true := by decide

/-- regenerated: `RemoteHTTPIndex.StoreIndex` builds the request body inside the per-attempt callback (a fresh
    pipe carrying `idx.WriteTo` per attempt); `GetIndex` decodes what `GetObject` returned -/
theorem gen_istore_http :
    Gen.istoreHttpBodyPerAttempt = true ∧ Gen.istoreHttpBodyIsEncoding = true ∧
    Gen.istoreHttpStoreObjectArgs = "name,getReader" ∧
    Gen.istoreHttpGetShape = ["GetObject", "NewReader", "GetIndexReader", "IndexFromReader"] ∧
    Gen.site_istore_http_store_found = true ∧ Gen.site_istore_http_get_found = true := by decide

/-- regenerated: `HTTPIndexHandler.put` stores the index it decoded from the body under the handler's name;
    `get` sends the re-encoding of the index the wrapped store returned -/
theorem gen_istore_handler :
    Gen.istoreHandlerPutShape = ["validateWritable", "assert:IndexWriteStore", "IndexFromReader(r.Body)",
      "StoreIndex(indexName,decoded)"] ∧
    Gen.istoreHandlerGetShape = ["GetIndex(indexName)", "buffer:=WriteTo(fetched)", "send(buffer)"] ∧
    Gen.site_istore_handler_put_found = true ∧ Gen.site_istore_handler_get_found = true := by decide

/-- regenerated: the S3 index store pipes the encoding into one `PutObject`; the SFTP index store pipes it into
    `StoreObject` = temporary file, copy, close, rename over the name -/
theorem gen_istore_atomic :
    Gen.istoreS3StoreShape = ["pipe", "go:defer-close-writer", "go:WriteTo(writer)", "PutObject(reader)"] ∧
    Gen.istoreSftpStoreShape = ["pipe", "go:defer-close-writer", "go:WriteTo(writer)", "StoreObject(reader)"] ∧
    Gen.istoreSftpStoreObjectShape = ["Create(tmp)", "Mkdir", "Copy", "Remove(tmp)", "Close", "PosixRename(tmp,name)"] ∧
    Gen.site_istore_s3_store_found = true ∧ Gen.site_istore_sftp_store_found = true ∧
    Gen.site_istore_sftp_storeobject_found = true := by decide

theorem localCfg_truncates : IStore.localCfg.truncates = true := by rw [gen_istore_local.1]

/-- **The local store refines a map**: after ANY history of successful `StoreIndex` calls (oldest first) on
    well-formed indexes, `GetIndex` of any name returns exactly the index stored LAST under that name, and
    "not found" if none was; names do not interfere. -/
theorem store_refines_map (alg : DigestAlg) (h : List (IStore.Name × Index))
    (hn : ∀ p ∈ h, IStore.plainName p.1 = true) (hwf : ∀ p ∈ h, WF alg p.2) (m : IStore.Name) :
    IStore.localGet alg (IStore.run IStore.localCfg [] (IStore.opsOf h)) m =
      match IStore.lastStored h m with
      | some i => .ok i
      | none => .notFound :=
  IStore.success_history_get alg (WF alg) (roundTrip_WF alg) IStore.localCfg localCfg_truncates h hn hwf m

/-- **… also with failing stores in the history**: a store that fails at the open changes nothing, one that
    fails after `k` bytes leaves a name that reads back as an error (or, all bytes written, as that index);
    `GetIndex` answers as the abstract map of the history says (`IStore.GetSpec`). -/
theorem store_history_refines (alg : DigestAlg) (ops : List IStore.Op) (hwf : ∀ o ∈ ops, WF alg o.i)
    (m : IStore.Name) :
    IStore.GetSpec alg (IStore.run IStore.localCfg [] ops) m (IStore.absRun (fun _ => none) ops m) :=
  IStore.history_refines alg (WF alg) (roundTrip_WF alg) (prefixRejected_WF alg) IStore.localCfg
    localCfg_truncates ops hwf m

/-- **frame**: a `StoreIndex` — successful or not — touches no other name -/
theorem store_frame (d : IStore.Dir) (n m : IStore.Name) (i : Index) (f : IStore.StoreFault) (h : m ≠ n) :
    ((IStore.localStore IStore.localCfg d n i f).1).get m = d.get m :=
  IStore.localStore_frame _ d n i f m h

/-- **No tail**: whatever the name held before (a longer index, anything), after a successful `StoreIndex`
    it holds exactly the encoding of the new index — with the open flags the code uses now. -/
theorem overwrite_leaves_no_tail (d : IStore.Dir) (n : IStore.Name) (hn : IStore.plainName n = true)
    (i : Index) :
    IStore.localStore IStore.localCfg d n i .none = (d.set n (encodeIndex i), true) ∧
    ((IStore.localStore IStore.localCfg d n i .none).1).get n = some (encodeIndex i) := by
  have h := IStore.localStore_ok_get IStore.localCfg localCfg_truncates d n i hn
  exact ⟨h, by rw [h]; exact IStore.Dir.get_set_same _ _ _⟩

/-- the same open without `O_TRUNC` (the earlier seeded regression) does leave a tail -/
theorem no_trunc_leaves_tail (old w : Bytes) (h : w.length < old.length) : IStore.writeOver false old w ≠ w :=
  IStore.writeOver_notrunc_tail old w h

/-- **A failed store never reads back wrong**: if `StoreIndex` fails after `k` bytes of the encoding, the
    failure is reported, and a later `GetIndex` of that name returns an error (`k` short of the full length) or
    the index itself (everything was written) — never a different index. -/
theorem failed_store_never_reads_back_wrong (alg : DigestAlg) (d : IStore.Dir) (n : IStore.Name)
    (hn : IStore.plainName n = true) (i : Index) (hi : WF alg i) (k : Nat) :
    (IStore.localStore IStore.localCfg d n i (.writeFails k)).2 = false ∧
    (k < (encodeIndex i).length →
      ∃ e, IStore.localGet alg (IStore.localStore IStore.localCfg d n i (.writeFails k)).1 n = .decodeErr e) ∧
    ((encodeIndex i).length ≤ k →
      IStore.localGet alg (IStore.localStore IStore.localCfg d n i (.writeFails k)).1 n = .ok i) := by
  have h := IStore.localStore_writeFails IStore.localCfg localCfg_truncates d n i k hn
  have hp := IStore.decodeRes_prefix alg (WF alg) (roundTrip_WF alg) (prefixRejected_WF alg) i hi k
  rw [h]
  refine ⟨by rw [gen_istore_local.1]; rfl, ?_, ?_⟩
  · intro hk
    simpa [IStore.localGet, IStore.Dir.get_set_same] using hp.1 hk
  · intro hk
    simpa [IStore.localGet, IStore.Dir.get_set_same] using hp.2 hk

/-- **Success is complete**: `StoreIndex` reports success only when the name holds the complete encoding
    (whatever fault was injected). -/
theorem store_success_is_complete (d : IStore.Dir) (n : IStore.Name) (i : Index) (f : IStore.StoreFault)
    (h : (IStore.localStore IStore.localCfg d n i f).2 = true) :
    ((IStore.localStore IStore.localCfg d n i f).1).get n = some (encodeIndex i) := by
  obtain ⟨_, _, hd⟩ := IStore.localStore_success_complete IStore.localCfg gen_istore_local.1 d n i f h
  rw [hd]; exact IStore.Dir.get_set_same _ _ _

/-- the client and the server as the code is now -/
def clientNow (retry : Nat) (auth : Bytes) : IStore.ClientCfg := IStore.clientCfg retry auth
def serverNow (cfg : HandlerCfg) (alg : DigestAlg) : IStore.Srv := ⟨cfg, alg, IStore.localCfg⟩

theorem clientNow_fresh (retry : Nat) (auth : Bytes) : (clientNow retry auth).freshBody = true :=
  gen_istore_http.1

/-- **every attempt carries the complete encoding** -/
theorem http_attempt_body_complete (retry : Nat) (auth : Bytes) (n : IStore.Name) (i : Index) (k : Nat) :
    (IStore.putRequest (clientNow retry auth) n i k).body = encodeIndex i := by
  simp [IStore.putRequest, IStore.attemptBody, clientNow_fresh]

/-- **HTTP round trip**: client → `HTTPIndexHandler` → local index store and back.  A `StoreIndex` whose first
    `pf.length` attempts fail transiently (503 in front of the handler, broken connection, response lost after the
    handler ran, the handler's store failing at the open or after `k` bytes; fewer than the retry budget) and
    whose next attempt gets through reports success after exactly `pf.length + 1` attempts, leaves the complete
    encoding under that name on the server and every other name alone; a `GetIndex` afterwards — again through
    transient failures — returns exactly that index and changes nothing. -/
theorem http_index_roundtrip (alg : DigestAlg) (retry : Nat) (auth : Bytes) (cfg : HandlerCfg)
    (hauth : cfg.auth = [] ∨ auth = cfg.auth) (hw : cfg.writable = true) (hsw : cfg.storeIsWritable = true)
    (d : IStore.Dir) (n : IStore.Name) (hn : IStore.plainName n = true) (i : Index) (hi : WF alg i)
    (pf pr gf gr : List IStore.Fate)
    (hpf : ∀ f ∈ pf, f.failsPut = true) (hpl : pf = [] ∨ pf.length < retry)
    (hgf : ∀ f ∈ gf, f.failsGet = true) (hgl : gf = [] ∨ gf.length < retry) :
    let st := IStore.httpStore (clientNow retry auth) (serverNow cfg alg) d n i (pf ++ .run .none false :: pr)
    st.2.1 = true ∧ st.2.2 = pf.length + 1 ∧
    st.1.get n = some (encodeIndex i) ∧ (∀ m, m ≠ n → st.1.get m = d.get m) ∧
    IStore.httpGet (clientNow retry auth) (serverNow cfg alg) st.1 n (gf ++ .run .none false :: gr)
      = (st.1, .ok i, gf.length + 1) := by
  intro st
  have ho : IStore.Open (clientNow retry auth) (serverNow cfg alg) := ⟨hauth, hw, hsw⟩
  obtain ⟨h1, h2, h3, h4⟩ := IStore.httpStore_masks alg (WF alg) (roundTrip_WF alg) (clientNow retry auth)
    (clientNow_fresh retry auth) (serverNow cfg alg) rfl gen_istore_local.1 ho d n hn i hi pf pr hpf hpl
  refine ⟨h1, h2, h3, h4, ?_⟩
  exact IStore.httpGet_masks alg (WF alg) (roundTrip_WF alg) (clientNow retry auth) (serverNow cfg alg) rfl ho
    st.1 n hn i hi h3 gf gr hgf hgl

/-- **HTTP: success is complete**, whatever happens to the attempts (any script of fates): a `StoreIndex` the
    client reports as successful has left the complete encoding under the name on the server. -/
theorem http_store_success_is_complete (alg : DigestAlg) (retry : Nat) (auth : Bytes) (cfg : HandlerCfg)
    (d : IStore.Dir) (n : IStore.Name) (hn : IStore.plainName n = true) (i : Index) (hi : WF alg i)
    (fs : List IStore.Fate)
    (h : (IStore.httpStore (clientNow retry auth) (serverNow cfg alg) d n i fs).2.1 = true) :
    ((IStore.httpStore (clientNow retry auth) (serverNow cfg alg) d n i fs).1).get n = some (encodeIndex i) :=
  IStore.httpStore_success alg (WF alg) (roundTrip_WF alg) (clientNow retry auth) (clientNow_fresh retry auth)
    (serverNow cfg alg) rfl gen_istore_local.1 d n hn i hi fs h

/-- **S3 / SFTP index stores**: the name changes to the complete encoding or not at all -/
theorem atomic_store_all_or_nothing (d : IStore.Dir) (n : IStore.Name) (i : Index) (fails : Bool) :
    ((IStore.atomicStore d n i fails).2 = false → (IStore.atomicStore d n i fails).1 = d) ∧
    ((IStore.atomicStore d n i fails).2 = true →
      (IStore.atomicStore d n i fails).1 = d.set n (encodeIndex i)) :=
  IStore.atomicStore_spec d n i fails

/-! non-vacuity: a longer index, then a shorter one under the same name, another name in between -/

example : IStore.plainName [97, 46, 99, 97, 105, 98, 120] = true := by decide

example : IStore.lastStored [([97], sampleIndex), ([98], sampleIndex), ([97], { sampleIndex with chunks := [] })] [97]
    = some { sampleIndex with chunks := [] } := by decide

example : (IStore.Fate.run (.writeFails 7) false).failsPut = true ∧ IStore.Fate.busy.failsGet = true := by decide

theorem sampleIndex_wf : WF .sha512_256 sampleIndex := by
  refine ⟨by decide, ?_⟩
  simp [sampleIndex, ChunksOK]

/-- the hypotheses of `http_index_roundtrip` are satisfiable: a 503, then the handler's store cut short after
    7 bytes (500), then an attempt that gets through, with a budget of 3 -/
example :
    (IStore.httpStore (clientNow 3 []) (serverNow ⟨[], true, false, false, true⟩ .sha512_256) [] [97] sampleIndex
      [.busy, .run (.writeFails 7) false, .run .none false]).2 = (true, 3) := by
  have h := http_index_roundtrip .sha512_256 3 [] ⟨[], true, false, false, true⟩ (Or.inl rfl) rfl rfl [] [97]
    (by decide) sampleIndex sampleIndex_wf [.busy, .run (.writeFails 7) false] [] [] []
    (by decide) (Or.inr (by decide)) (by decide) (Or.inl rfl)
  exact Prod.ext h.1 h.2.1

end Desync.C04
