/-
  C15 — HTTP servers enforce authorization, read-only mode and path confinement.

  Model: `Model/HttpHandler.lean`: both `ServeHTTP` functions as decision procedures returning the
  status and the list of upstream store calls; `idFromPath` over Go `path` semantics; upstream
  store outcomes are an oracle.  Tie: in-process correspondence against `ServeHTTP` with recording
  stores over generated requests (methods, hostile paths, header variants, configurations), plus
  requests against real local stores with sentinel files outside.
-/
import Desync.Proofs.HttpComplete

namespace Desync.C15
open Desync

/-- **authorization**: with an authorization value configured, a request that does not carry
    exactly that value reaches no store at all — chunk server and index server -/
theorem unauthorized_no_store_call (H : Bytes → Bytes) (dec : Bytes → Option Bytes) (cfg : HandlerCfg)
    (o : StoreOracle) (r : Request) (ha : cfg.auth ≠ []) (hh : r.authHeader ≠ cfg.auth) :
    serveChunk H dec cfg o r = ⟨401, []⟩ ∧ serveIndex cfg o r = ⟨401, []⟩ :=
  ⟨chunk_unauthorized_no_store_call H dec cfg o r ha hh, index_unauthorized_no_store_call cfg o r ha hh⟩

/-- **read-only**: a server not started writable never issues a write to its store -/
theorem readonly_no_write (H : Bytes → Bytes) (dec : Bytes → Option Bytes) (cfg : HandlerCfg)
    (o : StoreOracle) (r : Request) (hw : cfg.writable = false) :
    (∀ c ∈ (serveChunk H dec cfg o r).calls, c.isWrite = false) ∧
    (∀ c ∈ (serveIndex cfg o r).calls, c.isWrite = false) :=
  ⟨chunk_readonly_no_write H dec cfg o r hw, index_readonly_no_write cfg o r hw⟩

/-- **upload verification**: unless write verification was disabled, a chunk is handed to the
    store only under the ID named by the path and only if its content hashes to that ID -/
theorem put_verified (H : Bytes → Bytes) (dec : Bytes → Option Bytes) (cfg : HandlerCfg) (o : StoreOracle)
    (r : Request) (id : Bytes) (c : ChunkObj) (hv : cfg.skipVerifyWrite = false)
    (hc : Call.storeChunk id c ∈ (serveChunk H dec cfg o r).calls) :
    idFromPath cfg.compressed r.path = some id ∧ ∀ b, C03.delivers dec c b → H b = id :=
  Desync.put_verified H dec cfg o r id c hv hc

/-- **chunk path confinement**: every store call names exactly the ID decoded from the path, and a
    path is accepted only if it is literally `/<first 4 hex>/<64 hex>[.cacnk]` -/
theorem chunk_path_confined (H : Bytes → Bytes) (dec : Bytes → Option Bytes) (cfg : HandlerCfg)
    (o : StoreOracle) (r : Request) :
    (∀ c ∈ (serveChunk H dec cfg o r).calls, ∃ id, idFromPath cfg.compressed r.path = some id ∧
      (c = .getChunk id ∨ c = .hasChunk id ∨ ∃ ch, c = .storeChunk id ch)) ∧
    (∀ id, idFromPath cfg.compressed r.path = some id →
      ∃ s : Bytes, s.length = 64 ∧ hexDecode s = some id ∧ id.length = 32 ∧
        r.path = [47] ++ s.take 4 ++ [47] ++ s ++ (if cfg.compressed then compressedExt else []) ∧
        (47 : UInt8) ∉ s ∧ (46 : UInt8) ∉ s) :=
  ⟨chunk_calls_use_path_id H dec cfg o r, fun id h => idFromPath_sound cfg.compressed r.path id h⟩

/-- **index name confinement**: the name handed to the index store is a single normal path
    component (never empty, ".", "..", or containing '/') -/
theorem index_name_confined (cfg : HandlerCfg) (o : StoreOracle) (r : Request) :
    ∀ c ∈ (serveIndex cfg o r).calls,
      ∃ n, (c = .getIndex n ∨ c = .getIndexReader n ∨ c = .storeIndex n) ∧ n = goBase r.path ∧
        n ≠ [] ∧ n ≠ [46] ∧ n ≠ [46, 46] ∧ (47 : UInt8) ∉ n :=
  index_calls_confined cfg o r

/-- well-formed requests are served: the canonical path of an ID is accepted (non-vacuity of the
    confinement theorems) -/
theorem canonical_path_accepted (compressed : Bool) (id : Bytes) (h : id.length = 32) :
    idFromPath compressed ([47] ++ (hexEncode id).take 4 ++ [47] ++ hexEncode id ++
      (if compressed then compressedExt else [])) = some id :=
  idFromPath_complete compressed id h

theorem gen_sites : Gen.site_str_CompressedChunkExt_found = true ∧ Gen.CompressedChunkExtBytes = [46, 99, 97, 99, 110, 107] := by
  decide

/-- **regenerated obligation**: both server commands still construct their handler (`NewHTTPHandler` /
    `NewHTTPIndexHandler`) in `runChunkServer` / `runIndexServer`.  WHAT they hand to it — the authorization value from the
    flag or `DESYNC_HTTP_AUTH`, the writable flag, the write-verification flag, the converters — is no longer compared as
    spelled here (a behaviour-preserving rewrite of the option handling made that red): it is extracted by meaning and
    proved equal to the model in `Properties/C15ServerOptsGen.lean` (`gen_chunk_server_wires`, `gen_index_server_wires`). -/
theorem gen_cmd_server_plumbing :
    Gen.site_shape_cmdChunkServerPlumbing_found = true ∧ Gen.site_shape_cmdIndexServerPlumbing_found = true := by
  decide

end Desync.C15
