/-
  C05 — tar then untar reproduces the directory tree.

  Model: `Model/Archive.lean` (`tarStream` = `Tar` over the record stream a `FilesystemReader`
  yields; `untar` = `UnTar` as the sequence of nodes handed to the `FilesystemWriter`),
  `Model/Mode.lean` (mode and device-number conversions).

  Main theorem `untar_tar`: for every well-formed directory tree of arbitrary nesting and
  fan-out — regular files of any size and content, symlinks to anything, devices, xattrs on every
  node, any uid/gid/mode/mtime values — unpacking the archive desync writes yields exactly the
  tree's nodes (path, type, metadata, xattrs, symlink target, device numbers, file contents).
  `mode_roundtrip`/`dev_roundtrip` cover the conversion between the archive's stat modes /
  device numbers and what the writer passes to chmod/mknod.

  `unpacking_creates_the_tree` carries this to the file system: `UnTar` onto the `LocalFS` writer
  over the POSIX model of `Model/LocalFS.lean` creates exactly the tree, directory mtimes and the
  symbolic links' own mtimes included (`symlink_mtime_set_without_following`: the no-follow call).

  The reading side of `LocalFS` (`filepath.Walk` with the callback of `startSerializer`, `LocalFS.Next`)
  is modelled over the same file system (`Model/LocalFSRead.lean`): `walk_is_sorted_preorder`,
  `read_of_written_tree`, `fs_roundtrip` (FS → archive → FS as one theorem), `tar_twice_identical`.

  Exercised on disk by the harness as root, not modelled (lstat/readlink/xattr/content snapshots, both
  digests, caidx+store, tar-stream input, gnu-tar/mtree output): `archive/tar`, chunking of the archive
  (C02) and chunk transport (C03).  The file-system model carries owner, the twelve mode bits and the extended
  The tar-stream input and GNU-tar output legs (tarfs.go) are `Model/TarFS.lean`: `TarReader.Next` as the map
  from the header archive/tar delivers to the `File` record (`tar_input_reproduces_mode`,
  `tar_input_reproduces_fields`), the four `TarWriter.Create*` methods as maps from a node to the header handed to
  archive/tar (`gnutar_roundtrip_partial`, `gnutar_loses_setid`: the known finding as a theorem,
  `gnutar_roundtrip_with_tarMode`: the repair is the helper that is already there; `gnutar_refused_exactly_when`,
  `gnutar_never_refused_partial`, `gnutar_still_refuses_filemode_bits_with_xattrs`; `tar_input_skips_global_headers`,
  `tar_input_refuses_hard_links`; the repaired defects on the legacy definitions: `legacy_*`).

  Modelled, not verified (exercised on disk by the harness as root: lstat/readlink/xattr/content
  snapshots, both digests, caidx+store, tar-stream input, gnu-tar/mtree output): `filepath.Walk`
  order and the reading side of `LocalFS`, the byte encoding of tar headers by `archive/tar`, chunking of the
  archive (C02) and chunk transport (C03).  The file-system model carries owner, the twelve mode bits and the extended
  attributes of every object (`chown` clearing set-id bits of non-directories, `user.*` attributes
  refused on links and device nodes); the creation mode under the process's umask is abstract (`none`).
-/
import Desync.Proofs.TarTreeRoundTrip
import Desync.Proofs.ModeProofs
import Desync.Proofs.LocalFSRoundTrip
import Desync.Proofs.LocalFSAttrOrder
import Desync.Proofs.LocalFSReadExample
import Desync.Proofs.TarFSProofs

namespace Desync.C05
open Desync

/-- **tar ; untar = identity on trees** (any nesting, any fan-out, all supported node kinds,
    xattrs everywhere) -/
theorem untar_tar (r : FileRec) (cs : List Tree)
    (hrk : r.kind = .dir) (hrx : XattrsOK r.xattrs)
    (hsize : 16 + (cs.length + 1) * 24 < 2 ^ 64)
    (hcs : Tree.WFList r.path [r.path] cs) :
    ∃ b, tarStream (Tree.dir r cs).records = some b ∧
      untar b = .ok (.dir [dot] ⟨r.uid, r.gid, r.mode, r.mtime, r.xattrs⟩ ::
        cs.flatMap (Tree.nodes [dot])) :=
  untar_tar_tree r cs hrk hrx hsize hcs

/-- the flat special case with the record stream spelled out -/
theorem untar_tar_flat_dir (root : FileRec) (children : List FileRec)
    (hrk : root.kind = .dir) (hrx : XattrsOK root.xattrs)
    (hch : ∀ f ∈ children, LeafOK root f)
    (hsize : 16 + (children.length + 1) * 24 < 2 ^ 64) :
    ∃ b, tarStream (root :: children) = some b ∧
      untar b = .ok (.dir [dot] ⟨root.uid, root.gid, root.mode, root.mtime, root.xattrs⟩ ::
        children.map leafNode) :=
  untar_tar_flat root children hrk hrx hch hsize

/-- **Determinism**: the archive is a function of the record stream (no clock, no map order:
    xattrs are emitted in the order of the sorted key list the reader supplies) -/
theorem tar_deterministic (recs recs' : List FileRec) (h : recs = recs') :
    tarStream recs = tarStream recs' := by rw [h]

/-- **Modes**: every stat mode with one of the seven file types and any permission, set-id and
    sticky bits survives archive → `os.FileMode` → chmod/mknod argument unchanged, and vice versa -/
theorem mode_roundtrip :
    (∀ m : UInt32, m &&& 0xffff0000 = 0 → Mode.validType (m &&& Mode.S_IFMT) = true →
      Mode.filemodeToStat (Mode.statToFilemode m) = m) ∧
    (∀ fm : UInt32,
      fm &&& (~~~ (0x1ff ||| Mode.ModeType ||| Mode.ModeSetuid ||| Mode.ModeSetgid ||| Mode.ModeSticky)) = 0 →
      Mode.validGoType (fm &&& Mode.ModeType) = true →
      Mode.statToFilemode (Mode.filemodeToStat fm) = fm) :=
  ⟨Mode.stat_roundtrip, Mode.filemode_roundtrip⟩

/-- **Device numbers** survive `Rdev` split → archive → `mkdev` for major < 2^12, minor < 2^20;
    outside that range the read side drops bits (second component: a witness), so the property's
    device clause is claimed within the range only -/
theorem dev_roundtrip :
    (∀ major minor : UInt64, major < 4096 → minor < 1048576 →
      Mode.rdevMajor (Mode.mkdev major minor) = major ∧ Mode.rdevMinor (Mode.mkdev major minor) = minor) ∧
    (∃ major minor : UInt64, Mode.rdevMajor (Mode.mkdev major minor) ≠ major) :=
  ⟨Mode.dev_roundtrip, Mode.dev_roundtrip_fails_outside⟩

/-! non-vacuity: a nested tree satisfying the hypotheses -/
def mkRec (kind : Kind) (base path parent data : Bytes) : FileRec :=
  { base, path, parent, kind, mode := 0, uid := 0, gid := 0, mtime := 0,
    size := UInt64.ofNat data.length, data, target := [], major := 0, minor := 0, xattrs := [] }
def exRoot : FileRec := mkRec .dir [dot] [dot] [dot] []
def exDir : FileRec := mkRec .dir [97] [97] [dot] []
def exFile : FileRec := mkRec .reg [102] [97, slash, 102] [97] [1, 2, 3]

example : Tree.WFList exRoot.path [exRoot.path] [Tree.dir exDir [Tree.leaf exFile]] := by
  simp [Tree.WFList, Tree.WF, LeafWF, XattrsOK, exRoot, exDir, exFile, mkRec, u64len]
  decide

/-! ### the file-system level: what `UnTar` onto `LocalFS` leaves on disk (`Model/LocalFS.lean`) -/

/-- **Unpacking a packed tree onto a fresh destination creates exactly that tree.**  For every
    well-formed tree (any nesting and fan-out; sibling names distinct and at most 255 bytes), every
    option set and every file system in which the destination does not exist yet below real
    directories: `UnTar` of the archive `Tar` writes returns success, and beneath the destination
    the file system holds exactly the tree — every directory, file, symlink and device node at its
    path with its contents / target / device numbers, the archived owner and extended attributes
    (unless `noSameOwner`), the archived permission, set-id and sticky bits (unless
    `noSamePermissions`; set-id bits survive because `chown` comes before `chmod`): `LFS.attrOfRec`,
    `LFS.linkAttrOfRec` for links, and the archived modification time set explicitly (`LFS.mtimeOf`:
    `none` when the archive records 0), *also on directories that got children after they were
    created* (`finish` re-applies them; the defect D17 and its repair) *and on symbolic links*: a
    link gets its own archived modification time through the no-follow call (`LFS.lchtimes`,
    utimensat with AT_SYMLINK_NOFOLLOW — `symlink_mtime_set_without_following`), never the object it
    points to.  `hfit`: when owner and xattrs are restored, no symlink or device record carries a
    `user.*` extended attribute — the kernel refuses those and `UnTar` fails
    (`unpacking_link_with_user_xattr_fails`).  Distinct xattr keys per record are part of `XattrsOK`. -/
theorem unpacking_creates_the_tree (o : LFS.Opts) (root : List LFS.Name) (fs : LFS.FS) (r : FileRec)
    (cs : List Tree) (b : Bytes)
    (hroot : LFS.RootOK fs root) (hshort : LFS.Short root)
    (hfresh : ∀ p, root <+: p → fs.get p = none)
    (hrk : r.kind = .dir) (hrx : XattrsOK r.xattrs) (hsize : 16 + (cs.length + 1) * 24 < 2 ^ 64)
    (hcs : Tree.WFList r.path [r.path] cs) (hnames : (Tree.dir r cs).Names)
    (hfit : ∀ f ∈ (Tree.dir r cs).records, LFS.XattrsFit o f)
    (hb : tarStream (Tree.dir r cs).records = some b) :
    (LFS.untarFS o root fs b).2 = true ∧
    ∀ p, root <+: p → ((LFS.untarFS o root fs b).1).get p =
      (((root, LFS.Obj.dir (LFS.attrOfRec o r) (LFS.mtimeOf r)) :: Tree.expectList o root cs).lookup p) :=
  LFS.untar_creates_tree o root fs r cs b hroot hshort hfresh hrk hrx hsize hcs hnames hfit hb

/-- the hypothesis `hfit` is needed: `CreateSymlink` of a node with a `user.*` extended attribute fails
    when owner and xattrs are restored (EPERM from `lsetxattr`; the link itself exists by then) -/
theorem unpacking_link_with_user_xattr_fails (o : LFS.Opts) (root : List LFS.Name) (s : LFS.LState)
    (name : Bytes) (m : Meta) (target : Bytes) (h : LFS.Good s.fs (LFS.dstOf root name))
    (hn : s.fs.get (LFS.dstOf root name) = none) (hO : o.noSameOwner = false)
    (hx : ∃ kv ∈ m.xattrs, LFS.isUserXattr kv.1 = true) :
    ∃ f, LFS.createSymlink o root s name m target = .error f :=
  LFS.createSymlink_user_xattr_fails o root s name m target h hn hO hx

/-- **A symbolic link's time stamp is set on the link, not through it.**  `LFS.lchtimes` is
    `lchtimes(dst, n.MTime)` of `LocalFS.CreateSymlink` (utimensat with AT_SYMLINK_NOFOLLOW).  Whenever
    the path — its last component not followed — names a symbolic link, the call succeeds, the link
    object gets the modification time `t` (target and attributes kept), and every other object of the
    file system, the one the link points to in particular, is what it was. -/
theorem symlink_mtime_set_without_following (fs : LFS.FS) (p : List LFS.Name) (rp : LFS.RPath)
    (tg : Bytes) (a : LFS.Attr) (m : Option Nat) (t : Nat)
    (hr : LFS.resolve fs false p = .ok rp) (hg : fs.get rp = some (.symlink tg a m)) :
    LFS.lchtimes fs p t = .ok (fs.set rp (.symlink tg a (some t))) ∧
      ∀ q, q ≠ rp → (fs.set rp (.symlink tg a (some t))).get q = fs.get q :=
  LFS.lchtimes_symlink t hr hg

/-- a link `/l → f` and a file `/f` with mtime 3: the no-follow call stamps the link and the file keeps
    its mtime; `os.Chtimes` on the same path would have stamped the file and left the link alone -/
example :
    LFS.AttrOrder.fsAfter (LFS.lchtimes LFS.AttrOrder.fsLink [[108]] 9) =
      some [([[108]], .symlink [102] {} (some 9)), ([[102]], .file [97] {} (some 3))] ∧
    LFS.AttrOrder.fsAfter (LFS.chtimes LFS.AttrOrder.fsLink [[108]] 9) =
      some [([[102]], .file [97] {} (some 9)), ([[108]], .symlink [102] {} none)] :=
  LFS.AttrOrder.lchtimes_sets_link_not_target

/-- the same by evaluation: the hypotheses of `symlink_mtime_set_without_following` hold of this file
    system, and the file's object is untouched -/
example :
    LFS.resolve LFS.AttrOrder.fsLink false [[108]] = .ok [[108]] ∧
    LFS.AttrOrder.fsLink.get [[108]] = some (.symlink [102] {} none) ∧
    ((LFS.AttrOrder.fsLink.set [[108]] (.symlink [102] {} (some 9))).get [[102]]) =
      some (.file [97] {} (some 3)) := by
  refine ⟨by rfl, by decide, by decide⟩

/-- the order of the calls in `setPerms` matters: `chmod` 04755 followed by `chown` loses the set-user-ID
    bit of a regular file, `chown` followed by `chmod` (what localfs.go does) keeps it -/
theorem chown_must_come_before_chmod :
    LFS.AttrOrder.objAfter (LFS.AttrOrder.chmodThenChown LFS.AttrOrder.fsFile 0o4755 1000 100) =
      some (.file [97] { owner := some (1000, 100), mode := some 0o755 } none) ∧
    LFS.AttrOrder.objAfter (LFS.AttrOrder.chownThenChmod LFS.AttrOrder.fsFile 0o4755 1000 100) =
      some (.file [97] { owner := some (1000, 100), mode := some 0o4755 } none) :=
  LFS.AttrOrder.chmod_then_chown_loses_setuid

/-- the loop of `UnTar` onto `LocalFS` is the node list of `untar` applied in order, then `finish` -/
theorem untar_on_disk_is_untar_then_apply (o : LFS.Opts) (root : List LFS.Name) (fs : LFS.FS) (b : Bytes)
    (nodes : List Node) (h : untar b = .ok nodes) :
    LFS.untarFS o root fs b = LFS.finishAll (LFS.applyAll o root { fs := fs } nodes) :=
  LFS.untarFS_of_untar o root fs b nodes h

/-! ### the file-system level, both directions: FS → `LocalFS.Next` → `tar()` → bytes → `UnTar` → `LocalFS` → FS
    (`Model/LocalFSRead.lean`: `filepath.Walk` with the callback of `startSerializer`, and `LocalFS.Next`) -/

/-- **The record stream of a directory tree on disk is a sorted pre-order walk.**  For every valid file system
    (`LFS.FSValid`: directory entries are file names; nodes made by mknod are devices, fifos or sockets), every
    directory `root` in it reached through real directories, every option (`NoTime`; `skip`: the mount points left out
    under --one-file-system): reading succeeds — no error entry, enough fuel — and the records are the pre-order
    traversal `t.records` of a tree `t` with `t.Walked`: the children of every directory in strictly increasing
    byte-wise name order, every record's `parent` = `path.Dir` of its `path`, a child's `path` = its directory's path
    joined with its name, only real directories have children (a symbolic link to a directory is a leaf); no record's
    path lies outside the root; every record of a kind `tar()` archives has the reader's shape (`LFS.Shaped`), and under
    `NoTime` every time is 0. -/
theorem walk_is_sorted_preorder (env : LFS.Env) (nt : Bool) (skip : LFS.RPath → Bool) (fs : LFS.FS)
    (root : List LFS.Name) (hv : LFS.FSValid fs) (hr : LFS.SrcRoot fs root) :
    ∃ t : Tree, LFS.readTree env nt skip fs (LFS.absStr root) = some (.ok t.records) ∧
      t.Walked (LFS.absStr root) ∧ ∀ f ∈ t.records, LFS.RecOK nt root f :=
  LFS.readTree_walked env nt skip fs root hv hr

/-- **Nothing is left out**: every object below the root that is reached through real directories has its record -/
theorem reader_leaves_nothing_out (env : LFS.Env) (nt : Bool) (fs : LFS.FS) (root : List LFS.Name)
    (hv : LFS.FSValid fs) (hr : LFS.SrcRoot fs root) (t : Tree)
    (ht : LFS.readTree env nt LFS.noSkip fs (LFS.absStr root) = some (.ok t.records))
    (p : LFS.RPath) (hp : root <+: p) (hthere : (fs.get p).isSome = true) (hd : LFS.AllDirs fs p.dropLast) :
    ∃ f ∈ t.records, f.path = LFS.absStr p :=
  LFS.readTree_complete env nt fs root hv hr t ht p hp hthere hd

/-- **Reading back what was unpacked.**  For every well-formed tree of records (the hypotheses of
    `unpacking_creates_the_tree`, owner and permissions restored) whose sibling names are sorted (`Tree.Sorted`) and whose
    records have the reader's shape (`LFS.Shaped`) and a time that survives (`LFS.TimeOK`: not 0, or `NoTime`): `UnTar`
    of the tree's archive onto a fresh directory succeeds, and reading that directory with `LocalFS` yields exactly the
    tree's records — kind, permission, set-id and sticky bits, owner, mtime (a symbolic link's own too), link target,
    extended attributes, device numbers, size and content, siblings in sorted order — carrying the paths of the place
    they were unpacked to (`Tree.rootedAt`). -/
theorem read_of_written_tree (env : LFS.Env) (nt : Bool) (root : List LFS.Name) (fs : LFS.FS) (r : FileRec)
    (cs : List Tree) (b : Bytes)
    (hroot : LFS.RootOK fs root) (hshort : LFS.Short root) (hfresh : ∀ p, root <+: p → fs.get p = none)
    (hrk : r.kind = .dir) (hrx : XattrsOK r.xattrs) (hsize : 16 + (cs.length + 1) * 24 < 2 ^ 64)
    (hcs : Tree.WFList r.path [r.path] cs) (hnames : (Tree.dir r cs).Names)
    (hfit : ∀ f ∈ (Tree.dir r cs).records, LFS.XattrsFit LFS.restoreAll f)
    (hb : tarStream (Tree.dir r cs).records = some b)
    (hsorted : (Tree.dir r cs).Sorted)
    (hshaped : ∀ f ∈ (Tree.dir r cs).records, LFS.Shaped f ∧ LFS.TimeOK nt f) :
    (LFS.untarFS LFS.restoreAll root fs b).2 = true ∧
    LFS.readTree env nt LFS.noSkip (LFS.untarFS LFS.restoreAll root fs b).1 (LFS.absStr root) =
      some (.ok ((Tree.dir r cs).rootedAt root).records) :=
  LFS.read_of_written_tree env nt root fs r cs b hroot hshort hfresh hrk hrx hsize hcs hnames hfit hb hsorted hshaped

/-- **FS₀ → archive → FS₁, one theorem.**  For every valid file system `fs₀`, every directory `root₀` in it whose record
    stream is representable (`LFS.Representable`: no fifo or socket — `tar()` skips those —, xattr names without NUL and
    in range, no `user.*` attribute on a link or device node, no time of exactly 0 unless `NoTime`, sizes in range; the
    device-number range and the mode bits need no hypothesis: what `Next` reads always fits), and every destination
    `root₁` that is fresh in `fs₁` below real directories: `Tar` over `LocalFS` succeeds (`b`), `UnTar` of `b` onto `LocalFS`
    at `root₁` succeeds, reading the copy gives the records of the original re-rooted at `root₁`, the copy's archive is
    `b` again, and at a path of the same name the two record streams are equal. -/
theorem fs_roundtrip (env : LFS.Env) (nt : Bool) (fs₀ fs₁ : LFS.FS) (root₀ root₁ : List LFS.Name)
    (hv : LFS.FSValid fs₀) (hr₀ : LFS.SrcRoot fs₀ root₀) (hd : LFS.IsDir (fs₀.get root₀))
    (hrep : ∀ recs, LFS.readTree env nt LFS.noSkip fs₀ (LFS.absStr root₀) = some (.ok recs) → LFS.Representable nt recs)
    (hroot₁ : LFS.RootOK fs₁ root₁) (hshort₁ : LFS.Short root₁) (hfresh : ∀ p, root₁ <+: p → fs₁.get p = none) :
    ∃ (t : Tree) (b : Bytes),
      LFS.readTree env nt LFS.noSkip fs₀ (LFS.absStr root₀) = some (.ok t.records) ∧ t.Walked (LFS.absStr root₀) ∧
      tarStream t.records = some b ∧
      (LFS.untarFS LFS.restoreAll root₁ fs₁ b).2 = true ∧
      LFS.readTree env nt LFS.noSkip (LFS.untarFS LFS.restoreAll root₁ fs₁ b).1 (LFS.absStr root₁) =
        some (.ok (t.rootedAt root₁).records) ∧
      tarStream (t.rootedAt root₁).records = some b ∧
      (root₁ = root₀ → LFS.readTree env nt LFS.noSkip (LFS.untarFS LFS.restoreAll root₁ fs₁ b).1 (LFS.absStr root₁) =
        LFS.readTree env nt LFS.noSkip fs₀ (LFS.absStr root₀)) :=
  LFS.fs_roundtrip env nt fs₀ fs₁ root₀ root₁ hv hr₀ hd hrep hroot₁ hshort₁ hfresh

/-- **Packing the same tree twice yields identical archive bytes** (the disk source): what `Tar` writes is a function of
    what lies below the root — two file systems that agree there (whatever order they list their directory entries in,
    whatever else they hold) give the same record stream, hence the same archive or the same failure -/
theorem tar_twice_identical (env : LFS.Env) (nt : Bool) (skip : LFS.RPath → Bool) (fs fs' : LFS.FS) (root : List LFS.Name)
    (hv : LFS.FSValid fs) (hr : LFS.SrcRoot fs root) (hr' : LFS.SrcRoot fs' root)
    (h : ∀ p, root <+: p → fs.get p = fs'.get p) :
    LFS.readTree env nt skip fs (LFS.absStr root) = LFS.readTree env nt skip fs' (LFS.absStr root) ∧
    (LFS.readTree env nt skip fs (LFS.absStr root)).map (fun r => r.toOption.bind tarStream) =
      (LFS.readTree env nt skip fs' (LFS.absStr root)).map (fun r => r.toOption.bind tarStream) :=
  ⟨LFS.readTree_ext env nt skip fs fs' root hv hr hr' h, LFS.tar_of_disk_deterministic env nt skip fs fs' root hv hr hr' h⟩

/-! non-vacuity: `LFS.ReadExample.fs0` holds /srv/src with a set-group-ID directory carrying an xattr, a set-user-ID file
    with two xattrs, a symbolic link to a directory with its own time stamp, a character device and an empty directory;
    all hypotheses of `fs_roundtrip` hold of it and of the destination /srv/dst on another file system -/
example : LFS.FSValid LFS.ReadExample.fs0 ∧ LFS.SrcRoot LFS.ReadExample.fs0 LFS.ReadExample.root0 ∧
    LFS.IsDir (LFS.ReadExample.fs0.get LFS.ReadExample.root0) ∧
    (∀ nt recs, LFS.readTree LFS.ReadExample.env0 nt LFS.noSkip LFS.ReadExample.fs0 (LFS.absStr LFS.ReadExample.root0)
      = some (.ok recs) → LFS.Representable nt recs) ∧
    LFS.RootOK LFS.ReadExample.fs1 LFS.ReadExample.root1 ∧ LFS.Short LFS.ReadExample.root1 ∧
    (∀ p, LFS.ReadExample.root1 <+: p → LFS.ReadExample.fs1.get p = none) :=
  ⟨LFS.ReadExample.valid0, LFS.ReadExample.srcRoot0, LFS.ReadExample.isDir0,
   fun nt => LFS.representable_of_check (LFS.ReadExample.representable0 nt),
   LFS.ReadExample.rootOK1, LFS.ReadExample.short1, LFS.ReadExample.fresh1⟩

/-- the order in which that tree is read: "src", then "A" (upper case sorts first), "c", "sub" and, right after "sub",
    its children "f" and "l" — the link to a directory is a leaf; kinds and the set-id bits as stored -/
example :
    (match LFS.readTree LFS.ReadExample.env0 false LFS.noSkip LFS.ReadExample.fs0 (LFS.absStr LFS.ReadExample.root0) with
     | some (.ok recs) => recs.map fun f => (f.base, f.kind, f.mode % 4096, f.major, f.minor)
     | _ => []) =
    [([115, 114, 99], .dir, 0o755, 0, 0), ([65], .dir, 0o1777, 0, 0), ([99], .device, 0o660, 1, 3),
      ([115, 117, 98], .dir, 0o2775, 0, 0), ([102], .reg, 0o4755, 0, 0), ([108], .symlink, 0o777, 0, 0)] := by decide

/-! ### the source the reading-side model was written from (regenerated facts) -/

/-- `LocalFS.Next`: the `File` literal field by field, the `NoTime` override, the calls that read xattrs (every entry, links
    included, on the walk's path), link target (under a `ModeSymlink` test) and content (under `IsRegular`) -/
theorem gen_lfsread_next :
    Gen.site_lfsread_file_literal_found = true ∧ Gen.lfsNextFile = LFS.ReadFacts.fileLiteral ∧
    Gen.site_lfsread_notime_found = true ∧ Gen.lfsNextNoTime = LFS.ReadFacts.noTime ∧
    Gen.site_lfsread_calls_found = true ∧ Gen.lfsNextCalls = LFS.ReadFacts.calls := by decide

/-- the device numbers `Next` splits out of `st_rdev` are `Mode.rdevMajor` / `Mode.rdevMinor` -/
theorem gen_lfsread_dev :
    Gen.site_lfsread_major_found = true ∧ Gen.site_lfsread_minor_found = true ∧
    ∀ r, Gen.lfsNextMajor r = Mode.rdevMajor r ∧ Gen.lfsNextMinor r = Mode.rdevMinor r :=
  ⟨by decide, by decide, fun _ => ⟨rfl, rfl⟩⟩

/-- `startSerializer`: a sorted walk from `fs.Root` whose callback sends every entry it does not skip, skips (before
    sending) only directories on another device under --one-file-system, and otherwise returns nil; `tar()` reads `Size`
    of regular files only -/
theorem gen_lfsread_walk :
    Gen.site_lfsread_walk_found = true ∧ Gen.lfsWalkCallback = LFS.ReadFacts.walkCallback ∧
    Gen.site_lfsread_size_use_found = true ∧ Gen.tarSizeUses = LFS.ReadFacts.sizeUses := by decide
/-! ### the tar-stream input leg and the GNU-tar output leg (tarfs.go, `Model/TarFS.lean`) -/

open TarFS in
/-- **The tar-stream input leg reproduces type, permission, set-id and sticky bits.**  For every header archive/tar
    hands to `TarReader.Next` — any type flag, any 64-bit value in the mode field — the stat mode `tar()` stores in
    the catar entry (`FilemodeToStatMode` of the `File`'s mode) is the twelve low bits of the mode field OR-ed with
    a type: `typeStat` of the union of the Go type bits that `headerFileInfo.Mode()` takes from a c_IS* value in
    the mode field (`cisType`: only the six exact values c_ISDIR, c_ISFIFO, c_ISLNK, c_ISBLK, c_ISCHR, c_ISSOCK
    count, in bits 12 and up of the low 32 bits) and from the type flag (`flagType`).  When the mode field carries
    no such value, or the one that says what the type flag says (`ModeAgrees`: every header GNU tar, Go's
    `FileInfoHeader` or desync's own writer produce), the type is the S_IF* constant of the type flag
    (`statTypeOfFlag`: S_IFREG for a regular file, and for every flag that is not one of directory, symbolic link,
    character device, block device, FIFO).  A c_IS* value that contradicts the type flag is NOT ignored: the two
    are united, and a union of two different types is stored as S_IFREG (third component: a directory entry whose
    mode field says "symbolic link" becomes a regular-file mode; a regular-file entry whose mode field says
    "directory" becomes a directory). -/
theorem tar_input_reproduces_mode :
    (∀ h : TarHdr, inputStatMode h =
      typeStat (cisType h.mode ||| flagType h.typeflag) ||| (h.mode.toUInt32 &&& 0o7777)) ∧
    (∀ h : TarHdr, ModeAgrees h →
      inputStatMode h = statTypeOfFlag h.typeflag ||| (h.mode.toUInt32 &&& 0o7777) ∧
      kindOf (readerFile h).mode = kindOfFlag h.typeflag) ∧
    (inputStatMode { typeflag := TypeDir, name := [100], mode := 0o120755 } = 0o100755 ∧
     inputStatMode { typeflag := TypeReg, name := [100], mode := 0o40644 } = 0o40644) :=
  ⟨input_mode_general, fun h hc => ⟨input_mode h hc, input_kind h hc⟩, by decide⟩

open TarFS in
/-- the six supported type flags, spelled out: regular file, directory, symbolic link, character device, block
    device, FIFO give S_IFREG, S_IFDIR, S_IFLNK, S_IFCHR, S_IFBLK, S_IFIFO; `tar()` then packs the first five as
    file / directory / symlink / device nodes and skips a FIFO with a warning (`Kind.other`) -/
example : [TypeReg, TypeDir, TypeSymlink, TypeChar, TypeBlock, TypeFifo].map statTypeOfFlag =
      [Mode.S_IFREG, Mode.S_IFDIR, Mode.S_IFLNK, Mode.S_IFCHR, Mode.S_IFBLK, Mode.S_IFIFO] ∧
    [TypeReg, TypeDir, TypeSymlink, TypeChar, TypeBlock, TypeFifo].map kindOfFlag =
      [.reg, .dir, .symlink, .device, .device, .other] := by decide

open TarFS in
/-- **PAX global headers are not entries of the tree** (`TarReader.Next` after c6df8d2).  The files `Next` hands
    out for the entries archive/tar delivers — calling it until it fails, `readerAll` — are the pending root
    followed by `readerRun`; and `readerRun`, the records `tar()` gets (`inputRecs`) and the catar `Tar` writes
    (`tarOfStream`) are the same for an entry list and for the list with every `TypeXGlobalHeader` record
    removed: one at the front (every `git archive` stream), several in a row, one at the very end before `io.EOF`. -/
theorem tar_input_skips_global_headers (addRoot : Bool) (es : List Entry) (libEOF : Bool) :
    readerAll addRoot es =
      ((if addRoot then [(rootFile, [])] else []) ++ (readerRun es).1, endOfRun (readerRun es).2) ∧
    inputRecs addRoot (es.filter fun e => e.1.typeflag ≠ TypeXGlobalHeader) = inputRecs addRoot es ∧
    tarOfStream addRoot (es.filter fun e => e.1.typeflag ≠ TypeXGlobalHeader) libEOF = tarOfStream addRoot es libEOF :=
  ⟨readerAll_eq_run addRoot es, inputRecs_filter addRoot es, by unfold tarOfStream; rw [inputRecs_filter]⟩

open TarFS in
/-- **A hard link entry is an error, never an empty file** (`TarReader.Next` after c6df8d2).  For a stream whose
    first hard link entry is `e`: the `Next` that meets it returns the error "<name>: hard links are not
    supported" — neither it nor anything after it becomes a record (first two components) —, and `Tar` fails unless
    it stopped reading before that entry: if it returns success, then the first record is not a directory (`tar()`
    packs that one entry and reads no further) or the root directory's child loop ended at an entry that does not
    belong below the root (`rest' ≠ []`; everything from there on is left unread — both are what `tar()` does with
    any stream).  With `tarStreamE true = tarStream` the model of `Model/Archive.lean` is the `io.EOF` case. -/
theorem tar_input_refuses_hard_links (addRoot : Bool) (pre post : List Entry) (e : Entry) (libEOF : Bool)
    (hl : e.1.typeflag = TypeLink) (hpre : ∀ x ∈ pre, x.1.typeflag ≠ TypeLink) :
    (readerAll addRoot (pre ++ e :: post)).2 = .hardLink e.1.name ∧
    inputRecs addRoot (pre ++ e :: post) = ((inputRecs addRoot pre).1, some e.1.name) ∧
    (∀ b, tarOfStream addRoot (pre ++ e :: post) libEOF = some b →
      ∃ f rest, (inputRecs addRoot pre).1 = f :: rest ∧
        (f.kind ≠ .dir ∨ ∃ b' rest', tarOneE false (2 * (rest.length + 1) + 2) f rest = some (b', rest') ∧ rest' ≠ [])) ∧
    (∀ recs, tarStreamE true recs = tarStream recs) := by
  obtain ⟨h1, h2⟩ := readerRun_hard_link pre post e hl hpre
  have hrecs : inputRecs addRoot (pre ++ e :: post) = ((inputRecs addRoot pre).1, some e.1.name) := by
    unfold inputRecs; rw [h1]
  refine ⟨by rw [readerAll_eq_run, h1]; rfl, hrecs, ?_, tarStreamE_true⟩
  intro b hb
  unfold tarOfStream at hb
  rw [hrecs] at hb
  simp only [Option.isNone_some, Bool.and_false] at hb
  cases hr : (inputRecs addRoot pre).1 with
  | nil => rw [hr] at hb; simp [tarStreamE] at hb
  | cons f rest =>
    refine ⟨f, rest, rfl, ?_⟩
    rw [hr] at hb
    simp only [tarStreamE, Option.map_eq_some_iff] at hb
    obtain ⟨⟨b', rest'⟩, hb', _⟩ := hb
    by_cases hk : f.kind = .dir
    · exact Or.inr ⟨b', rest', hb', tarOneE_false_dir _ _ _ _ _ hk hb'⟩
    · exact Or.inl hk

/-- the three-entry stream of the legacy counterexamples: a PAX global header, the directory "./", the file "./a"
    with content "x" -/
def TarFS.exGitArchive : List TarFS.Entry :=
  [({ typeflag := TarFS.TypeXGlobalHeader, name := [112] }, []),
   ({ typeflag := TarFS.TypeDir, name := [46, 47], mode := 0o755 }, []),
   ({ typeflag := TarFS.TypeReg, name := [46, 47, 97], mode := 0o644, size := 1 }, [120])]

/-- a directory, a file and a second name for it (a hard link entry, size 0, no content) -/
def TarFS.exHardLink : List TarFS.Entry :=
  [({ typeflag := TarFS.TypeDir, name := [46, 47], mode := 0o755 }, []),
   ({ typeflag := TarFS.TypeReg, name := [46, 47, 97], mode := 0o644, size := 1 }, [120]),
   ({ typeflag := TarFS.TypeLink, name := [46, 47, 98], linkname := [46, 47, 97], mode := 0o644 }, [])]

open TarFS in
/-- **the defect repaired by c6df8d2, on the legacy model** (was finding
    `tarinput.typeflag-not-a-file-becomes-regular-file`): before, the global header at the front of a `git archive`
    stream was handed out as a `File`, and being the first it was the root — a regular file of size 0 — so `tar()`
    packed that one entry (`rest` comes back unread) and succeeded; now the records are those of the directory and
    the file -/
theorem legacy_pax_global_header_becomes_root :
    ((inputRecsLegacy false exGitArchive).map fun r => (r.kind, r.path, r.size)) =
      [(.reg, [112], 0), (.dir, [46], 0), (.reg, [97], 1)] ∧
    (∀ r rest, (inputRecsLegacy false exGitArchive) = r :: rest →
      ∃ b, tarOneE true 8 r rest = some (b, rest)) ∧
    ((inputRecs false exGitArchive).1.map fun r => (r.kind, r.path, r.size)) = [(.dir, [46], 0), (.reg, [97], 1)] ∧
    (inputRecs false exGitArchive).2 = none := by
  refine ⟨by decide, ?_, by decide, by decide⟩
  intro r rest h
  have hk : (inputRecsLegacy false exGitArchive).head?.map (·.kind) = some .reg := by decide
  have hs : (inputRecsLegacy false exGitArchive).head?.map (fun r => decide (r.data.length < r.size.toNat)) = some false := by decide
  rw [h] at hk hs
  simp only [List.head?_cons, Option.map_some, Option.some.injEq] at hk hs
  simp only [tarOneE, hk]
  simp only [show (Kind.reg = Kind.other) = False from by simp, if_false]
  have : ¬ r.data.length < r.size.toNat := by simpa using hs
  simp [this]

open TarFS in
/-- **the other half of that defect**: before, the hard link entry became a regular file of size 0 with no content
    (the content of "b" lost, with success); now the stream ends with the error at that entry, and `Tar` of this
    tree-shaped stream fails -/
theorem legacy_hard_link_becomes_empty_file :
    ((inputRecsLegacy false exHardLink).map fun r => (r.kind, r.path, r.size, r.data)) =
      [(.dir, [46], 0, []), (.reg, [97], 1, [120]), (.reg, [98], 0, [])] ∧
    (readerAll false exHardLink).2 = .hardLink [46, 47, 98] ∧
    ((inputRecs false exHardLink).1.map fun r => r.path) = [[46], [97]] := by
  decide

open TarFS in
/-- non-vacuity of `tar_input_refuses_hard_links`, and the tree-shaped case evaluated: `Tar` fails (the child loop of
    the root reads on to the hard link) -/
example : (∀ x ∈ exHardLink.take 2, x.1.typeflag ≠ TypeLink) ∧
    (tarOfStream false exHardLink true).isNone = true := by
  refine ⟨by decide, by rfl⟩

open TarFS in
/-- non-vacuity of `ModeAgrees`: a mode field as GNU tar writes it (04755) and as Go's `FileInfoHeader` writes it
    (c_ISDIR | 0755 on a directory entry) -/
example : ModeAgrees { typeflag := TypeReg, name := [102], mode := 0o4755 } ∧
    ModeAgrees { typeflag := TypeDir, name := [100], mode := 0o40755 } := by decide

open TarFS in
/-- **The tar-stream input leg carries every other field over unchanged.**  The record `tar()` works with has the
    header's uid, gid, modification time (as nanoseconds), size, link target, device numbers and extended
    attributes; its path is `path.Clean` of the header's name, its parent `path.Dir` of that, its name in the
    archive `path.Base` of `FileInfo().Name()`; its content is what reading the entry yields. -/
theorem tar_input_reproduces_fields (h : TarHdr) (data : Bytes) :
    let r := recOfFile (readerFile h) data
    r.path = goClean h.name ∧ r.parent = dirOf (goClean h.name) ∧ r.base = goBase (infoName h) ∧
    r.uid = h.uid ∧ r.gid = h.gid ∧ r.mtime = h.mtime.unixNano ∧ r.size = h.size ∧ r.target = h.linkname ∧
    r.major = h.devmajor ∧ r.minor = h.devminor ∧ r.xattrs = h.xattrs ∧ r.data = data ∧
    r.mode = (inputStatMode h).toUInt64 ∧ r.kind = kindOf (tarInfoMode h) :=
  input_fields h data

open TarFS in
/-- `path.Clean` does not change the name of an archive node: a non-empty sequence of filename elements the
    decoder accepts (none empty, ".", ".." or containing a slash), joined by slashes; nor the root's "." -/
theorem clean_keeps_node_names (cs : List Bytes) (hne : cs ≠ []) (h : ∀ c ∈ cs, NormalElem c) :
    goClean (joinSlash cs) = joinSlash cs ∧ goClean [dot] = [dot] :=
  ⟨goClean_joinSlash cs hne h, goClean_dot⟩

open TarFS in
/-- **GNU-tar output, read back (partial).**  (1) The header `TarWriter` builds for a node (`writerHdr`), read by
    `TarReader`, gives back: the path (names that `path.Clean` leaves alone: `clean_keeps_node_names`), owner,
    modification time, extended attributes, size, link target and device numbers exactly, and of the mode the
    S_IF* type and the nine permission bits.  (2) With archive/tar's encoding in between (`wire`: what
    `Writer.WriteHeader` followed by `Reader.Next` returns, `none` when the header is refused): whenever the header
    is accepted, the same fields come back — the extended attributes among them, since a node that has any gets a PAX
    header (`formatFor`, 8595654); only an attribute whose value is EMPTY does not come back through archive/tar's
    reader (`wireXattrs`: it takes a PAX record with an empty value for "no value"; the record is in the stream) — and
    the modification time comes back as far as the format keeps it: EXACTLY, to
    the nanosecond, for a directory, file or link WITH an extended attribute (PAX header), cut to whole seconds for
    one without (GNU header), rounded to the nearest second for a device node (no format asked for).  So the time
    precision of an entry in the GNU tar stream depends on whether the node has extended attributes.
    PARTIAL: the set-id and sticky bits are gone (`gnutar_loses_setid`; the known finding), and not every header is
    accepted (`gnutar_refused_exactly_when`). -/
theorem gnutar_roundtrip_partial (k : NKind) (n : TNode) (hmode : NodeModeOK k n.mode)
    (hclean : goClean n.name = n.name) :
    (let f := readerFile (writerHdr k n)
     f.path = n.name ∧ f.name = goBase n.name ∧ f.uid = n.uid ∧ f.gid = n.gid ∧ f.mtime = n.mtime ∧
     f.xattrs = n.xattrs ∧ f.size = (if k = .file then n.size else 0) ∧
     f.linkTarget = (if k = .symlink then n.target else []) ∧
     f.devMajor = (if k = .device then n.major else 0) ∧ f.devMinor = (if k = .device then n.minor else 0) ∧
     Mode.filemodeToStat f.mode = typeStat (n.mode &&& Mode.ModeType) ||| (n.mode &&& 0x1ff)) ∧
    (∀ h', wire (writerHdr k n) = some h' →
     let f := readerFile h'
     f.path = n.name ∧ f.name = goBase n.name ∧ f.uid = n.uid ∧ f.gid = n.gid ∧ f.xattrs = wireXattrs n.xattrs ∧
     f.size = (if k = .file then n.size else 0) ∧ f.linkTarget = (if k = .symlink then n.target else []) ∧
     f.devMajor = (if k = .device then n.major else 0) ∧ f.devMinor = (if k = .device then n.minor else 0) ∧
     Mode.filemodeToStat f.mode = typeStat (n.mode &&& Mode.ModeType) ||| (n.mode &&& 0x1ff) ∧
     f.mtime = (if k = .device then (if 500000000 ≤ n.mtime.nsec then ⟨n.mtime.sec + 1, 0⟩ else ⟨n.mtime.sec, 0⟩)
                else if n.xattrs = [] then ⟨n.mtime.sec, 0⟩ else n.mtime)) := by
  obtain ⟨h1, h2, h3, h4, h5, h6, h7, h8, h9, h10⟩ := gnutar_fields k n hclean
  exact ⟨⟨h1, h2, h3, h4, h5, h6, h7, h8, h9, h10, gnutar_mode k n hmode⟩, fun h' hw => gnutar_wire k n hmode hclean h' hw⟩

open TarFS in
/-- **The known finding as a theorem about the model** (`gnutar.header-mode.filemode-bits`): a regular file with
    mode 04755 written by `TarWriter` (`Mode: int64(n.Mode)`) comes back as 0755 — and with `tarMode(n.Mode)` in
    that field it would come back as 04755.  The node satisfies the hypotheses of `gnutar_roundtrip_partial`. -/
theorem gnutar_loses_setid :
    ∃ n : TNode, NodeModeOK .file n.mode ∧ goClean n.name = n.name ∧
      Mode.filemodeToStat n.mode = 0o104755 ∧
      inputStatMode (writerHdr .file n) = 0o100755 ∧
      inputStatMode (writerHdrTarMode .file n) = 0o104755 :=
  ⟨{ name := [115, 117], mode := Mode.ModeSetuid ||| 0o755 }, by decide⟩

open TarFS in
/-- **With the helper `tarMode` the whole mode survives**: had the four `Create*` methods written
    `Mode: tarMode(n.Mode)` (the function is in tarfs.go and is what the mtree writer uses), the stat mode read back
    would be the node's, set-id and sticky bits included, for every node -/
theorem gnutar_roundtrip_with_tarMode (k : NKind) (n : TNode) (hmode : NodeModeOK k n.mode) :
    inputStatMode (writerHdrTarMode k n) = Mode.filemodeToStat n.mode :=
  gnutar_mode_with_tarMode k n hmode

open TarFS in
/-- **Which headers of `TarWriter` archive/tar refuses** (its contract `wireRefuses` as far as this leg meets it;
    checked against the library in both directions on every run).  Since 8595654 a node with extended attributes
    gets a PAX header, so the refusal "Format specifies GNU; and only PAX supports Xattrs" cannot occur any more.
    What is left: a header is refused exactly when the node has an extended attribute AND its mode field —
    `int64(n.Mode)`, the Go `os.FileMode` bits of the known finding — or a device number does not fit seven octal
    digits (2^21 and above: "PAX cannot encode Mode=…"), because only a GNU header holds such a number and only a PAX
    header holds `Xattrs`. -/
theorem gnutar_refused_exactly_when (k : NKind) (n : TNode) :
    wireRefuses (writerHdr k n) =
      (!n.xattrs.isEmpty && (needsBase256 (rawMode n.mode) ||
        (decide (k = .device) && (needsBase256 n.major || needsBase256 n.minor)))) :=
  gnutar_refused k n

open TarFS in
/-- **`untar --output-format gnu-tar` no longer fails for the reason repaired by 8595654** — PARTIAL: claimed for
    every node without extended attributes (any kind), and for every regular file whose mode consists of permission
    bits and at most the sticky bit, with any extended attributes.  NOT claimed, because false of the code as it
    stands (`gnutar_still_refuses_filemode_bits_with_xattrs`): directories, symbolic links, device nodes and
    set-user-ID / set-group-ID files that have an extended attribute. -/
theorem gnutar_never_refused_partial (k : NKind) (n : TNode)
    (h : n.xattrs = [] ∨ (k = .file ∧ n.mode &&& ~~~ (0x1ff ||| Mode.ModeSticky) = 0)) :
    wireRefuses (writerHdr k n) = false := by
  rw [gnutar_refused k n]
  rcases h with h | ⟨hk, hm⟩
  · simp [h]
  · subst hk
    simp [rawMode_small _ hm]

open TarFS in
/-- **What the repair 8595654 does not reach** (decided on the model, reproduced on the real code by
    harness/repro `TestGnuTarOutputKeepsXattrsOnDirectories`): a directory (mode field 020000000755), a symbolic link
    and a set-user-ID file with an extended attribute are still refused — the `os.FileMode` bits that `TarWriter`
    writes into the mode field (the known finding `gnutar.header-mode.filemode-bits`) need a GNU header, the
    attributes a PAX header.  Each of the three nodes satisfies `NodeModeOK`. -/
theorem gnutar_still_refuses_filemode_bits_with_xattrs :
    wireRefuses (writerHdr .dir { name := [100], mode := Mode.ModeDir ||| 0o755, xattrs := [([117], [118])] }) = true ∧
    wireRefuses (writerHdr .symlink { name := [108], mode := Mode.ModeSymlink ||| 0o777, target := [116],
                                      xattrs := [([117], [118])] }) = true ∧
    wireRefuses (writerHdr .file { name := [102], mode := Mode.ModeSetuid ||| 0o755, xattrs := [([117], [118])] }) = true ∧
    wireRefuses (writerHdr .file { name := [102], mode := 0o644, xattrs := [([117], [118])] }) = false ∧
    NodeModeOK .dir (Mode.ModeDir ||| 0o755) ∧ NodeModeOK .symlink (Mode.ModeSymlink ||| 0o777) ∧
    NodeModeOK .file (Mode.ModeSetuid ||| 0o755) := by
  decide

open TarFS in
/-- **with the helper `tarMode` nothing would be refused**: had the four `Create*` methods written
    `Mode: tarMode(n.Mode)`, no header of a directory, file or link would be refused whatever attributes the node
    has, and that of a device node only for device numbers of 2^21 and above together with an attribute — the repair
    of the known finding is also the rest of the repair of this one -/
theorem gnutar_never_refused_with_tarMode (k : NKind) (n : TNode)
    (hdev : k = .device → needsBase256 n.major = false ∧ needsBase256 n.minor = false) :
    wireRefuses (writerHdrTarMode k n) = false :=
  gnutar_never_refused_tarMode k n hdev

open TarFS in
/-- **the defect repaired by 8595654, on the legacy model** (was finding `gnutar.xattrs.refused-under-format-gnu`):
    before, every directory, file and link with an extended attribute was refused; the plain file of the example is
    accepted now -/
theorem legacy_gnutar_refuses_xattrs :
    (∀ (k : NKind) (n : TNode), k ≠ .device → n.xattrs ≠ [] → wireRefuses (writerHdrLegacy k n) = true) ∧
    wireRefuses (writerHdrLegacy .file { name := [102], mode := 0o644, xattrs := [([117], [118])] }) = true ∧
    wireRefuses (writerHdr .file { name := [102], mode := 0o644, xattrs := [([117], [118])] }) = false :=
  ⟨gnutar_refused_legacy, by decide, by decide⟩

open TarFS in
/-- the modification time archive/tar keeps is never a second or more away from the node's, and exact when the
    node's has no fraction (whatever the format) -/
theorem gnutar_mtime_close (k : NKind) (n : TNode) (h : n.mtime.nsec < 1000000000) :
    n.mtime.nanos - 1000000000 < (wireMtime (writerHdr k n).format n.mtime).nanos ∧
    (wireMtime (writerHdr k n).format n.mtime).nanos ≤ n.mtime.nanos + 500000000 ∧
    (n.mtime.nsec = 0 → wireMtime (writerHdr k n).format n.mtime = n.mtime) :=
  wireMtime_close _ _ h

open TarFS in
/-- non-vacuity of `gnutar_roundtrip_partial`'s second part: a file `a/b` with an extended attribute and a
    sub-second time is accepted and its time comes back exactly; the same file without the attribute comes back with
    whole seconds -/
example :
    (wire (writerHdr .file { name := [97, 47, 98], mode := 0o644, mtime := ⟨5, 7⟩, xattrs := [([117], [118])] })).map
      (·.mtime) = some ⟨5, 7⟩ ∧
    (wire (writerHdr .file { name := [97, 47, 98], mode := 0o644, mtime := ⟨5, 7⟩ })).map (·.mtime) = some ⟨5, 0⟩ ∧
    NodeModeOK .file 0o644 ∧ goClean [97, 47, 98] = [97, 47, 98] := by decide

end Desync.C05
