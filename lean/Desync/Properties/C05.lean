/-
  C05 — tar then untar reproduces the directory tree.

  Model: `Model/Archive.lean` (`tarStream` = `Tar` over the record stream a `FilesystemReader`
  yields; `untar` = `UnTar` as the sequence of nodes handed to the `FilesystemWriter`),
  `Model/Mode.lean` (mode and device-number conversions).

  Main theorem `untar_tar`: for every well-formed directory tree of arbitrary nesting and
  fan-out — regular files of any size and content, symlinks to anything, devices, xattrs on every
  node, any uid/gid/mode/mtime values — unpacking the archive desync writes yields exactly the
  tree's nodes (path, type, metadata, xattrs, symlink target, device numbers, file contents).
  `mode_roundtrip`/`dev_roundtrip` cover the conversion between the archive's stat modes /
  device numbers and what the writer passes to chmod/mknod.

  `unpacking_creates_the_tree` carries this to the file system: `UnTar` onto the `LocalFS` writer
  over the POSIX model of `Model/LocalFS.lean` creates exactly the tree, directory mtimes and the
  symbolic links' own mtimes included (`symlink_mtime_set_without_following`: the no-follow call).

  Modelled, not verified (exercised on disk by the harness as root: lstat/readlink/xattr/content
  snapshots, both digests, caidx+store, tar-stream input, gnu-tar/mtree output): `filepath.Walk`
  order and the reading side of `LocalFS`, `archive/tar`, chunking of the archive (C02) and chunk
  transport (C03).  The file-system model carries owner, the twelve mode bits and the extended
  attributes of every object (`chown` clearing set-id bits of non-directories, `user.*` attributes
  refused on links and device nodes); the creation mode under the process's umask is abstract (`none`).
-/
import Desync.Proofs.TarTreeRoundTrip
import Desync.Proofs.ModeProofs
import Desync.Proofs.LocalFSRoundTrip
import Desync.Proofs.LocalFSAttrOrder

namespace Desync.C05
open Desync

/-- **tar ; untar = identity on trees** (any nesting, any fan-out, all supported node kinds,
    xattrs everywhere) -/
theorem untar_tar (r : FileRec) (cs : List Tree)
    (hrk : r.kind = .dir) (hrx : XattrsOK r.xattrs)
    (hsize : 16 + (cs.length + 1) * 24 < 2 ^ 64)
    (hcs : Tree.WFList r.path [r.path] cs) :
    ∃ b, tarStream (Tree.dir r cs).records = some b ∧
      untar b = .ok (.dir [dot] ⟨r.uid, r.gid, r.mode, r.mtime, r.xattrs⟩ ::
        cs.flatMap (Tree.nodes [dot])) :=
  untar_tar_tree r cs hrk hrx hsize hcs

/-- the flat special case with the record stream spelled out -/
theorem untar_tar_flat_dir (root : FileRec) (children : List FileRec)
    (hrk : root.kind = .dir) (hrx : XattrsOK root.xattrs)
    (hch : ∀ f ∈ children, LeafOK root f)
    (hsize : 16 + (children.length + 1) * 24 < 2 ^ 64) :
    ∃ b, tarStream (root :: children) = some b ∧
      untar b = .ok (.dir [dot] ⟨root.uid, root.gid, root.mode, root.mtime, root.xattrs⟩ ::
        children.map leafNode) :=
  untar_tar_flat root children hrk hrx hch hsize

/-- **Determinism**: the archive is a function of the record stream (no clock, no map order:
    xattrs are emitted in the order of the sorted key list the reader supplies) -/
theorem tar_deterministic (recs recs' : List FileRec) (h : recs = recs') :
    tarStream recs = tarStream recs' := by rw [h]

/-- **Modes**: every stat mode with one of the seven file types and any permission, set-id and
    sticky bits survives archive → `os.FileMode` → chmod/mknod argument unchanged, and vice versa -/
theorem mode_roundtrip :
    (∀ m : UInt32, m &&& 0xffff0000 = 0 → Mode.validType (m &&& Mode.S_IFMT) = true →
      Mode.filemodeToStat (Mode.statToFilemode m) = m) ∧
    (∀ fm : UInt32,
      fm &&& (~~~ (0x1ff ||| Mode.ModeType ||| Mode.ModeSetuid ||| Mode.ModeSetgid ||| Mode.ModeSticky)) = 0 →
      Mode.validGoType (fm &&& Mode.ModeType) = true →
      Mode.statToFilemode (Mode.filemodeToStat fm) = fm) :=
  ⟨Mode.stat_roundtrip, Mode.filemode_roundtrip⟩

/-- **Device numbers** survive `Rdev` split → archive → `mkdev` for major < 2^12, minor < 2^20;
    outside that range the read side drops bits (second component: a witness), so the property's
    device clause is claimed within the range only -/
theorem dev_roundtrip :
    (∀ major minor : UInt64, major < 4096 → minor < 1048576 →
      Mode.rdevMajor (Mode.mkdev major minor) = major ∧ Mode.rdevMinor (Mode.mkdev major minor) = minor) ∧
    (∃ major minor : UInt64, Mode.rdevMajor (Mode.mkdev major minor) ≠ major) :=
  ⟨Mode.dev_roundtrip, Mode.dev_roundtrip_fails_outside⟩

/-! non-vacuity: a nested tree satisfying the hypotheses -/
def mkRec (kind : Kind) (base path parent data : Bytes) : FileRec :=
  { base, path, parent, kind, mode := 0, uid := 0, gid := 0, mtime := 0,
    size := UInt64.ofNat data.length, data, target := [], major := 0, minor := 0, xattrs := [] }
def exRoot : FileRec := mkRec .dir [dot] [dot] [dot] []
def exDir : FileRec := mkRec .dir [97] [97] [dot] []
def exFile : FileRec := mkRec .reg [102] [97, slash, 102] [97] [1, 2, 3]

example : Tree.WFList exRoot.path [exRoot.path] [Tree.dir exDir [Tree.leaf exFile]] := by
  simp [Tree.WFList, Tree.WF, LeafWF, XattrsOK, exRoot, exDir, exFile, mkRec, u64len]
  decide

/-! ### the file-system level: what `UnTar` onto `LocalFS` leaves on disk (`Model/LocalFS.lean`) -/

/-- **Unpacking a packed tree onto a fresh destination creates exactly that tree.**  For every
    well-formed tree (any nesting and fan-out; sibling names distinct and at most 255 bytes), every
    option set and every file system in which the destination does not exist yet below real
    directories: `UnTar` of the archive `Tar` writes returns success, and beneath the destination
    the file system holds exactly the tree — every directory, file, symlink and device node at its
    path with its contents / target / device numbers, the archived owner and extended attributes
    (unless `noSameOwner`), the archived permission, set-id and sticky bits (unless
    `noSamePermissions`; set-id bits survive because `chown` comes before `chmod`): `LFS.attrOfRec`,
    `LFS.linkAttrOfRec` for links, and the archived modification time set explicitly (`LFS.mtimeOf`:
    `none` when the archive records 0), *also on directories that got children after they were
    created* (`finish` re-applies them; the defect D17 and its repair) *and on symbolic links*: a
    link gets its own archived modification time through the no-follow call (`LFS.lchtimes`,
    utimensat with AT_SYMLINK_NOFOLLOW — `symlink_mtime_set_without_following`), never the object it
    points to.  `hfit`: when owner and xattrs are restored, no symlink or device record carries a
    `user.*` extended attribute — the kernel refuses those and `UnTar` fails
    (`unpacking_link_with_user_xattr_fails`).  Distinct xattr keys per record are part of `XattrsOK`. -/
theorem unpacking_creates_the_tree (o : LFS.Opts) (root : List LFS.Name) (fs : LFS.FS) (r : FileRec)
    (cs : List Tree) (b : Bytes)
    (hroot : LFS.RootOK fs root) (hshort : LFS.Short root)
    (hfresh : ∀ p, root <+: p → fs.get p = none)
    (hrk : r.kind = .dir) (hrx : XattrsOK r.xattrs) (hsize : 16 + (cs.length + 1) * 24 < 2 ^ 64)
    (hcs : Tree.WFList r.path [r.path] cs) (hnames : (Tree.dir r cs).Names)
    (hfit : ∀ f ∈ (Tree.dir r cs).records, LFS.XattrsFit o f)
    (hb : tarStream (Tree.dir r cs).records = some b) :
    (LFS.untarFS o root fs b).2 = true ∧
    ∀ p, root <+: p → ((LFS.untarFS o root fs b).1).get p =
      (((root, LFS.Obj.dir (LFS.attrOfRec o r) (LFS.mtimeOf r)) :: Tree.expectList o root cs).lookup p) :=
  LFS.untar_creates_tree o root fs r cs b hroot hshort hfresh hrk hrx hsize hcs hnames hfit hb

/-- the hypothesis `hfit` is needed: `CreateSymlink` of a node with a `user.*` extended attribute fails
    when owner and xattrs are restored (EPERM from `lsetxattr`; the link itself exists by then) -/
theorem unpacking_link_with_user_xattr_fails (o : LFS.Opts) (root : List LFS.Name) (s : LFS.LState)
    (name : Bytes) (m : Meta) (target : Bytes) (h : LFS.Good s.fs (LFS.dstOf root name))
    (hn : s.fs.get (LFS.dstOf root name) = none) (hO : o.noSameOwner = false)
    (hx : ∃ kv ∈ m.xattrs, LFS.isUserXattr kv.1 = true) :
    ∃ f, LFS.createSymlink o root s name m target = .error f :=
  LFS.createSymlink_user_xattr_fails o root s name m target h hn hO hx

/-- **A symbolic link's time stamp is set on the link, not through it.**  `LFS.lchtimes` is
    `lchtimes(dst, n.MTime)` of `LocalFS.CreateSymlink` (utimensat with AT_SYMLINK_NOFOLLOW).  Whenever
    the path — its last component not followed — names a symbolic link, the call succeeds, the link
    object gets the modification time `t` (target and attributes kept), and every other object of the
    file system, the one the link points to in particular, is what it was. -/
theorem symlink_mtime_set_without_following (fs : LFS.FS) (p : List LFS.Name) (rp : LFS.RPath)
    (tg : Bytes) (a : LFS.Attr) (m : Option Nat) (t : Nat)
    (hr : LFS.resolve fs false p = .ok rp) (hg : fs.get rp = some (.symlink tg a m)) :
    LFS.lchtimes fs p t = .ok (fs.set rp (.symlink tg a (some t))) ∧
      ∀ q, q ≠ rp → (fs.set rp (.symlink tg a (some t))).get q = fs.get q :=
  LFS.lchtimes_symlink t hr hg

/-- a link `/l → f` and a file `/f` with mtime 3: the no-follow call stamps the link and the file keeps
    its mtime; `os.Chtimes` on the same path would have stamped the file and left the link alone -/
example :
    LFS.AttrOrder.fsAfter (LFS.lchtimes LFS.AttrOrder.fsLink [[108]] 9) =
      some [([[108]], .symlink [102] {} (some 9)), ([[102]], .file [97] {} (some 3))] ∧
    LFS.AttrOrder.fsAfter (LFS.chtimes LFS.AttrOrder.fsLink [[108]] 9) =
      some [([[102]], .file [97] {} (some 9)), ([[108]], .symlink [102] {} none)] :=
  LFS.AttrOrder.lchtimes_sets_link_not_target

/-- the same by evaluation: the hypotheses of `symlink_mtime_set_without_following` hold of this file
    system, and the file's object is untouched -/
example :
    LFS.resolve LFS.AttrOrder.fsLink false [[108]] = .ok [[108]] ∧
    LFS.AttrOrder.fsLink.get [[108]] = some (.symlink [102] {} none) ∧
    ((LFS.AttrOrder.fsLink.set [[108]] (.symlink [102] {} (some 9))).get [[102]]) =
      some (.file [97] {} (some 3)) := by
  refine ⟨by rfl, by decide, by decide⟩

/-- the order of the calls in `setPerms` matters: `chmod` 04755 followed by `chown` loses the set-user-ID
    bit of a regular file, `chown` followed by `chmod` (what localfs.go does) keeps it -/
theorem chown_must_come_before_chmod :
    LFS.AttrOrder.objAfter (LFS.AttrOrder.chmodThenChown LFS.AttrOrder.fsFile 0o4755 1000 100) =
      some (.file [97] { owner := some (1000, 100), mode := some 0o755 } none) ∧
    LFS.AttrOrder.objAfter (LFS.AttrOrder.chownThenChmod LFS.AttrOrder.fsFile 0o4755 1000 100) =
      some (.file [97] { owner := some (1000, 100), mode := some 0o4755 } none) :=
  LFS.AttrOrder.chmod_then_chown_loses_setuid

/-- the loop of `UnTar` onto `LocalFS` is the node list of `untar` applied in order, then `finish` -/
theorem untar_on_disk_is_untar_then_apply (o : LFS.Opts) (root : List LFS.Name) (fs : LFS.FS) (b : Bytes)
    (nodes : List Node) (h : untar b = .ok nodes) :
    LFS.untarFS o root fs b = LFS.finishAll (LFS.applyAll o root { fs := fs } nodes) :=
  LFS.untarFS_of_untar o root fs b nodes h

end Desync.C05
