/-
  C05 — tar then untar reproduces the directory tree.

  Model: `Model/Archive.lean` (`tarStream` = `Tar` over the record stream a `FilesystemReader`
  yields; `untar` = `UnTar` as the sequence of nodes handed to the `FilesystemWriter`),
  `Model/Mode.lean` (mode and device-number conversions).

  Main theorem `untar_tar`: for every well-formed directory tree of arbitrary nesting and
  fan-out — regular files of any size and content, symlinks to anything, devices, xattrs on every
  node, any uid/gid/mode/mtime values — unpacking the archive desync writes yields exactly the
  tree's nodes (path, type, metadata, xattrs, symlink target, device numbers, file contents).
  `mode_roundtrip`/`dev_roundtrip` cover the conversion between the archive's stat modes /
  device numbers and what the writer passes to chmod/mknod.

  `unpacking_creates_the_tree` carries this to the file system: `UnTar` onto the `LocalFS` writer
  over the POSIX model of `Model/LocalFS.lean` creates exactly the tree, directory mtimes and the
  symbolic links' own mtimes included (`symlink_mtime_set_without_following`: the no-follow call).

  The reading side of `LocalFS` (`filepath.Walk` with the callback of `startSerializer`, `LocalFS.Next`)
  is modelled over the same file system (`Model/LocalFSRead.lean`): `walk_is_sorted_preorder`,
  `read_of_written_tree`, `fs_roundtrip` (FS → archive → FS as one theorem), `tar_twice_identical`.

  Exercised on disk by the harness as root, not modelled (lstat/readlink/xattr/content snapshots, both
  digests, caidx+store, tar-stream input, gnu-tar/mtree output): `archive/tar`, chunking of the archive
  (C02) and chunk transport (C03).  The file-system model carries owner, the twelve mode bits and the extended
  attributes of every object (`chown` clearing set-id bits of non-directories, `user.*` attributes
  refused on links and device nodes); the creation mode under the process's umask is abstract (`none`).
-/
import Desync.Proofs.TarTreeRoundTrip
import Desync.Proofs.ModeProofs
import Desync.Proofs.LocalFSRoundTrip
import Desync.Proofs.LocalFSAttrOrder
import Desync.Proofs.LocalFSReadExample

namespace Desync.C05
open Desync

/-- **tar ; untar = identity on trees** (any nesting, any fan-out, all supported node kinds,
    xattrs everywhere) -/
theorem untar_tar (r : FileRec) (cs : List Tree)
    (hrk : r.kind = .dir) (hrx : XattrsOK r.xattrs)
    (hsize : 16 + (cs.length + 1) * 24 < 2 ^ 64)
    (hcs : Tree.WFList r.path [r.path] cs) :
    ∃ b, tarStream (Tree.dir r cs).records = some b ∧
      untar b = .ok (.dir [dot] ⟨r.uid, r.gid, r.mode, r.mtime, r.xattrs⟩ ::
        cs.flatMap (Tree.nodes [dot])) :=
  untar_tar_tree r cs hrk hrx hsize hcs

/-- the flat special case with the record stream spelled out -/
theorem untar_tar_flat_dir (root : FileRec) (children : List FileRec)
    (hrk : root.kind = .dir) (hrx : XattrsOK root.xattrs)
    (hch : ∀ f ∈ children, LeafOK root f)
    (hsize : 16 + (children.length + 1) * 24 < 2 ^ 64) :
    ∃ b, tarStream (root :: children) = some b ∧
      untar b = .ok (.dir [dot] ⟨root.uid, root.gid, root.mode, root.mtime, root.xattrs⟩ ::
        children.map leafNode) :=
  untar_tar_flat root children hrk hrx hch hsize

/-- **Determinism**: the archive is a function of the record stream (no clock, no map order:
    xattrs are emitted in the order of the sorted key list the reader supplies) -/
theorem tar_deterministic (recs recs' : List FileRec) (h : recs = recs') :
    tarStream recs = tarStream recs' := by rw [h]

/-- **Modes**: every stat mode with one of the seven file types and any permission, set-id and
    sticky bits survives archive → `os.FileMode` → chmod/mknod argument unchanged, and vice versa -/
theorem mode_roundtrip :
    (∀ m : UInt32, m &&& 0xffff0000 = 0 → Mode.validType (m &&& Mode.S_IFMT) = true →
      Mode.filemodeToStat (Mode.statToFilemode m) = m) ∧
    (∀ fm : UInt32,
      fm &&& (~~~ (0x1ff ||| Mode.ModeType ||| Mode.ModeSetuid ||| Mode.ModeSetgid ||| Mode.ModeSticky)) = 0 →
      Mode.validGoType (fm &&& Mode.ModeType) = true →
      Mode.statToFilemode (Mode.filemodeToStat fm) = fm) :=
  ⟨Mode.stat_roundtrip, Mode.filemode_roundtrip⟩

/-- **Device numbers** survive `Rdev` split → archive → `mkdev` for major < 2^12, minor < 2^20;
    outside that range the read side drops bits (second component: a witness), so the property's
    device clause is claimed within the range only -/
theorem dev_roundtrip :
    (∀ major minor : UInt64, major < 4096 → minor < 1048576 →
      Mode.rdevMajor (Mode.mkdev major minor) = major ∧ Mode.rdevMinor (Mode.mkdev major minor) = minor) ∧
    (∃ major minor : UInt64, Mode.rdevMajor (Mode.mkdev major minor) ≠ major) :=
  ⟨Mode.dev_roundtrip, Mode.dev_roundtrip_fails_outside⟩

/-! non-vacuity: a nested tree satisfying the hypotheses -/
def mkRec (kind : Kind) (base path parent data : Bytes) : FileRec :=
  { base, path, parent, kind, mode := 0, uid := 0, gid := 0, mtime := 0,
    size := UInt64.ofNat data.length, data, target := [], major := 0, minor := 0, xattrs := [] }
def exRoot : FileRec := mkRec .dir [dot] [dot] [dot] []
def exDir : FileRec := mkRec .dir [97] [97] [dot] []
def exFile : FileRec := mkRec .reg [102] [97, slash, 102] [97] [1, 2, 3]

example : Tree.WFList exRoot.path [exRoot.path] [Tree.dir exDir [Tree.leaf exFile]] := by
  simp [Tree.WFList, Tree.WF, LeafWF, XattrsOK, exRoot, exDir, exFile, mkRec, u64len]
  decide

/-! ### the file-system level: what `UnTar` onto `LocalFS` leaves on disk (`Model/LocalFS.lean`) -/

/-- **Unpacking a packed tree onto a fresh destination creates exactly that tree.**  For every
    well-formed tree (any nesting and fan-out; sibling names distinct and at most 255 bytes), every
    option set and every file system in which the destination does not exist yet below real
    directories: `UnTar` of the archive `Tar` writes returns success, and beneath the destination
    the file system holds exactly the tree — every directory, file, symlink and device node at its
    path with its contents / target / device numbers, the archived owner and extended attributes
    (unless `noSameOwner`), the archived permission, set-id and sticky bits (unless
    `noSamePermissions`; set-id bits survive because `chown` comes before `chmod`): `LFS.attrOfRec`,
    `LFS.linkAttrOfRec` for links, and the archived modification time set explicitly (`LFS.mtimeOf`:
    `none` when the archive records 0), *also on directories that got children after they were
    created* (`finish` re-applies them; the defect D17 and its repair) *and on symbolic links*: a
    link gets its own archived modification time through the no-follow call (`LFS.lchtimes`,
    utimensat with AT_SYMLINK_NOFOLLOW — `symlink_mtime_set_without_following`), never the object it
    points to.  `hfit`: when owner and xattrs are restored, no symlink or device record carries a
    `user.*` extended attribute — the kernel refuses those and `UnTar` fails
    (`unpacking_link_with_user_xattr_fails`).  Distinct xattr keys per record are part of `XattrsOK`. -/
theorem unpacking_creates_the_tree (o : LFS.Opts) (root : List LFS.Name) (fs : LFS.FS) (r : FileRec)
    (cs : List Tree) (b : Bytes)
    (hroot : LFS.RootOK fs root) (hshort : LFS.Short root)
    (hfresh : ∀ p, root <+: p → fs.get p = none)
    (hrk : r.kind = .dir) (hrx : XattrsOK r.xattrs) (hsize : 16 + (cs.length + 1) * 24 < 2 ^ 64)
    (hcs : Tree.WFList r.path [r.path] cs) (hnames : (Tree.dir r cs).Names)
    (hfit : ∀ f ∈ (Tree.dir r cs).records, LFS.XattrsFit o f)
    (hb : tarStream (Tree.dir r cs).records = some b) :
    (LFS.untarFS o root fs b).2 = true ∧
    ∀ p, root <+: p → ((LFS.untarFS o root fs b).1).get p =
      (((root, LFS.Obj.dir (LFS.attrOfRec o r) (LFS.mtimeOf r)) :: Tree.expectList o root cs).lookup p) :=
  LFS.untar_creates_tree o root fs r cs b hroot hshort hfresh hrk hrx hsize hcs hnames hfit hb

/-- the hypothesis `hfit` is needed: `CreateSymlink` of a node with a `user.*` extended attribute fails
    when owner and xattrs are restored (EPERM from `lsetxattr`; the link itself exists by then) -/
theorem unpacking_link_with_user_xattr_fails (o : LFS.Opts) (root : List LFS.Name) (s : LFS.LState)
    (name : Bytes) (m : Meta) (target : Bytes) (h : LFS.Good s.fs (LFS.dstOf root name))
    (hn : s.fs.get (LFS.dstOf root name) = none) (hO : o.noSameOwner = false)
    (hx : ∃ kv ∈ m.xattrs, LFS.isUserXattr kv.1 = true) :
    ∃ f, LFS.createSymlink o root s name m target = .error f :=
  LFS.createSymlink_user_xattr_fails o root s name m target h hn hO hx

/-- **A symbolic link's time stamp is set on the link, not through it.**  `LFS.lchtimes` is
    `lchtimes(dst, n.MTime)` of `LocalFS.CreateSymlink` (utimensat with AT_SYMLINK_NOFOLLOW).  Whenever
    the path — its last component not followed — names a symbolic link, the call succeeds, the link
    object gets the modification time `t` (target and attributes kept), and every other object of the
    file system, the one the link points to in particular, is what it was. -/
theorem symlink_mtime_set_without_following (fs : LFS.FS) (p : List LFS.Name) (rp : LFS.RPath)
    (tg : Bytes) (a : LFS.Attr) (m : Option Nat) (t : Nat)
    (hr : LFS.resolve fs false p = .ok rp) (hg : fs.get rp = some (.symlink tg a m)) :
    LFS.lchtimes fs p t = .ok (fs.set rp (.symlink tg a (some t))) ∧
      ∀ q, q ≠ rp → (fs.set rp (.symlink tg a (some t))).get q = fs.get q :=
  LFS.lchtimes_symlink t hr hg

/-- a link `/l → f` and a file `/f` with mtime 3: the no-follow call stamps the link and the file keeps
    its mtime; `os.Chtimes` on the same path would have stamped the file and left the link alone -/
example :
    LFS.AttrOrder.fsAfter (LFS.lchtimes LFS.AttrOrder.fsLink [[108]] 9) =
      some [([[108]], .symlink [102] {} (some 9)), ([[102]], .file [97] {} (some 3))] ∧
    LFS.AttrOrder.fsAfter (LFS.chtimes LFS.AttrOrder.fsLink [[108]] 9) =
      some [([[102]], .file [97] {} (some 9)), ([[108]], .symlink [102] {} none)] :=
  LFS.AttrOrder.lchtimes_sets_link_not_target

/-- the same by evaluation: the hypotheses of `symlink_mtime_set_without_following` hold of this file
    system, and the file's object is untouched -/
example :
    LFS.resolve LFS.AttrOrder.fsLink false [[108]] = .ok [[108]] ∧
    LFS.AttrOrder.fsLink.get [[108]] = some (.symlink [102] {} none) ∧
    ((LFS.AttrOrder.fsLink.set [[108]] (.symlink [102] {} (some 9))).get [[102]]) =
      some (.file [97] {} (some 3)) := by
  refine ⟨by rfl, by decide, by decide⟩

/-- the order of the calls in `setPerms` matters: `chmod` 04755 followed by `chown` loses the set-user-ID
    bit of a regular file, `chown` followed by `chmod` (what localfs.go does) keeps it -/
theorem chown_must_come_before_chmod :
    LFS.AttrOrder.objAfter (LFS.AttrOrder.chmodThenChown LFS.AttrOrder.fsFile 0o4755 1000 100) =
      some (.file [97] { owner := some (1000, 100), mode := some 0o755 } none) ∧
    LFS.AttrOrder.objAfter (LFS.AttrOrder.chownThenChmod LFS.AttrOrder.fsFile 0o4755 1000 100) =
      some (.file [97] { owner := some (1000, 100), mode := some 0o4755 } none) :=
  LFS.AttrOrder.chmod_then_chown_loses_setuid

/-- the loop of `UnTar` onto `LocalFS` is the node list of `untar` applied in order, then `finish` -/
theorem untar_on_disk_is_untar_then_apply (o : LFS.Opts) (root : List LFS.Name) (fs : LFS.FS) (b : Bytes)
    (nodes : List Node) (h : untar b = .ok nodes) :
    LFS.untarFS o root fs b = LFS.finishAll (LFS.applyAll o root { fs := fs } nodes) :=
  LFS.untarFS_of_untar o root fs b nodes h

/-! ### the file-system level, both directions: FS → `LocalFS.Next` → `tar()` → bytes → `UnTar` → `LocalFS` → FS
    (`Model/LocalFSRead.lean`: `filepath.Walk` with the callback of `startSerializer`, and `LocalFS.Next`) -/

/-- **The record stream of a directory tree on disk is a sorted pre-order walk.**  For every valid file system
    (`LFS.FSValid`: directory entries are file names; nodes made by mknod are devices, fifos or sockets), every
    directory `root` in it reached through real directories, every option (`NoTime`; `skip`: the mount points left out
    under --one-file-system): reading succeeds — no error entry, enough fuel — and the records are the pre-order
    traversal `t.records` of a tree `t` with `t.Walked`: the children of every directory in strictly increasing
    byte-wise name order, every record's `parent` = `path.Dir` of its `path`, a child's `path` = its directory's path
    joined with its name, only real directories have children (a symbolic link to a directory is a leaf); no record's
    path lies outside the root; every record of a kind `tar()` archives has the reader's shape (`LFS.Shaped`), and under
    `NoTime` every time is 0. -/
theorem walk_is_sorted_preorder (env : LFS.Env) (nt : Bool) (skip : LFS.RPath → Bool) (fs : LFS.FS)
    (root : List LFS.Name) (hv : LFS.FSValid fs) (hr : LFS.SrcRoot fs root) :
    ∃ t : Tree, LFS.readTree env nt skip fs (LFS.absStr root) = some (.ok t.records) ∧
      t.Walked (LFS.absStr root) ∧ ∀ f ∈ t.records, LFS.RecOK nt root f :=
  LFS.readTree_walked env nt skip fs root hv hr

/-- **Nothing is left out**: every object below the root that is reached through real directories has its record -/
theorem reader_leaves_nothing_out (env : LFS.Env) (nt : Bool) (fs : LFS.FS) (root : List LFS.Name)
    (hv : LFS.FSValid fs) (hr : LFS.SrcRoot fs root) (t : Tree)
    (ht : LFS.readTree env nt LFS.noSkip fs (LFS.absStr root) = some (.ok t.records))
    (p : LFS.RPath) (hp : root <+: p) (hthere : (fs.get p).isSome = true) (hd : LFS.AllDirs fs p.dropLast) :
    ∃ f ∈ t.records, f.path = LFS.absStr p :=
  LFS.readTree_complete env nt fs root hv hr t ht p hp hthere hd

/-- **Reading back what was unpacked.**  For every well-formed tree of records (the hypotheses of
    `unpacking_creates_the_tree`, owner and permissions restored) whose sibling names are sorted (`Tree.Sorted`) and whose
    records have the reader's shape (`LFS.Shaped`) and a time that survives (`LFS.TimeOK`: not 0, or `NoTime`): `UnTar`
    of the tree's archive onto a fresh directory succeeds, and reading that directory with `LocalFS` yields exactly the
    tree's records — kind, permission, set-id and sticky bits, owner, mtime (a symbolic link's own too), link target,
    extended attributes, device numbers, size and content, siblings in sorted order — carrying the paths of the place
    they were unpacked to (`Tree.rootedAt`). -/
theorem read_of_written_tree (env : LFS.Env) (nt : Bool) (root : List LFS.Name) (fs : LFS.FS) (r : FileRec)
    (cs : List Tree) (b : Bytes)
    (hroot : LFS.RootOK fs root) (hshort : LFS.Short root) (hfresh : ∀ p, root <+: p → fs.get p = none)
    (hrk : r.kind = .dir) (hrx : XattrsOK r.xattrs) (hsize : 16 + (cs.length + 1) * 24 < 2 ^ 64)
    (hcs : Tree.WFList r.path [r.path] cs) (hnames : (Tree.dir r cs).Names)
    (hfit : ∀ f ∈ (Tree.dir r cs).records, LFS.XattrsFit LFS.restoreAll f)
    (hb : tarStream (Tree.dir r cs).records = some b)
    (hsorted : (Tree.dir r cs).Sorted)
    (hshaped : ∀ f ∈ (Tree.dir r cs).records, LFS.Shaped f ∧ LFS.TimeOK nt f) :
    (LFS.untarFS LFS.restoreAll root fs b).2 = true ∧
    LFS.readTree env nt LFS.noSkip (LFS.untarFS LFS.restoreAll root fs b).1 (LFS.absStr root) =
      some (.ok ((Tree.dir r cs).rootedAt root).records) :=
  LFS.read_of_written_tree env nt root fs r cs b hroot hshort hfresh hrk hrx hsize hcs hnames hfit hb hsorted hshaped

/-- **FS₀ → archive → FS₁, one theorem.**  For every valid file system `fs₀`, every directory `root₀` in it whose record
    stream is representable (`LFS.Representable`: no fifo or socket — `tar()` skips those —, xattr names without NUL and
    in range, no `user.*` attribute on a link or device node, no time of exactly 0 unless `NoTime`, sizes in range; the
    device-number range and the mode bits need no hypothesis: what `Next` reads always fits), and every destination
    `root₁` that is fresh in `fs₁` below real directories: `Tar` over `LocalFS` succeeds (`b`), `UnTar` of `b` onto `LocalFS`
    at `root₁` succeeds, reading the copy gives the records of the original re-rooted at `root₁`, the copy's archive is
    `b` again, and at a path of the same name the two record streams are equal. -/
theorem fs_roundtrip (env : LFS.Env) (nt : Bool) (fs₀ fs₁ : LFS.FS) (root₀ root₁ : List LFS.Name)
    (hv : LFS.FSValid fs₀) (hr₀ : LFS.SrcRoot fs₀ root₀) (hd : LFS.IsDir (fs₀.get root₀))
    (hrep : ∀ recs, LFS.readTree env nt LFS.noSkip fs₀ (LFS.absStr root₀) = some (.ok recs) → LFS.Representable nt recs)
    (hroot₁ : LFS.RootOK fs₁ root₁) (hshort₁ : LFS.Short root₁) (hfresh : ∀ p, root₁ <+: p → fs₁.get p = none) :
    ∃ (t : Tree) (b : Bytes),
      LFS.readTree env nt LFS.noSkip fs₀ (LFS.absStr root₀) = some (.ok t.records) ∧ t.Walked (LFS.absStr root₀) ∧
      tarStream t.records = some b ∧
      (LFS.untarFS LFS.restoreAll root₁ fs₁ b).2 = true ∧
      LFS.readTree env nt LFS.noSkip (LFS.untarFS LFS.restoreAll root₁ fs₁ b).1 (LFS.absStr root₁) =
        some (.ok (t.rootedAt root₁).records) ∧
      tarStream (t.rootedAt root₁).records = some b ∧
      (root₁ = root₀ → LFS.readTree env nt LFS.noSkip (LFS.untarFS LFS.restoreAll root₁ fs₁ b).1 (LFS.absStr root₁) =
        LFS.readTree env nt LFS.noSkip fs₀ (LFS.absStr root₀)) :=
  LFS.fs_roundtrip env nt fs₀ fs₁ root₀ root₁ hv hr₀ hd hrep hroot₁ hshort₁ hfresh

/-- **Packing the same tree twice yields identical archive bytes** (the disk source): what `Tar` writes is a function of
    what lies below the root — two file systems that agree there (whatever order they list their directory entries in,
    whatever else they hold) give the same record stream, hence the same archive or the same failure -/
theorem tar_twice_identical (env : LFS.Env) (nt : Bool) (skip : LFS.RPath → Bool) (fs fs' : LFS.FS) (root : List LFS.Name)
    (hv : LFS.FSValid fs) (hr : LFS.SrcRoot fs root) (hr' : LFS.SrcRoot fs' root)
    (h : ∀ p, root <+: p → fs.get p = fs'.get p) :
    LFS.readTree env nt skip fs (LFS.absStr root) = LFS.readTree env nt skip fs' (LFS.absStr root) ∧
    (LFS.readTree env nt skip fs (LFS.absStr root)).map (fun r => r.toOption.bind tarStream) =
      (LFS.readTree env nt skip fs' (LFS.absStr root)).map (fun r => r.toOption.bind tarStream) :=
  ⟨LFS.readTree_ext env nt skip fs fs' root hv hr hr' h, LFS.tar_of_disk_deterministic env nt skip fs fs' root hv hr hr' h⟩

/-! non-vacuity: `LFS.ReadExample.fs0` holds /srv/src with a set-group-ID directory carrying an xattr, a set-user-ID file
    with two xattrs, a symbolic link to a directory with its own time stamp, a character device and an empty directory;
    all hypotheses of `fs_roundtrip` hold of it and of the destination /srv/dst on another file system -/
example : LFS.FSValid LFS.ReadExample.fs0 ∧ LFS.SrcRoot LFS.ReadExample.fs0 LFS.ReadExample.root0 ∧
    LFS.IsDir (LFS.ReadExample.fs0.get LFS.ReadExample.root0) ∧
    (∀ nt recs, LFS.readTree LFS.ReadExample.env0 nt LFS.noSkip LFS.ReadExample.fs0 (LFS.absStr LFS.ReadExample.root0)
      = some (.ok recs) → LFS.Representable nt recs) ∧
    LFS.RootOK LFS.ReadExample.fs1 LFS.ReadExample.root1 ∧ LFS.Short LFS.ReadExample.root1 ∧
    (∀ p, LFS.ReadExample.root1 <+: p → LFS.ReadExample.fs1.get p = none) :=
  ⟨LFS.ReadExample.valid0, LFS.ReadExample.srcRoot0, LFS.ReadExample.isDir0,
   fun nt => LFS.representable_of_check (LFS.ReadExample.representable0 nt),
   LFS.ReadExample.rootOK1, LFS.ReadExample.short1, LFS.ReadExample.fresh1⟩

/-- the order in which that tree is read: "src", then "A" (upper case sorts first), "c", "sub" and, right after "sub",
    its children "f" and "l" — the link to a directory is a leaf; kinds and the set-id bits as stored -/
example :
    (match LFS.readTree LFS.ReadExample.env0 false LFS.noSkip LFS.ReadExample.fs0 (LFS.absStr LFS.ReadExample.root0) with
     | some (.ok recs) => recs.map fun f => (f.base, f.kind, f.mode % 4096, f.major, f.minor)
     | _ => []) =
    [([115, 114, 99], .dir, 0o755, 0, 0), ([65], .dir, 0o1777, 0, 0), ([99], .device, 0o660, 1, 3),
      ([115, 117, 98], .dir, 0o2775, 0, 0), ([102], .reg, 0o4755, 0, 0), ([108], .symlink, 0o777, 0, 0)] := by decide

/-! ### the source the reading-side model was written from (regenerated facts) -/

/-- `LocalFS.Next`: the `File` literal field by field, the `NoTime` override, the calls that read xattrs (every entry, links
    included, on the walk's path), link target (under a `ModeSymlink` test) and content (under `IsRegular`) -/
theorem gen_lfsread_next :
    Gen.site_lfsread_file_literal_found = true ∧ Gen.lfsNextFile = LFS.ReadFacts.fileLiteral ∧
    Gen.site_lfsread_notime_found = true ∧ Gen.lfsNextNoTime = LFS.ReadFacts.noTime ∧
    Gen.site_lfsread_calls_found = true ∧ Gen.lfsNextCalls = LFS.ReadFacts.calls := by decide

/-- the device numbers `Next` splits out of `st_rdev` are `Mode.rdevMajor` / `Mode.rdevMinor` -/
theorem gen_lfsread_dev :
    Gen.site_lfsread_major_found = true ∧ Gen.site_lfsread_minor_found = true ∧
    ∀ r, Gen.lfsNextMajor r = Mode.rdevMajor r ∧ Gen.lfsNextMinor r = Mode.rdevMinor r :=
  ⟨by decide, by decide, fun _ => ⟨rfl, rfl⟩⟩

/-- `startSerializer`: a sorted walk from `fs.Root` whose callback sends every entry it does not skip, skips (before
    sending) only directories on another device under --one-file-system, and otherwise returns nil; `tar()` reads `Size`
    of regular files only -/
theorem gen_lfsread_walk :
    Gen.site_lfsread_walk_found = true ∧ Gen.lfsWalkCallback = LFS.ReadFacts.walkCallback ∧
    Gen.site_lfsread_size_use_found = true ∧ Gen.tarSizeUses = LFS.ReadFacts.sizeUses := by decide

end Desync.C05
