/-
  C10 — the file served by a FUSE mount with a copy-on-read cache file (`SparseMountFS`, `sparseIndexFile`), at the level
  of the FUSE requests and of read(2); `Close` = state save.

  Model: `Model/MountFS.lean` (`SpMount`: all handles share the session `SparseSt` of Model/Sparse.lean; READ =
  `SparseSt.mountRead`).  Composed from `readAt_inv` / `readAt_data` (the theorems behind C10.read_blob_or_error).
  Hypotheses: `SparseSetup`, `SparseInv` for the session the mount starts with (what `NewSparseFile` establishes:
  C10.reads_blob_or_error's histories), blobs shorter than 2^64 bytes, `NodeFacts.ok` (Properties/C10MountFSGen.lean).
-/
import Desync.Proofs.MountFSProofs

namespace Desync.C10
open Desync MountFS

/-- **every sequence of FUSE requests** on a sparse mount (any handles, any order, store failing at any call): GETATTR
    reports exactly the blob's length; a READ is answered with exactly `blob[off, off+len)` cut at the end — never the
    unpopulated zeros of the cache file — or with EIO; the session stays good (a failed load is retried by the next READ) -/
theorem sparse_mount_requests_exact {f : NodeFacts} (hok : f.ok = true) {blob : Bytes} {fetch : Fetch}
    (m : SpMount) (hs : SparseSetup blob m.s fetch) (hi : SparseInv blob m.s) (hlen : blob.length < 2 ^ 64)
    (qs : List Req) :
    SparseInv blob (m.run f fetch qs).2.s ∧
    ∀ (j : Nat) (q : Req) (r : Resp), qs[j]? = some q → (m.run f fetch qs).1[j]? = some r →
      match q with
      | .lookup n => r = if n = m.fname then .entry S_IFREG else .err .enoent
      | .getattr => r = .attr (S_IFREG + 0o444) blob.length
      | .open_ => ∃ fh, r = .opened fh f.openFlags
      | .read _ off len => (∃ b, r = .data b ∧ b = (blob.drop off).take len) ∨ r = .err .eio ∨ r = .err .ebadf
      | .release _ => r = .released ∨ r = .err .ebadf := by
  obtain ⟨a, _, _, d⟩ := sp_run_spec hok hlen qs m ⟨hs, hi⟩
  refine ⟨a.inv, fun j q r hq hr => ?_⟩
  have := d j q r hq hr
  cases q <;> exact this

/-- **read(2) on the mounted file**, after any sequence of requests, kernel clipping and splitting as in C09: a correct
    prefix of `blob[off, off+len) ∩ [0, L)` or the errno -/
theorem sparse_mounted_read_blob_or_error {f : NodeFacts} (hok : f.ok = true) {blob : Bytes} {fetch : Fetch}
    (m : SpMount) (hs : SparseSetup blob m.s fetch) (hi : SparseInv blob m.s) (hlen : blob.length < 2 ^ 64)
    (qs : List Req) (split : List Nat) (off len : Nat) :
    ∃ r m', ((m.run f fetch qs).2).userRead f fetch split off len = some (r, m') ∧
      (∀ b, r = .data b → b = ((blob.drop off).take len).take b.length) := by
  obtain ⟨i1, _, _, _⟩ := sp_run_spec hok hlen qs m ⟨hs, hi⟩
  obtain ⟨r, m', e, _, a⟩ := sp_userRead_spec hok hlen i1 split off len
  exact ⟨r, m', e, a⟩

/-- **what `Close` saves** after any sequence of requests claims only chunks the cache file holds: the session invariant
    holds for the state `SpMount.close` writes (so a restart that accepts it starts from a good session:
    C10.reads_blob_or_error) -/
theorem sparse_close_state_sound {f : NodeFacts} (hok : f.ok = true) {blob : Bytes} {fetch : Fetch}
    (m : SpMount) (hs : SparseSetup blob m.s fetch) (hi : SparseInv blob m.s) (hlen : blob.length < 2 ^ 64)
    (qs : List Req) (i : Nat) (c : RChunk)
    (hc : (m.run f fetch qs).2.s.chunks[i]? = some c)
    (hd : ((m.run f fetch qs).2.close)[i]? = some true) :
    slice (m.run f fetch qs).2.s.file c = slice blob c :=
  ((sp_run_spec hok hlen qs m ⟨hs, hi⟩).1.inv).2.2.1 i c hc hd

/-- non-vacuity: one chunk, the store fails at its first call: EIO first, the bytes on the retry (not the zeros) -/
theorem sparse_mount_example :
    let s : SparseSt := SparseSt.open (fun k _ => if k = 0 then none else some [7, 8]) [⟨1, 0, 2⟩] 0 2 [] none none 0
    let m : SpMount := { fname := "blob", s }
    (m.run modelledFacts (fun k _ => if k = 0 then none else some [7, 8])
      [.getattr, .open_, .read 0 0 2, .read 0 0 2, .read 0 1 5]).1 =
      [.attr 0o100444 2, .opened 0 2, .err .eio, .data [7, 8], .data [8]] := by decide

end Desync.C10
