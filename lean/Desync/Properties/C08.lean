/-
  C08  Process death never exposes a partial chunk or a partial extract target.

  Store side: `Model/CrashFS.lean` (any number of concurrent writers, a crash after every file
  operation, short writes, write errors), proofs in `Proofs/CrashFSProofs.lean`; the step order
  is tied to local.go by the regenerated shape.  Extract side: `Model/ExtractTmp.lean`
  (temp file + rename) and, for the in-place re-run, the assemble model of C01.
-/
import Desync.Proofs.CrashFSProofs
import Desync.Proofs.LocalStoreProofs
import Desync.Proofs.ExtractTmpProofs
import Desync.Proofs.AssembleComplete
import Desync.Proofs.AssembleConcProofs

namespace Desync.C08
open Desync Desync.CrashFS

/-- regenerated obligation: the file operations of `LocalStore.StoreChunk`, in source order, are
    the ones the crash machine implements (write to a temp file, close, then rename) -/
theorem gen_store_shape : Gen.localStoreChunkShape = CrashFS.modelledShape := by decide

/-- regenerated obligation: `writeWithTmpFile` creates the temp file, assembles into it, returns
    before the rename when assembly failed, and renames last -/
theorem gen_extract_shape :
    Gen.extractTmpFileShape = ExtractTmp.modelledShape ∧ Gen.extractTmpFileReturnsOnError = true := by decide

/-- a name that does not carry the temp prefix: what readers, `Verify` and `Prune` treat as a chunk -/
def isChunkName (n : Bytes) : Bool := !hasPrefix n Gen.tmpChunkPrefixBytes

/-- one `StoreChunk` call: chunk ID, the random suffix `tempfile.NewMode` picked, the storage bytes -/
def mkWriter (unc : Bool) (j : Bytes × Bytes × Bytes) : Writer :=
  { final := (nameFromID unc j.1).2, tmp := Gen.tmpChunkPrefixBytes ++ j.2.1, payload := j.2.2 }

theorem tmp_not_chunk_name (suffix : Bytes) : isChunkName (Gen.tmpChunkPrefixBytes ++ suffix) = false := by
  simp [isChunkName, hasPrefix_append]

theorem final_is_chunk_name (unc : Bool) (id : Bytes) (h : id.length = 32) :
    isChunkName (nameFromID unc id).2 = true := by
  have := hexEncode_not_tmp id (extOf unc) h
  simp only [isChunkName, nameFromID, this, Bool.not_false]

theorem setup_of_jobs (unc : Bool) (Valid : Name → Content → Prop) (jobs : List (Bytes × Bytes × Bytes))
    (dir0 : List (Name × Content))
    (hid : ∀ j ∈ jobs, j.1.length = 32)
    (hsuf : (jobs.map (·.2.1)).Nodup)
    (hkeys : (dir0.map (·.1)).Nodup)
    (hfresh : ∀ j ∈ jobs, ∀ e ∈ dir0, e.1 ≠ Gen.tmpChunkPrefixBytes ++ j.2.1)
    (hvalid0 : ∀ e ∈ dir0, isChunkName e.1 = true → Valid e.1 e.2)
    (hpay : ∀ j ∈ jobs, Valid (nameFromID unc j.1).2 j.2.2) :
    Setup isChunkName Valid ⟨dir0, jobs.map (mkWriter unc)⟩ where
  tmp_not_chunk := by
    intro w hw
    obtain ⟨j, _, rfl⟩ := List.mem_map.1 hw
    exact tmp_not_chunk_name _
  final_chunk := by
    intro w hw
    obtain ⟨j, hj, rfl⟩ := List.mem_map.1 hw
    exact final_is_chunk_name unc j.1 (hid j hj)
  tmp_distinct := by
    simp only [List.map_map]
    have : ((fun w : Writer => w.tmp) ∘ mkWriter unc) = (fun s => Gen.tmpChunkPrefixBytes ++ s) ∘ (·.2.1) := rfl
    rw [this, ← List.map_map]
    exact List.Pairwise.map _ (fun a b hab h => hab (List.append_cancel_left h)) hsuf
  tmp_fresh := by
    intro w hw e he
    obtain ⟨j, hj, rfl⟩ := List.mem_map.1 hw
    exact hfresh j hj e he
  payload_valid := by
    intro w hw
    obtain ⟨j, hj, rfl⟩ := List.mem_map.1 hw
    exact hpay j hj
  init_valid := hvalid0
  init_pc := by
    intro w hw
    obtain ⟨j, _, rfl⟩ := List.mem_map.1 hw
    rfl
  dir_keys := hkeys

/-- **Store side, headline.**  Any number of concurrent `StoreChunk` calls (also of the same
    chunk) into one directory of a local store, compressed or not, with writes cut short at any
    byte count and the process dying after any step: every file visible under a name without the
    temp prefix — in particular under every chunk name — holds complete valid storage bytes. -/
theorem store_crash_atomic (unc : Bool) (Valid : Name → Content → Prop) (jobs : List (Bytes × Bytes × Bytes))
    (dir0 : List (Name × Content))
    (hid : ∀ j ∈ jobs, j.1.length = 32)
    (hsuf : (jobs.map (·.2.1)).Nodup)
    (hkeys : (dir0.map (·.1)).Nodup)
    (hfresh : ∀ j ∈ jobs, ∀ e ∈ dir0, e.1 ≠ Gen.tmpChunkPrefixBytes ++ j.2.1)
    (hvalid0 : ∀ e ∈ dir0, isChunkName e.1 = true → Valid e.1 e.2)
    (hpay : ∀ j ∈ jobs, Valid (nameFromID unc j.1).2 j.2.2)
    (s : St) (h : Reachable ⟨dir0, jobs.map (mkWriter unc)⟩ s) :
    ∀ e ∈ s.dir, isChunkName e.1 = true → Valid e.1 e.2 :=
  crash_atomic isChunkName Valid _ (setup_of_jobs unc Valid jobs dir0 hid hsuf hkeys hfresh hvalid0 hpay) s h

/-- whatever is new in the directory and not a completely installed chunk is a temp file holding a
    prefix of its writer's bytes: a partial file is only ever visible under a temp name -/
theorem store_partial_only_under_tmp (unc : Bool) (Valid : Name → Content → Prop) (jobs : List (Bytes × Bytes × Bytes))
    (dir0 : List (Name × Content))
    (hid : ∀ j ∈ jobs, j.1.length = 32)
    (hsuf : (jobs.map (·.2.1)).Nodup)
    (hkeys : (dir0.map (·.1)).Nodup)
    (hfresh : ∀ j ∈ jobs, ∀ e ∈ dir0, e.1 ≠ Gen.tmpChunkPrefixBytes ++ j.2.1)
    (hvalid0 : ∀ e ∈ dir0, isChunkName e.1 = true → Valid e.1 e.2)
    (hpay : ∀ j ∈ jobs, Valid (nameFromID unc j.1).2 j.2.2)
    (s : St) (h : Reachable ⟨dir0, jobs.map (mkWriter unc)⟩ s) :
    ∀ e ∈ s.dir, e ∉ dir0 →
      (∃ w ∈ s.writers, e.1 = w.final ∧ e.2 = w.payload ∧ w.pc = .finished) ∨
      (∃ w ∈ s.writers, e.1 = w.tmp ∧
        ((∃ d, w.pc = .writing d ∧ d ≤ w.payload.length ∧ e.2 = w.payload.take d) ∨
         (w.pc = .closed ∧ e.2 = w.payload))) :=
  partial_only_under_tmp isChunkName Valid _ (setup_of_jobs unc Valid jobs dir0 hid hsuf hkeys hfresh hvalid0 hpay) s h

/-- a `StoreChunk` that returned nil has its chunk installed, complete, under the final name -/
theorem store_finished_installed (unc : Bool) (Valid : Name → Content → Prop) (jobs : List (Bytes × Bytes × Bytes))
    (dir0 : List (Name × Content))
    (hid : ∀ j ∈ jobs, j.1.length = 32)
    (hsuf : (jobs.map (·.2.1)).Nodup)
    (hkeys : (dir0.map (·.1)).Nodup)
    (hfresh : ∀ j ∈ jobs, ∀ e ∈ dir0, e.1 ≠ Gen.tmpChunkPrefixBytes ++ j.2.1)
    (hvalid0 : ∀ e ∈ dir0, isChunkName e.1 = true → Valid e.1 e.2)
    (hpay : ∀ j ∈ jobs, Valid (nameFromID unc j.1).2 j.2.2)
    (s : St) (h : Reachable ⟨dir0, jobs.map (mkWriter unc)⟩ s)
    (i : Nat) (w : Writer) (hw : s.writers[i]? = some w) (hf : w.pc = .finished) :
    ∃ c, (w.final, c) ∈ s.dir ∧ Valid w.final c :=
  finished_installed isChunkName Valid _ (setup_of_jobs unc Valid jobs dir0 hid hsuf hkeys hfresh hvalid0 hpay) s h i w hw hf

/-- leftovers of dead writers carry the temp prefix, and `Prune` removes exactly those
    (`pruneClassify … = removeTemp`, C16) -/
theorem leftovers_pruned (unc : Bool) (id suffix : Bytes) (h : id.length = 32) :
    Gen.tmpChunkPrefixBytes ++ suffix ≠ (nameFromID unc id).2 ∧
    pruneClassify unc (Gen.tmpChunkPrefixBytes ++ suffix) = .removeTemp :=
  tmp_never_chunk_name unc id suffix h

/-- no writer waits for another: every writer that has not returned can take a step of its own
    that is not a failure -/
theorem store_progress (unc : Bool) (Valid : Name → Content → Prop) (jobs : List (Bytes × Bytes × Bytes))
    (dir0 : List (Name × Content))
    (hid : ∀ j ∈ jobs, j.1.length = 32)
    (hsuf : (jobs.map (·.2.1)).Nodup)
    (hkeys : (dir0.map (·.1)).Nodup)
    (hfresh : ∀ j ∈ jobs, ∀ e ∈ dir0, e.1 ≠ Gen.tmpChunkPrefixBytes ++ j.2.1)
    (hvalid0 : ∀ e ∈ dir0, isChunkName e.1 = true → Valid e.1 e.2)
    (hpay : ∀ j ∈ jobs, Valid (nameFromID unc j.1).2 j.2.2)
    (s : St) (h : Reachable ⟨dir0, jobs.map (mkWriter unc)⟩ s) (i : Nat) (w : Writer)
    (hw : s.writers[i]? = some w) (hp : w.pc ≠ .finished ∧ w.pc ≠ .failed) :
    ∃ e s', step s e = some s' ∧ e.writer = i ∧ e.isErr = false :=
  progress_no_error isChunkName Valid _ (setup_of_jobs unc Valid jobs dir0 hid hsuf hkeys hfresh hvalid0 hpay) s h i w hw hp

/-- **Extract without --in-place**: at every crash point the destination path holds exactly what
    it held before, or the complete output -/
theorem extract_tmp_atomic (cf : ExtractTmp.Cfg) (hne : cf.dest ≠ cf.tmp) (s0 s : ExtractTmp.St)
    (h0 : s0.pc = .start) (h : ExtractTmp.Reachable cf s0 s) :
    ExtractTmp.lookup s.dir cf.dest = ExtractTmp.lookup s0.dir cf.dest ∨
    ExtractTmp.lookup s.dir cf.dest = some cf.output :=
  ExtractTmp.extract_tmp_atomic cf hne s0 s h0 h

/-- **What a killed in-place extract leaves behind**: every state of the N-worker assemble machine
    is a possible crash point; in each the positions already settled hold the blob's bytes … -/
theorem inplace_crash_state {e : AsmConc.Env} {blob prior : Bytes} {n : Nat} {s : AsmConc.St}
    (hwf : AsmConc.WF e blob) (h : AsmConc.Reachable e (AsmConc.init e prior n) s) (p : Nat)
    (hp : (∃ (k f l : Nat), k ∈ s.finished ∧ e.plan[k]? = some (f, l) ∧ f ≤ p ∧ p ≤ l) ∨
          (∃ (w : Nat) (wk : AsmConc.Worker) (j : AsmConc.Job), s.workers[w]? = some wk ∧ wk.job = some j ∧
            j.first ≤ p ∧ p < j.first + j.good)) :
    s.file.length = blob.length ∧
    Asm.readUpTo s.file (e.startOf p) (e.sizeOf p) = AsmConc.chunkData e blob p :=
  ⟨AsmConc.conc_length hwf h, AsmConc.settled_correct hwf h p hp⟩

/-- … and **the re-run** on any full-length file completes with the exact blob and goes to the
    store at most once per position whose bytes are not already correct: chunks the dead run had
    written are not fetched again -/
theorem inplace_resume {cf : Asm.Cfg} {e : Asm.Env} {blob : Bytes} {files : List Bytes} {t0 : Bytes}
    (hwf : Asm.WFSeq cf e blob) (hst : Asm.StoreComplete cf e blob) (hnull : Asm.NullIsZeros cf e)
    (hb : cf.isBlank = Asm.isBlankOf (some t0)) (hlen : t0.length = blob.length) (hne : blob ≠ []) :
    ∃ r, Asm.assemble cf e [] files (some t0) = some r ∧ r.fs.target = blob ∧
      r.stats.fromStore ≤ ((List.range e.chunks.length).filter
        (fun p => Asm.readUpTo t0 (e.startOf p) (e.sizeOf p) ≠ Asm.chunkData e blob p)).length :=
  Asm.inplace_resume hwf hst hnull hb hlen hne

end Desync.C08
