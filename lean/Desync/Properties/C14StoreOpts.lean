/-
  C14 — "… shorter than the CONFIGURED retry budget": the `ErrorRetry` a store is made with is the `--error-retry` flag
  if it was given, otherwise the value of the configuration entry matching the store's location, otherwise the
  default (`DefaultErrorRetry`).
-/
import Desync.Properties.C03StoreOpts
import Desync.Properties.C03StoreOptsGen

namespace Desync.C14
open Desync Desync.StoreOpts

/-- **the retry budget follows the configuration** -/
theorem retry_budget_follows_config (cmd : CmdStoreOptions) (o : StoreOptions) :
    (cmd.chErrorRetry = true → (mergedWith cmd o).errorRetry = cmd.errorRetry) ∧
    (cmd.chErrorRetry = false → (mergedWith cmd o).errorRetry = o.errorRetry) ∧
    (cmd.chErrorRetry = false → (mergedWith cmd defaults).errorRetry = Gen.DefaultErrorRetry.toNat) ∧
    (cmd.chErrorRetryBaseInterval = false → (mergedWith cmd o).errorRetryBaseInterval = o.errorRetryBaseInterval) := by
  refine ⟨?_, ?_, ?_, ?_⟩ <;> intro h <;> simp [mergedWith, defaults, h]

/-- regenerated: what reaches the backends -/
theorem gen_store_retry (i : Gen.StoreoptsIn) :
    (C03.genSFL i).errorRetry = (if i.changed "error-retry" then i.flagI "error-retry" else i.cfgI "ErrorRetry") ∧
    (C03.genISFL i).errorRetry = (if i.changed "error-retry" then i.flagI "error-retry" else i.cfgI "ErrorRetry") ∧
    (C03.genSFL i).errorRetryBaseInterval =
      (if i.changed "error-retry-base-interval" then i.flagI "error-retry-base-interval" else i.cfgI "ErrorRetryBaseInterval") ∧
    Gen.storeoptsSFLUniform = true ∧ Gen.storeoptsISFLUniform = true := by
  refine ⟨?_, ?_, ?_, C03.gen_store_dispatch.1, C03.gen_store_dispatch.2.1⟩ <;> optwire

example : (mergedWith ⟨1, "", "", "", false, 9, 0, false, false, false, false, true, false⟩ defaults).errorRetry = 9 ∧
    (mergedWith ⟨1, "", "", "", false, 9, 0, false, false, false, false, false, false⟩ defaults).errorRetry = 3 := by decide

end Desync.C14
