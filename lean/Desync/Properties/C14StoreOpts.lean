/-
  C14 — "… shorter than the CONFIGURED retry budget": the `ErrorRetry` a store is made with is the `--error-retry` flag
  if it was given, otherwise the value of the configuration entry matching the store's location, otherwise the
  default (`DefaultErrorRetry`).
-/
import Desync.Properties.C03StoreOpts

namespace Desync.C14
open Desync Desync.StoreOpts

/-- **the retry budget follows the configuration** -/
theorem retry_budget_follows_config (cmd : CmdStoreOptions) (o : StoreOptions) :
    (cmd.chErrorRetry = true → (mergedWith cmd o).errorRetry = cmd.errorRetry) ∧
    (cmd.chErrorRetry = false → (mergedWith cmd o).errorRetry = o.errorRetry) ∧
    (cmd.chErrorRetry = false → (mergedWith cmd defaults).errorRetry = Gen.DefaultErrorRetry.toNat) ∧
    (cmd.chErrorRetryBaseInterval = false → (mergedWith cmd o).errorRetryBaseInterval = o.errorRetryBaseInterval) := by
  refine ⟨?_, ?_, ?_, ?_⟩ <;> intro h <;> simp [mergedWith, defaults, h]

example : (mergedWith ⟨1, "", "", "", false, 9, 0, false, false, false, false, true, false⟩ defaults).errorRetry = 9 ∧
    (mergedWith ⟨1, "", "", "", false, 9, 0, false, false, false, false, false, false⟩ defaults).errorRetry = 3 := by decide

end Desync.C14
