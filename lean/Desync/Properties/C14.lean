/-
  C14 — Remote transports preserve data and report missing vs. failed truthfully.

  Models: `Model/Http.lean` (the retry loop of `IssueRetryableHttpRequest`, the status mapping of
  `GetObject`/`HasChunk`/`StoreObject`, the compression matrix client ↔ chunk server ↔ upstream
  with zstd abstract), `Model/Protocol.lean` (casync message framing, `RequestChunk`'s
  interpretation of replies, the server loop).  Tie: scripted HTTP servers (response sequences
  incl. connection resets and truncated bodies × retry budgets × GET/HEAD/PUT) compared with the
  model incl. the number of attempts; the matrix with real zstd through a real `HTTPHandler`;
  indexes through the index server; the casync protocol over pipes against the real server.
-/
import Desync.Proofs.HttpRetryProofs
import Desync.Proofs.ProtocolProofs
import Desync.Proofs.ProtoSessionProofs

namespace Desync.C14
open Desync Desync.Http

/-- the number of attempts is bounded by the configured retry budget (at least one) -/
theorem retry_bound (retry : Nat) (rs : List Resp) :
    1 ≤ (issueRetryable retry rs).2 ∧ (issueRetryable retry rs).2 ≤ max retry 1 :=
  Desync.Http.retry_bound retry rs

/-- a run of transient failures shorter than the budget is invisible to the caller -/
theorem retry_masks_short_runs (retry : Nat) (fails : List Resp) (c : Nat) (b : Bytes) (rest : List Resp)
    (hf : ∀ r ∈ fails, retryable r = true) (hk : fails.length < retry) (hc : ¬ (500 ≤ c ∧ c < 600)) :
    issueRetryable retry (fails ++ Resp.status c b :: rest) = (.answer c b, fails.length + 1) :=
  Desync.Http.retry_masks_short_runs retry fails c b rest hf hk hc

/-- **truthful**: GET reports data only for a final 200 and "missing" only for a final 404; an
    exhausted budget or a transport error is an error — never "missing", never data -/
theorem get_truthful (retry : Nat) (rs : List Resp) :
    (∀ b, getObject retry rs = .ok b → (issueRetryable retry rs).1 = .answer 200 b) ∧
    (getObject retry rs = .missing → ∃ b, (issueRetryable retry rs).1 = .answer 404 b) ∧
    ((issueRetryable retry rs).1 = .error ∨ (issueRetryable retry rs).1 = .answer 0 [] →
      getObject retry rs = .error) :=
  Desync.Http.get_truthful retry rs

/-- HEAD: present ⇔ 200, absent ⇔ 404, everything else an error -/
theorem has_truthful (retry : Nat) (rs : List Resp) :
    (hasChunk retry rs = .present ↔ ∃ b, (issueRetryable retry rs).1 = .answer 200 b) ∧
    (hasChunk retry rs = .absent ↔ ∃ b, (issueRetryable retry rs).1 = .answer 404 b) :=
  ⟨(Desync.Http.has_truthful retry rs).1, (Desync.Http.has_truthful retry rs).2.1⟩

/-- PUT succeeds only on a final 200/201 -/
theorem store_truthful (retry : Nat) (rs : List Resp) :
    storeObject retry rs = true ↔
      ∃ b, (issueRetryable retry rs).1 = .answer 200 b ∨ (issueRetryable retry rs).1 = .answer 201 b :=
  Desync.Http.store_truthful retry rs

/-- the loop's answer is one of the server's actual responses (or the "gave up" pseudo status 0) -/
theorem answer_is_a_response (retry : Nat) (rs : List Resp) (c : Nat) (b : Bytes)
    (h : (issueRetryable retry rs).1 = .answer c b) : (c = 0 ∧ b = []) ∨ Resp.status c b ∈ rs :=
  Desync.Http.answer_is_a_response retry rs c b h

/-- **compression matrix**: across all 2×2×2 settings a verified client GetChunk through a chunk
    server yields bytes hashing to the ID or an error — never other bytes … -/
theorem matrix_never_wrong (z : Zstd) (H : Bytes → Bytes) (cc sc uc : Bool) (id stored b : Bytes)
    (h : clientGet z H cc sc uc true id stored = .ok b) : H b = id :=
  Desync.Http.matrix_never_wrong z H cc sc uc id stored b h

/-- … and whenever client and server agree on the format the chunk arrives unchanged, whatever
    the upstream store's format -/
theorem matrix_preserves (z : Zstd) (hz : ∀ x, z.dec (z.comp x) = some x) (H : Bytes → Bytes)
    (cc uc : Bool) (data : Bytes) (hne : data ≠ []) (hcomp : ∀ x, x ≠ [] → z.comp x ≠ []) :
    clientGet z H cc cc uc true (H data) (if uc then z.comp data else data) = .ok data :=
  Desync.Http.matrix_preserves z hz H cc uc data hne hcomp

/-- casync protocol framing round trip -/
theorem msg_roundtrip (m : Message) (r : Bytes) (a : Nat) (h : 16 + m.body.length < 2^64) :
    readMessage ⟨writeMessage m ++ r, a⟩ = .ok (m, ⟨r, a + (8 + m.body.length)⟩) :=
  readMessage_writeMessage m r a h

/-- over the casync protocol a missing chunk is "missing", a chunk reply is the chunk's bytes,
    anything else an error -/
theorem missing_vs_chunk (id data : Bytes) (flags : UInt64) (hid : id.length = 32) :
    interpretReply (missingMessage id) = .missing ∧ interpretReply (chunkMessage id flags data) = .chunk data :=
  ⟨interpret_missing id, interpret_chunk id data flags hid⟩

/-- the protocol server answers every request until a store failure; a missing chunk does not end
    the session (the pinned tree stopped serving after the first missing chunk) -/
theorem serve_all_answered (reqs : List (Bytes × StoreAns)) (h : ∀ p ∈ reqs, p.2 ≠ .failure) :
    (serveRequests reqs).2 = true ∧ (serveRequests reqs).1.length = reqs.length :=
  ⟨(Desync.serve_all_answered reqs h).1, (Desync.serve_all_answered reqs h).2.1⟩

/-! ### a whole casync protocol session over byte streams (`Model/ProtoSession.lean`)

  `PS.serverRun` is `ProtocolServer.Serve` on arbitrary input bytes, `PS.clientRun` is `StartProtocol` +
  `RequestChunk`s + `Close` on arbitrary bytes from the server side, `PS.session` connects the two:
  the server reads what the client writes, the client reads what the server writes. -/

/-- **a session is faithful**: for every list of requested ids (32 bytes each), every store and every
    length, the `k`-th client result is — as long as the store has answered every earlier request,
    where "missing" is an answer — `missing` when the store reports the chunk missing, a chunk
    delivering the store's bytes when those hash to the id (whatever the upstream chunk object looks
    like: compressed or not, verified or not), `ChunkInvalid` when they do not; and an error — never
    `missing`, never data — from the first store failure on.  `missing` is reported exactly when the
    store says so; missing answers do not end the session. -/
theorem session_faithful (E : PS.Env) (hz : PS.ZstdOk E) (ids : List Bytes) (hid : ∀ id ∈ ids, id.length = 32) :
    (PS.session E ids).client.results.length = ids.length ∧
    ∀ (k : Nat) (id : Bytes), ids[k]? = some id →
      (PS.ServedBefore E ids k →
        (E.store id = .missing → (PS.session E ids).client.results[k]? = some .missing) ∧
        (∀ c b, E.store id = .chunk c → (c.getData E.z.dec).1 = some b → E.H b = id →
          ∃ c', (PS.session E ids).client.results[k]? = some (.ok c') ∧ C03.delivers E.z.dec c' b) ∧
        (∀ c b, E.store id = .chunk c → (c.getData E.z.dec).1 = some b → E.H b ≠ id →
          (PS.session E ids).client.results[k]? = some (.fail .invalid))) ∧
      ((¬ PS.ServedBefore E ids k ∨ PS.StoreFails E id) →
        (PS.session E ids).client.results[k]? = some (.fail (.read .eof))) ∧
      ((PS.session E ids).client.results[k]? = some .missing ↔ PS.ServedBefore E ids k ∧ E.store id = .missing) :=
  PS.session_faithful E hz ids hid

/-- what "the store fails" means in `session_faithful`: `GetChunk` returns an error that is not
    `ChunkMissing`, or a chunk object whose data cannot be produced -/
theorem store_fails_iff (E : PS.Env) (id : Bytes) :
    PS.StoreFails E id ↔ (match E.store id with
      | .failure => True
      | .missing => False
      | .chunk c => (c.getData E.z.dec).1 = none) :=
  PS.storeFails_iff E id

/-- the session is closed: the bytes the server read are exactly the bytes the client wrote (its
    hello, one request per id whatever the replies were, its goodbye), both handshakes succeed, and
    the server returns nil after the goodbye unless its store failed -/
theorem session_closed (E : PS.Env) (hz : PS.ZstdOk E) (ids : List Bytes) (hid : ∀ id ∈ ids, id.length = 32) :
    (PS.session E ids).client.hs = none ∧
    (PS.session E ids).client.conn.sent = PS.clientMsgs ids ∧
    ((∀ id ∈ ids, ¬ PS.StoreFails E id) → (PS.session E ids).server.end_ = .nilGoodbye) := by
  obtain ⟨h1, _, h3, _, h5⟩ := PS.session_eq E hz ids hid
  refine ⟨h1, h3, fun hall => ?_⟩
  rw [h5]
  exact PS.answers_nil E ids hall

/-- the same results when the two sides take turns message by message -/
theorem session_lockstep (E : PS.Env) (hz : PS.ZstdOk E) (ids : List Bytes) (hid : ∀ id ∈ ids, id.length = 32) :
    (PS.session E ids).client.results = PS.lockstep E ids true :=
  PS.session_lockstep E hz ids hid

/-- **the server's output is well formed for every input**: it parses back (`ReadMessage` by
    `ReadMessage`) into the messages written, and those are the server's hello followed by one reply per
    request found in the input, in order, each the store's answer for the id in that request -/
theorem server_replies_wellformed (E : PS.Env) (hsz : ∀ b, PS.Served E b → (E.z.comp b).length + 56 < 2^64)
    (cancel wr : Option Nat) (input : Bytes) (a : Nat) :
    PS.readAll (PS.serverRun E cancel wr input).sent.length ⟨(PS.serverRun E cancel wr input).written, a⟩
      = (PS.serverRun E cancel wr input).sent ∧
    ((wr = some 0 ∧ (PS.serverRun E cancel wr input).sent = []) ∨
     ∃ rs, (PS.serverRun E cancel wr input).sent = PS.helloMsg Gen.CaProtocolReadableStore :: rs ∧
      (rs = [] ∨ ∃ f ms tail, input = PS.wire (PS.helloMsg f :: ms) ++ tail ∧ PS.Replies E ms rs)) :=
  ⟨PS.serverRun_parses_back E hsz cancel wr input a, PS.serverRun_sent E cancel wr input⟩

/-- the server labels a chunk reply with `chunk.ID()` — the id the chunk object was constructed
    with when that is marked calculated (`NewChunkWithID`, `NewChunkFromStorage`, verified or not),
    the digest of its data otherwise (`NewChunk`) — not with the requested id; the data is
    re-compressed whatever the upstream format was -/
theorem server_reply_label (E : PS.Env) (id : Bytes) (c c1 : ChunkObj) (b : Bytes) (hs : E.store id = .chunk c)
    (hd : c.getData E.z.dec = (some b, c1)) :
    PS.replyOf E id = .ok (chunkMessage (PS.fit32 (if c.idCalculated then c.id else E.H b))
      Gen.CaProtocolChunkCompressed (E.z.comp b)) :=
  PS.replyOf_label E id c c1 b hs hd

/-- what the server has written in answer to the messages it has read does not depend on what
    follows them in the input -/
theorem server_causal (E : PS.Env) (cancel wr w : Option Nat) (hw : PS.wrWrite wr = some w) (f : UInt64)
    (hp : f &&& Gen.CaProtocolPullChunks ≠ 0) (ms : List Message) (hsz : ∀ m ∈ ms, 16 + m.body.length < 2^64)
    (tail : Bytes) :
    ∃ more, (PS.serverRun E cancel wr (PS.wire (PS.helloMsg f :: ms) ++ tail)).sent =
      PS.helloMsg Gen.CaProtocolReadableStore :: (PS.serveMsgs E cancel w ms).1 ++ more :=
  PS.server_causal E cancel wr w hw f hp ms hsz tail

/-- a chunk reply without storage bytes is refused whatever the id.  (That is what becomes of an
    object that decodes to NO data: the library's `Compress` maps nothing to nothing.  The chunk of
    zero bytes is therefore not transported by the casync protocol — outside `ZstdOk`, and outside
    what any index made by desync refers to; reproduction: harness/repro/protoempty.) -/
theorem empty_reply_refused (H : Bytes → Bytes) (dec : Bytes → Option Bytes) (id label rest : Bytes) (f : UInt64)
    (a : Nat) (hl : label.length = 32) :
    (PS.clientReply H dec id ⟨writeMessage (chunkMessage label f []) ++ rest, a⟩).1 = .fail .invalid :=
  PS.empty_reply_refused H dec id label rest f a hl

/-- `Initialize` sends and receives concurrently: both orders of the two goroutines give the same
    connection state and the same result -/
theorem initialize_orders_agree (flags : UInt64) (c : PS.Conn) : PS.initializeSR flags c = PS.initializeRS flags c :=
  PS.initialize_orders_agree flags c

/-! non-vacuity: a store with one chunk (`[7]`, under the id `fit32 [7]` with the digest `fit32`),
    one failing id, everything else missing; zstd = "prefix a byte" -/
def exEnv : PS.Env where
  H := PS.fit32
  z := ⟨fun x => 1 :: x, fun x => match x with | 1 :: r => some r | _ => none⟩
  store := fun id =>
    if id = PS.fit32 [7] then .chunk { data := [7] }
    else if id = PS.fit32 [9] then .failure
    else .missing

theorem exEnv_ok : PS.ZstdOk exEnv :=
  ⟨fun _ _ => rfl, fun _ _ => by simp [exEnv], fun b ⟨id, c, hs, hd⟩ => by
    simp only [exEnv] at hs hd ⊢
    split at hs
    · injection hs with hs; subst hs
      simp [ChunkObj.getData] at hd
      subst hd; decide
    · split at hs <;> cases hs⟩

/-- a session asking for a missing chunk, the chunk, a failing id, and the chunk again: missing,
    the bytes, and errors from the failure on -/
example : ∃ c', (PS.session exEnv [PS.fit32 [1], PS.fit32 [7], PS.fit32 [9], PS.fit32 [7]]).client.results[1]? = some (.ok c') ∧
      C03.delivers exEnv.z.dec c' [7] := by
  have h := (session_faithful exEnv exEnv_ok [PS.fit32 [1], PS.fit32 [7], PS.fit32 [9], PS.fit32 [7]]
    (by intro id hid; simp only [List.mem_cons, List.not_mem_nil, or_false] at hid; rcases hid with rfl | rfl | rfl | rfl <;> simp)).2
    1 (PS.fit32 [7]) rfl
  refine (h.1 ?_).2.1 { data := [7] } [7] (by simp [exEnv]) rfl (by simp [exEnv])
  intro j idj hj hidj
  have : j = 0 := by omega
  subst this
  simp only [List.getElem?_cons_zero, Option.some.injEq] at hidj
  subst hidj
  rw [PS.storeFails_iff]
  have : exEnv.store (PS.fit32 [1]) = .missing := by simp [exEnv, PS.fit32]
  rw [this]; simp

example : (PS.session exEnv [PS.fit32 [1], PS.fit32 [7], PS.fit32 [9], PS.fit32 [7]]).client.results[3]?
    = some (.fail (.read .eof)) := by
  have h := (session_faithful exEnv exEnv_ok [PS.fit32 [1], PS.fit32 [7], PS.fit32 [9], PS.fit32 [7]]
    (by intro id hid; simp only [List.mem_cons, List.not_mem_nil, or_false] at hid; rcases hid with rfl | rfl | rfl | rfl <;> simp)).2
    3 (PS.fit32 [7]) rfl
  refine h.2.1 (Or.inl fun hs => hs 2 (PS.fit32 [9]) (by omega) rfl ?_)
  rw [PS.storeFails_iff]
  have : exEnv.store (PS.fit32 [9]) = .failure := by simp [exEnv, PS.fit32]
  rw [this]; trivial

/-- **regenerated obligation** (harness/extract/protofacts.go): the shape of the protocol code the session
    model mirrors — `RecvHello` checks the type, then the body length, then decodes the flags; `Initialize`
    runs `SendHello` and `RecvHello` as goroutines, waits, looks at the send error first and only then sets
    `initialized`; `Serve` shakes hands offering a readable store and insists on `CaProtocolPullChunks`, looks at
    the context at the top of every pass, reads a message and switches on its type: a request may go on to the
    next pass, abort and unknown types return an error, goodbye returns nil; an error of `GetChunk` that is a
    `ChunkMissing` is answered with `SendMissing` and the loop continues, any other error ends `Serve`; the reply
    is `SendProtocolChunk(chunk.ID(), CaProtocolChunkCompressed, Compressor{}.toStorage(chunk.Data()))`;
    `RequestChunk` writes the request, reads one message and switches on its type; `StartProtocol` asks for
    chunks and insists on a readable store; `RemoteSSH.GetChunk` puts the session back whatever the result -/
theorem gen_proto_session :
    Gen.protoRecvHello = ["if:m.Type!=CaProtocolHello→return-err", "if:len(m.Body)!=8→return-err", "return:Uint64(m.Body)"] ∧
    Gen.protoInitialize = ["go:SendHello", "go:RecvHello", "Wait", "if:sendErr!=nil→return-err", "if:recvErr!=nil→return-err",
      "initialized=true", "return:flags"] ∧
    Gen.protoServeInit = ["Initialize(CaProtocolReadableStore)", "if:flags&CaProtocolPullChunks==0→return-err"] ∧
    Gen.protoServeLoop = ["select:<-ctx.Done()→return-nil", "select-default→falls", "ReadMessage", "if:err→return-err", "switch:Type"] ∧
    Gen.protoServeArms = ["CaProtocolRequest→continue,falls,return-err", "CaProtocolAbort→return-err",
      "CaProtocolGoodbye→return-nil", "default→return-err"] ∧
    Gen.protoServeRequestCalls = ["ChunkIDFromSlice", "GetChunk", "SendMissing", "Data", "toStorage", "SendProtocolChunk", "ID"] ∧
    Gen.protoServeGetChunkErr = ["missing:SendMissing,senderr:return-err,continue", "other:return-err"] ∧
    Gen.protoServeRequestArgs = ["id=ChunkIDFromSlice(m.Body[8:40])", "chunk=GetChunk(id)", "SendMissing(id)",
      "plain=chunk.Data()", "compressed=Compressor{}.toStorage(plain)",
      "SendProtocolChunk(chunk.ID(),CaProtocolChunkCompressed,compressed)"] ∧
    Gen.protoRequestChunk = ["if:!initialized→return-err", "SendProtocolRequest(id,CaProtocolRequestHighPriority)→return-err",
      "ReadMessage", "switch:Type"] ∧
    Gen.protoRequestArms = ["CaProtocolMissing→ChunkMissing", "CaProtocolChunk→err,NewChunkFromStorage", "default→err"] ∧
    Gen.protoStartProtocol = ["Initialize(CaProtocolPullChunks)", "if:flags&CaProtocolReadableStore==0→return-err"] ∧
    Gen.protoRemoteSSHGetChunk = ["take", "RequestChunk", "put-back", "return"] ∧
    Gen.site_shape_proto_RecvHello_found = true ∧ Gen.site_shape_proto_Initialize_found = true ∧
    Gen.site_shape_proto_ServeInit_found = true ∧ Gen.site_shape_proto_ServeLoop_found = true ∧
    Gen.site_shape_proto_ServeArms_found = true ∧ Gen.site_shape_proto_ServeRequestCalls_found = true ∧
    Gen.site_shape_proto_ServeGetChunkErr_found = true ∧ Gen.site_shape_proto_ServeRequestArgs_found = true ∧
    Gen.site_shape_proto_RequestChunk_found = true ∧ Gen.site_shape_proto_RequestArms_found = true ∧
    Gen.site_shape_proto_StartProtocol_found = true ∧ Gen.site_shape_proto_RemoteSSHGetChunk_found = true := by
  decide

theorem gen_sites :
    Gen.site_const_CaProtocolMissing_found = true ∧ Gen.site_const_CaProtocolChunk_found = true ∧
    Gen.site_const_CaProtocolRequest_found = true := by decide

end Desync.C14
