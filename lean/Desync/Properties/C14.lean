/-
  C14 — Remote transports preserve data and report missing vs. failed truthfully.

  Models: `Model/Http.lean` (the retry loop of `IssueRetryableHttpRequest`, the status mapping of
  `GetObject`/`HasChunk`/`StoreObject`, the compression matrix client ↔ chunk server ↔ upstream
  with zstd abstract), `Model/Protocol.lean` (casync message framing, `RequestChunk`'s
  interpretation of replies, the server loop).  Tie: scripted HTTP servers (response sequences
  incl. connection resets and truncated bodies × retry budgets × GET/HEAD/PUT) compared with the
  model incl. the number of attempts; the matrix with real zstd through a real `HTTPHandler`;
  indexes through the index server; the casync protocol over pipes against the real server.
-/
import Desync.Proofs.HttpRetryProofs
import Desync.Proofs.ProtocolProofs

namespace Desync.C14
open Desync Desync.Http

/-- the number of attempts is bounded by the configured retry budget (at least one) -/
theorem retry_bound (retry : Nat) (rs : List Resp) :
    1 ≤ (issueRetryable retry rs).2 ∧ (issueRetryable retry rs).2 ≤ max retry 1 :=
  Desync.Http.retry_bound retry rs

/-- a run of transient failures shorter than the budget is invisible to the caller -/
theorem retry_masks_short_runs (retry : Nat) (fails : List Resp) (c : Nat) (b : Bytes) (rest : List Resp)
    (hf : ∀ r ∈ fails, retryable r = true) (hk : fails.length < retry) (hc : ¬ (500 ≤ c ∧ c < 600)) :
    issueRetryable retry (fails ++ Resp.status c b :: rest) = (.answer c b, fails.length + 1) :=
  Desync.Http.retry_masks_short_runs retry fails c b rest hf hk hc

/-- **truthful**: GET reports data only for a final 200 and "missing" only for a final 404; an
    exhausted budget or a transport error is an error — never "missing", never data -/
theorem get_truthful (retry : Nat) (rs : List Resp) :
    (∀ b, getObject retry rs = .ok b → (issueRetryable retry rs).1 = .answer 200 b) ∧
    (getObject retry rs = .missing → ∃ b, (issueRetryable retry rs).1 = .answer 404 b) ∧
    ((issueRetryable retry rs).1 = .error ∨ (issueRetryable retry rs).1 = .answer 0 [] →
      getObject retry rs = .error) :=
  Desync.Http.get_truthful retry rs

/-- HEAD: present ⇔ 200, absent ⇔ 404, everything else an error -/
theorem has_truthful (retry : Nat) (rs : List Resp) :
    (hasChunk retry rs = .present ↔ ∃ b, (issueRetryable retry rs).1 = .answer 200 b) ∧
    (hasChunk retry rs = .absent ↔ ∃ b, (issueRetryable retry rs).1 = .answer 404 b) :=
  ⟨(Desync.Http.has_truthful retry rs).1, (Desync.Http.has_truthful retry rs).2.1⟩

/-- PUT succeeds only on a final 200/201 -/
theorem store_truthful (retry : Nat) (rs : List Resp) :
    storeObject retry rs = true ↔
      ∃ b, (issueRetryable retry rs).1 = .answer 200 b ∨ (issueRetryable retry rs).1 = .answer 201 b :=
  Desync.Http.store_truthful retry rs

/-- the loop's answer is one of the server's actual responses (or the "gave up" pseudo status 0) -/
theorem answer_is_a_response (retry : Nat) (rs : List Resp) (c : Nat) (b : Bytes)
    (h : (issueRetryable retry rs).1 = .answer c b) : (c = 0 ∧ b = []) ∨ Resp.status c b ∈ rs :=
  Desync.Http.answer_is_a_response retry rs c b h

/-- **compression matrix**: across all 2×2×2 settings a verified client GetChunk through a chunk
    server yields bytes hashing to the ID or an error — never other bytes … -/
theorem matrix_never_wrong (z : Zstd) (H : Bytes → Bytes) (cc sc uc : Bool) (id stored b : Bytes)
    (h : clientGet z H cc sc uc true id stored = .ok b) : H b = id :=
  Desync.Http.matrix_never_wrong z H cc sc uc id stored b h

/-- … and whenever client and server agree on the format the chunk arrives unchanged, whatever
    the upstream store's format -/
theorem matrix_preserves (z : Zstd) (hz : ∀ x, z.dec (z.comp x) = some x) (H : Bytes → Bytes)
    (cc uc : Bool) (data : Bytes) (hne : data ≠ []) (hcomp : ∀ x, x ≠ [] → z.comp x ≠ []) :
    clientGet z H cc cc uc true (H data) (if uc then z.comp data else data) = .ok data :=
  Desync.Http.matrix_preserves z hz H cc uc data hne hcomp

/-- casync protocol framing round trip -/
theorem msg_roundtrip (m : Message) (r : Bytes) (a : Nat) (h : 16 + m.body.length < 2^64) :
    readMessage ⟨writeMessage m ++ r, a⟩ = .ok (m, ⟨r, a + (8 + m.body.length)⟩) :=
  readMessage_writeMessage m r a h

/-- over the casync protocol a missing chunk is "missing", a chunk reply is the chunk's bytes,
    anything else an error -/
theorem missing_vs_chunk (id data : Bytes) (flags : UInt64) (hid : id.length = 32) :
    interpretReply (missingMessage id) = .missing ∧ interpretReply (chunkMessage id flags data) = .chunk data :=
  ⟨interpret_missing id, interpret_chunk id data flags hid⟩

/-- the protocol server answers every request until a store failure; a missing chunk does not end
    the session (the pinned tree stopped serving after the first missing chunk) -/
theorem serve_all_answered (reqs : List (Bytes × StoreAns)) (h : ∀ p ∈ reqs, p.2 ≠ .failure) :
    (serveRequests reqs).2 = true ∧ (serveRequests reqs).1.length = reqs.length :=
  ⟨(Desync.serve_all_answered reqs h).1, (Desync.serve_all_answered reqs h).2.1⟩

theorem gen_sites :
    Gen.site_const_CaProtocolMissing_found = true ∧ Gen.site_const_CaProtocolChunk_found = true ∧
    Gen.site_const_CaProtocolRequest_found = true := by decide

end Desync.C14
