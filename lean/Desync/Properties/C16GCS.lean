/-
  C16 for the Google Cloud Storage chunk store (`GCStore.Prune`, gcs.go) as modelled in `Model/GCStore.lean`: for every
  page size, every pattern of failing page requests and every treatment of the DELETE requests.
-/
import Desync.Proofs.GCStoreProofs

namespace Desync.C16
open Desync Desync.GCS

/-- whatever the outcome (success or an error half-way), GCS prune only removes, and what it removed is the canonical
    object of an unreferenced ID of the store's own format -/
theorem gcs_prune_removes_only (unc : Bool) (keep : Bytes → Bool) (env : PruneEnv) (d : StoreDir) :
    (∀ f ∈ resDir (gcsPrune unc keep env d), f ∈ d) ∧
    ∀ f ∈ d, f ∉ resDir (gcsPrune unc keep env d) →
      ∃ id, id.length = 32 ∧ keep id = false ∧ f = nameFromID unc id ∧ s3Classify unc f.1 f.2 = .consider id := by
  unfold gcsPrune
  split
  · exact ⟨fun f hf => hf, fun f hf hn => absurd hf hn⟩
  · obtain ⟨h1, h2⟩ := walk_removed_only unc keep env d d d (env.pageMinus1 + 1) 1 0
    refine ⟨h1, fun f hf hn => ?_⟩
    obtain ⟨id, hl, hk, he⟩ := h2 f hf hn
    exact ⟨id, hl, hk, he, by rw [he]; exact s3_classify_own unc id hl⟩

theorem gcs_prune_keeps_referenced (unc : Bool) (keep : Bytes → Bool) (env : PruneEnv) (d : StoreDir) (id : Bytes)
    (hk : keep id = true) (hid : id.length = 32) (hin : nameFromID unc id ∈ d) :
    nameFromID unc id ∈ resDir (gcsPrune unc keep env d) := by
  apply Classical.byContradiction
  intro hn
  obtain ⟨id', _, hk', he, _⟩ := (gcs_prune_removes_only unc keep env d).2 _ hin hn
  have := nameFromID_injective unc _ _ he
  subst this
  rw [hk] at hk'; cases hk'

theorem gcs_prune_keeps_other_format (unc : Bool) (keep : Bytes → Bool) (env : PruneEnv) (d : StoreDir)
    (dir id : Bytes) (hid : id.length = 32) (hin : (dir, (nameFromID (!unc) id).2) ∈ d) :
    (dir, (nameFromID (!unc) id).2) ∈ resDir (gcsPrune unc keep env d) := by
  apply Classical.byContradiction
  intro hn
  obtain ⟨id', _, _, _, hc⟩ := (gcs_prune_removes_only unc keep env d).2 _ hin hn
  rw [s3_classify_other_format unc dir id hid] at hc
  cases hc

/-- names `idFromName` does not recognise survive -/
theorem gcs_prune_keeps_non_chunks (unc : Bool) (keep : Bytes → Bool) (env : PruneEnv) (d : StoreDir)
    (f : Bytes × Bytes) (hs : s3Classify unc f.1 f.2 = .skip) (hin : f ∈ d) :
    f ∈ resDir (gcsPrune unc keep env d) := by
  apply Classical.byContradiction
  intro hn
  obtain ⟨id', _, _, _, hc⟩ := (gcs_prune_removes_only unc keep env d).2 _ hin hn
  rw [hs] at hc; cases hc

/-- **nil from GCS prune means complete**: no canonical own-format object of an unreferenced ID is left — whatever the
    page size, and although a delete of a missing object is an error here -/
theorem gcs_prune_complete_on_success (unc : Bool) (keep : Bytes → Bool) (env : PruneEnv) (d d' : StoreDir)
    (h : gcsPrune unc keep env d = .ok d') :
    ∀ id, id.length = 32 → keep id = false → nameFromID unc id ∈ d → nameFromID unc id ∉ d' := by
  unfold gcsPrune at h
  split at h
  · cases h
  · exact walk_complete unc keep env d d d (env.pageMinus1 + 1) 1 0 d' (fun f hf => hf) h

section Example

private def gA : Bytes := List.replicate 32 0xab      -- referenced
private def gB : Bytes := List.replicate 32 0x01      -- unreferenced
private def gC : Bytes := List.replicate 32 0x7f      -- stored in the other format
private def gKeepA (id : Bytes) : Bool := id == gA
private def envOk (p : Nat) : PruneEnv := ⟨p, fun _ => false, fun _ => .normal⟩

/-- not vacuous: referenced chunk, unreferenced chunk, a chunk of the other format, junk; pages of one and of many -/
example :
    gcsPrune false gKeepA (envOk 0)
        [ nameFromID false gA, nameFromID false gB, nameFromID true gC, ([48, 49, 48, 49], [82, 69, 65, 68, 77, 69]) ]
      = .ok [ nameFromID false gA, nameFromID true gC, ([48, 49, 48, 49], [82, 69, 65, 68, 77, 69]) ] ∧
    gcsPrune false gKeepA (envOk 10)
        [ nameFromID false gA, nameFromID false gB, nameFromID true gC ]
      = .ok [ nameFromID false gA, nameFromID true gC ] := by
  decide

/-- **an oddity of the code, stated**: a name `<2 hex>/<64 hex>.cacnk` is accepted by `idFromName`; prune then deletes
    the CANONICAL object of that ID.  When the alias sorts before the canonical name and both are in ONE page, the
    canonical name is listed again, its second delete is answered 404, and Prune FAILS although the store is in order
    (with a page boundary in between it succeeds); an alias without a canonical object makes every Prune fail.
    On S3 (`s3Prune_removes_via_alias`) the same input succeeds, because deleting a missing key is no error there. -/
theorem gcs_prune_alias_fails :
    gcsPrune false gKeepA (envOk 10) [ ([48, 49], (nameFromID false gB).2), nameFromID false gB ]
      = .failed [ ([48, 49], (nameFromID false gB).2) ] ∧
    gcsPrune false gKeepA (envOk 0) [ ([48, 49], (nameFromID false gB).2), nameFromID false gB ]
      = .ok [ ([48, 49], (nameFromID false gB).2) ] ∧
    gcsPrune false gKeepA (envOk 10) [ ([48, 49], (nameFromID false gB).2) ]
      = .failed [ ([48, 49], (nameFromID false gB).2) ] := by
  decide

end Example

end Desync.C16
