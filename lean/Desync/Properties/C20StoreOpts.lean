/-
  C20 — "a client configured for one format never sees … the other's files": the format a store works in is the
  `uncompressed` setting of the configuration entry matching ITS location, nothing on the command line changes it, and
  `converters()` has a compressor layer exactly when the store is not uncompressed.
-/
import Desync.Properties.C03StoreOpts

namespace Desync.C20
open Desync Desync.StoreOpts

/-- **the format follows the configuration**: merging the command line never changes `uncompressed`; the layers are
    `[compressor]` iff the store is compressed; with no matching entry the store is compressed -/
theorem format_follows_config (cmd : CmdStoreOptions) (o : StoreOptions) :
    (mergedWith cmd o).uncompressed = o.uncompressed ∧
    (converters (mergedWith cmd o) = [.compressor] ↔ o.uncompressed = false) ∧
    (converters (mergedWith cmd o) = [] ↔ o.uncompressed = true) ∧
    converters (mergedWith cmd defaults) = [.compressor] := by
  refine ⟨rfl, ?_, ?_, rfl⟩ <;> (simp only [converters, mergedWith]; by_cases h : o.uncompressed = true <;> simp [h])

/-- the format of a store depends on the entries matching its own location only -/
theorem format_of_other_locations_irrelevant {κ : Type} (m : κ → Bool) (e1 e2 : List (κ × StoreOptions))
    (cmd : CmdStoreOptions) (h : e1.filter (fun e => m e.1) = e2.filter (fun e => m e.1)) :
    (storeOptionsFor m e1 cmd).map converters = (storeOptionsFor m e2 cmd).map converters := by
  rw [C03.other_locations_entries_irrelevant m e1 e2 cmd h]

example : converters (mergedWith ⟨1, "", "", "", true, 0, 0, false, false, false, true, false, false⟩ { defaults with uncompressed := true }) = [] := by
  decide

end Desync.C20
