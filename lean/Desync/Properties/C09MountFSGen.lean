/- C09 — regenerated obligations for the node layer of the index mount (harness/extract/mountfsfacts.go) and for
   cmd/desync/cat.go -/
import Desync.Generated.Facts
import Desync.Model.MountFS

namespace Desync.C09
open Desync MountFS

def nodeFactsOf (t : Nat × List String × String × Nat) : NodeFacts :=
  { attrMode := t.1, sizeConv := t.2.1, sizeSrc := t.2.2.1, openFlags := t.2.2.2 }

/-- `indexFile.Getattr` reports a read-only regular file whose size is `Index.Length()` through conversions that are all
    64 bits wide, and always returns OK; `indexFile.Open` returns flags without FOPEN_DIRECT_IO (the kernel clips reads to
    that size), always OK -/
theorem gen_index_node_facts_ok :
    Gen.site_mountIndex_node_found = true ∧ (nodeFactsOf Gen.mountIndexNodeFacts).ok = true ∧
    Gen.mountIndexOpenReturns = ["2:OK"] := by decide

/-- `indexFileHandle.read` returns, in this order: EIO without data when the Seek fails; EIO without data when the Read
    fails with anything but io.EOF; otherwise the bytes read, `dest[:n]`, with OK — and `indexFile.Read` only forwards -/
theorem gen_index_read_returns :
    Gen.site_mountIndex_readReturns_found = true ∧ Gen.mountIndexReadReturns = modelledIndexReadReturns := by decide

/-- `IndexMountFS.OnAdd` adds ONE persistent inode of mode S_IFREG under the name `FName` -/
theorem gen_index_onadd :
    Gen.site_mountIndex_onAdd_found = true ∧
    Gen.mountIndexOnAdd = ["NewPersistentInode:32768", "AddChild:FName:false"] := by decide

/-- `runCat`: `Seek(offset, io.SeekStart)`, then `io.CopyN(length)` if `length > 0`, else `io.Copy` -/
theorem gen_cat_ops :
    Gen.site_cmd_cat_found = true ∧
    Gen.cmdCatOps = ["Seek:offset:io.SeekStart", "if:length>0", "CopyN:length", "Copy"] := by decide

end Desync.C09
