/-
  C06 at the command layer: what `desync make | chop | cache | tar -i` (and every other command function) REPORT.
  The library theorems (`success_implies_all_stored`, `chunkstream_ok_all_stored`, `copy_success_iff_no_job_fails`, …)
  speak about `ChopFile`, `Copy`, `ChunkStream`; the theorems here speak about the function that calls them and whose
  result becomes the exit status.  They hold for EVERY flow that passes a decidable static check, for every option
  setting, every loop length and every outcome of every call (`Oracle`: all fault sequences); the regenerated flows
  of the real command functions are checked against those predicates in `C06CmdFlowGen.lean`.
-/
import Desync.Proofs.CmdFlow

namespace Desync.C06
open Desync.Cmd

/-- **success means every step succeeded**: a command function that propagates every error and does not return an
    error has seen no failing call, whatever the options, loop lengths and call outcomes -/
theorem cmd_success_means_every_step_succeeded (f : Flow) (h : f.allErrorsPropagated = true) (env : Env) (orc : Oracle)
    (hr : (run f env orc).1 ≠ .err) : ∀ e ∈ (run f env orc).2, e.ok = true := by
  simp only [Flow.allErrorsPropagated, Bool.and_eq_true] at h
  intro e he
  simp only [run, List.mem_append] at he hr
  rcases he with he | he
  · exact exec_success_all_ok orc _ {} (Block.all_lin _ env f.body h.2) (by simp) hr e he
  · exact (closeEffects_ok _ _ e he).1

/-- **a failure is reported**: if any call the command made failed (a store operation at any point), the command
    function returns an error -/
theorem cmd_failure_is_reported (f : Flow) (h : f.allErrorsPropagated = true) (env : Env) (orc : Oracle)
    (hf : ∃ e ∈ (run f env orc).2, e.ok = false) : (run f env orc).1 = .err := by
  apply Classical.byContradiction
  intro hne
  obtain ⟨e, he, hb⟩ := hf
  have := cmd_success_means_every_step_succeeded f h env orc hne e he
  rw [this] at hb
  cases hb

/-- an error result has a cause: a call that failed, or a `return <fresh error>` statement on the path taken (wrong
    options); it never comes from nowhere -/
theorem cmd_error_has_cause (f : Flow) (env : Env) (orc : Oracle) (hr : (run f env orc).1 = .err) :
    (∃ e ∈ (run f env orc).2, e.ok = false) ∨ Atom.fail ∈ f.body.lin env := by
  simp only [run] at hr ⊢
  rcases exec_err_has_cause orc (f.body.lin env) {} (by simp) hr with ⟨e, he, hb⟩ | h
  · exact .inl ⟨e, List.mem_append_left _ he, hb⟩
  · exact .inr h

/-- **the index is written last**: in a flow that propagates every error and writes the index only by
    `return storeCaibxFile(…)`, every effect of the body except the last one succeeded and was not the index write.
    So if the index was written at all, that was the last thing the body did and every chunk operation before it
    had succeeded -/
theorem cmd_index_written_last (f : Flow) (h1 : f.allErrorsPropagated = true) (h2 : f.indexStoredLast = true)
    (env : Env) (orc : Oracle) :
    ∀ e ∈ (runBody f env orc).2.dropLast, e.ok = true ∧ isIndexStore e.callee = false := by
  simp only [Flow.allErrorsPropagated, Flow.indexStoredLast, Bool.and_eq_true] at h1 h2
  intro e he
  have := exec_all_but_last_quiet orc _ {} (Block.all_lin _ env f.body h1.2) (Block.all_lin _ env f.body h2.2)
    (by simp) e he
  simpa [Effect.quiet] using this

/-- … spelled out for the index write itself -/
theorem cmd_index_write_is_final (f : Flow) (h1 : f.allErrorsPropagated = true) (h2 : f.indexStoredLast = true)
    (env : Env) (orc : Oracle) (e : Effect) (he : e ∈ (runBody f env orc).2) (hi : isIndexStore e.callee = true) :
    ∃ pre, (runBody f env orc).2 = pre ++ [e] ∧ ∀ x ∈ pre, x.ok = true ∧ isIndexStore x.callee = false := by
  have hne : (runBody f env orc).2 ≠ [] := List.ne_nil_of_mem he
  have hall := cmd_index_written_last f h1 h2 env orc
  have hsplit := List.dropLast_concat_getLast hne
  refine ⟨(runBody f env orc).2.dropLast, ?_, hall⟩
  rw [← hsplit] at he
  rcases List.mem_append.mp he with he | he
  · have := (hall e he).2
    rw [hi] at this
    cases this
  · simp only [List.mem_singleton] at he
    rw [he]
    exact hsplit.symm

/-- hypotheses are satisfiable, and the theorems bite: a flow in the shape of `make` (validate, open store, chunk,
    chop, write index) with a failing `ChopFile` returns an error and never reaches the index write -/
def exampleFlow : Flow := { name := "example", complete := true, body :=
  (.cons (.step ⟨"opt.validate", .none, .propagate⟩)
  (.cons (.cond (.atom "store") (.cons (.step ⟨"WritableStore", .none, .propagate⟩) (.cons (.deferred ".Close") .nil)) .nil)
  (.cons (.step ⟨"desync.IndexFromFile", .cmd, .propagate⟩)
  (.cons (.cond (.atom "store") (.cons (.step ⟨"desync.ChopFile", .cmd, .propagate⟩) .nil) .nil)
  (.cons (.ret ⟨"storeCaibxFile", .none, .propagate⟩) .nil))))) }

def exampleEnv : Env := { cond := fun _ => true, iters := fun _ => 1 }
def chopFails : Oracle := { fails := fun _ s => s.callee == "desync.ChopFile", stops := fun _ _ => false }
def nothingFails : Oracle := { fails := fun _ _ => false, stops := fun _ _ => false }

example : exampleFlow.allErrorsPropagated = true ∧ exampleFlow.indexStoredLast = true := by decide
example : (run exampleFlow exampleEnv chopFails).1 = .err ∧
    ((run exampleFlow exampleEnv chopFails).2.map (·.callee)) =
      ["opt.validate", "WritableStore", "desync.IndexFromFile", "desync.ChopFile", ".Close"] := by decide
example : (run exampleFlow exampleEnv nothingFails).1 = .ok ∧
    ((runBody exampleFlow exampleEnv nothingFails).2.map (·.callee)).getLast? = some "storeCaibxFile" := by decide

/-- the mutant the theorem excludes: the error of `ChopFile` dropped — success is reported although a call failed -/
def ignoringFlow : Flow := { exampleFlow with body :=
  (.cons (.step ⟨"desync.ChopFile", .cmd, .ignore⟩) (.cons (.ret ⟨"storeCaibxFile", .none, .propagate⟩) .nil)) }

theorem cmd_ignored_error_violates :
    ignoringFlow.allErrorsPropagated = false ∧ (run ignoringFlow exampleEnv chopFails).1 = .ok ∧
    ∃ e ∈ (run ignoringFlow exampleEnv chopFails).2, e.ok = false := by
  refine ⟨by decide, by decide, ⟨"desync.ChopFile", .call, false, 0⟩, ?_, rfl⟩
  decide

end Desync.C06
