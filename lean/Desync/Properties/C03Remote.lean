/-
  C03 for the S3 and SFTP chunk stores: `S3Store.GetChunk` (retry loop, error-code mapping) and `SFTPStore.GetChunk`
  as modelled in `Model/RemoteStores.lean`; whatever the service / server answers, on whichever attempt, a delivered
  chunk passed `NewChunkFromStorage` for the requested ID.  (A file of its own: `Proofs/HttpProofs.lean` imports
  `Properties/C03.lean`, and the SFTP proofs import those.)
-/
import Desync.Properties.C03
import Desync.Proofs.RemoteStoresProofs

namespace Desync.C03
open Desync

/-! ### the S3 and SFTP chunk stores (`Model/RemoteStores.lean`) -/

open Desync.Remote in
/-- **`S3Store.GetChunk` is truthful**: at most `ErrorRetry + 1` passes, all but the last failed; a chunk only from a
    complete body that passed `NewChunkFromStorage` for the requested ID; `ChunkMissing` exactly when the last pass was
    answered NoSuchKey (a missing chunk is retried like any failure: `ErrorRetry + 1` requests); NoSuchBucket is an
    error (not ChunkMissing), and so is every other failure -/
theorem s3_get_truthful (H : Bytes → Bytes) (dec : Bytes → Option Bytes) (retry : Nat) (id : Bytes)
    (convs : List Conv) (skipVerify : Bool) (out : Nat → GetOutcome) (res : GetRes) (n : Nat)
    (h : s3GetChunk H dec retry id convs skipVerify out = (res, n)) :
    1 ≤ n ∧ n ≤ retry + 1 ∧ (∀ k, 1 ≤ k → k < n → (out k).failed = true) ∧
    (∀ c, res = .ok c → ∃ b, out n = .body b ∧ newChunkFromStorage H dec id b convs skipVerify = .ok c) ∧
    (res = .invalid → ∃ b, out n = .body b ∧ newChunkFromStorage H dec id b convs skipVerify = .invalid) ∧
    (res = .missing ↔ out n = .noSuchKey) ∧
    (res = .missing → n = retry + 1) ∧
    (out n = .noSuchBucket → res = .error) ∧
    ((out n).failed = true → out n ≠ .noSuchKey → res = .error) ∧
    ((out n).failed = true → n = retry + 1) :=
  Remote.s3_get_truthful H dec retry id convs skipVerify out res n h

open Desync.Remote in
/-- C03 for the S3 store: whatever the service answers on whichever attempt, a delivered chunk hashes to the ID -/
theorem s3_get_never_wrong_chunk (H : Bytes → Bytes) (dec : Bytes → Option Bytes) (retry : Nat) (id : Bytes)
    (convs : List Conv) (out : Nat → GetOutcome) (c : ChunkObj) (n : Nat)
    (h : s3GetChunk H dec retry id convs false out = (.ok c, n)) (b : Bytes) (hb : delivers dec c b) : H b = id := by
  obtain ⟨raw, _, hc⟩ := (Remote.s3_get_truthful H dec retry id convs false out _ n h).2.2.2.1 c rfl
  exact fromStorage_sound H dec id raw convs c hc b hb

open Desync.Remote in
/-- `SFTPStore.GetChunk`: a chunk only from a body that passed the constructor, `ChunkMissing` exactly for a
    not-exist error of `Open`, every other failure an error -/
theorem sftp_get_truthful (H : Bytes → Bytes) (dec : Bytes → Option Bytes) (id : Bytes) (convs : List Conv)
    (skipVerify : Bool) (o : SftpGetOutcome) :
    (∀ c, sftpGetChunk H dec id convs skipVerify o = .ok c →
      ∃ b, o = .body b ∧ newChunkFromStorage H dec id b convs skipVerify = .ok c) ∧
    (sftpGetChunk H dec id convs skipVerify o = .missing ↔ o = .openNotExist) ∧
    (o = .openErr ∨ o = .readErr → sftpGetChunk H dec id convs skipVerify o = .error) :=
  Remote.sftp_get_truthful H dec id convs skipVerify o

open Desync.Remote in
theorem sftp_get_never_wrong_chunk (H : Bytes → Bytes) (dec : Bytes → Option Bytes) (id : Bytes) (convs : List Conv)
    (o : SftpGetOutcome) (c : ChunkObj) (h : sftpGetChunk H dec id convs false o = .ok c)
    (b : Bytes) (hb : delivers dec c b) : H b = id := by
  obtain ⟨raw, _, hc⟩ := (Remote.sftp_get_truthful H dec id convs false o).1 c h
  exact fromStorage_sound H dec id raw convs c hc b hb

open Desync.Remote in
/-- not vacuous: a body that decodes and hashes to the ID is delivered after two failed passes; a wrong body is refused -/
example : (s3GetChunk (fun b => b) some 2 [1] [] false
      (fun k => if k = 3 then .body [1] else .otherResponse)).2 = 3 ∧
    (∃ c, (s3GetChunk (fun b => b) some 2 [1] [] false (fun k => if k = 3 then .body [1] else .otherResponse)).1 = .ok c ∧ c.data = [1]) ∧
    (s3GetChunk (fun b => b) some 0 [1] [] false (fun _ => .body [2])).1 = .invalid ∧
    (s3GetChunk (fun b => b) some 1 [1] [] false (fun _ => .noSuchKey)) = (.missing, 2) := by
  simp [s3GetChunk, s3GetLoop, GetOutcome.failed, construct, newChunkFromStorage, ChunkObj.getData, ChunkObj.getID, fromStorage]

end Desync.C03
