/-
  C03 — "… unless verification was explicitly disabled FOR THAT STORE": the `SkipVerify` a backend is constructed
  with (`storeFromLocation`: `GetStoreOptionsFor(location)` then `MergedWith`) is true iff the command asked for it or
  the configuration entry matching THAT location says so; entries of other locations have no influence, and the
  order in which Go visits the `store-options` map has none either.
-/
import Desync.Proofs.StoreOptsProofs

namespace Desync.C03
open Desync Desync.StoreOpts

/-- **verification is disabled only if asked**: when the lookup succeeds, the store's `skipVerify` is the command's
    flag or-ed with the `skipVerify` of the entry selected — which is the defaults (verify) when no entry matches and
    the single matching entry otherwise; with two or more matching entries no store is made at all -/
theorem verification_disabled_only_if_asked {κ : Type} (m : κ → Bool) (entries : List (κ × StoreOptions))
    (cmd : CmdStoreOptions) :
    (match entries.filter (fun e => m e.1) with
     | [] => storeOptionsFor m entries cmd = some (mergedWith cmd defaults) ∧
             (mergedWith cmd defaults).skipVerify = cmd.skipVerify
     | [e] => storeOptionsFor m entries cmd = some (mergedWith cmd e.2) ∧
             ((mergedWith cmd e.2).skipVerify = true ↔ cmd.skipVerify = true ∨ e.2.skipVerify = true)
     | _ :: _ :: _ => storeOptionsFor m entries cmd = none) := by
  unfold storeOptionsFor getStoreOptionsFor
  rw [lookupLoop_eq_spec]
  unfold lookupSpec
  cases h : entries.filter (fun e => m e.1) with
  | nil => simp [mergedWith, defaults]
  | cons a as =>
    cases as with
    | nil => simp [mergedWith]
    | cons b bs => simp

/-- **never because of another location's entry**: changing, adding or removing entries that do not match the
    location changes nothing -/
theorem other_locations_entries_irrelevant {κ : Type} (m : κ → Bool) (e1 e2 : List (κ × StoreOptions))
    (cmd : CmdStoreOptions) (h : e1.filter (fun e => m e.1) = e2.filter (fun e => m e.1)) :
    storeOptionsFor m e1 cmd = storeOptionsFor m e2 cmd := by
  unfold storeOptionsFor
  rw [getStoreOptionsFor_congr m e1 e2 h]

/-- Go visits the `store-options` map in an unspecified order: the result does not depend on it -/
theorem lookup_order_irrelevant {κ : Type} (m : κ → Bool) (e1 e2 : List (κ × StoreOptions)) (cmd : CmdStoreOptions)
    (h : e1.Perm e2) : storeOptionsFor m e1 cmd = storeOptionsFor m e2 cmd := by
  unfold storeOptionsFor getStoreOptionsFor
  rw [lookupLoop_eq_spec, lookupLoop_eq_spec, lookupSpec_perm m e1 e2 h]

/-- an entry for another store that disables verification leaves this store verifying (non-vacuity) -/
example :
    let other : StoreOptions := { defaults with skipVerify := true }
    let cmd : CmdStoreOptions := ⟨10, "", "", "", false, 3, 0, false, false, false, false, false, false⟩
    (storeOptionsFor (fun k => k == "mine") [("other", other)] cmd).map (·.skipVerify) = some false ∧
    (storeOptionsFor (fun k => k == "mine") [("other", defaults), ("mine", other)] cmd).map (·.skipVerify) = some true ∧
    storeOptionsFor (fun k => k == "mine") [("mine", other), ("mine", defaults)] cmd = none := by decide

end Desync.C03
