/-
  C14 / C03 for `RemoteSSH` (remotessh.go): the casync-over-SSH store as a pool of protocol sessions.

  Model: `Model/SshPool.lean` — callers (GetChunk / HasChunk / Close), the pool channel, one byte stream
  per session; every channel operation, `SendProtocolRequest`, `ReadMessage`+switch and `SendGoodbye` is a
  step; the servers are the environment (any bytes at any time, or exit).  All theorems are about every
  reachable state, i.e. every number of callers and sessions, every interleaving, every server behaviour.
  Proofs: `Proofs/SshPoolOwn.lean`, `SshPoolProofs.lean`, `SshPoolLive.lean`, `SshPoolResults.lean`.
  Regenerated obligations: `Properties/C14SshPoolGen.lean`.
-/
import Desync.Proofs.SshPoolResults

namespace Desync.C14
open Desync Desync.SshPool

/-- **exclusive use**: a session is in the hands of at most one caller at a time, and a session somebody
    holds is neither in the pool nor retired; no session is in the pool twice -/
theorem session_exclusive (H : Bytes → Bytes) (dec : Bytes → Option Bytes) (ops : List Op) (n : Nat) (s : State)
    (h : Reachable H dec ops (init n) s) :
    (∀ c c' i, (s.pc c).sess? = some i → (s.pc c').sess? = some i → c = c') ∧
    (∀ c i, (s.pc c).sess? = some i → i < n ∧ i ∉ s.pool ∧ i ∉ s.retired) ∧
    s.pool.Nodup ∧ s.retired.Nodup := by
  have hi := reachable_inv h
  refine ⟨hi.o.heldInj, fun c i hc => ?_, hi.o.poolND, hi.o.retND⟩
  have := hi.o.heldOk c i hc
  exact ⟨by simpa [own, hi.n_eq] using this.1, this.2⟩

/-- **no session is ever lost** — on no path, error paths included: every one of the `n` sessions is in the
    pool, in the hands of a caller that has been called, or has been said goodbye to by `Close` -/
theorem no_session_lost (H : Bytes → Bytes) (dec : Bytes → Option Bytes) (ops : List Op) (n : Nat) (s : State)
    (h : Reachable H dec ops (init n) s) (i : Nat) (hi : i < n) :
    i ∈ s.pool ∨ i ∈ s.retired ∨ ∃ c, c < ops.length ∧ (s.pc c).sess? = some i := by
  have hinv := reachable_inv h
  exact hinv.o.total i (by simpa [own, hinv.n_eq] using hi)

/-- when nobody is inside a call and `Close` has not run, the pool is full again: exactly the `n` sessions -/
theorem quiet_pool_is_full (H : Bytes → Bytes) (dec : Bytes → Option Bytes) (ops : List Op) (n : Nat) (s : State)
    (h : Reachable H dec ops (init n) s) (hq : ∀ c, (s.pc c).sess? = none) (hr : s.retired = []) :
    s.pool.Nodup ∧ ∀ i, i ∈ s.pool ↔ i < n := by
  have hinv := reachable_inv h
  refine ⟨hinv.o.poolND, fun i => ⟨fun hi => by simpa [own, hinv.n_eq] using hinv.o.poolLt i hi, fun hi => ?_⟩⟩
  rcases no_session_lost H dec ops n s h i hi with h1 | h1 | ⟨c, _, h1⟩
  · exact h1
  · rw [hr] at h1; cases h1
  · rw [hq c] at h1; cases h1

/-- **the put-back never blocks**: a caller whose `RequestChunk` has returned — with a chunk, with "missing"
    or with any failure — finds room in the channel -/
theorem put_back_never_blocks (H : Bytes → Bytes) (dec : Bytes → Option Bytes) (ops : List Op) (n : Nat) (s : State)
    (h : Reachable H dec ops (init n) s) (c i : Nat) (r : PS.CRes) (hc : s.pc c = .back i r) :
    ∃ s', step H dec ops s (.put c) = some s' := by
  have hinv := reachable_inv h
  have hf := reachable_fits h c
  rw [hc] at hf
  obtain ⟨id, hid⟩ := hf
  cases hop : ops[c]? with
  | none => rw [hop] at hid; cases hid
  | some op =>
    have hroom := OInv.room hinv.o (c := c) (i := i) (by simp [own, hc, Pc.sess?])
    have : s.pool.length < s.cap := by rw [hinv.cap_eq, ← hinv.n_eq]; exact hroom
    exact ⟨_, by simp only [step, hc, hop, this, ↓reduceIte] <;> rfl⟩

/-- **nobody is ever stuck while a session is left** (no deadlock): as long as `Close` has retired fewer than
    `n` sessions — in particular always before `Close` — whenever some caller is inside its call, some caller
    can take a step, or some caller waits in `ReadMessage` for a server that has neither answered nor exited -/
theorem never_stuck (H : Bytes → Bytes) (dec : Bytes → Option Bytes) (ops : List Op) (n : Nat) (s : State)
    (h : Reachable H dec ops (init n) s) (hret : s.retired.length < n) (c : Nat) (hact : (s.pc c).active = true) :
    Progress H dec ops s :=
  inv_progress (reachable_inv h) (reachable_fits h) hret hact

/-- **every caller returns if the servers answer**: every step of a caller lowers a measure that starts at
    `(2n+6)·(number of callers)`, a server's step leaves it alone — so a caller takes finitely many steps, and by
    `never_stuck` the only thing that can hold a run up is a server that does not answer -/
theorem caller_steps_decrease (H : Bytes → Bytes) (dec : Bytes → Option Bytes) (ops : List Op) (n : Nat) (s s' : State)
    (e : Ev) (h : Reachable H dec ops (init n) s) (hs : step H dec ops s e = some s') :
    (e.isCaller = true → measure s' ops.length < measure s ops.length) ∧
    (e.isCaller = false → measure s' ops.length = measure s ops.length) :=
  step_measure (reachable_inv h) hs

/-- `HasChunk`'s mapping: present exactly for a chunk, (false, nil) exactly for `ChunkMissing`, and any other
    error is passed on — a failure is never turned into "absent" -/
theorem has_chunk_mapping (id : Bytes) (r : PS.CRes) :
    (outOf (.has id) r = .has true none ↔ ∃ c, r = .ok c) ∧
    (outOf (.has id) r = .has false none ↔ r = .missing) ∧
    (∀ e, outOf (.has id) r = .has false (some e) ↔ r = .fail e) := by
  cases r <;> simp [outOf]

/-- a reply that is cut short (the server dies after `k` bytes of it) is a failure — never "missing", never
    a chunk — and nothing of it stays in the stream -/
theorem reply_cut_is_failure (H : Bytes → Bytes) (dec : Bytes → Option Bytes) (id : Bytes) (m : Message) (k a : Nat)
    (hsz : 16 + m.body.length < 2^64) (hk : k < (writeMessage m).length) :
    ∃ e a', PS.clientReply H dec id ⟨(writeMessage m).take k, a⟩ = (.fail (.read e), ⟨[], a'⟩) :=
  clientReply_cut H dec id m k a hsz hk

/-- `NewRemoteSSHStore` when every `StartProtocol` succeeds: the pool holds the `n` sessions (the machine's
    initial state), and no put into the channel blocks -/
theorem constructor_ok (n : Nat) (ok : Nat → Bool) (hok : ∀ j, j < n → ok j = true) :
    construct n n ok = .ok (init n).pool :=
  constructLoop_ok n ok hok n 0 (by omega)

/-- `NewRemoteSSHStore` when the `k`-th `StartProtocol` fails: it returns the error AND a store (not nil) whose
    pool holds only the `k` sessions started before, while `r.n` stays `n` (see `halfBuilt_close_blocks`) -/
theorem constructor_failure (n k : Nat) (ok : Nat → Bool) (hok : ∀ j, j < k → ok j = true) (hk : ok k = false)
    (hkn : k < n) : construct n n ok = .failed k (halfBuilt n k).pool :=
  constructLoop_failed n k ok hok hk hkn n 0 (by omega) (by omega)

/-! ### non-vacuity: concrete runs of the machine -/

private def exOps : List Op := [.get [1], .has [2], .close]
private def miss : Bytes := writeMessage (missingMessage (PS.fit32 [2]))

/-- two callers on ONE session: the second gets the session only after the first has put it back; the first is
    answered by a dying server (failure), the second reads end of file (failure, not "missing"); Close then
    retires the session -/
private def exRun : List Ev :=
  [.call 0, .call 1, .take 0, .send 0, .srvExit 0, .recv 0, .put 0, .take 1, .send 1, .put 1,
   .call 2, .take 2, .bye 2]

example : ((run id some exOps exRun (init 1)).map fun s => (s.pool, s.retired)) = some ([], [0]) := by decide
example : (run id some exOps (exRun.take 3 ++ [.take 1]) (init 1)).isNone = true := by decide
/-- a "missing" reply is mapped to (false, nil) by HasChunk -/
example : ((run id some exOps [.call 1, .take 1, .send 1, .srvWrite 0 miss, .recv 1, .put 1] (init 1)).map
    fun s => match s.pc 1 with | .done (.has false none) => true | _ => false) = some true := by decide

/-- the store a failed constructor returns: `Close` on it takes the `k` sessions there are and then waits for
    ever — nothing is enabled but the servers' steps -/
theorem halfBuilt_close_blocks :
    ∃ s, run id some [.close] [.call 0, .take 0, .bye 0] (halfBuilt 2 1) = some s ∧
      (s.pc 0).active = true ∧ s.pool = [] ∧
      ∀ e, e.isCaller = true → step id some [.close] s e = none := by
  refine ⟨_, rfl, by decide, by decide, ?_⟩
  intro e he
  cases e <;> simp_all [Ev.isCaller] <;> rename_i c <;> (by_cases hc : c = 0 <;> simp [step, run, halfBuilt, init, upd, hc])

end Desync.C14

namespace Desync.C03
open Desync Desync.SshPool

/-- **never a wrong chunk through the pool** — whatever the servers write into whichever session at whatever
    moment (replies for other chunks, left-overs of failed requests, garbage), for every number of callers and
    sessions and every interleaving: a chunk a `GetChunk` caller holds or has returned hashes to the id THAT
    caller asked for -/
theorem pool_never_wrong_chunk (H : Bytes → Bytes) (dec : Bytes → Option Bytes) (ops : List Op) (n : Nat) (s : State)
    (h : Reachable H dec ops (init n) s) (c : Nat) (id : Bytes) (hid : opId ops c = some id) (ch : ChunkObj)
    (hc : (∃ i, s.pc c = .back i (.ok ch)) ∨ s.pc c = .done (.chunk (.ok ch))) (b : Bytes) (hb : delivers dec ch b) :
    H b = id := by
  have hr := reachable_resInv h c id hid
  rcases hc with ⟨i, hc⟩ | hc
  · exact hr.1 i _ hc b hb
  · exact hr.2 _ hc b hb

end Desync.C03
