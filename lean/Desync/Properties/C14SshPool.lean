/-
  C14 / C03 for `RemoteSSH` (remotessh.go): the casync-over-SSH store as a pool of protocol sessions.

  Model: `Model/SshPool.lean` — callers (GetChunk / HasChunk / Close), the pool channel, one byte stream
  per session; every channel operation, `SendProtocolRequest`, `ReadMessage`+switch and `SendGoodbye` is a
  step; the servers are the environment (any bytes at any time, or exit).  All theorems are about every
  reachable state, i.e. every number of callers and sessions, every interleaving, every server behaviour.
  Proofs: `Proofs/SshPoolOwn.lean`, `SshPoolProofs.lean`, `SshPoolLive.lean`, `SshPoolResults.lean`.
  Regenerated obligations: `Properties/C14SshPoolGen.lean`.
-/
import Desync.Proofs.SshPoolHonest
import Desync.Properties.C14

namespace Desync.C14
open Desync Desync.SshPool

/-- **exclusive use**: a session is in the hands of at most one caller at a time, and a session somebody
    holds is neither in the pool nor retired; no session is in the pool twice -/
theorem session_exclusive (H : Bytes → Bytes) (dec : Bytes → Option Bytes) (ops : List Op) (n : Nat) (s : State)
    (h : Reachable H dec ops (init n) s) :
    (∀ c c' i, (s.pc c).sess? = some i → (s.pc c').sess? = some i → c = c') ∧
    (∀ c i, (s.pc c).sess? = some i → i < n ∧ i ∉ s.pool ∧ i ∉ s.retired) ∧
    s.pool.Nodup ∧ s.retired.Nodup := by
  have hi := reachable_inv h
  refine ⟨hi.o.heldInj, fun c i hc => ?_, hi.o.poolND, hi.o.retND⟩
  have := hi.o.heldOk c i hc
  exact ⟨by simpa [own, hi.n_eq] using this.1, this.2⟩

/-- **no session is ever lost** — on no path, error paths included: every one of the `n` sessions is in the
    pool, in the hands of a caller that has been called, or has been said goodbye to by `Close` -/
theorem no_session_lost (H : Bytes → Bytes) (dec : Bytes → Option Bytes) (ops : List Op) (n : Nat) (s : State)
    (h : Reachable H dec ops (init n) s) (i : Nat) (hi : i < n) :
    i ∈ s.pool ∨ i ∈ s.retired ∨ ∃ c, c < ops.length ∧ (s.pc c).sess? = some i := by
  have hinv := reachable_inv h
  exact hinv.o.total i (by simpa [own, hinv.n_eq] using hi)

/-- when nobody is inside a call and `Close` has not run, the pool is full again: exactly the `n` sessions -/
theorem quiet_pool_is_full (H : Bytes → Bytes) (dec : Bytes → Option Bytes) (ops : List Op) (n : Nat) (s : State)
    (h : Reachable H dec ops (init n) s) (hq : ∀ c, (s.pc c).sess? = none) (hr : s.retired = []) :
    s.pool.Nodup ∧ ∀ i, i ∈ s.pool ↔ i < n := by
  have hinv := reachable_inv h
  refine ⟨hinv.o.poolND, fun i => ⟨fun hi => by simpa [own, hinv.n_eq] using hinv.o.poolLt i hi, fun hi => ?_⟩⟩
  rcases no_session_lost H dec ops n s h i hi with h1 | h1 | ⟨c, _, h1⟩
  · exact h1
  · rw [hr] at h1; cases h1
  · rw [hq c] at h1; cases h1

/-- **the put-back never blocks**: a caller whose `RequestChunk` has returned — with a chunk, with "missing"
    or with any failure — finds room in the channel -/
theorem put_back_never_blocks (H : Bytes → Bytes) (dec : Bytes → Option Bytes) (ops : List Op) (n : Nat) (s : State)
    (h : Reachable H dec ops (init n) s) (c i : Nat) (r : PS.CRes) (hc : s.pc c = .back i r) :
    ∃ s', step H dec ops s (.put c) = some s' := by
  have hinv := reachable_inv h
  have hf := reachable_fits h c
  rw [hc] at hf
  obtain ⟨id, hid⟩ := hf
  cases hop : ops[c]? with
  | none => rw [hop] at hid; cases hid
  | some op =>
    have hroom := OInv.room hinv.o (c := c) (i := i) (by simp [own, hc, Pc.sess?])
    have : s.pool.length < s.cap := by rw [hinv.cap_eq, ← hinv.n_eq]; exact hroom
    exact ⟨_, by simp only [step, hc, hop, this, ↓reduceIte] <;> rfl⟩

/-- **nobody is ever stuck while a session is left** (no deadlock): as long as `Close` has retired fewer than
    `n` sessions — in particular always before `Close` — whenever some caller is inside its call, some caller
    can take a step, or some caller waits in `ReadMessage` for a server that has neither answered nor exited -/
theorem never_stuck (H : Bytes → Bytes) (dec : Bytes → Option Bytes) (ops : List Op) (n : Nat) (s : State)
    (h : Reachable H dec ops (init n) s) (hret : s.retired.length < n) (c : Nat) (hact : (s.pc c).active = true) :
    Progress H dec ops s :=
  inv_progress (reachable_inv h) (reachable_fits h) hret hact

/-- **every caller returns if the servers answer**: every step of a caller lowers a measure that starts at
    `(2n+6)·(number of callers)`, a server's step leaves it alone — so a caller takes finitely many steps, and by
    `never_stuck` the only thing that can hold a run up is a server that does not answer -/
theorem caller_steps_decrease (H : Bytes → Bytes) (dec : Bytes → Option Bytes) (ops : List Op) (n : Nat) (s s' : State)
    (e : Ev) (h : Reachable H dec ops (init n) s) (hs : step H dec ops s e = some s') :
    (e.isCaller = true → measure s' ops.length < measure s ops.length) ∧
    (e.isCaller = false → measure s' ops.length = measure s ops.length) :=
  step_measure (reachable_inv h) hs

/-- `HasChunk`'s mapping: present exactly for a chunk, (false, nil) exactly for `ChunkMissing`, and any other
    error is passed on — a failure is never turned into "absent" -/
theorem has_chunk_mapping (id : Bytes) (r : PS.CRes) :
    (outOf (.has id) r = .has true none ↔ ∃ c, r = .ok c) ∧
    (outOf (.has id) r = .has false none ↔ r = .missing) ∧
    (∀ e, outOf (.has id) r = .has false (some e) ↔ r = .fail e) := by
  cases r <;> simp [outOf]

/-- a reply that is cut short (the server dies after `k` bytes of it) is a failure — never "missing", never
    a chunk — and nothing of it stays in the stream -/
theorem reply_cut_is_failure (H : Bytes → Bytes) (dec : Bytes → Option Bytes) (id : Bytes) (m : Message) (k a : Nat)
    (hsz : 16 + m.body.length < 2^64) (hk : k < (writeMessage m).length) :
    ∃ e a', PS.clientReply H dec id ⟨(writeMessage m).take k, a⟩ = (.fail (.read e), ⟨[], a'⟩) :=
  clientReply_cut H dec id m k a hsz hk

/-- `NewRemoteSSHStore` when every `StartProtocol` succeeds: the pool holds the `n` sessions (the machine's
    initial state), and no put into the channel blocks -/
theorem constructor_ok (n : Nat) (ok : Nat → Bool) (hok : ∀ j, j < n → ok j = true) :
    construct n n ok = .ok (init n).pool :=
  constructLoop_ok n ok hok n 0 (by omega)

/-- `NewRemoteSSHStore` when the `k`-th `StartProtocol` fails: it returns the error AND a store (not nil) whose
    pool holds only the `k` sessions started before, while `r.n` stays `n` (see `halfBuilt_close_blocks`) -/
theorem constructor_failure (n k : Nat) (ok : Nat → Bool) (hok : ∀ j, j < k → ok j = true) (hk : ok k = false)
    (hkn : k < n) : construct n n ok = .failed k (halfBuilt n k).pool :=
  constructLoop_failed n k ok hok hk hkn n 0 (by omega) (by omega)

/-! ### non-vacuity: concrete runs of the machine -/

private def exOps : List Op := [.get [1], .has [2], .close]
private def miss : Bytes := writeMessage (missingMessage (PS.fit32 [2]))

/-- two callers on ONE session: the second gets the session only after the first has put it back; the first is
    answered by a dying server (failure), the second reads end of file (failure, not "missing"); Close then
    retires the session -/
private def exRun : List Ev :=
  [.call 0, .call 1, .take 0, .send 0, .srvExit 0, .recv 0, .put 0, .take 1, .send 1, .put 1,
   .call 2, .take 2, .bye 2]

example : ((run id some exOps exRun (init 1)).map fun s => (s.pool, s.retired)) = some ([], [0]) := by decide
example : (run id some exOps (exRun.take 3 ++ [.take 1]) (init 1)).isNone = true := by decide
/-- a "missing" reply is mapped to (false, nil) by HasChunk -/
example : ((run id some exOps [.call 1, .take 1, .send 1, .srvWrite 0 miss, .recv 1, .put 1] (init 1)).map
    fun s => match s.pc 1 with | .done (.has false none) => true | _ => false) = some true := by decide

/-- the store a failed constructor returns: `Close` on it takes the `k` sessions there are and then waits for
    ever — nothing is enabled but the servers' steps -/
theorem halfBuilt_close_blocks :
    ∃ s, run id some [.close] [.call 0, .take 0, .bye 0] (halfBuilt 2 1) = some s ∧
      (s.pc 0).active = true ∧ s.pool = [] ∧
      ∀ e, e.isCaller = true → step id some [.close] s e = none := by
  refine ⟨_, rfl, by decide, by decide, ?_⟩
  intro e he
  cases e <;> simp_all [Ev.isCaller] <;> rename_i c <;> (by_cases hc : c = 0 <;> simp [step, run, halfBuilt, init, upd, hc])

/-! ### honest servers: a caller's result is the reply to ITS OWN request -/

/-- **own reply** — servers that answer a request with `Serve`'s switch (completely, or cut short after any
    number of bytes and then dead), or exit at any moment; any number of callers and sessions, any interleaving,
    sessions re-used after failed requests: what a caller holds after `RequestChunk`, and what its call returns,
    is the verdict on the store's answer for THE ID IT ASKED FOR, or a transport failure (`ReadMessage` failed /
    the request could not be written) — never anything derived from another caller's request -/
theorem pool_own_reply (E : PS.Env) (hz : PS.ZstdOk E) (ops : List Op)
    (hids : ∀ c id, opId ops c = some id → id.length = 32) (n : Nat) (s : State)
    (h : HReachable E ops (init n) s) (c : Nat) (op : Op) (id : Bytes) (hop : ops[c]? = some op) (hid : op.id? = some id) :
    (∀ i r, s.pc c = .back i r → Good E id r) ∧ (∀ o, s.pc c = .done o → ∃ r, Good E id r ∧ o = outOf op r) :=
  (hreachable_all hz hids h).hinv.res c op id hop hid

/-- what `Good` says, case by case: "missing" only when the store says missing; a chunk only when it is the
    store's chunk for this id, verified; and a chunk the store holds intact is never reported missing -/
theorem good_cases (E : PS.Env) (id : Bytes) (r : PS.CRes) (hg : Good E id r) :
    (r = .missing → E.store id = .missing) ∧
    (∀ ch, r = .ok ch → ∃ c b, E.store id = .chunk c ∧ (c.getData E.z.dec).1 = some b ∧ E.H b = id ∧ ch.data = b) ∧
    (E.store id = .missing → r = .missing ∨ (∃ e, r = .fail (.read e)) ∨ r = .fail .send) := by
  unfold Good PS.verdict at hg
  refine ⟨fun hr => ?_, fun ch hr => ?_, fun hst => ?_⟩
  · subst hr
    rcases hg with hg | ⟨e, hg⟩ | hg
    · cases hst : E.store id with
      | missing => rfl
      | failure => rw [hst] at hg; cases hg
      | chunk c =>
        rw [hst] at hg
        simp only at hg
        cases hd : (c.getData E.z.dec).1 with
        | none => rw [hd] at hg; cases hg
        | some b => rw [hd] at hg; simp only at hg; split at hg <;> cases hg
    · cases hg
    · cases hg
  · subst hr
    rcases hg with hg | ⟨e, hg⟩ | hg
    · cases hst : E.store id with
      | missing => rw [hst] at hg; cases hg
      | failure => rw [hst] at hg; cases hg
      | chunk c =>
        rw [hst] at hg
        simp only at hg
        cases hd : (c.getData E.z.dec).1 with
        | none => rw [hd] at hg; cases hg
        | some b =>
          rw [hd] at hg; simp only at hg
          split at hg
          · rename_i hH
            injection hg with hg; injection hg with hg; subst hg
            exact ⟨c, b, rfl, hd, hH, rfl⟩
          · cases hg
    · cases hg
    · cases hg
  · rcases hg with hg | hg | hg
    · rw [hst] at hg; injection hg with hg; exact Or.inl hg.symm
    · exact Or.inr (Or.inl hg)
    · exact Or.inr (Or.inr hg)

/-- **missing is reported truthfully through the pool** (honest servers): a `GetChunk` that returns
    `ChunkMissing` asked for an id the store does not have -/
theorem pool_missing_truthful (E : PS.Env) (hz : PS.ZstdOk E) (ops : List Op)
    (hids : ∀ c id, opId ops c = some id → id.length = 32) (n : Nat) (s : State)
    (h : HReachable E ops (init n) s) (c : Nat) (id : Bytes) (hop : ops[c]? = some (.get id))
    (hd : s.pc c = .done (.chunk .missing)) : E.store id = .missing := by
  obtain ⟨r, hg, ho⟩ := (pool_own_reply E hz ops hids n s h c (.get id) id hop rfl).2 _ hd
  have : r = .missing := by cases r <;> simp [outOf] at ho <;> first | rfl | (injection ho)
  exact (good_cases E id r hg).1 this

/-- **HasChunk is truthful through the pool** (honest servers): `true` only for a chunk the store holds and
    that hashes to the id; `(false, nil)` only when the store says missing; everything else is an error -/
theorem pool_has_truthful (E : PS.Env) (hz : PS.ZstdOk E) (ops : List Op)
    (hids : ∀ c id, opId ops c = some id → id.length = 32) (n : Nat) (s : State)
    (h : HReachable E ops (init n) s) (c : Nat) (id : Bytes) (hop : ops[c]? = some (.has id)) (p : Bool)
    (err : Option PS.End) (hd : s.pc c = .done (.has p err)) :
    (p = true → ∃ c b, E.store id = .chunk c ∧ (c.getData E.z.dec).1 = some b ∧ E.H b = id) ∧
    (p = false → err = none → E.store id = .missing) := by
  obtain ⟨r, hg, ho⟩ := (pool_own_reply E hz ops hids n s h c (.has id) id hop rfl).2 _ hd
  have hc := good_cases E id r hg
  cases r with
  | ok ch =>
    simp only [outOf] at ho; injection ho with h1 h2; subst h1
    refine ⟨fun _ => ?_, fun hp => by cases hp⟩
    obtain ⟨c', b, h1, h2, h3, _⟩ := hc.2.1 ch rfl
    exact ⟨c', b, h1, h2, h3⟩
  | missing =>
    simp only [outOf] at ho; injection ho with h1 h2; subst h1
    exact ⟨fun hp => (by cases hp), fun _ _ => hc.1 rfl⟩
  | fail e =>
    simp only [outOf] at ho; injection ho with h1 h2; subst h1; subst h2
    exact ⟨fun hp => (by cases hp), fun _ he => (by cases he)⟩

/-- non-vacuity (honest): two callers share ONE session; the first asks for a chunk the store has and gets it,
    the second asks for one it does not have, on the same session afterwards, and is told "missing" -/
example : ∃ s, HReachable exEnv [.get (PS.fit32 [7]), .has (PS.fit32 [1])] (init 1) s ∧
    (match s.pc 0 with | .done (.chunk (.ok ch)) => ch.data = [7] | _ => False) ∧
    (match s.pc 1 with | .done (.has false none) => True | _ => False) := by
  let evs : List HEv := [.caller (.call 0), .caller (.call 1), .caller (.take 0), .caller (.send 0), .reply 0,
    .caller (.recv 0), .caller (.put 0), .caller (.take 1), .caller (.send 1), .reply 1, .caller (.recv 1), .caller (.put 1)]
  have key : ∀ (l : List HEv) (s0 s1 : State), HReachable exEnv [.get (PS.fit32 [7]), .has (PS.fit32 [1])] (init 1) s0 →
      l.foldlM (hstep exEnv [.get (PS.fit32 [7]), .has (PS.fit32 [1])]) s0 = some s1 →
      HReachable exEnv [.get (PS.fit32 [7]), .has (PS.fit32 [1])] (init 1) s1 := by
    intro l
    induction l with
    | nil => intro s0 s1 h0 h; simp at h; subst h; exact h0
    | cons e es ih =>
      intro s0 s1 h0 h
      simp only [List.foldlM_cons, Option.bind_eq_bind] at h
      cases hs : hstep exEnv [.get (PS.fit32 [7]), .has (PS.fit32 [1])] s0 e with
      | none => rw [hs] at h; cases h
      | some s => rw [hs] at h; exact ih s s1 (.step h0 hs) h
  cases hrun : evs.foldlM (hstep exEnv [.get (PS.fit32 [7]), .has (PS.fit32 [1])]) (init 1) with
  | none => exact absurd hrun (by decide)
  | some s =>
    refine ⟨s, key evs _ _ .init hrun, ?_⟩
    have : (evs.foldlM (hstep exEnv [.get (PS.fit32 [7]), .has (PS.fit32 [1])]) (init 1)).map
        (fun s => (match s.pc 0 with | .done (.chunk (.ok ch)) => decide (ch.data = [7]) | _ => false) &&
                  (match s.pc 1 with | .done (.has false none) => true | _ => false)) = some true := by decide
    rw [hrun] at this
    simp only [Option.map_some, Option.some.injEq, Bool.and_eq_true] at this
    constructor
    · have h1 := this.1; split at h1 <;> simp_all
    · have h2 := this.2; split at h2 <;> simp_all

end Desync.C14

namespace Desync.C03
open Desync Desync.SshPool

/-- **never a wrong chunk through the pool** — whatever the servers write into whichever session at whatever
    moment (replies for other chunks, left-overs of failed requests, garbage), for every number of callers and
    sessions and every interleaving: a chunk a `GetChunk` caller holds or has returned hashes to the id THAT
    caller asked for -/
theorem pool_never_wrong_chunk (H : Bytes → Bytes) (dec : Bytes → Option Bytes) (ops : List Op) (n : Nat) (s : State)
    (h : Reachable H dec ops (init n) s) (c : Nat) (id : Bytes) (hid : opId ops c = some id) (ch : ChunkObj)
    (hc : (∃ i, s.pc c = .back i (.ok ch)) ∨ s.pc c = .done (.chunk (.ok ch))) (b : Bytes) (hb : delivers dec ch b) :
    H b = id := by
  have hr := reachable_resInv h c id hid
  rcases hc with ⟨i, hc⟩ | hc
  · exact hr.1 i _ hc b hb
  · exact hr.2 _ hc b hb

end Desync.C03
