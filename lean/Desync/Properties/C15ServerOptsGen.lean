/-
  C15, regenerated obligations: what `desync chunk-server` / `desync index-server` wire into their handlers,
  extracted by symbolic evaluation of the command functions (`harness/extract/storeoptseval.go`), equals what the
  model says — for every value of every flag, environment variable and configuration field.
-/
import Desync.Model.StoreOpts

namespace Desync.C15
open Desync Desync.StoreOpts

/-- the model's view of the sources -/
def serverInOf (i : Gen.StoreoptsIn) : ServerIn :=
  { flagAuth := i.flagS "authorization", envAuth := i.env "DESYNC_HTTP_AUTH", writable := i.flagB "writeable",
    skipVerifyWrite := i.flagB "skip-verify-write", skipVerifyRead := i.flagB "skip-verify-read",
    uncompressed := i.flagB "uncompressed", mutualTLS := i.flagB "mutual-tls", key := i.flagS "key" }

/-- a wire is proved equal to the model by unfolding both; `grind` splits on the conditions and knows that `||` and
    `&&` commute (the extractor sorts the operands) -/
macro "wire" : tactic =>
  `(tactic| first
    | rfl
    | (simp only [serverInOf, serverAuth, clientAuth, usesTLS, upstreamSkipVerify, Gen.storeoptsCSAuth, Gen.storeoptsISAuth,
         Gen.storeoptsCSWritable, Gen.storeoptsISWritable, Gen.storeoptsCSSkipVerifyWrite, Gen.storeoptsCSConverters,
         Gen.storeoptsCSClientAuth, Gen.storeoptsISClientAuth, Gen.storeoptsCSUsesTLS, Gen.storeoptsISUsesTLS,
         Gen.storeoptsCSUpOptSkipVerify, Gen.storeoptsISUpOptSkipVerify, Gen.storeoptsCSUpOptUncompressed] <;>
       first | done | grind)
    | grind)

/-- **chunk-server**: authorization = flag, else `DESYNC_HTTP_AUTH`; writable = `--writeable`; write verification =
    `--skip-verify-write`; the converters are a compressor unless `--uncompressed`; the handler is what is served -/
theorem gen_chunk_server_wires (i : Gen.StoreoptsIn) :
    Gen.storeoptsCSAuth i = serverAuth (serverInOf i).flagAuth (serverInOf i).envAuth ∧
    Gen.storeoptsCSWritable i = (serverInOf i).writable ∧
    Gen.storeoptsCSSkipVerifyWrite i = (serverInOf i).skipVerifyWrite ∧
    Gen.storeoptsCSConverters i = (if (serverInOf i).uncompressed then "sym:nil"
      else "sym:desync.Converters{sym:K(struct:desync.Compressor)}") := by
  refine ⟨?_, ?_, ?_, ?_⟩ <;> wire

theorem gen_index_server_wires (i : Gen.StoreoptsIn) :
    Gen.storeoptsISAuth i = serverAuth (serverInOf i).flagAuth (serverInOf i).envAuth ∧
    Gen.storeoptsISWritable i = (serverInOf i).writable := by
  refine ⟨?_, ?_⟩ <;> wire

/-- both commands register the handler itself (possibly inside the request logger) and nothing else -/
theorem gen_server_serves_handler :
    (∀ h ∈ Gen.storeoptsCSServed, h = "NewHTTPHandler" ∨ h = "withLog(NewHTTPHandler)") ∧ Gen.storeoptsCSServed ≠ [] ∧
    (∀ h ∈ Gen.storeoptsISServed, h = "NewHTTPIndexHandler" ∨ h = "withLog(NewHTTPIndexHandler)") ∧ Gen.storeoptsISServed ≠ [] := by
  decide

/-- TLS: `ClientAuth` is RequireAndVerifyClientCert iff `--mutual-tls`, the TLS listener is used iff `--key` -/
theorem gen_server_tls (i : Gen.StoreoptsIn) :
    Gen.storeoptsCSClientAuth i = (if clientAuth (serverInOf i) = .requireAndVerifyClientCert then "sym:tls.RequireAndVerifyClientCert" else "sym:zero") ∧
    Gen.storeoptsISClientAuth i = (if clientAuth (serverInOf i) = .requireAndVerifyClientCert then "sym:tls.RequireAndVerifyClientCert" else "sym:zero") ∧
    Gen.storeoptsCSUsesTLS i = usesTLS (serverInOf i) ∧ Gen.storeoptsISUsesTLS i = usesTLS (serverInOf i) := by
  refine ⟨?_, ?_, ?_, ?_⟩ <;> wire

/-- the upstream stores of the chunk server skip verification iff `--skip-verify-read` or their own configuration
    entry says so, and use the chunk format of their own configuration entry; the index server's stores follow their
    configuration entry; every constructor gets the same options value -/
theorem gen_server_upstream (i : Gen.StoreoptsIn) :
    Gen.storeoptsCSUpOptSkipVerify i = ((serverInOf i).skipVerifyRead || i.cfgB "SkipVerify") ∧
    Gen.storeoptsCSUpOptUncompressed i = i.cfgB "Uncompressed" ∧
    Gen.storeoptsISUpOptSkipVerify i = i.cfgB "SkipVerify" ∧
    Gen.storeoptsCSUpUniform = true ∧ Gen.storeoptsISUpUniform = true := by
  refine ⟨?_, ?_, ?_, rfl, rfl⟩ <;> wire

set_option maxRecDepth 8192 in
/-- the flags are bound to the fields the wires read, with the defaults the documentation states: not writable,
    no authorization value, no mutual TLS, compressed; (the two skip-verify flags default to `true`) -/
theorem gen_server_flags :
    "writeable|w|B|false|chunkServerOptions.writable" ∈ Gen.storeoptsCSFlags ∧
    "writeable|w|B|false|indexServerOptions.writable" ∈ Gen.storeoptsISFlags ∧
    "authorization||S|\"\"|cmdServerOptions.auth" ∈ Gen.storeoptsCSFlags ∧
    "authorization||S|\"\"|cmdServerOptions.auth" ∈ Gen.storeoptsISFlags ∧
    "mutual-tls||B|false|cmdServerOptions.mutualTLS" ∈ Gen.storeoptsCSFlags ∧
    "uncompressed|u|B|false|chunkServerOptions.uncompressed" ∈ Gen.storeoptsCSFlags ∧
    "skip-verify-write||B|true|chunkServerOptions.skipVerifyWrite" ∈ Gen.storeoptsCSFlags ∧
    "skip-verify-read||B|true|cmdStoreOptions.skipVerify" ∈ Gen.storeoptsCSFlags := by
  decide

/-- no option assignment of the two commands is made to a copy and lost — except the one known: the cache's
    `UpdateTimes` in `MultiStoreWithCache` is set on the copy a type assertion yields (reported as an oddity) -/
theorem gen_server_no_lost_writes :
    (∀ w ∈ Gen.storeoptsCSLostWrites, w = "MultiStoreWithCache: copy.UpdateTimes") ∧ Gen.storeoptsISLostWrites = [] ∧
    Gen.site_storeopts_storeoptsCS_found = true ∧ Gen.site_storeopts_storeoptsIS_found = true := by
  decide

end Desync.C15
