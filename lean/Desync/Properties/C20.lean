/-
  C20 — Local chunk stores use casync's on-disk format; both formats coexist.

  Proved here (model `Model/LocalStore.lean`, constants regenerated from const.go/local.go): the
  layout `<first 4 hex digits>/<64 hex digits>[.cacnk]`, disjointness of the two formats' names,
  and that a store configured for one format never treats a file of the other as a chunk (never
  lists, verifies, prunes or removes it) nor a temporary file as a chunk.

  NOT provable here (no zstd model; DESIGN §6 C20): that the `.cacnk` content is one standard zstd
  frame readable by the reference libzstd and vice versa.  That part is checked on the
  implementation only: an independent RFC 8878 frame walker on every stored chunk (quick tier) and
  a cgo build against the system libzstd (thorough tier) — labelled support, not proof.
-/
import Desync.Proofs.LocalStoreProofs
import Desync.Model.CrashFS

namespace Desync.C20
open Desync

/-- **layout**: the directory is the first four hex digits of the ID, the file is the 64 hex
    digits, with `.cacnk` appended for compressed stores (casync's literal) -/
theorem name_layout (unc : Bool) (id : Bytes) (h : id.length = 32) :
    (nameFromID unc id).1 = (hexEncode id).take 4 ∧ (nameFromID unc id).1.length = 4 ∧
    (hexEncode id).length = 64 ∧
    (nameFromID unc id).2 = hexEncode id ++ (if unc then [] else [46, 99, 97, 99, 110, 107]) := by
  obtain ⟨h1, h2, h3⟩ := Desync.name_layout unc id h
  exact ⟨h1, h2, by rw [hexEncode_length, h], h3⟩

/-- the name is a faithful encoding of the ID -/
theorem name_decodes (id : Bytes) : hexDecode (hexEncode id) = some id := hexDecode_hexEncode id

/-- **coexistence**: compressed and uncompressed names never coincide, also for different IDs -/
theorem formats_disjoint (id id' : Bytes) (h : id.length = 32) (h' : id'.length = 32) :
    (nameFromID true id).2 ≠ (nameFromID false id').2 :=
  Desync.formats_disjoint id id' h h'

/-- a client configured for one format recognises its own files and ignores the other's -/
theorem client_sees_only_its_format (unc : Bool) (id : Bytes) (h : id.length = 32) :
    pruneClassify unc (nameFromID unc id).2 = .consider id ∧
    verifyClassify unc (nameFromID unc id).2 = .consider id ∧
    pruneClassify unc (nameFromID (!unc) id).2 = .skip ∧
    verifyClassify unc (nameFromID (!unc) id).2 = .skip :=
  ⟨(classify_own unc id h).1, (classify_own unc id h).2,
   (classify_other_format unc id h).1, (classify_other_format unc id h).2⟩

/-- a partially written chunk lives under a temporary name that is never a chunk name of either
    format (shared with C08) -/
theorem tmp_never_chunk_name (unc : Bool) (id suffix : Bytes) (h : id.length = 32) :
    Gen.tmpChunkPrefixBytes ++ suffix ≠ (nameFromID unc id).2 :=
  (Desync.tmp_never_chunk_name unc id suffix h).1

/-- the regenerated literals are casync's -/
theorem gen_literals :
    Gen.CompressedChunkExtBytes = [46, 99, 97, 99, 110, 107] ∧ Gen.UncompressedChunkExtBytes = [] ∧
    Gen.site_str_CompressedChunkExt_found = true ∧ Gen.site_str_UncompressedChunkExt_found = true := by
  decide

/-- writers of either format stage a chunk in a *private, uniquely named* temporary file
    (`tempfile.NewMode(dir, ".tmp-cacnk", …)`) and move it into place with `rename`: the order of
    operations regenerated from `LocalStore.StoreChunk` is the one of the crash machine
    (`Model/CrashFS.lean`, C08), whose writers never share a staging file — so a compressed and an
    uncompressed writer of the same ID, whose final names differ (`formats_disjoint`), cannot
    overwrite each other's bytes -/
theorem writers_use_private_temp_files : Gen.localStoreChunkShape = CrashFS.modelledShape := by decide

end Desync.C20
