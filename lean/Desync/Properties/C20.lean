/-
  C20 — Local chunk stores use casync's on-disk format; both formats coexist.

  Proved here (model `Model/LocalStore.lean`, constants regenerated from const.go/local.go): the
  layout `<first 4 hex digits>/<64 hex digits>[.cacnk]`, disjointness of the two formats' names,
  and that a store configured for one format never treats a file of the other as a chunk (never
  lists, verifies, prunes or removes it) nor a temporary file as a chunk.

  NOT provable here (no zstd model; DESIGN §6 C20): that the `.cacnk` content is one standard zstd
  frame readable by the reference libzstd and vice versa.  That part is checked on the
  implementation only: an independent RFC 8878 frame walker on every stored chunk (quick tier) and
  a cgo build against the system libzstd (thorough tier) — labelled support, not proof.
-/
import Desync.Proofs.LocalStoreProofs
import Desync.Proofs.CrashFSProofs

namespace Desync.C20
open Desync

/-- **layout**: the directory is the first four hex digits of the ID, the file is the 64 hex
    digits, with `.cacnk` appended for compressed stores (casync's literal) -/
theorem name_layout (unc : Bool) (id : Bytes) (h : id.length = 32) :
    (nameFromID unc id).1 = (hexEncode id).take 4 ∧ (nameFromID unc id).1.length = 4 ∧
    (hexEncode id).length = 64 ∧
    (nameFromID unc id).2 = hexEncode id ++ (if unc then [] else [46, 99, 97, 99, 110, 107]) := by
  obtain ⟨h1, h2, h3⟩ := Desync.name_layout unc id h
  exact ⟨h1, h2, by rw [hexEncode_length, h], h3⟩

/-- the name is a faithful encoding of the ID -/
theorem name_decodes (id : Bytes) : hexDecode (hexEncode id) = some id := hexDecode_hexEncode id

/-- **coexistence**: compressed and uncompressed names never coincide, also for different IDs -/
theorem formats_disjoint (id id' : Bytes) (h : id.length = 32) (h' : id'.length = 32) :
    (nameFromID true id).2 ≠ (nameFromID false id').2 :=
  Desync.formats_disjoint id id' h h'

/-- a client configured for one format recognises its own files and ignores the other's -/
theorem client_sees_only_its_format (unc : Bool) (id : Bytes) (h : id.length = 32) :
    pruneClassify unc (nameFromID unc id).2 = .consider id ∧
    verifyClassify unc (nameFromID unc id).2 = .consider id ∧
    pruneClassify unc (nameFromID (!unc) id).2 = .skip ∧
    verifyClassify unc (nameFromID (!unc) id).2 = .skip :=
  ⟨(classify_own unc id h).1, (classify_own unc id h).2,
   (classify_other_format unc id h).1, (classify_other_format unc id h).2⟩

/-- a partially written chunk lives under a temporary name that is never a chunk name of either
    format (shared with C08) -/
theorem tmp_never_chunk_name (unc : Bool) (id suffix : Bytes) (h : id.length = 32) :
    Gen.tmpChunkPrefixBytes ++ suffix ≠ (nameFromID unc id).2 :=
  (Desync.tmp_never_chunk_name unc id suffix h).1

/-- the regenerated literals are casync's -/
theorem gen_literals :
    Gen.CompressedChunkExtBytes = [46, 99, 97, 99, 110, 107] ∧ Gen.UncompressedChunkExtBytes = [] ∧
    Gen.site_str_CompressedChunkExt_found = true ∧ Gen.site_str_UncompressedChunkExt_found = true := by
  decide

/-- writers of either format stage a chunk in a *private, uniquely named* temporary file
    (`tempfile.NewMode(dir, ".tmp-cacnk", …)`) and move it into place with `rename`: the order of
    operations regenerated from `LocalStore.StoreChunk` is the one of the crash machine
    (`Model/CrashFS.lean`, C08), whose writers never share a staging file — so a compressed and an
    uncompressed writer of the same ID, whose final names differ (`formats_disjoint`), cannot
    overwrite each other's bytes -/
theorem writers_use_private_temp_files : Gen.localStoreChunkShape = CrashFS.modelledShape := by decide

/-- one `StoreChunk` call of a store of either format: (uncompressed?, chunk ID, the random suffix of
    its temp file, the storage bytes) -/
def mkWriter (j : Bool × Bytes × Bytes × Bytes) : CrashFS.Writer :=
  { final := (nameFromID j.1 j.2.1).2, tmp := Gen.tmpChunkPrefixBytes ++ j.2.2.1, payload := j.2.2.2 }

/-- **both formats, concurrently, with crashes**: any number of concurrent `StoreChunk` calls of
    compressed *and* uncompressed stores sharing one directory (also of the same chunk ID), writes
    cut short at any byte count, the process dying after any step: every file visible under a name
    without the temp prefix holds the complete valid storage bytes of its own format -/
theorem mixed_writers_crash_atomic (Valid : CrashFS.Name → CrashFS.Content → Prop)
    (jobs : List (Bool × Bytes × Bytes × Bytes)) (dir0 : List (CrashFS.Name × CrashFS.Content))
    (hid : ∀ j ∈ jobs, j.2.1.length = 32)
    (hsuf : (jobs.map (·.2.2.1)).Nodup)
    (hkeys : (dir0.map (·.1)).Nodup)
    (hfresh : ∀ j ∈ jobs, ∀ e ∈ dir0, e.1 ≠ Gen.tmpChunkPrefixBytes ++ j.2.2.1)
    (hvalid0 : ∀ e ∈ dir0, (!hasPrefix e.1 Gen.tmpChunkPrefixBytes) = true → Valid e.1 e.2)
    (hpay : ∀ j ∈ jobs, Valid (nameFromID j.1 j.2.1).2 j.2.2.2)
    (s : CrashFS.St) (h : CrashFS.Reachable ⟨dir0, jobs.map mkWriter⟩ s) :
    ∀ e ∈ s.dir, (!hasPrefix e.1 Gen.tmpChunkPrefixBytes) = true → Valid e.1 e.2 := by
  refine CrashFS.crash_atomic (fun n => !hasPrefix n Gen.tmpChunkPrefixBytes) Valid _ ?_ s h
  exact {
    tmp_not_chunk := by
      intro w hw
      obtain ⟨j, _, rfl⟩ := List.mem_map.1 hw
      simp [mkWriter, hasPrefix_append]
    final_chunk := by
      intro w hw
      obtain ⟨j, hj, rfl⟩ := List.mem_map.1 hw
      have := hexEncode_not_tmp j.2.1 (extOf j.1) (hid j hj)
      simp only [mkWriter, nameFromID, this, Bool.not_false]
    tmp_distinct := by
      simp only [List.map_map]
      have : ((fun w : CrashFS.Writer => w.tmp) ∘ mkWriter) = (fun s => Gen.tmpChunkPrefixBytes ++ s) ∘ (·.2.2.1) := rfl
      rw [this, ← List.map_map]
      exact List.Pairwise.map _ (fun a b hab h => hab (List.append_cancel_left h)) hsuf
    tmp_fresh := by
      intro w hw e he
      obtain ⟨j, hj, rfl⟩ := List.mem_map.1 hw
      exact hfresh j hj e he
    payload_valid := by
      intro w hw
      obtain ⟨j, hj, rfl⟩ := List.mem_map.1 hw
      exact hpay j hj
    init_valid := hvalid0
    init_pc := by
      intro w hw
      obtain ⟨j, _, rfl⟩ := List.mem_map.1 hw
      rfl
    dir_keys := hkeys }

end Desync.C20
