/- C05 — regenerated obligation for tarfs.go: the helper `tarMode` and who calls it (see GenTarFS.lean) -/
import Desync.Generated.Facts

namespace Desync.C05
open Desync

/-- the helper `tarMode` is what `TarFS.tarMode` says, and no method of `TarWriter` calls it (the known finding
    `gnutar.header-mode.filemode-bits` stands; `gnutar_roundtrip_with_tarMode` is about a writer that would) -/
theorem gen_tarfs_tarMode_unused :
    Gen.site_tarfs_tarMode_found = true ∧
    Gen.tarfsTarModeBody = ["return int64(FilemodeToStatMode(m)&07777)"] ∧
    (Gen.tarfsTarModeCallers.all fun c =>
      !["TarWriter.CreateDir", "TarWriter.CreateFile", "TarWriter.CreateSymlink", "TarWriter.CreateDevice"].contains c) = true := by
  decide

end Desync.C05
