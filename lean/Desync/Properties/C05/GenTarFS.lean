/-
  C05 — regenerated obligations for tarfs.go (`harness/extract/tarfsfacts.go`): the field mappings that
  `Model/TarFS.lean` assumes, compared with the ones the extractor reads off the source on every run.  A module of
  its own, so that a change of tarfs.go turns these obligations red without hiding the general theorems of
  `Properties/C05.lean`.

  Compared as sets of (field, source expression) pairs (the order of the fields in a composite literal does not
  matter), plus the statements around the literal (where `typ`, `h` and `info` come from; no assignment to the
  header after the literal; the calls).  The reading of each source expression is the model's:
    "n.Name", "n.UID", "n.GID", "n.MTime", "n.Xattrs", "n.Target"  the node's field, unchanged
    "int64(n.Mode)"      `rawMode`: the 32 `os.FileMode` bits, zero-extended (NOT `tarMode(n.Mode)`)
    "int64(n.Size)", "int64(n.Major)", "int64(n.Minor)"            the same 64-bit pattern
    "fs.format"          the writer's format: `gnutar.FormatGNU` (`NewTarWriter`); absent in `CreateDevice`
    "typ"                `TypeBlock`, or `TypeChar` when `n.Mode&os.ModeCharDevice != 0`
    "info.Name()", "info.Mode()", "info.ModTime()", "uint64(info.Size())"   `infoName`, `tarInfoMode`, the
                         header's `ModTime` and `Size` (`info := h.FileInfo()`)
    "path.Clean(h.Name)" `goClean`
    "h.Linkname", "h.Uid", "h.Gid", "h.Xattrs", "uint64(h.Devmajor)", "uint64(h.Devminor)"   the header's field
-/
import Desync.Generated.Facts
import Desync.Model.TarFS

namespace Desync.C05
open Desync

/-- the same pairs, in any order -/
def samePairs (a b : List (String × String)) : Bool :=
  a.length == b.length && a.all (b.contains ·) && b.all (a.contains ·)

def hdrCommon : List (String × String) :=
  [("Name", "n.Name"), ("Uid", "n.UID"), ("Gid", "n.GID"), ("Mode", "int64(n.Mode)"), ("ModTime", "n.MTime"),
   ("Xattrs", "n.Xattrs")]

/-- the four `Create*` methods build the header `TarFS.writerHdrWith rawMode` builds, hand it to `WriteHeader`
    unchanged, and only `CreateFile` writes anything else (the content) -/
theorem gen_tarfs_writer :
    (Gen.site_tarfs_CreateDir_found && Gen.site_tarfs_CreateFile_found && Gen.site_tarfs_CreateSymlink_found &&
      Gen.site_tarfs_CreateDevice_found && Gen.site_tarfs_NewTarWriter_found) = true ∧
    samePairs Gen.tarfsCreateDirHdr
      (("Typeflag", "gnutar.TypeDir") :: ("Format", "fs.format") :: hdrCommon) = true ∧
    samePairs Gen.tarfsCreateFileHdr
      (("Typeflag", "gnutar.TypeReg") :: ("Size", "int64(n.Size)") :: ("Format", "fs.format") :: hdrCommon) = true ∧
    samePairs Gen.tarfsCreateSymlinkHdr
      (("Typeflag", "gnutar.TypeSymlink") :: ("Linkname", "n.Target") :: ("Format", "fs.format") :: hdrCommon) = true ∧
    samePairs Gen.tarfsCreateDeviceHdr
      (("Typeflag", "typ") :: ("Devmajor", "int64(n.Major)") :: ("Devminor", "int64(n.Minor)") :: hdrCommon) = true ∧
    Gen.tarfsCreateDirBody = ["hdr:=&gnutar.Header{…}", "return fs.w.WriteHeader(hdr)"] ∧
    Gen.tarfsCreateFileBody = ["hdr:=&gnutar.Header{…}", "err:=fs.w.WriteHeader(hdr)", "if err!=nil: return err",
      "_,err:=io.Copy(fs.w,n.Data)", "return err"] ∧
    Gen.tarfsCreateSymlinkBody = ["hdr:=&gnutar.Header{…}", "return fs.w.WriteHeader(hdr)"] ∧
    Gen.tarfsCreateDeviceBody = ["var typ byte=gnutar.TypeBlock", "if n.Mode&os.ModeCharDevice!=0: typ=gnutar.TypeChar",
      "hdr:=&gnutar.Header{…}", "return fs.w.WriteHeader(hdr)"] ∧
    Gen.tarfsNewTarWriter = [("", "gnutar.NewWriter(w)"), ("", "gnutar.FormatGNU")] := by
  decide

/-- `TarReader.Next` hands out the pending root or builds the `File` that `TarFS.readerFile` builds from the header
    `fs.r.Next()` returned (an error of that call is passed on); `NewTarReader` prepares the root `TarFS.rootFile` -/
theorem gen_tarfs_reader :
    (Gen.site_tarfs_ReaderNext_found && Gen.site_tarfs_NewTarReader_found) = true ∧
    samePairs Gen.tarfsReaderNextFile
      [("Name", "info.Name()"), ("Path", "path.Clean(h.Name)"), ("Mode", "info.Mode()"),
       ("ModTime", "info.ModTime()"), ("Size", "uint64(info.Size())"), ("LinkTarget", "h.Linkname"),
       ("Uid", "h.Uid"), ("Gid", "h.Gid"), ("Xattrs", "h.Xattrs"), ("DevMajor", "uint64(h.Devmajor)"),
       ("DevMinor", "uint64(h.Devminor)"), ("Data", "ioutil.NopCloser(fs.r)")] = true ∧
    Gen.tarfsReaderNextBody = ["if fs.root!=nil: f=fs.root", "if fs.root!=nil: fs.root=nil",
      "if fs.root!=nil: return f,nil", "h,err:=fs.r.Next()", "if err!=nil: return nil,err", "info:=h.FileInfo()",
      "f=&File{…}", "return f,nil"] ∧
    samePairs Gen.tarfsRootFile [("Name", "\".\""), ("Path", "\".\""), ("Mode", "os.ModeDir|0755")] = true ∧
    Gen.tarfsNewTarReaderBody = ["var root *File=", "if opts.AddRoot: root=&File{…}", "return &TarReader{…}"] := by
  decide

/-- the helper `tarMode` is what `TarFS.tarMode` says, and no method of `TarWriter` calls it (the known finding
    `gnutar.header-mode.filemode-bits` stands; `gnutar_roundtrip_with_tarMode` is about a writer that would) -/
theorem gen_tarfs_tarMode_unused :
    Gen.site_tarfs_tarMode_found = true ∧
    Gen.tarfsTarModeBody = ["return int64(FilemodeToStatMode(m)&07777)"] ∧
    (Gen.tarfsTarModeCallers.all fun c =>
      !["TarWriter.CreateDir", "TarWriter.CreateFile", "TarWriter.CreateSymlink", "TarWriter.CreateDevice"].contains c) = true := by
  decide

end Desync.C05
