/-
  C05 — regenerated obligations for tarfs.go (`harness/extract/tarfsfacts.go`): the field mappings that
  `Model/TarFS.lean` assumes, compared with the ones the extractor reads off the source on every run.  Modules of
  their own (this one: the writer; GenTarFSReader, GenTarFSTarMode), so that a change of tarfs.go turns these obligations red without hiding the general theorems of
  `Properties/C05.lean`.

  Compared as sets of (field, source expression) pairs (the order of the fields in a composite literal does not
  matter; the extractor first gives receiver, node parameter and the locals with a role their canonical names `fs`,
  `n`, `hdr`, `h`, `info`, `f`, `typ`, and replaces a once-defined local by its definition, so renaming or hoisting
  changes nothing), plus what happens around the literal: the calls that involve the archive/tar writer, that the
  header is not touched after the literal, the rule that picks `typ`, where `h` and `info` come from.  The reading of each source expression is the model's:
    "n.Name", "n.UID", "n.GID", "n.MTime", "n.Xattrs", "n.Target"  the node's field, unchanged
    "int64(n.Mode)"      `rawMode`: the 32 `os.FileMode` bits, zero-extended (NOT `tarMode(n.Mode)`)
    "int64(n.Size)", "int64(n.Major)", "int64(n.Minor)"            the same 64-bit pattern
    "fs.formatFor(n.Xattrs)"  `TarFS.formatFor .gnu`: `FormatPAX` when the node has an extended attribute, otherwise
                         the writer's format `gnutar.FormatGNU` (`NewTarWriter`); no `Format` in `CreateDevice`
    "typ"                `TypeBlock`, or `TypeChar` when `n.Mode&os.ModeCharDevice != 0`
    "info.Name()", "info.Mode()", "info.ModTime()", "uint64(info.Size())"   `infoName`, `tarInfoMode`, the
                         header's `ModTime` and `Size` (`info := h.FileInfo()`)
    "path.Clean(h.Name)" `goClean`
    "h.Linkname", "h.Uid", "h.Gid", "h.Xattrs", "uint64(h.Devmajor)", "uint64(h.Devminor)"   the header's field
-/
import Desync.Generated.Facts

namespace Desync.C05
open Desync

/-- the same pairs, in any order -/
private def samePairs (a b : List (String × String)) : Bool :=
  a.length == b.length && a.all (b.contains ·) && b.all (a.contains ·)

private def hdrCommon : List (String × String) :=
  [("Name", "n.Name"), ("Uid", "n.UID"), ("Gid", "n.GID"), ("Mode", "int64(n.Mode)"), ("ModTime", "n.MTime"),
   ("Xattrs", "n.Xattrs")]

/-- the four `Create*` methods build the header `TarFS.writerHdrWith rawMode` builds, hand it to `WriteHeader`
    unchanged, and only `CreateFile` writes anything else (the content) -/
theorem gen_tarfs_writer :
    (Gen.site_tarfs_CreateDir_found && Gen.site_tarfs_CreateFile_found && Gen.site_tarfs_CreateSymlink_found &&
      Gen.site_tarfs_CreateDevice_found && Gen.site_tarfs_NewTarWriter_found) = true ∧
    samePairs Gen.tarfsCreateDirHdr
      (("Typeflag", "gnutar.TypeDir") :: ("Format", "fs.formatFor(n.Xattrs)") :: hdrCommon) = true ∧
    samePairs Gen.tarfsCreateFileHdr
      (("Typeflag", "gnutar.TypeReg") :: ("Size", "int64(n.Size)") :: ("Format", "fs.formatFor(n.Xattrs)") :: hdrCommon) = true ∧
    samePairs Gen.tarfsCreateSymlinkHdr
      (("Typeflag", "gnutar.TypeSymlink") :: ("Linkname", "n.Target") :: ("Format", "fs.formatFor(n.Xattrs)") :: hdrCommon) = true ∧
    samePairs Gen.tarfsCreateDeviceHdr
      (("Typeflag", "typ") :: ("Devmajor", "int64(n.Major)") :: ("Devminor", "int64(n.Minor)") :: hdrCommon) = true ∧
    Gen.tarfsCreateDirCalls = ["fs.w.WriteHeader(hdr)"] ∧
    Gen.tarfsCreateFileCalls = ["fs.w.WriteHeader(hdr)", "io.Copy(fs.w,n.Data)"] ∧
    Gen.tarfsCreateSymlinkCalls = ["fs.w.WriteHeader(hdr)"] ∧
    Gen.tarfsCreateDeviceCalls = ["fs.w.WriteHeader(hdr)"] ∧
    (Gen.tarfsCreateDirHdrTouched || Gen.tarfsCreateFileHdrTouched || Gen.tarfsCreateSymlinkHdrTouched ||
      Gen.tarfsCreateDeviceHdrTouched) = false ∧
    Gen.tarfsDeviceTypRule = ["typ=gnutar.TypeBlock", "if n.Mode&os.ModeCharDevice!=0: typ=gnutar.TypeChar"] ∧
    Gen.tarfsNewTarWriter = [("w", "gnutar.NewWriter(w)"), ("format", "gnutar.FormatGNU")] ∧
    Gen.site_tarfs_formatFor_found = true ∧
    Gen.tarfsFormatForBody = ["if len(xattrs)>0: return gnutar.FormatPAX", "return fs.format"] := by
  decide

end Desync.C05
