/- C05 — regenerated obligation for tarfs.go, the reading side (see GenTarFS.lean for the reading of the source expressions) -/
import Desync.Generated.Facts

namespace Desync.C05
open Desync

/-- the same pairs, in any order -/
private def samePairs (a b : List (String × String)) : Bool :=
  a.length == b.length && a.all (b.contains ·) && b.all (a.contains ·)

/-- `TarReader.Next` hands out the pending root; otherwise it reads on while the header is a PAX global header
    (`TarFS.skipGlobal`), fails on a hard link, and builds the `File` that `TarFS.readerFile` builds from the header
    `fs.r.Next()` returned (an error of that call is passed on); `NewTarReader` prepares the root `TarFS.rootFile` -/
theorem gen_tarfs_reader :
    (Gen.site_tarfs_ReaderNext_found && Gen.site_tarfs_NewTarReader_found) = true ∧
    samePairs Gen.tarfsReaderNextFile
      [("Name", "info.Name()"), ("Path", "path.Clean(h.Name)"), ("Mode", "info.Mode()"),
       ("ModTime", "info.ModTime()"), ("Size", "uint64(info.Size())"), ("LinkTarget", "h.Linkname"),
       ("Uid", "h.Uid"), ("Gid", "h.Gid"), ("Xattrs", "h.Xattrs"), ("DevMajor", "uint64(h.Devmajor)"),
       ("DevMinor", "uint64(h.Devminor)"), ("Data", "ioutil.NopCloser(fs.r)")] = true ∧
    Gen.tarfsReaderNextBody = ["if fs.root!=nil: f=fs.root", "if fs.root!=nil: fs.root=nil",
      "if fs.root!=nil: return f,nil", "h,err=fs.r.Next()", "if err!=nil: return nil,err",
      "for h.Typeflag==gnutar.TypeXGlobalHeader: h,err=fs.r.Next()",
      "for h.Typeflag==gnutar.TypeXGlobalHeader: if err!=nil: return nil,err",
      "if h.Typeflag==gnutar.TypeLink: return nil,<new error>", "info=h.FileInfo()",
      "f=&File{…}", "return f,nil"] ∧
    samePairs Gen.tarfsRootFile [("Name", "\".\""), ("Path", "\".\""), ("Mode", "os.ModeDir|0755")] = true ∧
    Gen.tarfsRootFileCond = ["opts.AddRoot"] := by
  decide

end Desync.C05
