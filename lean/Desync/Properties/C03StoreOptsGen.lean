/-
  C03 / C20 / C14, regenerated obligations: `storeFromLocation` and `indexStoreFromLocation` construct every backend
  with `MergedWith(GetStoreOptionsFor(<their own location>))` — field by field what `Model/StoreOpts.mergedWith` says,
  for every value of every flag and configuration field — and dispatch on the scheme as `backendOf` does.
-/
import Desync.Model.StoreOpts

namespace Desync.C03
open Desync Desync.StoreOpts

/-- the model's view of the sources: the command's store options … -/
def cmdOf (i : Gen.StoreoptsIn) : CmdStoreOptions :=
  { n := i.flagI "concurrency", clientCert := i.flagS "client-cert", clientKey := i.flagS "client-key", caCert := i.flagS "ca-cert",
    skipVerify := i.cmdB "skipVerify", errorRetry := i.flagI "error-retry", errorRetryBaseInterval := i.flagI "error-retry-base-interval",
    chClientCert := i.changed "client-cert", chClientKey := i.changed "client-key", chCaCert := i.changed "ca-cert",
    chTrustInsecure := i.changed "trust-insecure", chErrorRetry := i.changed "error-retry",
    chErrorRetryBaseInterval := i.changed "error-retry-base-interval" }

/-- … and the configuration entry selected for the location -/
def cfgOf (i : Gen.StoreoptsIn) : StoreOptions :=
  { n := i.cfgI "N", clientCert := i.cfgS "ClientCert", clientKey := i.cfgS "ClientKey", caCert := i.cfgS "CACert",
    trustInsecure := i.cfgB "TrustInsecure", httpAuth := i.cfgS "HTTPAuth", httpCookie := i.cfgS "HTTPCookie", timeout := i.cfgI "Timeout",
    errorRetry := i.cfgI "ErrorRetry", errorRetryBaseInterval := i.cfgI "ErrorRetryBaseInterval", skipVerify := i.cfgB "SkipVerify",
    uncompressed := i.cfgB "Uncompressed" }

def genSFL (i : Gen.StoreoptsIn) : StoreOptions :=
  { n := Gen.storeoptsSFLOptN i, clientCert := Gen.storeoptsSFLOptClientCert i, clientKey := Gen.storeoptsSFLOptClientKey i,
    caCert := Gen.storeoptsSFLOptCACert i, trustInsecure := Gen.storeoptsSFLOptTrustInsecure i, httpAuth := Gen.storeoptsSFLOptHTTPAuth i,
    httpCookie := Gen.storeoptsSFLOptHTTPCookie i, timeout := Gen.storeoptsSFLOptTimeout i, errorRetry := Gen.storeoptsSFLOptErrorRetry i,
    errorRetryBaseInterval := Gen.storeoptsSFLOptErrorRetryBaseInterval i, skipVerify := Gen.storeoptsSFLOptSkipVerify i,
    uncompressed := Gen.storeoptsSFLOptUncompressed i }

def genISFL (i : Gen.StoreoptsIn) : StoreOptions :=
  { n := Gen.storeoptsISFLOptN i, clientCert := Gen.storeoptsISFLOptClientCert i, clientKey := Gen.storeoptsISFLOptClientKey i,
    caCert := Gen.storeoptsISFLOptCACert i, trustInsecure := Gen.storeoptsISFLOptTrustInsecure i, httpAuth := Gen.storeoptsISFLOptHTTPAuth i,
    httpCookie := Gen.storeoptsISFLOptHTTPCookie i, timeout := Gen.storeoptsISFLOptTimeout i, errorRetry := Gen.storeoptsISFLOptErrorRetry i,
    errorRetryBaseInterval := Gen.storeoptsISFLOptErrorRetryBaseInterval i, skipVerify := Gen.storeoptsISFLOptSkipVerify i,
    uncompressed := Gen.storeoptsISFLOptUncompressed i }

macro "optwire" : tactic =>
  `(tactic| first
    | rfl
    | (simp only [genSFL, genISFL, cmdOf, cfgOf, mergedWith, Gen.storeoptsSFLOptN, Gen.storeoptsSFLOptClientCert, Gen.storeoptsSFLOptClientKey,
        Gen.storeoptsSFLOptCACert, Gen.storeoptsSFLOptTrustInsecure, Gen.storeoptsSFLOptHTTPAuth, Gen.storeoptsSFLOptHTTPCookie,
        Gen.storeoptsSFLOptTimeout, Gen.storeoptsSFLOptErrorRetry, Gen.storeoptsSFLOptErrorRetryBaseInterval,
        Gen.storeoptsSFLOptSkipVerify, Gen.storeoptsSFLOptUncompressed,
        Gen.storeoptsISFLOptN, Gen.storeoptsISFLOptClientCert, Gen.storeoptsISFLOptClientKey,
        Gen.storeoptsISFLOptCACert, Gen.storeoptsISFLOptTrustInsecure, Gen.storeoptsISFLOptHTTPAuth, Gen.storeoptsISFLOptHTTPCookie,
        Gen.storeoptsISFLOptTimeout, Gen.storeoptsISFLOptErrorRetry, Gen.storeoptsISFLOptErrorRetryBaseInterval,
        Gen.storeoptsISFLOptSkipVerify, Gen.storeoptsISFLOptUncompressed] <;> first | done | grind)
    | grind)

/-- `storeFromLocation`: the options every backend gets are `MergedWith` of the entry looked up for the function's own
    `location` argument — for verification (C03) … -/
theorem gen_store_skip_verify (i : Gen.StoreoptsIn) :
    (genSFL i).skipVerify = (mergedWith (cmdOf i) (cfgOf i)).skipVerify ∧
    (genISFL i).skipVerify = (mergedWith (cmdOf i) (cfgOf i)).skipVerify := by
  refine ⟨?_, ?_⟩ <;> optwire

/-- … and for every other field -/
theorem gen_store_options_merged (i : Gen.StoreoptsIn) :
    genSFL i = mergedWith (cmdOf i) (cfgOf i) ∧ genISFL i = mergedWith (cmdOf i) (cfgOf i) := by
  refine ⟨?_, ?_⟩ <;>
    (simp only [genSFL, genISFL, mergedWith, cmdOf, cfgOf, StoreOptions.mk.injEq]
     refine ⟨?_, ?_, ?_, ?_, ?_, ?_, ?_, ?_, ?_, ?_, ?_, ?_⟩ <;> optwire)

set_option maxRecDepth 16384 in
/-- one options value for all constructors; the configuration is asked about the function's own location argument
    (for an index location: about everything before the last separator); the dispatch on the scheme -/
theorem gen_store_dispatch :
    Gen.storeoptsSFLUniform = true ∧ Gen.storeoptsISFLUniform = true ∧
    Gen.storeoptsSFLCfgKeys = ["opq:S(param:0)"] ∧
    Gen.storeoptsISFLCfgKeys = ["ite(opq:B(strings.Contains(opq:S(param:0),\"/\")),opq:S(slice(opq:S(param:0),,opq:K(strings.LastIndex(opq:S(param:0),\"/\")))),ite(opq:B(strings.Contains(opq:S(param:0),\"\\\\\")),opq:S(slice(opq:S(param:0),,opq:K(strings.LastIndex(opq:S(param:0),\"\\\\\")))),\"\"))"] ∧
    Gen.storeoptsSFLCtors = ["NewGCStore", "NewLocalStore", "NewRemoteHTTPStore", "NewRemoteSSHStore", "NewS3Store", "NewSFTPStore"] ∧
    Gen.storeoptsISFLCtors = ["NewGCIndexStore", "NewRemoteHTTPIndexStore", "NewS3IndexStore", "NewSFTPIndexStore"] ∧
    Gen.storeoptsSFLDispatch = ["default->NewLocalStore", "gs->NewGCStore", "http,https->NewRemoteHTTPStore",
      "s3+http,s3+https->NewS3Store", "sftp->NewSFTPStore", "ssh->NewRemoteSSHStore"] ∧
    Gen.storeoptsISFLDispatch = ["default->NewConsoleIndexStore+NewLocalIndexStore", "gs->NewGCIndexStore",
      "http,https->NewRemoteHTTPIndexStore", "s3+http,s3+https->NewS3IndexStore", "sftp->NewSFTPIndexStore", "ssh->none"] ∧
    Gen.storeoptsSFLLostWrites = [] ∧ Gen.storeoptsISFLLostWrites = [] ∧
    Gen.site_storeopts_storeoptsSFL_found = true ∧ Gen.site_storeopts_storeoptsISFL_found = true := by
  decide

/-- the model's dispatch is the table above -/
theorem backendOf_table :
    backendOf "ssh" = .ssh ∧ backendOf "sftp" = .sftp ∧ backendOf "http" = .http ∧ backendOf "https" = .http ∧
    backendOf "s3+http" = .s3 ∧ backendOf "s3+https" = .s3 ∧ backendOf "gs" = .gcs ∧ backendOf "" = .localDir ∧
    backendOf "c" = .localDir ∧ indexBackendOf "ssh" = .noIndexOverSsh := by decide

end Desync.C03
