/-
  C03 / C20 / C14, regenerated obligations: `storeFromLocation` and `indexStoreFromLocation` construct every backend
  with `MergedWith(GetStoreOptionsFor(<their own location>))` — field by field what `Model/StoreOpts.mergedWith` says,
  for every value of every flag and configuration field — and dispatch on the scheme as `backendOf` does.
-/
import Desync.Proofs.StoreOptsGenDefs

namespace Desync.C03
open Desync Desync.StoreOpts

/-- `storeFromLocation`: the options every backend gets are `MergedWith` of the entry looked up for the function's own
    `location` argument — for verification (C03) … -/
theorem gen_store_skip_verify (i : Gen.StoreoptsIn) :
    (genSFL i).skipVerify = (mergedWith (cmdOf i) (cfgOf i)).skipVerify ∧
    (genISFL i).skipVerify = (mergedWith (cmdOf i) (cfgOf i)).skipVerify := by
  refine ⟨?_, ?_⟩ <;> optwire

/-- … and for every other field -/
theorem gen_store_options_merged (i : Gen.StoreoptsIn) :
    genSFL i = mergedWith (cmdOf i) (cfgOf i) ∧ genISFL i = mergedWith (cmdOf i) (cfgOf i) := by
  refine ⟨?_, ?_⟩ <;>
    (simp only [genSFL, genISFL, mergedWith, cmdOf, cfgOf, StoreOptions.mk.injEq]
     refine ⟨?_, ?_, ?_, ?_, ?_, ?_, ?_, ?_, ?_, ?_, ?_, ?_⟩ <;> optwire)

set_option maxRecDepth 16384 in
/-- one options value for all constructors; the configuration is asked about the function's own location argument
    (for an index location: about everything before the last separator); the dispatch on the scheme -/
theorem gen_store_dispatch :
    Gen.storeoptsSFLUniform = true ∧ Gen.storeoptsISFLUniform = true ∧
    Gen.storeoptsSFLCfgKeys = ["opq:S(param:0)"] ∧
    Gen.storeoptsISFLCfgKeys = ["ite(opq:B(strings.Contains(opq:S(param:0),\"/\")),opq:S(slice(opq:S(param:0),,opq:K(strings.LastIndex(opq:S(param:0),\"/\")))),ite(opq:B(strings.Contains(opq:S(param:0),\"\\\\\")),opq:S(slice(opq:S(param:0),,opq:K(strings.LastIndex(opq:S(param:0),\"\\\\\")))),\"\"))"] ∧
    Gen.storeoptsSFLCtors = ["NewGCStore", "NewLocalStore", "NewRemoteHTTPStore", "NewRemoteSSHStore", "NewS3Store", "NewSFTPStore"] ∧
    Gen.storeoptsISFLCtors = ["NewGCIndexStore", "NewRemoteHTTPIndexStore", "NewS3IndexStore", "NewSFTPIndexStore"] ∧
    Gen.storeoptsSFLDispatch = ["default->NewLocalStore", "gs->NewGCStore", "http,https->NewRemoteHTTPStore",
      "s3+http,s3+https->NewS3Store", "sftp->NewSFTPStore", "ssh->NewRemoteSSHStore"] ∧
    Gen.storeoptsISFLDispatch = ["default->NewConsoleIndexStore+NewLocalIndexStore", "gs->NewGCIndexStore",
      "http,https->NewRemoteHTTPIndexStore", "s3+http,s3+https->NewS3IndexStore", "sftp->NewSFTPIndexStore", "ssh->none"] ∧
    Gen.storeoptsSFLLostWrites = [] ∧ Gen.storeoptsISFLLostWrites = [] ∧
    Gen.site_storeopts_storeoptsSFL_found = true ∧ Gen.site_storeopts_storeoptsISFL_found = true := by
  decide

/-- the model's dispatch is the table above -/
theorem backendOf_table :
    backendOf "ssh" = .ssh ∧ backendOf "sftp" = .sftp ∧ backendOf "http" = .http ∧ backendOf "https" = .http ∧
    backendOf "s3+http" = .s3 ∧ backendOf "s3+https" = .s3 ∧ backendOf "gs" = .gcs ∧ backendOf "" = .localDir ∧
    backendOf "c" = .localDir ∧ indexBackendOf "ssh" = .noIndexOverSsh := by decide

end Desync.C03
