/-
  C09 — the file served by a FUSE index mount, at the level of the FUSE requests and of read(2).

  Model: `Model/MountFS.lean` (LOOKUP / GETATTR / OPEN / READ / RELEASE as the go-fuse bridge hands them to
  `IndexMountFS` / `indexFile`; the kernel's side of read(2) by contract: clipping to the GETATTR size, any split into READ
  requests, a short reply or an errno ends the read).  Composed from the reader theorems `fuse_read_safe` /
  `fuse_read_exact` (Properties/C09.lean): one `IdxPos` per open handle.  Hypotheses: `Setup` for the mount's index (the
  index tiles the blob, sound store, collision-freeness on its chunks), blobs shorter than 2^64 bytes (`uint64` of
  `Index.Length()`), the node facts satisfy `NodeFacts.ok` (regenerated: Properties/C09MountFSGen.lean).
-/
import Desync.Proofs.MountFSProofs

namespace Desync.C09
open Desync MountFS

/-- **every sequence of FUSE requests** on a fresh index mount (any number of handles opened, read in any order, released;
    whatever the store does): GETATTR reports a read-only regular file of exactly the blob's length; LOOKUP finds exactly
    the one name; OPEN succeeds with the flags of the regenerated facts; a READ is answered with exactly
    `blob[off, off+len)` cut at the end of the blob — never fewer bytes, never other bytes — or with EIO and NO data
    (EBADF only for a handle that is not open, which the kernel never sends) -/
theorem index_mount_requests_exact {f : NodeFacts} (hok : f.ok = true) {blob : Bytes} {fetch : Fetch}
    (m : IdxMount) (hh : m.handles = []) (hs : Setup blob m.newReader fetch) (hlen : blob.length < 2 ^ 64)
    (qs : List Req) (j : Nat) (q : Req) (r : Resp)
    (hq : qs[j]? = some q) (hr : (m.run f fetch qs).1[j]? = some r) :
    match q with
    | .lookup n => r = if n = m.fname then .entry S_IFREG else .err .enoent
    | .getattr => r = .attr (S_IFREG + 0o444) blob.length
    | .open_ => ∃ fh, r = .opened fh f.openFlags
    | .read _ off len =>
      (∃ b, r = .data b ∧ off ≤ blob.length ∧ b = (blob.drop off).take len) ∨ r = .err .eio ∨ r = .err .ebadf
    | .release _ => r = .released ∨ r = .err .ebadf := by
  have := (idx_run_spec hok hlen qs m (idx_new_inv m hh hs)).2.2 j q r hq hr
  cases q <;> exact this

/-- **read(2) on the mounted file**: after ANY sequence of requests, a user who stats and opens the file and reads `len`
    bytes at `off` — the kernel clipping to the size GETATTR reported and splitting the range into READ requests of any
    sizes — gets a correct prefix of `blob[off, off+len) ∩ [0, L)` (shorter only because a request was answered with EIO)
    or the errno; with a store that never fails, exactly `blob[off, off+len) ∩ [0, L)` -/
theorem index_mounted_read_exact {f : NodeFacts} (hok : f.ok = true) {blob : Bytes} {fetch : Fetch}
    (m : IdxMount) (hh : m.handles = []) (hs : Setup blob m.newReader fetch) (hlen : blob.length < 2 ^ 64)
    (qs : List Req) (split : List Nat) (off len : Nat) :
    ∃ r m', ((m.run f fetch qs).2).userRead f fetch split off len = some (r, m') ∧
      (∀ b, r = .data b → b = ((blob.drop off).take len).take b.length) ∧
      (NeverFails m.newReader fetch → r = .data ((blob.drop off).take len)) := by
  obtain ⟨i1, i2, _⟩ := idx_run_spec hok hlen qs m (idx_new_inv m hh hs)
  obtain ⟨r, m', e, _, a, b⟩ := idx_userRead_spec hok hlen i1 split off len
  exact ⟨r, m', e, a, fun hnf => b (by rw [i2.reader]; exact hnf)⟩

/-- the kernel's loop over ANY server that answers with the exact range or an errno (the contract part, on its own) -/
theorem kernel_read_over_exact_server {σ : Type} {blob : Bytes} {srv : Srv σ} {P : σ → Prop} (hx : ExactSrv blob srv P)
    (flags : Nat) (hnd : flags &&& FOPEN_DIRECT_IO = 0) (split : List Nat) (s : σ) (off len : Nat) (hp : P s) :
    (∀ b, (kread srv blob.length flags split s off len).1 = .data b →
        b = ((blob.drop off).take len).take b.length) ∧
    ((∀ s' off' l', P s' → ((srv s' off' l').1).isSome) →
      (kread srv blob.length flags split s off len).1 = .data ((blob.drop off).take len)) :=
  (kread_spec hx flags hnd split s off len hp).2

/-- why the size matters: an exact server behind a GETATTR size one byte short loses the last byte of the blob -/
theorem short_size_violates :
    (kread (σ := Unit) (fun _ off l => (some ((([10, 11, 12, 13] : Bytes).drop off).take l), ())) 3 FOPEN_KEEP_CACHE [] () 0 4).1
      = .data [10, 11, 12] := by decide

/-- why full replies matter: a server that answers every READ with one byte (a short reply that is not the end of the
    file) makes read(2) stop after that byte -/
theorem short_reply_violates :
    (kread (σ := Unit) (fun _ off l => (some ((([10, 11, 12, 13] : Bytes).drop off).take (min l 1)), ())) 4 FOPEN_KEEP_CACHE [] () 0 4).1
      = .data [10] := by decide

/-- non-vacuity: the two-chunk mount of `hypotheses_satisfiable`; GETATTR, OPEN, two READs out of order, one beyond the
    end, RELEASE, a READ on the released handle -/
theorem index_mount_example :
    let m : IdxMount := { fname := "blob", chunks := [⟨1, 0, 2⟩, ⟨2, 2, 2⟩], nullID := 0, nullLen := 8 }
    let fetch : Fetch := fun _ id => if id = 1 then some [10, 11] else if id = 2 then some [12, 13] else none
    (m.run modelledFacts fetch
      [.getattr, .lookup "blob", .lookup "x", .open_, .read 0 2 4, .read 0 0 3, .read 0 5 1, .release 0, .read 0 0 1]).1 =
      [.attr 0o100444 4, .entry 0o100000, .err .enoent, .opened 0 2, .data [12, 13], .data [10, 11, 12], .err .eio,
       .released, .err .ebadf] ∧
    (m.userRead modelledFacts fetch [0, 1] 1 10).map (·.1) = some (.data [11, 12, 13]) ∧
    modelledFacts.ok = true ∧ Setup [10, 11, 12, 13] m.newReader fetch := by
  refine ⟨by decide, by decide, by decide, ?_⟩
  exact setup_example.1

end Desync.C09
