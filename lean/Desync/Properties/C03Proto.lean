/-
  C03 over the casync protocol (casync-over-SSH): a chunk obtained through `Protocol.RequestChunk`
  either hashes to the requested ID or the request fails — whatever the other side of the
  connection sends.  (A module of its own because the session proofs build on `Properties/C03.lean`.)

  Model: `Model/ProtoSession.lean` (`clientRun` = `StartProtocol`, one `RequestChunk` per id on the
  same session, `Close`; `clientReply` = the reading half of `RequestChunk`).
-/
import Desync.Proofs.ProtoSessionProofs

namespace Desync.C03
open Desync

/-- **never a wrong chunk**: for ARBITRARY bytes arriving from the server side — a hostile or
    confused server, replies for other chunks, replies labelled with other ids, truncated or
    malformed messages, wrong message types — the client has one result per requested id, and a
    result `.ok c` for the `k`-th id delivers only bytes that hash to that id -/
theorem session_never_wrong_chunk (H : Bytes → Bytes) (dec : Bytes → Option Bytes) (ids : List Bytes)
    (fromServer : Bytes) (k : Nat) (c : ChunkObj)
    (h : (PS.clientRun H dec ids fromServer).results[k]? = some (.ok c)) :
    ∃ id, ids[k]? = some id ∧ ∀ b, delivers dec c b → H b = id :=
  (PS.clientRun_sound H dec ids fromServer).2 k c h

/-- one request: whatever message (or garbage) is read as the reply -/
theorem request_never_wrong_chunk (H : Bytes → Bytes) (dec : Bytes → Option Bytes) (id : Bytes) (s : St) (c : ChunkObj)
    (h : (PS.clientReply H dec id s).1 = .ok c) (b : Bytes) (hb : delivers dec c b) : H b = id :=
  PS.clientReply_sound H dec id s c h b hb

/-- the label in a chunk reply (`m.Body[8:40]`) plays no part: the same reply body under any label
    gives the same result -/
theorem reply_label_ignored (H : Bytes → Bytes) (dec : Bytes → Option Bytes) (id l1 l2 data rest : Bytes) (f : UInt64)
    (a : Nat) (h1 : l1.length = 32) (h2 : l2.length = 32) (hsz : data.length + 56 < 2^64) :
    (PS.clientReply H dec id ⟨writeMessage (chunkMessage l1 f data) ++ rest, a⟩).1 =
    (PS.clientReply H dec id ⟨writeMessage (chunkMessage l2 f data) ++ rest, a⟩).1 := by
  have hd : ∀ l : Bytes, l.length = 32 → (le64 f ++ l ++ data).drop 40 = data := fun l hl =>
    List.drop_left' (by simp [hl])
  have hl : ∀ l : Bytes, l.length = 32 → ¬ (le64 f ++ l ++ data).length < 40 := fun l hl => by simp [hl]; omega
  unfold PS.clientReply
  rw [readMessage_writeMessage _ rest a (by simp [chunkMessage, h1]; omega),
    readMessage_writeMessage _ rest a (by simp [chunkMessage, h2]; omega)]
  simp only [chunkMessage, PS.sliceFrom, hd l1 h1, hd l2 h2, hl l1 h1, hl l2 h2, ↓reduceIte]
  split
  · rfl
  · cases newChunkFromStorage H dec id data [Conv.compressor] false <;> rfl

/-! non-vacuity: with the identity "decompressor" and a digest that is the identity on short
    strings, the reply carrying `[7]` is accepted for the id `[7]` and refused for the id `[8]` -/
example : ∃ c, (PS.clientReply id some [7] ⟨writeMessage (chunkMessage (List.replicate 32 0) 1 [7]), 0⟩).1 = .ok c ∧
    delivers some c [7] := ⟨_, rfl, rfl⟩
example : (PS.clientReply id some [8] ⟨writeMessage (chunkMessage (List.replicate 32 0) 1 [7]), 0⟩).1 = .fail .invalid := rfl

/-- **regenerated obligation** (harness/extract/protofacts.go): `RequestChunk` builds the chunk it returns with
    `NewChunkFromStorage(<the requested id>, m.Body[40:], {Compressor}, false)` behind the guard
    `len(m.Body) < 40`, and has no other way of returning a chunk -/
theorem gen_proto_client_verifies :
    Gen.protoRequestCtorArgs = ["id", "Body[40:]", "[]converter{Compressor{}}", "false"] ∧
    Gen.protoRequestArms = ["CaProtocolMissing→ChunkMissing", "CaProtocolChunk→err,NewChunkFromStorage", "default→err"] ∧
    Gen.protoClientChunkGuardDominates = true ∧ Gen.protoClientChunkSliceLo ≤ Gen.protoClientChunkGuard ∧
    Gen.site_shape_proto_RequestCtorArgs_found = true ∧ Gen.site_shape_proto_RequestArms_found = true := by
  decide

end Desync.C03
