/-
  C20, regenerated obligation: the chunk format option as it reaches the backend constructors.
-/
import Desync.Proofs.StoreOptsGenDefs

namespace Desync.C20
open Desync Desync.StoreOpts

/-- regenerated: `Uncompressed` reaches every backend exactly as the configuration entry of the location has it -/
theorem gen_store_format (i : Gen.StoreoptsIn) :
    (C03.genSFL i).uncompressed = i.cfgB "Uncompressed" ∧ (C03.genISFL i).uncompressed = i.cfgB "Uncompressed" ∧
    Gen.storeoptsSFLUniform = true ∧ Gen.storeoptsISFLUniform = true := by
  refine ⟨?_, ?_, by decide, by decide⟩ <;> optwire

end Desync.C20
