/- C10 — regenerated obligations for the node layer of the sparse mount, for the way the mount ends, and for the system
   calls behind the saved state (harness/extract/mountfsfacts.go) -/
import Desync.Generated.Facts
import Desync.Model.MountFS
import Desync.Model.MountState

namespace Desync.C10
open Desync MountFS

def nodeFactsOf (t : Nat × List String × String × Nat) : NodeFacts :=
  { attrMode := t.1, sizeConv := t.2.1, sizeSrc := t.2.2.1, openFlags := t.2.2.2 }

/-- `sparseIndexFile.Getattr` reports a read-only regular file whose size is the index's length (the field OnAdd fills
    from `SparseFile.Length()` = `idx.Length()`), 64-bit conversions only; Open: no direct-io; OK unless the cache file
    cannot be opened (EIO) -/
theorem gen_sparse_node_facts_ok :
    Gen.site_mountSparse_node_found = true ∧ (nodeFactsOf Gen.mountSparseNodeFacts).ok = true ∧
    Gen.mountSparseOpenReturns = ["2:EIO", "2:OK"] := by decide

/-- `sparseIndexFile.Read`: the bytes `ReadAt` delivered with OK when it returned nil or io.EOF; EIO for every other
    error (go-fuse sends no payload with an errno) -/
theorem gen_sparse_read_returns :
    Gen.site_mountSparse_readReturns_found = true ∧ Gen.mountSparseReadReturns = modelledSparseReadReturns := by decide

theorem gen_sparse_onadd :
    Gen.site_mountSparse_onAdd_found = true ∧
    Gen.mountSparseOnAdd = ["NewPersistentInode:32768", "AddChild:FName:false"] := by decide

/-- how the mount ends and what is saved when: `MountIndex` mounts, a goroutine waits for the context, calls `Close` and
    only then unmounts; `SparseMountFS.Close` is `WriteState`; `runMountIndex` installs a SIGHUP handler that calls
    `WriteState`; `SparseFile.WriteState` = `os.Create` (truncate in place), ONE `Write` of the bitmap taken under the
    loader's lock, Close — no temporary file, no rename, no sync: the steps `saveCreate` / `saveWrite` of
    Model/MountState.lean; `NewSparseFile` writes the blank state BEFORE it truncates the cache file (`initCreate`,
    `initWrite`, `initTruncate`) and pre-loads after that; `loadChunk` sets the done bit after `WriteAt` (`writeThenMark`) -/
theorem gen_mount_state_shape :
    Gen.site_mountIndex_unmount_found = true ∧ Gen.site_mountFS_close_found = true ∧
    Gen.site_sparse_writeState_found = true ∧ Gen.site_sparse_newSparseFile_found = true ∧
    Gen.site_cmd_mountIndex_found = true ∧
    Gen.mountIndexUnmountOrder = ["Mount", "Done", "Close", "Unmount", "Wait"] ∧
    Gen.mountSparseCloseCalls = ["WriteState"] ∧
    Gen.sparseWriteStateOps = ["Create", "writeState", "defer:Close"] ∧
    Gen.sparseLoaderWriteStateOps = ["Lock", "Write", "Data", "defer:Unlock"] ∧
    Gen.newSparseFileOps = ["OpenFile", "Stat", "Open", "loadState", "ReadFile", "WriteState", "Truncate", "preloadChunksFromState"] ∧
    Gen.cmdMountIndexOps = ["NewSparseMountFS", "Notify", "WriteState", "NewIndexMountFS", "MountIndex", "defer:Close"] ∧
    (Gen.sparseLoadChunkShape.idxOf "WriteAt" < Gen.sparseLoadChunkShape.idxOf "done.Set" ∧
      Gen.sparseLoadChunkShape.idxOf "done.Set" < Gen.sparseLoadChunkShape.length) := by decide

end Desync.C10
