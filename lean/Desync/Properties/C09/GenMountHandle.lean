/- C09 — regenerated obligation for mount-index.go / mount-sparse.go: the shape of one read request on a shared
   file handle (harness/extract/mountfacts.go) is the shape `concurrent_handle_reads_exact` is about -/
import Desync.Generated.Facts
import Desync.Model.MountHandle

namespace Desync.C09
open Desync

/-- `indexFileHandle.read` takes the handle's `sync.Mutex`, calls `Seek(off, io.SeekStart)` and then `Read` on the
    handle's reader and releases the mutex afterwards — ONE critical section around both, nothing unlocks in between,
    no mutex operation on an early-return path (the deferred Unlock covers them); `read` is the only method of the
    handle that uses the reader and `indexFile.Read` only calls it.  The sparse mount's handle has no position of its
    own: `sparseIndexFile.Read` calls the positional `ReadAt`, which loads the range and reads the file with `ReadAt`. -/
theorem gen_mount_handle_locked :
    Gen.site_mountIndex_handleRead_found = true ∧ Gen.site_mountIndex_fileRead_found = true ∧
    Gen.site_mountSparse_read_found = true ∧
    MountHandle.shapeOfNames Gen.mountIndexHandleOps = some MountHandle.lockedShape ∧
    Gen.mountIndexHandleErrPathOps = [] ∧ Gen.mountIndexHandleMutexType = "sync.Mutex" ∧
    Gen.mountIndexHandleReaderUsers = ["read"] ∧ Gen.mountIndexFileReadCalls = ["read"] ∧
    Gen.mountSparseReadCalls = ["ReadAt"] ∧
    Gen.mountSparseHandleReadAtCalls = ["sf.loader.loadRange", "file.ReadAt"] := by decide

end Desync.C09
