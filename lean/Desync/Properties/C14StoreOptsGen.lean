/-
  C14, regenerated obligation: the retry options as they reach the backend constructors.
-/
import Desync.Proofs.StoreOptsGenDefs

namespace Desync.C14
open Desync Desync.StoreOpts

/-- regenerated: what reaches the backends -/
theorem gen_store_retry (i : Gen.StoreoptsIn) :
    (C03.genSFL i).errorRetry = (if i.changed "error-retry" then i.flagI "error-retry" else i.cfgI "ErrorRetry") ∧
    (C03.genISFL i).errorRetry = (if i.changed "error-retry" then i.flagI "error-retry" else i.cfgI "ErrorRetry") ∧
    (C03.genSFL i).errorRetryBaseInterval =
      (if i.changed "error-retry-base-interval" then i.flagI "error-retry-base-interval" else i.cfgI "ErrorRetryBaseInterval") ∧
    Gen.storeoptsSFLUniform = true ∧ Gen.storeoptsISFLUniform = true := by
  refine ⟨?_, ?_, ?_, by decide, by decide⟩ <;> optwire

end Desync.C14
