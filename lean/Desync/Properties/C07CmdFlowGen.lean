/-
  Regenerated obligations (C07, command layer): main() and the contexts handed to the long-running calls.
-/
import Desync.Generated.Facts
import Desync.Model.CmdFlow

namespace Desync.C07
open Desync.Cmd

/-- **regenerated obligation**: `main` registers SIGINT and SIGTERM for the channel its handler goroutine waits on, the
    handler calls the cancel function of the context (`context.WithCancel(context.Background())`) every command
    constructor receives, `Execute`'s error leads to `os.Exit` with a non-zero status and nothing else exits, and every
    registered command installs its run function as `RunE` with that context -/
theorem gen_cmdflow_main :
    Gen.cmdflowMain.ok = true ∧ Gen.site_cmdflow_main_found = true ∧
    Gen.cmdflowMain.runs "runMake" = true ∧ Gen.cmdflowMain.runs "runChop" = true ∧
    Gen.cmdflowMain.runs "runCache" = true ∧ Gen.cmdflowMain.runs "runTar" = true ∧
    Gen.cmdflowMain.runs "runUntar" = true ∧ Gen.cmdflowMain.runs "runExtract" = true ∧
    Gen.cmdflowMain.runs "runVerifyIndex" = true := by
  decide

/-- **regenerated obligation**: extract, verify-index, chop, cache, make, tar and untar hand the command's context to
    every long-running call (and `context.Background()` to none), and propagate every error -/
theorem gen_cmdflow_contexts :
    Gen.cmdflow_runMake.longStepsGetCmdCtx = true ∧ Gen.cmdflow_runMake.noBackgroundCtx = true ∧
    Gen.cmdflow_runChop.longStepsGetCmdCtx = true ∧ Gen.cmdflow_runChop.noBackgroundCtx = true ∧
    Gen.cmdflow_runCache.longStepsGetCmdCtx = true ∧ Gen.cmdflow_runCache.noBackgroundCtx = true ∧
    Gen.cmdflow_runTar.longStepsGetCmdCtx = true ∧ Gen.cmdflow_runTar.noBackgroundCtx = true ∧
    Gen.cmdflow_runUntar.longStepsGetCmdCtx = true ∧ Gen.cmdflow_runUntar.noBackgroundCtx = true ∧
    Gen.cmdflow_runExtract.longStepsGetCmdCtx = true ∧ Gen.cmdflow_runExtract.noBackgroundCtx = true ∧
    Gen.cmdflow_runVerifyIndex.longStepsGetCmdCtx = true ∧ Gen.cmdflow_runVerifyIndex.noBackgroundCtx = true ∧
    Gen.cmdflow_writeWithTmpFile.longStepsGetCmdCtx = true ∧ Gen.cmdflow_writeInplace.longStepsGetCmdCtx = true ∧
    Gen.cmdflow_runPrune.longStepsGetCmdCtx = true ∧ Gen.cmdflow_runVerify.longStepsGetCmdCtx = true := by
  decide

/-- **regenerated obligation**: the long-running call of each of these commands is there -/
theorem gen_cmdflow_long_calls :
    Gen.cmdflow_runMake.body.callees.contains "desync.IndexFromFile" = true ∧
    Gen.cmdflow_runChop.body.callees.contains "desync.ChopFile" = true ∧
    Gen.cmdflow_runCache.body.callees.contains "desync.Copy" = true ∧
    Gen.cmdflow_runTar.body.callees.contains "desync.ChunkStream" = true ∧
    Gen.cmdflow_runUntar.body.callees.contains "desync.UnTarIndex" = true ∧
    Gen.cmdflow_runUntar.body.callees.contains "desync.UnTar" = true ∧
    Gen.cmdflow_runExtract.body.callees.contains "writeWithTmpFile" = true ∧
    Gen.cmdflow_runExtract.body.callees.contains "writeInplace" = true ∧
    Gen.cmdflow_writeInplace.body.callees.contains "desync.AssembleFile" = true ∧
    Gen.cmdflow_runVerifyIndex.body.callees.contains "desync.VerifyIndex" = true := by
  decide

end Desync.C07
