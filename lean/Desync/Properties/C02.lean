/-
  C02 — Chunking is deterministic: parallel = sequential = the rolling-hash rule.

  Property theorems (helper lemmas: `Proofs/BuzhashProofs.lean`, `Proofs/ChunkerProofs.lean`).
  Model: `Model/Chunker.lean` (`cutRoll` = the loop of `Chunker.Next`, `Buffered` = the
  buffer/refill logic, `chunkAll` = the chunk sequence of an input), hash table, window size,
  boundary test, refill guard and buffer factor regenerated from `chunker.go`.

  Valid parameters are `winSize ≤ min ≤ avg ≤ max` (`NewChunker`); only `min`, `max` and the
  discriminator `d` derived from `avg` enter the model.

  The parallel file chunker (`IndexFromFile`) is the step machine `Model/ParChunk.lean`; parallel =
  sequential is proved for every interleaving (second half of this file, DESIGN §6 C02 and §12).
-/
import Desync.Proofs.ChunkerProofs
import Desync.Proofs.ParChunkInst
import Desync.Proofs.ChunkStreamProofs

namespace Desync.C02
open Desync

/-- the rolling update used by `Chunker.Next`/`Hash.Roll` computes exactly the direct hash of
    the 48-byte window: rolling never drifts from the window it claims to describe -/
theorem rolling_hash_is_window_hash (out : UInt8) (rest : Bytes) (b : UInt8)
    (h : (out :: rest).length = winSize) :
    rollStep (hashWin (out :: rest)) out b = hashWin (rest ++ [b]) :=
  roll_eq_hashWin out rest b h

/-- **Cut rule**: with more than `min` bytes available the chunk produced by the code ends at
    the first position past `min` where the hash of the 48-byte window ending there meets the
    discriminator, and is forced at `m = min(max, available)` -/
theorem cut_rule (p : ChunkParams) (buf : Bytes) (hw : winSize ≤ p.min) (hmm : p.min < p.max)
    (hlen : p.min < buf.length) :
    let m := if buf.length < p.max then buf.length else p.max
    let k := cutRoll p buf
    p.min < k ∧ k ≤ m ∧ (k = m ∨ boundaryAt p.d buf k = true) ∧
    ∀ j, p.min < j → j < k → boundaryAt p.d buf j = false := by
  rw [cutRoll_eq_cutSpec p buf hw]
  exact cutSpec_first_boundary p buf hlen hmm

/-- with at most `min` bytes left the rest of the input is one (final) chunk -/
theorem short_tail_is_one_chunk (p : ChunkParams) (buf : Bytes) (h : buf.length ≤ p.min) :
    cutRoll p buf = buf.length := by
  unfold cutRoll
  simp [Gen.bufTooShort, h]

/-- `min = max`: every chunk but the last has exactly `max` bytes (the case the pinned tree
    got wrong by one byte) -/
theorem min_eq_max (p : ChunkParams) (buf : Bytes) (h : p.min = p.max) (hlen : p.max ≤ buf.length) :
    cutRoll p buf = p.max := by
  have h1 := cutRoll_le_max p buf (by omega)
  by_cases hl : cutRoll p buf < buf.length
  · have := cutRoll_ge_min p buf (by omega) hl; omega
  · have := cutRoll_le_length p buf; omega

/-- **Tiling**: the chunks cover the input without gap or overlap -/
theorem chunks_tile (p : ChunkParams) (data : Bytes) :
    (chunkLens p data).sum = data.length ∧
    (∀ i (h : i + 1 < (chunkAll p data).length),
      ((chunkAll p data)[i]).1 + ((chunkAll p data)[i]).2 = ((chunkAll p data)[i + 1]).1) ∧
    (∀ c ∈ chunkAll p data, 0 < c.2) := by
  refine ⟨chunkLens_sum p data, ?_, ?_⟩
  · intro i h
    exact chunkAllFrom_tiles 0 (chunkLens p data) i h
  · intro c hc
    have hpos := chunkLens_pos p data
    have : ∀ (s : Nat) (ks : List Nat), (∀ k ∈ ks, 0 < k) → ∀ c ∈ chunkAllFrom s ks, 0 < c.2 := by
      intro s ks
      induction ks generalizing s with
      | nil => intro _ c hc; cases hc
      | cons k ks ih =>
        intro hk c hc
        simp only [chunkAllFrom, List.mem_cons] at hc
        rcases hc with rfl | hc
        · exact hk k (by simp)
        · exact ih (s + k) (fun x hx => hk x (by simp [hx])) c hc
    exact this 0 _ hpos c hc

/-- **Bounds**: no chunk exceeds `max`; every chunk except the last has at least `min` bytes -/
theorem chunk_bounds (p : ChunkParams) (data : Bytes) (hmm : p.min ≤ p.max) (hmax : 0 < p.max) :
    (∀ k ∈ chunkLens p data, k ≤ p.max) ∧ (∀ k ∈ (chunkLens p data).dropLast, p.min ≤ k) :=
  ⟨chunkLens_le_max p data hmm hmax, chunkLens_ge_min p data hmm⟩

/-- **Restart**: chunking again from any cut point reproduces the rest of the sequence (the
    fact the parallel chunker's synchronisation relies on) -/
theorem restart_at_cut (p : ChunkParams) (data : Bytes) (k : Nat) (ks : List Nat)
    (h : chunkLens p data = k :: ks) : chunkLens p (data.drop k) = ks :=
  chunkLens_restart p data k ks h

/-- **Read fragmentation**: the buffered chunker produces `chunkAll` whatever sizes the
    underlying reader returns (1-byte reads, empty reads, anything) -/
theorem fragmentation_independent (p : ChunkParams) (data : Bytes) (frags : List Nat)
    (hw : winSize ≤ p.min) (hmm : p.min ≤ p.max) :
    Buffered.all p (data.length + 1) ⟨⟨data, frags⟩, [], 0, false⟩ = chunkAll p data :=
  buffered_eq_chunkAll p data frags hmm (by have := winSize_eq; omega) (by omega)

/-- only the first `max` bytes after the current position decide the next cut; in particular
    every position that is followed by at least `max` zero bytes yields the same chunk length
    (the fact behind the null-chunk fast-forward of the parallel chunker) -/
theorem zeros_cut_const (p : ChunkParams) (y : Bytes) (hw : winSize ≤ p.min) (hmm : p.min ≤ p.max) :
    cutRoll p (List.replicate p.max 0 ++ y) = cutRoll p (List.replicate p.max 0) :=
  cutRoll_prefix_of_min p _ y hmm (by simp) hw

/-- **Advance**: after `Chunker.Advance(n)` (seekable reader) the chunker produces the single-stream
    chunks of the data `n` bytes further on, at positions shifted by `n` — what the parallel
    chunker's null-chunk fast-forward relies on when it skips over a zero run -/
theorem advance_restarts (p : ChunkParams) (hmm : p.min ≤ p.max) (hmax : 0 < p.max) (hw : winSize ≤ p.max)
    (c : Buffered) (n : Nat) (hinv : c.inv) :
    Buffered.all p ((c.rem.drop n).length + 1) (c.advance n) =
      chunkAllFrom (c.start + n) (chunkLens p (c.rem.drop n)) :=
  Buffered.all_after_advance p hmm hmax hw c n hinv

set_option maxRecDepth 8192 in
/-- regenerated sites this property depends on were all found in /repo, and the loop tests
    the forced cut before the boundary (the order the cut rule above assumes) -/
theorem gen_sites :
    Gen.site_chunker_boundary_found = true ∧ Gen.site_chunker_minGuard_found = true ∧
    Gen.site_chunker_bufSize_found = true ∧ Gen.site_chunker_hashTable_found = true ∧
    Gen.site_const_ChunkerWindowSize_found = true ∧ Gen.hashTable.size = 256 ∧
    Gen.chunkerLoopTests.length = 2 := by
  refine ⟨by decide, by decide, by decide, by decide, by decide, ?_, by decide⟩
  rfl

/-! ### the parallel file chunker (`IndexFromFile`, make.go)

  `Par.step` (`Model/ParChunk.lean`) is the step machine of `IndexFromFile`: n workers, their
  buckets, `syncWith` with the null-chunk fast-forward, the skip of stopped and drained workers
  and the main routine; every channel operation is a step and steps of different goroutines
  interleave arbitrarily.  `Par.envOf p data n` instantiates it with the single-stream chunker of
  `Model/Chunker.lean` (`cut pos = cutRoll p (data.drop pos)`), the worker layout regenerated from
  `IndexFromFile` (`Gen.parNN`, `parSpan`, `parStart`) and "has the null chunk's ID" = a genuine
  chunk of `max` zero bytes.  The machine is tied to the code by its regenerated decisions
  (`Gen.par*`) and by trace validation: event traces recorded from `IndexFromFile` under a
  cooperative scheduler must be runs of `Par.step` (driver command `par.accept`). -/

/-- **parallel = sequential**: for every input, all valid parameters, every requested worker count
    `n ≥ 1` and *every interleaving*: whenever the main routine finishes, it reports success and the
    index is exactly the single-stream chunk sequence -/
theorem parallel_eq_sequential (p : ChunkParams) (data : Bytes) (n : Nat)
    (hw : winSize ≤ p.min) (hmm : p.min ≤ p.max) (hn : 1 ≤ n)
    (s : Par.St) (hr : Par.Reachable (Par.envOf p data n) (Par.init (Par.envOf p data n)) s)
    (ok : Bool) (hf : s.main = .finished ok) :
    ok = true ∧ s.index.map (fun c => (c.start, c.size)) = chunkAll p data :=
  Par.parallel_eq_chunkAll p data n hw hmm hn s hr ok hf

/-- at every moment of every run the index assembled so far is a prefix of the single-stream sequence -/
theorem parallel_index_prefix (p : ChunkParams) (data : Bytes) (n : Nat)
    (hw : winSize ≤ p.min) (hmm : p.min ≤ p.max) (hn : 1 ≤ n)
    (s : Par.St) (hr : Par.Reachable (Par.envOf p data n) (Par.init (Par.envOf p data n)) s) :
    s.index.map (fun c => (c.start, c.size)) <+: chunkAll p data :=
  Par.index_prefix_chunkAll p data n hw hmm hn s hr

/-- **no deadlock**: no reachable state is stuck before the main routine has finished -/
theorem parallel_never_stuck (p : ChunkParams) (data : Bytes) (n : Nat)
    (hw : winSize ≤ p.min) (hmm : p.min ≤ p.max) (hn : 1 ≤ n)
    (s : Par.St) (hr : Par.Reachable (Par.envOf p data n) (Par.init (Par.envOf p data n)) s)
    (hm : ∀ ok, s.main ≠ .finished ok) : ∃ ev s', Par.step (Par.envOf p data n) s ev = some s' :=
  Par.parallel_not_stuck _ _ (Par.envOf_ok p data n hw hmm hn) s hr hm

/-- **termination**: a measure decreases with every step, so every schedule is finite -/
theorem parallel_terminates (p : ChunkParams) (data : Bytes) (n : Nat)
    (hw : winSize ≤ p.min) (hmm : p.min ≤ p.max) (hn : 1 ≤ n) :
    ∃ μ : Par.St → Nat, ∀ s ev s', Par.Reachable (Par.envOf p data n) (Par.init (Par.envOf p data n)) s →
      Par.step (Par.envOf p data n) s ev = some s' → μ s' < μ s :=
  Par.parallel_terminates _ _ (Par.envOf_ok p data n hw hmm hn)

/-- the null chunks a worker writes after `Advance` without reading the data are genuine: each covers
    `max` zero bytes and is the chunk the chunker produces there, so the null chunk's ID is its ID -/
theorem synthesised_null_chunks_genuine (p : ChunkParams) (data : Bytes) (n : Nat)
    (hw : winSize ≤ p.min) (hmm : p.min ≤ p.max) (hn : 1 ≤ n)
    (s : Par.St) (hr : Par.Reachable (Par.envOf p data n) (Par.init (Par.envOf p data n)) s)
    (i : Nat) (w : Par.Worker) (last : Par.Chunk) (k : Nat)
    (hwk : s.workers[i]? = some w) (hpc : w.pc = .advance last k) :
    ∀ j, j < k → (Par.envOf p data n).isNull ⟨last.fin + j * p.max, p.max⟩ = true :=
  Par.synthesised_null_chunks_genuine p data n hw hmm hn s hr i w last k hwk hpc

/-- sends never block: a worker's bucket never holds more chunks than the capacity
    `mChunks = (size - start)/min + 1` its channel is created with -/
theorem bucket_within_capacity (p : ChunkParams) (data : Bytes) (n : Nat)
    (hw : winSize ≤ p.min) (hmm : p.min ≤ p.max) (hn : 1 ≤ n)
    (s : Par.St) (hr : Par.Reachable (Par.envOf p data n) (Par.init (Par.envOf p data n)) s)
    (i : Nat) (w : Par.Worker) (o : Nat)
    (hwk : s.workers[i]? = some w) (ho : (Par.offsetsOf data.length p.max n)[i]? = some o) :
    w.bucket.length ≤ Gen.parMChunks data.length o p.min :=
  Par.bucket_within_capacity p data n hw hmm hn s hr i w o hwk ho

/-- the decisions and the order of operations the machine is built from were all found in make.go,
    and the order of `pChunker.start` is the one the machine implements -/
theorem gen_par_sites :
    Gen.site_par_loopCond_found = true ∧ Gen.site_par_matchCond_found = true ∧ Gen.site_par_nullCond_found = true ∧
    Gen.site_par_nInit_found = true ∧ Gen.site_par_nStep_found = true ∧ Gen.site_par_numNull_found = true ∧
    Gen.site_par_skipCond_found = true ∧ Gen.site_par_stopCond_found = true ∧ Gen.site_par_finalErrCond_found = true ∧
    Gen.site_par_nn_found = true ∧ Gen.site_par_nnCond_found = true ∧ Gen.site_par_span_found = true ∧
    Gen.site_par_start_found = true ∧ Gen.site_par_mChunks_found = true ∧ Gen.site_shape_par_start_found = true ∧
    Gen.parStartShape = Par.modelledStartShape := by decide

/-! ### the stream chunker's worker pool (`ChunkStream`, index.go: `make` of a stream, `tar -i`)

  `CStream.step` (`Model/ChunkStream.lean`): the feeder numbers the chunks the chunker yields and
  hands them to N workers; a worker records the index row under the job's number in the shared
  `results` map, then stores the chunk; after `g.Wait()` the index is `chunks[i] = results[i]`.
  Every channel operation, `recordResult` call and store call is a step; steps of different
  goroutines interleave arbitrarily; store outcomes, chunker errors and cancellation are events. -/

/-- **stream index = single-stream result, for every worker count and every interleaving**: a
    successful `ChunkStream` returns one row per chunk of the chunker's output, in order, with
    `Start` = the chunk's offset, `Size` = its length and `ID` = the digest of its bytes -/
theorem chunkstream_index_exact (H : Bytes → Bytes) (jobs : List (Nat × Bytes)) (n : Nat) (s : CStream.St)
    (h : CStream.Reachable H (CStream.St.init jobs n) s) (rows : List CStream.Row)
    (hr : s.result = some (.ok rows)) : rows = CStream.expected H jobs :=
  CStream.index_exact H jobs n s h rows hr

/-- … instantiated with the chunker model: the rows are those of `chunkAll p data` -/
theorem chunkstream_index_is_chunkAll (H : Bytes → Bytes) (p : ChunkParams) (data : Bytes) (n : Nat) (s : CStream.St)
    (h : CStream.Reachable H
      (CStream.St.init ((chunkAll p data).map fun c => (c.1, (data.drop c.1).take c.2)) n) s)
    (rows : List CStream.Row) (hr : s.result = some (.ok rows)) :
    rows = (chunkAll p data).map fun c =>
      ⟨c.1, ((data.drop c.1).take c.2).length, H ((data.drop c.1).take c.2)⟩ := by
  rw [CStream.index_exact H _ n s h rows hr]
  simp [CStream.expected, CStream.rowOf, List.map_map, Function.comp_def]

/-- the pool cannot get stuck -/
theorem chunkstream_never_stuck (H : Bytes → Bytes) (jobs : List (Nat × Bytes)) (n : Nat) (hn : 1 ≤ n) (s : CStream.St)
    (h : CStream.Reachable H (CStream.St.init jobs n) s) (hr : s.result = none) :
    ∃ e s', CStream.step H s e = some s' :=
  CStream.no_deadlock H jobs n hn s h hr

/-! the regenerated obligation `gen_chunkstream_shape` lives in its own module
    (`Properties/C02/GenChunkStream.lean`), so that a rewrite of `ChunkStream` leaves the theorems above checked -/

/-! ### non-vacuity -/

/-- a complete run of the stream machine with two workers finishing out of order -/
example : (CStream.run (fun b => [b.length.toUInt8]) (CStream.St.init [(0, [1, 2]), (2, [3]), (3, [4, 5, 6])] 2)
    [.feedSend 1, .feedSend 0, .record 0, .storeOk 0, .feedSend 0, .record 0, .record 1, .storeOk 1, .storeOk 0,
     .feedEnd, .workExit 0, .workExit 1, .wait]).result =
    some (.ok [⟨0, 2, [2]⟩, ⟨2, 1, [1]⟩, ⟨3, 3, [3]⟩]) := by decide

example : (⟨48, 128, 70⟩ : ChunkParams).valid 64 = true := by decide
example : winSize ≤ (⟨48, 128, 70⟩ : ChunkParams).min ∧ (48 : Nat) < 128 := by decide

end Desync.C02
