/-
  C02 — Chunking is deterministic: parallel = sequential = the rolling-hash rule.

  Property theorems (helper lemmas: `Proofs/BuzhashProofs.lean`, `Proofs/ChunkerProofs.lean`).
  Model: `Model/Chunker.lean` (`cutRoll` = the loop of `Chunker.Next`, `Buffered` = the
  buffer/refill logic, `chunkAll` = the chunk sequence of an input), hash table, window size,
  boundary test, refill guard and buffer factor regenerated from `chunker.go`.

  Valid parameters are `winSize ≤ min ≤ avg ≤ max` (`NewChunker`); only `min`, `max` and the
  discriminator `d` derived from `avg` enter the model.

  The parallel file chunker (`IndexFromFile`) is covered by the correspondence and the
  implementation monitor only in this revision; its full statement is kept below as
  `parallel_eq_sequential_stmt` (a `Prop`, not a theorem) — see DESIGN §6 C02.
-/
import Desync.Proofs.ChunkerProofs

namespace Desync.C02
open Desync

/-- the rolling update used by `Chunker.Next`/`Hash.Roll` computes exactly the direct hash of
    the 48-byte window: rolling never drifts from the window it claims to describe -/
theorem rolling_hash_is_window_hash (out : UInt8) (rest : Bytes) (b : UInt8)
    (h : (out :: rest).length = winSize) :
    rollStep (hashWin (out :: rest)) out b = hashWin (rest ++ [b]) :=
  roll_eq_hashWin out rest b h

/-- **Cut rule**: with more than `min` bytes available the chunk produced by the code ends at
    the first position past `min` where the hash of the 48-byte window ending there meets the
    discriminator, and is forced at `m = min(max, available)` -/
theorem cut_rule (p : ChunkParams) (buf : Bytes) (hw : winSize ≤ p.min) (hmm : p.min < p.max)
    (hlen : p.min < buf.length) :
    let m := if buf.length < p.max then buf.length else p.max
    let k := cutRoll p buf
    p.min < k ∧ k ≤ m ∧ (k = m ∨ boundaryAt p.d buf k = true) ∧
    ∀ j, p.min < j → j < k → boundaryAt p.d buf j = false := by
  rw [cutRoll_eq_cutSpec p buf hw]
  exact cutSpec_first_boundary p buf hlen hmm

/-- with at most `min` bytes left the rest of the input is one (final) chunk -/
theorem short_tail_is_one_chunk (p : ChunkParams) (buf : Bytes) (h : buf.length ≤ p.min) :
    cutRoll p buf = buf.length := by
  unfold cutRoll
  simp [Gen.bufTooShort, h]

/-- `min = max`: every chunk but the last has exactly `max` bytes (the case the pinned tree
    got wrong by one byte) -/
theorem min_eq_max (p : ChunkParams) (buf : Bytes) (h : p.min = p.max) (hlen : p.max ≤ buf.length) :
    cutRoll p buf = p.max := by
  have h1 := cutRoll_le_max p buf (by omega)
  by_cases hl : cutRoll p buf < buf.length
  · have := cutRoll_ge_min p buf (by omega) hl; omega
  · have := cutRoll_le_length p buf; omega

/-- **Tiling**: the chunks cover the input without gap or overlap -/
theorem chunks_tile (p : ChunkParams) (data : Bytes) :
    (chunkLens p data).sum = data.length ∧
    (∀ i (h : i + 1 < (chunkAll p data).length),
      ((chunkAll p data)[i]).1 + ((chunkAll p data)[i]).2 = ((chunkAll p data)[i + 1]).1) ∧
    (∀ c ∈ chunkAll p data, 0 < c.2) := by
  refine ⟨chunkLens_sum p data, ?_, ?_⟩
  · intro i h
    exact chunkAllFrom_tiles 0 (chunkLens p data) i h
  · intro c hc
    have hpos := chunkLens_pos p data
    have : ∀ (s : Nat) (ks : List Nat), (∀ k ∈ ks, 0 < k) → ∀ c ∈ chunkAllFrom s ks, 0 < c.2 := by
      intro s ks
      induction ks generalizing s with
      | nil => intro _ c hc; cases hc
      | cons k ks ih =>
        intro hk c hc
        simp only [chunkAllFrom, List.mem_cons] at hc
        rcases hc with rfl | hc
        · exact hk k (by simp)
        · exact ih (s + k) (fun x hx => hk x (by simp [hx])) c hc
    exact this 0 _ hpos c hc

/-- **Bounds**: no chunk exceeds `max`; every chunk except the last has at least `min` bytes -/
theorem chunk_bounds (p : ChunkParams) (data : Bytes) (hmm : p.min ≤ p.max) (hmax : 0 < p.max) :
    (∀ k ∈ chunkLens p data, k ≤ p.max) ∧ (∀ k ∈ (chunkLens p data).dropLast, p.min ≤ k) :=
  ⟨chunkLens_le_max p data hmm hmax, chunkLens_ge_min p data hmm⟩

/-- **Restart**: chunking again from any cut point reproduces the rest of the sequence (the
    fact the parallel chunker's synchronisation relies on) -/
theorem restart_at_cut (p : ChunkParams) (data : Bytes) (k : Nat) (ks : List Nat)
    (h : chunkLens p data = k :: ks) : chunkLens p (data.drop k) = ks :=
  chunkLens_restart p data k ks h

/-- **Read fragmentation**: the buffered chunker produces `chunkAll` whatever sizes the
    underlying reader returns (1-byte reads, empty reads, anything) -/
theorem fragmentation_independent (p : ChunkParams) (data : Bytes) (frags : List Nat)
    (hw : winSize ≤ p.min) (hmm : p.min ≤ p.max) :
    Buffered.all p (data.length + 1) ⟨⟨data, frags⟩, [], 0, false⟩ = chunkAll p data :=
  buffered_eq_chunkAll p data frags hmm (by have := winSize_eq; omega) (by omega)

/-- only the first `max` bytes after the current position decide the next cut; in particular
    every position that is followed by at least `max` zero bytes yields the same chunk length
    (the fact behind the null-chunk fast-forward of the parallel chunker) -/
theorem zeros_cut_const (p : ChunkParams) (y : Bytes) (hw : winSize ≤ p.min) (hmm : p.min ≤ p.max) :
    cutRoll p (List.replicate p.max 0 ++ y) = cutRoll p (List.replicate p.max 0) :=
  cutRoll_prefix_of_min p _ y hmm (by simp) hw

/-- **Advance**: after `Chunker.Advance(n)` (seekable reader) the chunker produces the single-stream
    chunks of the data `n` bytes further on, at positions shifted by `n` — what the parallel
    chunker's null-chunk fast-forward relies on when it skips over a zero run -/
theorem advance_restarts (p : ChunkParams) (hmm : p.min ≤ p.max) (hmax : 0 < p.max) (hw : winSize ≤ p.max)
    (c : Buffered) (n : Nat) (hinv : c.inv) :
    Buffered.all p ((c.rem.drop n).length + 1) (c.advance n) =
      chunkAllFrom (c.start + n) (chunkLens p (c.rem.drop n)) :=
  Buffered.all_after_advance p hmm hmax hw c n hinv

set_option maxRecDepth 8192 in
/-- regenerated sites this property depends on were all found in /repo, and the loop tests
    the forced cut before the boundary (the order the cut rule above assumes) -/
theorem gen_sites :
    Gen.site_chunker_boundary_found = true ∧ Gen.site_chunker_minGuard_found = true ∧
    Gen.site_chunker_bufSize_found = true ∧ Gen.site_chunker_hashTable_found = true ∧
    Gen.site_const_ChunkerWindowSize_found = true ∧ Gen.hashTable.size = 256 ∧
    Gen.chunkerLoopTests.length = 2 := by
  refine ⟨by decide, by decide, by decide, by decide, by decide, ?_, by decide⟩
  rfl

/-! ### the parallel chunker — full statement, not proved in this revision -/

/-- For every input, valid parameters, worker count `n ≥ 1` and goroutine interleaving, every
    terminal state of the parallel machine holds the index `chunkAll p data` with IDs `H(slice)`.
    `parRun` stands for the step machine of `make.go` (DESIGN appendix A.9). -/
def parallel_eq_sequential_stmt
    (parRun : ChunkParams → Bytes → Nat → List Nat → Option (List (Nat × Nat))) : Prop :=
  ∀ (p : ChunkParams) (data : Bytes) (n : Nat) (schedule : List Nat),
    winSize ≤ p.min → p.min ≤ p.max → 1 ≤ n →
    ∀ r, parRun p data n schedule = some r → r = chunkAll p data

/-! ### non-vacuity -/

example : (⟨48, 128, 70⟩ : ChunkParams).valid 64 = true := by decide
example : winSize ≤ (⟨48, 128, 70⟩ : ChunkParams).min ∧ (48 : Nat) < 128 := by decide

end Desync.C02
