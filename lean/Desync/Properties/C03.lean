/-
  C03 — No chunk is delivered that does not hash to the requested ID.

  Model: `Model/Chunk.lean` (chunk objects, `NewChunkFromStorage`, `NewChunkWithID`, `Data()`,
  `ID()`).  Every backend (`LocalStore`, `RemoteHTTP`, `S3Store`, `SFTPStore`, the casync
  protocol's `RequestChunk`) builds the chunk it returns with `NewChunkFromStorage(id, raw,
  converters, skipVerify)` from whatever bytes the transport delivered; every wrapper (cache,
  router, failover group, de-duplication queues, swap store) returns the chunk object of a
  member unchanged.  The theorems quantify over *all* raw bytes and *all* decompression
  functions `dec`, which covers every corruption of the stored object.
-/
import Desync.Model.Chunk

namespace Desync.C03
open Desync

/-- what a consumer gets from a chunk: the bytes returned by `Data()` -/
def delivers (dec : Bytes → Option Bytes) (c : ChunkObj) (b : Bytes) : Prop :=
  (c.getData dec).1 = some b

theorem getData_cached (dec : Bytes → Option Bytes) (c : ChunkObj) (b : Bytes) (c' : ChunkObj)
    (h : c.getData dec = (some b, c')) : c'.getData dec = (some b, c') ∨ (b = [] ∧ c'.data = []) := by
  unfold ChunkObj.getData at h
  split at h
  · rename_i hd
    injection h with h1 h2; injection h1 with h1; subst h1; subst h2
    left; unfold ChunkObj.getData; simp [hd]
  · split at h
    · rename_i hs
      split at h
      · rename_i d hdec
        injection h with h1 h2; injection h1 with h1; subst h1; subst h2
        by_cases hb : d.length > 0
        · left; unfold ChunkObj.getData; simp [hb]
        · right
          have : d = [] := by
            cases d with
            | nil => rfl
            | cons x xs => simp at hb
          simp [this]
      · cases h
    · cases h

/-- characterisation of an accepted chunk: either the storage decoded to data hashing to the ID
    (and that data is cached in the chunk), or nothing could be decoded and the ID is all-zero -/
theorem fromStorage_ok_cases (H : Bytes → Bytes) (dec : Bytes → Option Bytes)
    (id raw : Bytes) (convs : List Conv) (c : ChunkObj)
    (h : newChunkFromStorage H dec id raw convs false = .ok c) :
    (∃ d, raw.length > 0 ∧ fromStorage dec convs raw = some d ∧ H d = id ∧
        c = { data := d, storage := raw, convs := convs, id := H d, idCalculated := true }) ∨
    ((raw.length = 0 ∨ fromStorage dec convs raw = none) ∧
        c = { storage := raw, convs := convs, id := id }) := by
  by_cases hl : raw.length > 0
  · cases hdec : fromStorage dec convs raw with
    | none =>
      right
      simp only [newChunkFromStorage, ChunkObj.getID, ChunkObj.getData, List.length_nil, gt_iff_lt,
        Nat.lt_irrefl, hl, hdec, Bool.false_eq_true, ↓reduceIte] at h
      split at h
      · cases h
      · injection h with h; exact ⟨.inr rfl, h.symm⟩
    | some d =>
      left
      simp only [newChunkFromStorage, ChunkObj.getID, ChunkObj.getData, List.length_nil, gt_iff_lt,
        Nat.lt_irrefl, hl, hdec, Bool.false_eq_true, ↓reduceIte] at h
      split at h
      · cases h
      · rename_i hsum
        injection h with h
        exact ⟨d, hl, rfl, by simpa using hsum, h.symm⟩
  · right
    simp only [newChunkFromStorage, ChunkObj.getID, ChunkObj.getData, List.length_nil, gt_iff_lt,
      Nat.lt_irrefl, hl, Bool.false_eq_true, ↓reduceIte] at h
    split at h
    · cases h
    · injection h with h; exact ⟨.inl (by omega), h.symm⟩

/-- **Soundness of the constructor**: with verification on, a chunk built from storage bytes
    delivers only data that hashes to the requested ID — for all raw bytes and all `dec` -/
theorem fromStorage_sound (H : Bytes → Bytes) (dec : Bytes → Option Bytes)
    (id raw : Bytes) (convs : List Conv) (c : ChunkObj)
    (h : newChunkFromStorage H dec id raw convs false = .ok c) (b : Bytes)
    (hb : delivers dec c b) : H b = id := by
  unfold delivers at hb
  rcases fromStorage_ok_cases H dec id raw convs c h with ⟨d, hl, hdec, hH, rfl⟩ | ⟨hno, rfl⟩
  · unfold ChunkObj.getData at hb
    simp only at hb
    split at hb
    · simp only [Option.some.injEq] at hb; subst hb; exact hH
    · simp only [hl, ↓reduceIte, hdec, Option.some.injEq] at hb
      subst hb; exact hH
  · unfold ChunkObj.getData at hb
    simp only [List.length_nil, gt_iff_lt, Nat.lt_irrefl, ↓reduceIte] at hb
    rcases hno with h0 | hd
    · simp [h0] at hb
    · split at hb
      · simp [hd] at hb
      · simp at hb

/-- the same for `NewChunkWithID` (plain data, used by the HTTP chunk server's PUT handler and
    by the null/seed paths) -/
theorem withID_sound (H : Bytes → Bytes) (dec : Bytes → Option Bytes) (id data : Bytes) (c : ChunkObj)
    (h : newChunkWithID H dec id data false = .ok c) (b : Bytes) (hb : delivers dec c b) : H b = id := by
  unfold delivers at hb
  by_cases hl : data.length > 0
  · simp only [newChunkWithID, ChunkObj.getID, ChunkObj.getData, hl, Bool.false_eq_true, ↓reduceIte] at h
    split at h
    · cases h
    · rename_i hsum
      injection h with h
      subst h
      simp only [ChunkObj.getData, hl, ↓reduceIte, Option.some.injEq] at hb
      subst hb
      simpa using hsum
  · simp only [newChunkWithID, ChunkObj.getID, ChunkObj.getData, hl, List.length_nil, gt_iff_lt,
      Nat.lt_irrefl, Bool.false_eq_true, ↓reduceIte] at h
    split at h
    · cases h
    · injection h with h
      subst h
      simp [ChunkObj.getData, hl] at hb

/-- **Corrupted objects are refused**: if the stored bytes decode to something that does not
    hash to the ID (bit flip, truncation that still decodes, another chunk's valid object, a
    valid frame of other data) the constructor reports `ChunkInvalid` -/
theorem corrupted_refused (H : Bytes → Bytes) (dec : Bytes → Option Bytes) (id raw d : Bytes)
    (convs : List Conv) (hraw : raw ≠ []) (hdec : fromStorage dec convs raw = some d) (hne : H d ≠ id) :
    ∃ r, newChunkFromStorage H dec id raw convs false = r ∧ (∀ c, r ≠ .ok c) := by
  refine ⟨_, rfl, ?_⟩
  intro c hc
  have hlen : raw.length > 0 := by
    cases raw with
    | nil => exact absurd rfl hraw
    | cons x xs => simp
  unfold newChunkFromStorage at hc
  simp only [Bool.false_eq_true, ↓reduceIte] at hc
  unfold ChunkObj.getID at hc
  simp only [Bool.false_eq_true, ↓reduceIte] at hc
  unfold ChunkObj.getData at hc
  simp only [List.length_nil, gt_iff_lt, Nat.lt_irrefl, ↓reduceIte, hlen, hdec] at hc
  simp [hne] at hc

/-- undecodable or empty objects deliver nothing (even in the all-zero-ID corner where the
    constructor accepts them) -/
theorem undecodable_delivers_nothing (H : Bytes → Bytes) (dec : Bytes → Option Bytes) (id raw : Bytes)
    (convs : List Conv) (c : ChunkObj) (hdec : fromStorage dec convs raw = none)
    (h : newChunkFromStorage H dec id raw convs false = .ok c) : ∀ b, ¬ delivers dec c b := by
  intro b hb
  unfold delivers at hb
  rcases fromStorage_ok_cases H dec id raw convs c h with ⟨d, _, hd, _, _⟩ | ⟨_, rfl⟩
  · rw [hdec] at hd; cases hd
  · unfold ChunkObj.getData at hb
    simp only [List.length_nil, gt_iff_lt, Nat.lt_irrefl, ↓reduceIte, hdec] at hb
    split at hb <;> simp at hb

/-! non-vacuity: with the identity "decompressor" and a digest that is the identity on one-byte
    strings, good bytes are accepted and delivered, other bytes are refused -/
example : ∃ c, newChunkFromStorage id some [7] [7] [] false = .ok c ∧ delivers some c [7] :=
  ⟨_, rfl, rfl⟩
example : ∀ c, newChunkFromStorage id some [7] [8] [] false ≠ .ok c := by
  intro c h; simp [newChunkFromStorage, ChunkObj.getID, ChunkObj.getData, fromStorage] at h

end Desync.C03
