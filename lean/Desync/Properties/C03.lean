/-
  C03 — No chunk is delivered that does not hash to the requested ID.

  Model: `Model/Chunk.lean` (chunk objects, `NewChunkFromStorage`, `NewChunkWithID`, `Data()`,
  `ID()`).  Every backend (`LocalStore`, `RemoteHTTP`, `S3Store`, `SFTPStore`, the casync
  protocol's `RequestChunk`) builds the chunk it returns with `NewChunkFromStorage(id, raw,
  converters, skipVerify)` from whatever bytes the transport delivered; every wrapper (cache,
  router, failover group, de-duplication queues, swap store) returns the chunk object of a
  member unchanged.  The theorems quantify over *all* raw bytes and *all* decompression
  functions `dec`, which covers every corruption of the stored object.

  `NewChunkFromStorage` obtains the data before it compares IDs, so an undecodable or empty
  object is refused for every requested ID, the all-zero one included.
-/
import Desync.Model.Chunk
import Desync.Generated.Facts

namespace Desync.C03
open Desync

/-- what a consumer gets from a chunk: the bytes returned by `Data()` -/
def delivers (dec : Bytes → Option Bytes) (c : ChunkObj) (b : Bytes) : Prop :=
  (c.getData dec).1 = some b

theorem getData_cached (dec : Bytes → Option Bytes) (c : ChunkObj) (b : Bytes) (c' : ChunkObj)
    (h : c.getData dec = (some b, c')) : c'.getData dec = (some b, c') ∨ (b = [] ∧ c'.data = []) := by
  unfold ChunkObj.getData at h
  split at h
  · rename_i hd
    injection h with h1 h2; injection h1 with h1; subst h1; subst h2
    left; unfold ChunkObj.getData; simp [hd]
  · split at h
    · rename_i hs
      split at h
      · rename_i d hdec
        injection h with h1 h2; injection h1 with h1; subst h1; subst h2
        by_cases hb : d.length > 0
        · left; unfold ChunkObj.getData; simp [hb]
        · right
          have : d = [] := by
            cases d with
            | nil => rfl
            | cons x xs => simp at hb
          simp [this]
      · cases h
    · cases h

/-- the constructor with verification on, computed: it answers `.ok` exactly when the stored
    bytes are non-empty, decode, and the decoded data hashes to the requested ID -/
theorem fromStorage_eq (H : Bytes → Bytes) (dec : Bytes → Option Bytes)
    (id raw : Bytes) (convs : List Conv) :
    newChunkFromStorage H dec id raw convs false =
      if raw.length > 0 then
        match fromStorage dec convs raw with
        | none => .invalid
        | some d =>
          if H d = id then
            .ok { data := d, storage := raw, convs := convs, id := H d, idCalculated := true }
          else .invalid
      else .invalid := by
  by_cases hl : raw.length > 0
  · cases hdec : fromStorage dec convs raw with
    | none =>
      simp [newChunkFromStorage, ChunkObj.getData, hl, hdec]
    | some d =>
      by_cases hd : d.length > 0
      · simp [newChunkFromStorage, ChunkObj.getID, ChunkObj.getData, hl, hdec, hd]
      · have hd0 : d = [] := by
          cases d with
          | nil => rfl
          | cons x xs => simp at hd
        subst hd0
        simp [newChunkFromStorage, ChunkObj.getID, ChunkObj.getData, hl, hdec]
  · simp [newChunkFromStorage, ChunkObj.getData, hl]

/-- characterisation of an accepted chunk: the stored bytes are non-empty, they decode to data
    hashing to the ID, and that data is cached in the chunk.  (The decoded data `d` may be the empty
    list — a valid frame of nothing: then `data := []` caches nothing, `Data()` decodes the storage
    again and yields `[]` again, and the ID that was compared is `H []`; the statement is the same.) -/
theorem fromStorage_ok_cases (H : Bytes → Bytes) (dec : Bytes → Option Bytes)
    (id raw : Bytes) (convs : List Conv) (c : ChunkObj)
    (h : newChunkFromStorage H dec id raw convs false = .ok c) :
    ∃ d, raw.length > 0 ∧ fromStorage dec convs raw = some d ∧ H d = id ∧
        c = { data := d, storage := raw, convs := convs, id := H d, idCalculated := true } := by
  rw [fromStorage_eq] at h
  split at h
  · rename_i hl
    split at h
    · cases h
    · rename_i d hdec
      split at h
      · rename_i hH
        injection h with h
        exact ⟨d, hl, hdec, hH, h.symm⟩
      · cases h
  · cases h

/-- an accepted chunk does deliver: `Data()` succeeds, with the decoded storage -/
theorem fromStorage_ok_delivers (H : Bytes → Bytes) (dec : Bytes → Option Bytes)
    (id raw : Bytes) (convs : List Conv) (c : ChunkObj)
    (h : newChunkFromStorage H dec id raw convs false = .ok c) :
    ∃ d, fromStorage dec convs raw = some d ∧ delivers dec c d := by
  obtain ⟨d, hl, hdec, _, rfl⟩ := fromStorage_ok_cases H dec id raw convs c h
  refine ⟨d, hdec, ?_⟩
  unfold delivers ChunkObj.getData
  simp only
  split
  · rfl
  · simp [hdec]

/-- **Soundness of the constructor**: with verification on, a chunk built from storage bytes
    delivers only data that hashes to the requested ID — for all raw bytes and all `dec` -/
theorem fromStorage_sound (H : Bytes → Bytes) (dec : Bytes → Option Bytes)
    (id raw : Bytes) (convs : List Conv) (c : ChunkObj)
    (h : newChunkFromStorage H dec id raw convs false = .ok c) (b : Bytes)
    (hb : delivers dec c b) : H b = id := by
  unfold delivers at hb
  obtain ⟨d, hl, hdec, hH, rfl⟩ := fromStorage_ok_cases H dec id raw convs c h
  unfold ChunkObj.getData at hb
  simp only at hb
  split at hb
  · simp only [Option.some.injEq] at hb; subst hb; exact hH
  · simp only [hdec, Option.some.injEq] at hb
    subst hb; exact hH

/-- the same for `NewChunkWithID` (plain data, used by the HTTP chunk server's PUT handler and
    by the null/seed paths) -/
theorem withID_sound (H : Bytes → Bytes) (dec : Bytes → Option Bytes) (id data : Bytes) (c : ChunkObj)
    (h : newChunkWithID H dec id data false = .ok c) (b : Bytes) (hb : delivers dec c b) : H b = id := by
  unfold delivers at hb
  by_cases hl : data.length > 0
  · simp only [newChunkWithID, ChunkObj.getID, ChunkObj.getData, hl, Bool.false_eq_true, ↓reduceIte] at h
    split at h
    · cases h
    · rename_i hsum
      injection h with h
      subst h
      simp only [ChunkObj.getData, hl, ↓reduceIte, Option.some.injEq] at hb
      subst hb
      simpa using hsum
  · simp only [newChunkWithID, ChunkObj.getID, ChunkObj.getData, hl, List.length_nil, gt_iff_lt,
      Nat.lt_irrefl, Bool.false_eq_true, ↓reduceIte] at h
    split at h
    · cases h
    · injection h with h
      subst h
      simp [ChunkObj.getData, hl] at hb

/-- **Corrupted objects are refused**: if the stored bytes decode to something that does not
    hash to the ID (bit flip, truncation that still decodes, another chunk's valid object, a
    valid frame of other data) the constructor reports `ChunkInvalid` -/
theorem corrupted_refused (H : Bytes → Bytes) (dec : Bytes → Option Bytes) (id raw d : Bytes)
    (convs : List Conv) (hdec : fromStorage dec convs raw = some d) (hne : H d ≠ id) :
    newChunkFromStorage H dec id raw convs false = .invalid := by
  rw [fromStorage_eq]
  split
  · simp [hdec, hne]
  · rfl

/-- **Undecodable or empty objects are refused**, whatever ID was asked for — the all-zero ID
    included (before the repair of `NewChunkFromStorage` the zero ID that `ID()` yields on a
    decoding error was taken for a match there) -/
theorem undecodable_is_refused (H : Bytes → Bytes) (dec : Bytes → Option Bytes) (id raw : Bytes)
    (convs : List Conv) :
    (fromStorage dec convs raw = none → newChunkFromStorage H dec id raw convs false = .invalid) ∧
    (raw = [] → newChunkFromStorage H dec id raw convs false = .invalid) := by
  refine ⟨fun hdec => ?_, fun hraw => ?_⟩
  · rw [fromStorage_eq]
    split
    · simp [hdec]
    · rfl
  · subst hraw
    rw [fromStorage_eq]
    simp

/-! non-vacuity: with the identity "decompressor" and a digest that is the identity on one-byte
    strings, good bytes are accepted and delivered, other bytes are refused -/
example : ∃ c, newChunkFromStorage id some [7] [7] [] false = .ok c ∧ delivers some c [7] :=
  ⟨_, rfl, rfl⟩
example : ∀ c, newChunkFromStorage id some [7] [8] [] false ≠ .ok c := by
  intro c h; simp [newChunkFromStorage, ChunkObj.getID, ChunkObj.getData, fromStorage] at h
/-- a decompressor that rejects everything: `[1, 2, 3]` behind one compression layer is garbage,
    and it is refused under the all-zero ID too (with a digest that maps everything to that ID) -/
example : newChunkFromStorage (fun _ => zeroID) (fun _ => none) zeroID [1, 2, 3] [.compressor] false
    = .invalid := rfl
example : newChunkFromStorage (fun _ => zeroID) some zeroID [] [] false = .invalid := rfl
/-- the hypotheses of `undecodable_is_refused` are satisfiable -/
example : fromStorage (fun _ => none) [.compressor] [1, 2, 3] = none := rfl
/-- decoded data may be empty: an object that decodes to `[]` is accepted under the ID `H []`
    and delivers `[]` -/
example : ∃ c, newChunkFromStorage (fun _ => [9]) (fun _ => some []) [9] [1] [.compressor] false = .ok c ∧
    delivers (fun _ => some []) c [] := ⟨_, rfl, rfl⟩

/-- **regenerated obligation**: every store backend builds the chunk it returns with
    `NewChunkFromStorage(id, bytes, its converters, its SkipVerify option)` for the requested `id`, returns
    that call's result directly, and has no other way of returning a chunk (no memo, no cache of "already
    verified" IDs); the casync-protocol client always verifies.  (The constructor itself is compared with the
    model exhaustively — `chunk.fromstorage` — rather than by its spelling: `Gen.ctorFromStorageBody` is recorded
    for the reader, not required.) -/
theorem gen_backends_construct_verified :
    Gen.ctorLocal = ["id", "converters", "SkipVerify", "returned"] ∧
    Gen.ctorHTTP = ["id", "converters", "SkipVerify", "returned"] ∧
    Gen.ctorS3 = ["id", "converters", "SkipVerify", "returned"] ∧
    Gen.ctorSFTP = ["id", "converters", "SkipVerify", "returned"] ∧
    Gen.ctorGCS = ["id", "converters", "SkipVerify", "returned"] ∧
    Gen.ctorProtocol = ["id", "literal:{…}", "false", "returned"] ∧
    Gen.site_ctor_Local_found = true ∧ Gen.site_ctor_HTTP_found = true ∧ Gen.site_ctor_S3_found = true ∧
    Gen.site_ctor_SFTP_found = true ∧ Gen.site_ctor_GCS_found = true ∧ Gen.site_ctor_Protocol_found = true ∧
    Gen.site_ctor_NewChunkFromStorage_found = true := by
  decide

/-- **regenerated obligation**: every wrapper (cache, repairable cache, router, failover group, de-duplication
    queues, swap wrapper) returns only chunks that a member's `GetChunk` returned for the requested ID — or, in the
    de-duplication queues, the result published for that ID's in-flight request: a wrapper never builds, converts
    or caches a chunk object of its own, so what the backends verified is what the caller gets -/
theorem gen_wrappers_forward_member_chunks :
    Gen.provCache = ["member.GetChunk(id)"] ∧ Gen.provRepairableCache = ["member.GetChunk(id)"] ∧
    Gen.provRouter = ["member.GetChunk(id)"] ∧ Gen.provFailover = ["member.GetChunk(id)"] ∧
    Gen.provSwap = ["member.GetChunk(id)"] ∧
    Gen.provDedup = ["member.GetChunk(id)", "wait()"] ∧ Gen.provWriteDedup = ["member.GetChunk(id)", "wait()"] := by
  decide

end Desync.C03
