/-
  C19 — Decoders survive arbitrary input.

  Model: `Model/Format.lean` (`decNext` = `FormatDecoder.Next`), `Model/IndexCodec.lean`
  (`decodeIndexSt` = `IndexFromReader`), `Model/Archive.lean` (`untar` = `UnTar` over
  `ArchiveDecoder.Next`), `Model/Protocol.lean` (`readMessage` = `Protocol.ReadMessage`).
  Go run-time failures are explicit outcomes of the model (`Res.panic`), and every buffer
  whose size comes from the input is accounted in `St.alloc`, so the statements below have
  content.  The tie to /repo is the behavioural correspondence `fmt.next` / `arch.untar` /
  `proto.read` / `idx.decode` over every element type × boundary size field × truncation,
  plus a heap-allocation monitor on the implementation.
-/
import Desync.Proofs.ArchiveProofs
import Desync.Proofs.FormatWalkProofs
import Desync.Properties.C04

namespace Desync.C19
open Desync

/-- no byte string makes the element decoder panic -/
theorem format_decoder_never_panics (b : Bytes) (a : Nat) : NoPanic (decNext ⟨b, a⟩) :=
  decNext_nopanic _

/-- no byte string makes the index reader panic -/
theorem index_reader_never_panics (alg : DigestAlg) (b : Bytes) : NoPanic (decodeIndexSt alg ⟨b, 0⟩) :=
  C04.decodeIndexSt_nopanic alg _

/-- no byte string makes the archive decoder / untar panic -/
theorem untar_never_panics (b : Bytes) : NoPanic (untar b) := untar_nopanic b

/-- no byte string makes the protocol message reader panic -/
theorem protocol_reader_never_panics (b : Bytes) (a : Nat) : NoPanic (readMessage ⟨b, a⟩) :=
  readMessage_nopanic _

/-- **Allocation**: a successful element decode has allocated at most as many buffer bytes as
    it consumed input bytes — never a size taken from an unverified size field -/
theorem alloc_bounded_by_consumed (s s' : St) (e : Option Elem) (h : decNext s = .ok (e, s')) :
    s'.alloc - s.alloc ≤ s.rest.length - s'.rest.length :=
  (decNext_alloc_le_consumed s s' e h).2.1

theorem protocol_alloc_bounded (s s' : St) (m : Message) (h : readMessage s = .ok (m, s')) :
    s'.alloc - s.alloc ≤ s.rest.length - s'.rest.length :=
  readMessage_alloc_le_consumed s s' m h

/-- a failing buffer read charges nothing beyond the input that exists: `readN` only succeeds
    when the requested bytes are present -/
theorem readN_needs_input {n : Nat} {s s' : St} {b : Bytes} (h : readN n s = .ok (b, s')) :
    n ≤ s.rest.length := by
  have := readN_consumes h; omega

/-- **Malformed input is an error**: every outcome is `ok` or `err`; in particular a string
    element whose size field is smaller than its header (the pinned tree's panic) is a format
    error -/
theorem undersized_string_is_error (sz : UInt64) (n : Nat) (s : St) (h : sz.toNat < n + 1) :
    readStr sz n s = .err .format := by
  unfold readStr; simp [h]

/-- a truncated payload is an error, not a short file -/
theorem truncated_payload_is_error (n : Nat) (s : St) (h : s.rest.length < n) :
    takePayload n s = .err .ueof := by
  unfold takePayload
  have : ¬ n ≤ s.rest.length := by omega
  simp [this]

/-! ### callers that do not read payloads to their end (`FormatDecoder.advance`) -/

/-- a walk over any byte string with any reading behaviour of the caller never panics -/
theorem format_walk_never_panics (b : Bytes) (takes : List Nat) (p : String) :
    fmtWalk? b takes ≠ some (.panic p) :=
  FDec.walk_nopanic _ _ _ _ p

/-- the walk always ends (the fuel of the model's loop is never what stops it) -/
theorem format_walk_ends (b : Bytes) (takes : List Nat) : fmtWalk? b takes ≠ none :=
  FDec.walk_fuel_enough _ _ _ _ (Nat.lt_succ_self _)

/-- **what the caller reads of the payloads does not matter**: the elements seen and the verdict
    (clean end / which error) are those of the caller that reads nothing -/
theorem walk_independent_of_reads (b : Bytes) (takes : List Nat) :
    walkElems (fmtWalk? b takes) = walkElems (fmtWalk? b []) :=
  FDec.walk_elems_independent _ _ _ _ _ rfl (format_walk_ends b [])

/-- **a stream that ends inside a payload is malformed for every caller**: after `Next` has
    returned a payload element whose bytes are not all there, the next `Next` fails with
    `io.ErrUnexpectedEOF` — whether the caller read nothing, or read `k` bytes successfully
    first; and a read that fails fails with the same error.  It is never a clean end. -/
theorem stream_ending_inside_payload_is_error (d d1 : FDec) (sz : UInt64)
    (h : d.next = .ok (some (.payload sz), d1)) (hshort : d1.st.rest.length < sz.toNat - 16)
    (k : Nat) :
    d1.next = .err .ueof ∧
    (∀ b d2, d1.readPayload k = .ok (b, d2) → d2.next = .err .ueof) ∧
    (∀ e, d1.readPayload k = .err e → e = .ueof) := by
  have hadv : d1.adv = sz.toNat - 16 := FDec.next_adv h
  have hn : d1.next = .err .ueof := by
    unfold FDec.next
    have : ¬ d1.adv ≤ d1.st.rest.length := by omega
    simp only [this, if_false]
  refine ⟨hn, ?_, ?_⟩
  · intro b d2 hr
    rw [FDec.readPayload_then_next hr]; exact hn
  · intro e he
    exact (FDec.readPayload_err he).1

/-! non-vacuity: a payload element announcing 4 bytes followed by 1 byte: `Next` returns the
    element, and the stream is short -/
example : ∃ d1, (FDec.next ⟨⟨le64 20 ++ le64 Gen.CaFormatPayload ++ [7], 0⟩, 0⟩) =
      .ok (some (.payload 20), d1) ∧ d1.st.rest.length < (20 : UInt64).toNat - 16 := by
  refine ⟨⟨⟨[7], 0⟩, 4⟩, ?_, by decide⟩
  rfl

/-! non-vacuity: a 16-byte input with an undersized string element is rejected, not a panic -/
example (r : Bytes) : decBody 16 Gen.CaFormatUser ⟨r, 0⟩ = .err .format := by
  unfold decBody
  rw [if_neg (by decide : ¬ Gen.CaFormatUser = Gen.CaFormatEntry), if_pos rfl]
  rw [undersized_string_is_error 16 16 ⟨r, 0⟩ (by decide)]
  rfl

end Desync.C19
