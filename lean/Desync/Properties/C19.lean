/-
  C19 — Decoders survive arbitrary input.

  Model: `Model/Format.lean` (`decNext` = `FormatDecoder.Next`), `Model/IndexCodec.lean`
  (`decodeIndexSt` = `IndexFromReader`), `Model/Archive.lean` (`untar` = `UnTar` over
  `ArchiveDecoder.Next`), `Model/Protocol.lean` (`readMessage` = `Protocol.ReadMessage`).
  Go run-time failures are explicit outcomes of the model (`Res.panic`), and every buffer
  whose size comes from the input is accounted in `St.alloc`, so the statements below have
  content.  The tie to /repo is the behavioural correspondence `fmt.next` / `arch.untar` /
  `proto.read` / `idx.decode` over every element type × boundary size field × truncation,
  plus a heap-allocation monitor on the implementation.
-/
import Desync.Proofs.ArchiveProofs
import Desync.Proofs.FormatWalkProofs
import Desync.Properties.C04
import Desync.Proofs.ProtoSessionProofs

namespace Desync.C19
open Desync

/-- no byte string makes the element decoder panic -/
theorem format_decoder_never_panics (b : Bytes) (a : Nat) : NoPanic (decNext ⟨b, a⟩) :=
  decNext_nopanic _

/-- no byte string makes the index reader panic -/
theorem index_reader_never_panics (alg : DigestAlg) (b : Bytes) : NoPanic (decodeIndexSt alg ⟨b, 0⟩) :=
  C04.decodeIndexSt_nopanic alg _

/-- no byte string makes the archive decoder / untar panic -/
theorem untar_never_panics (b : Bytes) : NoPanic (untar b) := untar_nopanic b

/-- no byte string makes the protocol message reader panic -/
theorem protocol_reader_never_panics (b : Bytes) (a : Nat) : NoPanic (readMessage ⟨b, a⟩) :=
  readMessage_nopanic _

/-- **Allocation**: a successful element decode has allocated at most as many buffer bytes as
    it consumed input bytes — never a size taken from an unverified size field -/
theorem alloc_bounded_by_consumed (s s' : St) (e : Option Elem) (h : decNext s = .ok (e, s')) :
    s'.alloc - s.alloc ≤ s.rest.length - s'.rest.length :=
  (decNext_alloc_le_consumed s s' e h).2.1

theorem protocol_alloc_bounded (s s' : St) (m : Message) (h : readMessage s = .ok (m, s')) :
    s'.alloc - s.alloc ≤ s.rest.length - s'.rest.length :=
  readMessage_alloc_le_consumed s s' m h

/-- a failing buffer read charges nothing beyond the input that exists: `readN` only succeeds
    when the requested bytes are present -/
theorem readN_needs_input {n : Nat} {s s' : St} {b : Bytes} (h : readN n s = .ok (b, s')) :
    n ≤ s.rest.length := by
  have := readN_consumes h; omega

/-- **Malformed input is an error**: every outcome is `ok` or `err`; in particular a string
    element whose size field is smaller than its header (the pinned tree's panic) is a format
    error -/
theorem undersized_string_is_error (sz : UInt64) (n : Nat) (s : St) (h : sz.toNat < n + 1) :
    readStr sz n s = .err .format := by
  unfold readStr; simp [h]

/-- a truncated payload is an error, not a short file -/
theorem truncated_payload_is_error (n : Nat) (s : St) (h : s.rest.length < n) :
    takePayload n s = .err .ueof := by
  unfold takePayload
  have : ¬ n ≤ s.rest.length := by omega
  simp [this]

/-! ### the casync protocol server and client on arbitrary input (`Model/ProtoSession.lean`)

  `PS.serverRun E cancel wr input` is `ProtocolServer.Serve` reading `input`: handshake, loop, the
  `switch m.Type`, the `Send*` functions with every slice expression as an explicit check.  `cancel`
  says at which pass the context is found done, `wr` how many messages the writer takes. -/

/-- **no input makes the protocol server panic** — none of the slice expressions of `Serve`,
    `RecvHello` and the `Send*` functions can fail — and none of the model's own artefacts is ever
    the verdict (its loop ends by itself, `ChunkIDFromSlice(m.Body[8:40])` cannot fail, no `Send*`
    finds the protocol uninitialised) -/
theorem server_never_panics (E : PS.Env) (cancel wr : Option Nat) (input : Bytes) :
    (∀ p, (PS.serverRun E cancel wr input).end_ ≠ .panic p) ∧
    (PS.serverRun E cancel wr input).end_ ≠ .fuel ∧ (PS.serverRun E cancel wr input).end_ ≠ .badId ∧
    (PS.serverRun E cancel wr input).end_ ≠ .notInit := by
  have h := PS.serverRun_real E cancel wr input
  refine ⟨fun p hp => ?_, fun hp => ?_, fun hp => ?_, fun hp => ?_⟩ <;> rw [hp] at h <;> cases h

/-- the `Send*` functions, computed: the buffer arithmetic of `SendProtocolRequest` /
    `SendProtocolChunk` (`make`, `b[0:8]`, `copy(b[8:], id[:])`, `copy(b[40:], chunk)`) never fails
    and yields flags ++ id ++ data -/
theorem send_functions_never_panic (id : Bytes) (flags : UInt64) (data : Bytes) :
    PS.mkRequest true id flags = .ok (requestMessage (PS.fit32 id) flags) ∧
    PS.mkChunk true id flags data = .ok (chunkMessage (PS.fit32 id) flags data) ∧
    PS.mkMissing true id = .ok (missingMessage (PS.fit32 id)) :=
  ⟨PS.mkRequest_eq id flags, PS.mkChunk_eq id flags data, PS.mkMissing_eq id⟩

/-- **allocation**: for every input, what the server has allocated for input-sized buffers is at
    most what it has consumed of the input — a length field is never trusted — and what is left
    unread is a suffix of the input -/
theorem server_alloc_bounded (E : PS.Env) (cancel wr : Option Nat) (input : Bytes) :
    (PS.serverRun E cancel wr input).st.alloc ≤ input.length - (PS.serverRun E cancel wr input).st.rest.length ∧
    (PS.serverRun E cancel wr input).st.rest.length ≤ input.length ∧
    ∃ consumed, input = consumed ++ (PS.serverRun E cancel wr input).st.rest := by
  obtain ⟨h1, _, pre, h3⟩ := PS.serverRun_le E cancel wr input
  simp only at h1 h3
  have hl := congrArg List.length h3
  simp only [List.length_append] at hl
  exact ⟨by omega, by omega, pre, h3⟩

/-- **malformed input is an error, not success**: `Serve` returns nil after a goodbye on exactly
    these inputs — a hello message whose flags ask for chunks, then requests (at least 40 body
    bytes) that the store answered with a chunk or with "missing", then a message of type goodbye,
    then anything; the context not found done at the top of any of those passes.  (Writer that
    takes every message.) -/
theorem server_returns_nil_iff (E : PS.Env) (cancel : Option Nat) (input : Bytes) :
    (PS.serverRun E cancel none input).end_ = .nilGoodbye ↔
      ∃ f reqs gb rest, input = PS.wire (PS.helloMsg f :: reqs ++ [gb]) ++ rest ∧
        f &&& Gen.CaProtocolPullChunks ≠ 0 ∧ gb.typ = Gen.CaProtocolGoodbye ∧
        (∀ m ∈ reqs ++ [gb], 16 + m.body.length < 2^64) ∧ (∀ r ∈ reqs, PS.Answered E r) ∧
        (∀ n, cancel = some n → reqs.length < n) := by
  constructor
  · intro h
    obtain ⟨f, reqs, gb, hin, hp, hgb, hall, _, hc, _, hsz⟩ := PS.serverRun_nilGoodbye E cancel none input h
    exact ⟨f, reqs, gb, _, hin, hp, hgb, hsz, hall, hc⟩
  · rintro ⟨f, reqs, gb, rest, rfl, hp, hgb, hsz, hall, hc⟩
    exact (PS.serverRun_nilGoodbye_of E cancel none f reqs gb rest hp hgb hsz hall hc (fun n hn => by cases hn)).1

/-- … and nil for a done context only after a hello asking for chunks and as many answered
    requests as it takes for the context to be found done -/
theorem server_returns_nil_cancelled (E : PS.Env) (cancel wr : Option Nat) (input : Bytes)
    (h : (PS.serverRun E cancel wr input).end_ = .nilCancelled) :
    ∃ f reqs, input = PS.wire (PS.helloMsg f :: reqs) ++ (PS.serverRun E cancel wr input).st.rest ∧
      f &&& Gen.CaProtocolPullChunks ≠ 0 ∧ cancel = some reqs.length ∧ (∀ r ∈ reqs, PS.Answered E r) := by
  obtain ⟨f, reqs, h1, h2, h3, h4, _⟩ := PS.serverRun_nilCancelled E cancel wr input h
  exact ⟨f, reqs, h1, h2, h3, h4⟩

/-- what "answered" means: a request message with at least 40 body bytes for whose id
    (`m.Body[8:40]`) the store yields a chunk whose data can be produced, or "missing" -/
theorem answered_iff (E : PS.Env) (m : Message) :
    PS.Answered E m ↔ m.typ = Gen.CaProtocolRequest ∧ 40 ≤ m.body.length ∧
      ∃ r, PS.replyOf E ((m.body.take 40).drop 8) = .ok r :=
  ⟨fun ⟨r, h1, h2, h3⟩ => ⟨h1, h2, r, h3⟩, fun ⟨h1, h2, r, h3⟩ => ⟨r, h1, h2, h3⟩⟩

/-- the client on arbitrary bytes from the server side: no panic (handshake and every request),
    allocation bounded by what it consumed -/
theorem client_never_panics (H : Bytes → Bytes) (dec : Bytes → Option Bytes) (ids : List Bytes) (fromServer : Bytes) :
    (∀ p, (PS.clientRun H dec ids fromServer).hs ≠ some (.panic p)) ∧
    (∀ (k : Nat) (p : String), (PS.clientRun H dec ids fromServer).results[k]? ≠ some (PS.CRes.fail (.panic p))) ∧
    (PS.clientRun H dec ids fromServer).conn.st.alloc ≤ fromServer.length - (PS.clientRun H dec ids fromServer).conn.st.rest.length := by
  obtain ⟨h1, h2, h3, _, pre, h5⟩ := PS.clientRun_real H dec ids fromServer
  simp only at h3 h5
  have hl := congrArg List.length h5
  simp only [List.length_append] at hl
  refine ⟨fun p hp => ?_, h2, by omega⟩
  have := h1 _ hp
  cases this

/-! non-vacuity: a request with 39 body bytes is refused ("protocol request too small"), not a panic;
    hello + goodbye is the shortest input on which `Serve` returns nil -/
example (E : PS.Env) (wr : Option Nat) : PS.arm E true wr ⟨Gen.CaProtocolRequest, List.replicate 39 0⟩ = .stop .reqSmall := by
  simp [PS.arm, PS.serveRequest]
example (E : PS.Env) :
    (PS.serverRun E none none (PS.wire [PS.helloMsg Gen.CaProtocolPullChunks, PS.goodbyeMsg])).end_ = .nilGoodbye :=
  (server_returns_nil_iff E none _).mpr ⟨Gen.CaProtocolPullChunks, [], PS.goodbyeMsg, [], by simp, by decide, rfl,
    by simp [PS.goodbyeMsg], by simp, by simp⟩

/-- **regenerated obligation** (harness/extract/protofacts.go): every slice expression on a message body in the
    protocol code is dominated by the length guard the model has before it — `if len(m.Body) < 40 { return … }`
    before `m.Body[8:40]` in `Serve`, the same before `m.Body[40:]` in `RequestChunk` — and the buffers of
    `ReadMessage` and of the `Send*` functions are laid out as the model lays them out -/
theorem gen_proto_guards :
    Gen.protoServeReqGuardDominates = true ∧ Gen.protoServeReqSliceHi ≤ Gen.protoServeReqGuard ∧
    Gen.protoServeReqSliceLo = 8 ∧ Gen.protoServeReqSliceHi = 40 ∧ Gen.protoServeReqGuard = 40 ∧
    Gen.protoClientChunkGuardDominates = true ∧ Gen.protoClientChunkSliceLo ≤ Gen.protoClientChunkGuard ∧
    Gen.protoClientChunkSliceLo = 40 ∧ Gen.protoClientChunkGuard = 40 ∧ Gen.protoClientChunkSliceOpen = true ∧
    Gen.protoReadMessage = ["len=ReadUint64()", "if:len<16→return-err", "b=ReadN(len-8)", "typ=Uint64(b[0:8])", "body=b[8:]",
      "return:Message{Type:typ,Body:body}"] ∧
    Gen.protoSendHello = ["make:8", "put:b=flags", "Message{Type:CaProtocolHello,Body:b}"] ∧
    Gen.protoSendProtocolRequest = ["if:!initialized→return-err", "make:40", "put:b[0:8]=flags", "copy:b[8:]=id[:]",
      "Message{Type:CaProtocolRequest,Body:b}"] ∧
    Gen.protoSendProtocolChunk = ["if:!initialized→return-err", "make:len(chunk)+40", "put:b[0:8]=flags", "copy:b[8:]=id[:]",
      "copy:b[40:]=chunk", "Message{Type:CaProtocolChunk,Body:b}"] ∧
    Gen.protoSendMissing = ["if:!initialized→return-err", "Message{Type:CaProtocolMissing,Body:id[:]}"] ∧
    Gen.protoSendGoodbye = ["if:!initialized→return-err", "Message{Type:CaProtocolGoodbye,Body:nil}"] ∧
    Gen.site_proto_ServeReqGuard_found = true ∧ Gen.site_proto_ServeReqSliceLo_found = true ∧
    Gen.site_proto_ServeReqSliceHi_found = true ∧ Gen.site_proto_ClientChunkGuard_found = true ∧
    Gen.site_proto_ClientChunkSliceLo_found = true ∧ Gen.site_shape_proto_ReadMessage_found = true ∧
    Gen.site_shape_proto_SendHello_found = true ∧ Gen.site_shape_proto_SendProtocolRequest_found = true ∧
    Gen.site_shape_proto_SendProtocolChunk_found = true ∧ Gen.site_shape_proto_SendMissing_found = true ∧
    Gen.site_shape_proto_SendGoodbye_found = true := by
  decide

/-! ### callers that do not read payloads to their end (`FormatDecoder.advance`) -/

/-- a walk over any byte string with any reading behaviour of the caller never panics -/
theorem format_walk_never_panics (b : Bytes) (takes : List Nat) (p : String) :
    fmtWalk? b takes ≠ some (.panic p) :=
  FDec.walk_nopanic _ _ _ _ p

/-- the walk always ends (the fuel of the model's loop is never what stops it) -/
theorem format_walk_ends (b : Bytes) (takes : List Nat) : fmtWalk? b takes ≠ none :=
  FDec.walk_fuel_enough _ _ _ _ (Nat.lt_succ_self _)

/-- **what the caller reads of the payloads does not matter**: the elements seen and the verdict
    (clean end / which error) are those of the caller that reads nothing -/
theorem walk_independent_of_reads (b : Bytes) (takes : List Nat) :
    walkElems (fmtWalk? b takes) = walkElems (fmtWalk? b []) :=
  FDec.walk_elems_independent _ _ _ _ _ rfl (format_walk_ends b [])

/-- **a stream that ends inside a payload is malformed for every caller**: after `Next` has
    returned a payload element whose bytes are not all there, the next `Next` fails with
    `io.ErrUnexpectedEOF` — whether the caller read nothing, or read `k` bytes successfully
    first; and a read that fails fails with the same error.  It is never a clean end. -/
theorem stream_ending_inside_payload_is_error (d d1 : FDec) (sz : UInt64)
    (h : d.next = .ok (some (.payload sz), d1)) (hshort : d1.st.rest.length < sz.toNat - 16)
    (k : Nat) :
    d1.next = .err .ueof ∧
    (∀ b d2, d1.readPayload k = .ok (b, d2) → d2.next = .err .ueof) ∧
    (∀ e, d1.readPayload k = .err e → e = .ueof) := by
  have hadv : d1.adv = sz.toNat - 16 := FDec.next_adv h
  have hn : d1.next = .err .ueof := by
    unfold FDec.next
    have : ¬ d1.adv ≤ d1.st.rest.length := by omega
    simp only [this, if_false]
  refine ⟨hn, ?_, ?_⟩
  · intro b d2 hr
    rw [FDec.readPayload_then_next hr]; exact hn
  · intro e he
    exact (FDec.readPayload_err he).1

/-! non-vacuity: a payload element announcing 4 bytes followed by 1 byte: `Next` returns the
    element, and the stream is short -/
example : ∃ d1, (FDec.next ⟨⟨le64 20 ++ le64 Gen.CaFormatPayload ++ [7], 0⟩, 0⟩) =
      .ok (some (.payload 20), d1) ∧ d1.st.rest.length < (20 : UInt64).toNat - 16 := by
  refine ⟨⟨⟨[7], 0⟩, 4⟩, ?_, by decide⟩
  rfl

/-! non-vacuity: a 16-byte input with an undersized string element is rejected, not a panic -/
example (r : Bytes) : decBody 16 Gen.CaFormatUser ⟨r, 0⟩ = .err .format := by
  unfold decBody
  rw [if_neg (by decide : ¬ Gen.CaFormatUser = Gen.CaFormatEntry), if_pos rfl]
  rw [undersized_string_is_error 16 16 ⟨r, 0⟩ (by decide)]
  rfl

end Desync.C19
