/-
  C03 for the Google Cloud Storage chunk store (`GCStore.GetChunk`, gcs.go) as modelled in `Model/GCStore.lean`:
  whatever the service answers, a delivered chunk passed `NewChunkFromStorage` for the requested ID.
-/
import Desync.Properties.C03
import Desync.Proofs.GCStoreProofs

namespace Desync.C03
open Desync Desync.Remote Desync.GCS

/-- **`GCStore.GetChunk` is truthful**: a chunk only from a complete body that passed `NewChunkFromStorage` for the
    requested ID (with the store's converters and its skip-verify option); `ChunkInvalid` only from such a body that
    the constructor refused; `ChunkMissing` exactly when the client reported `storage.ErrObjectNotExist` — from
    `NewReader` or, after a re-opened download, from `ReadAll`; every other failure is an error -/
theorem gcs_get_truthful (H : Bytes → Bytes) (dec : Bytes → Option Bytes) (id : Bytes) (convs : List Conv)
    (skipVerify : Bool) (o : GCS.GetOutcome) :
    (∀ c, gcsGetChunk H dec id convs skipVerify o = .ok c →
      ∃ b, o = .body b ∧ newChunkFromStorage H dec id b convs skipVerify = .ok c) ∧
    (gcsGetChunk H dec id convs skipVerify o = .invalid →
      ∃ b, o = .body b ∧ newChunkFromStorage H dec id b convs skipVerify = .invalid) ∧
    (gcsGetChunk H dec id convs skipVerify o = .missing ↔ (o = .openNotExist ∨ o = .readNotExist)) ∧
    (o = .openErr ∨ o = .readErr → gcsGetChunk H dec id convs skipVerify o = .error) :=
  GCS.get_truthful H dec id convs skipVerify o

/-- C03 for the GCS store: whatever arrives, a delivered chunk hashes to the ID (verification on) -/
theorem gcs_get_never_wrong_chunk (H : Bytes → Bytes) (dec : Bytes → Option Bytes) (id : Bytes) (convs : List Conv)
    (o : GCS.GetOutcome) (c : ChunkObj) (h : gcsGetChunk H dec id convs false o = .ok c)
    (b : Bytes) (hb : delivers dec c b) : H b = id := by
  obtain ⟨raw, _, hc⟩ := (GCS.get_truthful H dec id convs false o).1 c h
  exact fromStorage_sound H dec id raw convs c hc b hb

/-- not vacuous: a body that hashes to the ID is delivered, another one refused, the two kinds of "not there" are
    ChunkMissing, a refused request is an error -/
example : (∃ c, gcsGetChunk (fun b => b) some [1] [] false (.body [1]) = .ok c ∧ c.data = [1]) ∧
    gcsGetChunk (fun b => b) some [1] [] false (.body [2]) = .invalid ∧
    gcsGetChunk (fun b => b) some [1] [] false .openNotExist = .missing ∧
    gcsGetChunk (fun b => b) some [1] [] false .readNotExist = .missing ∧
    gcsGetChunk (fun b => b) some [1] [] false .openErr = .error := by
  simp [gcsGetChunk, construct, newChunkFromStorage, ChunkObj.getData, ChunkObj.getID, fromStorage]

end Desync.C03
