/-
  C06 — Bulk writes (make, chop, cache, tar -i) are complete when they report success.

  Model: `Model/PoolCS.lean` — the worker pool whose job is `ChunkStorage.StoreChunk`
  (`markProcessed` → `HasChunk` → `StoreChunk`, un-mark on a failed store), jobs carry chunk IDs
  with duplicates, store outcomes are chosen by the environment at every call, the parent context can
  be cancelled at every step.
  `cache` uses `Copy` (HasChunk → GetChunk → StoreChunk per ID, no shared marks): the generic pool
  of C07 with atomic jobs.  Together with the store contract (C08 for local stores, C03) and C02
  (`make_index_exact`: the index of a fresh `ChunkStream` is `chunkAll` with IDs `H(slice)`), a
  reported success means every referenced chunk is in the target store.
  The pool machine is tied to chop.go / copy.go by event traces recorded under a cooperative scheduler
  with scripted store faults (`pool.accept`); the harness compares the machine's completed jobs with
  the final content of the target store.
-/
import Desync.Proofs.PoolCSProofs
import Desync.Proofs.PoolProofs
import Desync.Proofs.ChunkStreamProofs
import Desync.Proofs.PoolJobsProofs

namespace Desync.C06
open Desync

/-- **every schedule, worker count and fault pattern, duplicates included**: success means that
    for every job's chunk ID a HasChunk returned true or a StoreChunk returned nil -/
theorem success_implies_all_stored (ids : List Nat) (n : Nat) (s : PoolCS.St)
    (h : PoolCS.Reachable (PoolCS.St.init ids n) s) (hr : s.result = some .ok) :
    ∀ j, j < ids.length → PoolCS.idOf s j ∈ s.had ∨ PoolCS.idOf s j ∈ s.stored :=
  PoolCS.success_implies_all_stored ids n s h hr

/-- any store failure observed by a worker makes the command report an error -/
theorem failure_is_reported (ids : List Nat) (n : Nat) (s : PoolCS.St)
    (h : PoolCS.Reachable (PoolCS.St.init ids n) s) (hr : s.result = some .ok) : s.groupErr = false :=
  PoolCS.failure_is_reported ids n s h hr

/-- success also means the feeder handed out every job -/
theorem success_all_fed (ids : List Nat) (n : Nat) (s : PoolCS.St)
    (h : PoolCS.Reachable (PoolCS.St.init ids n) s) (hr : s.result = some .ok) : s.next = ids.length :=
  PoolCS.success_implies_all_fed ids n s h hr

/-- the pool cannot get stuck (no lost worker, no blocked feeder) -/
theorem no_deadlock (ids : List Nat) (n : Nat) (s : PoolCS.St) (hn : 1 ≤ n)
    (h : PoolCS.Reachable (PoolCS.St.init ids n) s) (hr : s.result = none) :
    ∃ e s', e ≠ PoolCS.Ev.parentCancel ∧ PoolCS.step s e = some s' :=
  PoolCS.no_deadlock ids n s hn h hr

/-- the machine includes a cancellation of the parent context at any moment (the theorems above hold
    under it: a run cut short by it ends in `Interrupted`, never in success); without a cancellation
    and without a failing store call the command does succeed -/
theorem no_cancel_no_fault_success (ids : List Nat) (n : Nat) (s : PoolCS.St) (r : PoolCS.Res)
    (h : PoolCS.Reachable (PoolCS.St.init ids n) s) (hr : s.result = some r)
    (hc : s.parentCancelled = false) (he : s.groupErr = false) : r = .ok :=
  PoolCS.no_cancel_no_fault_success ids n s r h hr hc he

/-- **regenerated obligation**: `ChopFile`, `ChunkStream` and `Copy` mark the interruption in their
    `ctx.Done()` arm and report it after `g.Wait()` — the shape `Model/PoolCS.lean` has built in -/
theorem gen_pool_shapes :
    (Pool.PoolShape.mk Gen.poolShape_ChopFile.1 Gen.poolShape_ChopFile.2).ok = true ∧
    (Pool.PoolShape.mk Gen.poolShape_ChunkStream.1 Gen.poolShape_ChunkStream.2).ok = true ∧
    (Pool.PoolShape.mk Gen.poolShape_Copy.1 Gen.poolShape_Copy.2).ok = true ∧
    Gen.site_pool_ChopFile_found = true ∧ Gen.site_pool_ChunkStream_found = true ∧
    Gen.site_pool_Copy_found = true ∧ Gen.site_pool_waitOrInterrupted_found = true := by decide

/-- `Copy` (cache): atomic jobs — success means every job completed -/
theorem copy_success_all_done (sh : Pool.PoolShape) (jobs n : Nat) (s : Pool.St) (r : Pool.Res)
    (h : Pool.Reachable sh (Pool.St.init jobs n) s) (hr : s.result = some r)
    (hc : s.parentCancelled = false) (he : s.groupErr = false) :
    r = .ok ∧ ∀ j, j < jobs → s.done.getD j false = true :=
  Pool.no_cancel_all_done sh jobs n s r h hr hc he

/-- `Copy` with the outcome of every job fixed (job j fails iff `good j = false`: a store operation on
    its chunk fails): without cancellation, under every schedule and worker count, the command succeeds
    iff no job fails — a failing store operation is always reported and there is no spurious error; the
    result is never `Interrupted` -/
theorem copy_success_iff_no_job_fails (sh : Pool.PoolShape) (good : Nat → Bool) (jobs n : Nat) (s : Pool.St)
    (r : Pool.Res) (h : Pool.ReachableJ sh good (Pool.St.init jobs n) s) (hr : s.result = some r)
    (hc : s.parentCancelled = false) :
    (r = .ok ↔ ∀ j, j < jobs → good j = true) ∧ (r = .ok ∨ r = .err) :=
  Pool.okJ_iff_all_good sh good jobs n s r h hr hc

/-- **regenerated obligation**: `ChunkStorage.StoreChunk` still has the modelled order — mark,
    HasChunk, (deferred un-mark registered), StoreChunk -/
theorem gen_chunkstorage_shape :
    Gen.site_shape_chunkstorage_StoreChunk_found = true ∧
    Gen.chunkStorageShape = ["markProcessed", "HasChunk", "unmarkProcessed", "StoreChunk"] := by decide

/-- regenerated obligations about the workers: `readChunkFromFile` checks the bytes it re-read from
    the file against the index ID (`NewChunkWithID(c.ID, b, false)`), and in the workers of `Copy`
    and `ChopFile` every call that can fail is directly followed by `if err != nil { return err }`
    — the error of a job is the worker's result, which is what the pool machine's `fail` event models -/
theorem gen_workers :
    Gen.chopRereadVerified = true ∧
    Gen.workerCopyCalls = ["HasChunk", "GetChunk", "StoreChunk"] ∧ Gen.workerCopyReturnsEveryError = true ∧
    Gen.workerChopFileCalls = ["readChunkFromFile", "StoreChunk"] ∧ Gen.workerChopFileReturnsEveryError = true := by decide

/-- `ChunkStream` (make of a stream, tar -i): success means that `StoreChunk` returned nil for EVERY
    chunk of the produced index — for every worker count, interleaving and fault pattern -/
theorem chunkstream_ok_all_stored (H : Bytes → Bytes) (jobs : List (Nat × Bytes)) (n : Nat) (s : CStream.St)
    (h : CStream.Reachable H (CStream.St.init jobs n) s) (rows : List CStream.Row)
    (hr : s.result = some (.ok rows)) : ∀ j, j < jobs.length → j ∈ s.stored :=
  CStream.ok_all_stored H jobs n s h rows hr

/-- … and a failed store, a chunker error or an early stop of the feeder is never reported as success -/
theorem chunkstream_failure_not_ok (H : Bytes → Bytes) (jobs : List (Nat × Bytes)) (n : Nat) (s : CStream.St)
    (h : CStream.Reachable H (CStream.St.init jobs n) s) (rows : List CStream.Row)
    (hr : s.result = some (.ok rows)) : s.groupErr = false ∧ s.broke = false ∧ s.next = jobs.length :=
  CStream.failure_not_ok H jobs n s h rows hr

end Desync.C06
