/-
  C06 — Bulk writes (make, chop, cache, tar -i) are complete when they report success.

  Model: `Model/PoolCS.lean` — the worker pool whose job is `ChunkStorage.StoreChunk`
  (`markProcessed` → `HasChunk` → `StoreChunk`, un-mark on a failed store), jobs carry chunk IDs
  with duplicates, store outcomes are chosen by the environment at every call, the parent context can
  be cancelled at every step.
  `cache` uses `Copy` (HasChunk → GetChunk → StoreChunk per ID, no shared marks): the generic pool
  of C07 with atomic jobs.  Together with the store contract (C08 for local stores, C03) and C02
  (`make_index_exact`: the index of a fresh `ChunkStream` is `chunkAll` with IDs `H(slice)`), a
  reported success means every referenced chunk is in the target store.
  The pool machine is tied to chop.go / copy.go by event traces recorded under a cooperative scheduler
  with scripted store faults (`pool.accept`); the harness compares the machine's completed jobs with
  the final content of the target store.

  The S3 and SFTP chunk stores as targets (`Model/RemoteStores.lean`): `s3_store_truthful`, `sftp_store_atomic`,
  `sftp_store_reports_every_failure` are the store contract for these two backends (nil ⇒ the object is there, whole);
  `s3_has_masks_failures_partial` + `has_false_is_safe_for_bulk_writes` say what their `HasChunk` does with a failing
  request and why that is harmless here; `sftp_pool_balanced` is the connection pool.  Tied to s3.go / sftp.go by the
  regenerated statement skeletons (`Properties/C06Remote.lean`) and by `s3.store` / `sftp.store` on the real stores.
-/
import Desync.Proofs.PoolCSProofs
import Desync.Proofs.PoolProofs
import Desync.Proofs.ChunkStreamProofs
import Desync.Proofs.PoolJobsProofs
import Desync.Proofs.RemoteStoresProofs

namespace Desync.C06
open Desync

/-- **every schedule, worker count and fault pattern, duplicates included**: success means that
    for every job's chunk ID a HasChunk returned true or a StoreChunk returned nil -/
theorem success_implies_all_stored (ids : List Nat) (n : Nat) (s : PoolCS.St)
    (h : PoolCS.Reachable (PoolCS.St.init ids n) s) (hr : s.result = some .ok) :
    ∀ j, j < ids.length → PoolCS.idOf s j ∈ s.had ∨ PoolCS.idOf s j ∈ s.stored :=
  PoolCS.success_implies_all_stored ids n s h hr

/-- any store failure observed by a worker makes the command report an error -/
theorem failure_is_reported (ids : List Nat) (n : Nat) (s : PoolCS.St)
    (h : PoolCS.Reachable (PoolCS.St.init ids n) s) (hr : s.result = some .ok) : s.groupErr = false :=
  PoolCS.failure_is_reported ids n s h hr

/-- success also means the feeder handed out every job -/
theorem success_all_fed (ids : List Nat) (n : Nat) (s : PoolCS.St)
    (h : PoolCS.Reachable (PoolCS.St.init ids n) s) (hr : s.result = some .ok) : s.next = ids.length :=
  PoolCS.success_implies_all_fed ids n s h hr

/-- the pool cannot get stuck (no lost worker, no blocked feeder) -/
theorem no_deadlock (ids : List Nat) (n : Nat) (s : PoolCS.St) (hn : 1 ≤ n)
    (h : PoolCS.Reachable (PoolCS.St.init ids n) s) (hr : s.result = none) :
    ∃ e s', e ≠ PoolCS.Ev.parentCancel ∧ PoolCS.step s e = some s' :=
  PoolCS.no_deadlock ids n s hn h hr

/-- the machine includes a cancellation of the parent context at any moment (the theorems above hold
    under it: a run cut short by it ends in `Interrupted`, never in success); without a cancellation
    and without a failing store call the command does succeed -/
theorem no_cancel_no_fault_success (ids : List Nat) (n : Nat) (s : PoolCS.St) (r : PoolCS.Res)
    (h : PoolCS.Reachable (PoolCS.St.init ids n) s) (hr : s.result = some r)
    (hc : s.parentCancelled = false) (he : s.groupErr = false) : r = .ok :=
  PoolCS.no_cancel_no_fault_success ids n s r h hr hc he

/-- **regenerated obligation**: `ChopFile`, `ChunkStream` and `Copy` mark the interruption in their
    `ctx.Done()` arm and report it after `g.Wait()` — the shape `Model/PoolCS.lean` has built in -/
theorem gen_pool_shapes :
    (Pool.PoolShape.mk Gen.poolShape_ChopFile.1 Gen.poolShape_ChopFile.2).ok = true ∧
    (Pool.PoolShape.mk Gen.poolShape_ChunkStream.1 Gen.poolShape_ChunkStream.2).ok = true ∧
    (Pool.PoolShape.mk Gen.poolShape_Copy.1 Gen.poolShape_Copy.2).ok = true ∧
    Gen.site_pool_ChopFile_found = true ∧ Gen.site_pool_ChunkStream_found = true ∧
    Gen.site_pool_Copy_found = true ∧ Gen.site_pool_waitOrInterrupted_found = true := by decide

/-- `Copy` (cache): atomic jobs — success means every job completed -/
theorem copy_success_all_done (sh : Pool.PoolShape) (jobs n : Nat) (s : Pool.St) (r : Pool.Res)
    (h : Pool.Reachable sh (Pool.St.init jobs n) s) (hr : s.result = some r)
    (hc : s.parentCancelled = false) (he : s.groupErr = false) :
    r = .ok ∧ ∀ j, j < jobs → s.done.getD j false = true :=
  Pool.no_cancel_all_done sh jobs n s r h hr hc he

/-- `Copy` with the outcome of every job fixed (job j fails iff `good j = false`: a store operation on
    its chunk fails): without cancellation, under every schedule and worker count, the command succeeds
    iff no job fails — a failing store operation is always reported and there is no spurious error; the
    result is never `Interrupted` -/
theorem copy_success_iff_no_job_fails (sh : Pool.PoolShape) (good : Nat → Bool) (jobs n : Nat) (s : Pool.St)
    (r : Pool.Res) (h : Pool.ReachableJ sh good (Pool.St.init jobs n) s) (hr : s.result = some r)
    (hc : s.parentCancelled = false) :
    (r = .ok ↔ ∀ j, j < jobs → good j = true) ∧ (r = .ok ∨ r = .err) :=
  Pool.okJ_iff_all_good sh good jobs n s r h hr hc

/-- **regenerated obligation**: `ChunkStorage.StoreChunk` still has the modelled order — mark,
    HasChunk, (deferred un-mark registered), StoreChunk -/
theorem gen_chunkstorage_shape :
    Gen.site_shape_chunkstorage_StoreChunk_found = true ∧
    Gen.chunkStorageShape = ["markProcessed", "HasChunk", "unmarkProcessed", "StoreChunk"] := by decide

/-- regenerated obligations about the workers: `readChunkFromFile` checks the bytes it re-read from
    the file against the index ID (`NewChunkWithID(c.ID, b, false)`), and in the workers of `Copy`
    and `ChopFile` every call that can fail is directly followed by `if err != nil { return err }`
    — the error of a job is the worker's result, which is what the pool machine's `fail` event models -/
theorem gen_workers :
    Gen.chopRereadVerified = true ∧
    Gen.workerCopyCalls = ["HasChunk", "GetChunk", "StoreChunk"] ∧ Gen.workerCopyReturnsEveryError = true ∧
    Gen.workerChopFileCalls = ["readChunkFromFile", "StoreChunk"] ∧ Gen.workerChopFileReturnsEveryError = true := by decide

/-- `ChunkStream` (make of a stream, tar -i): success means that `StoreChunk` returned nil for EVERY
    chunk of the produced index — for every worker count, interleaving and fault pattern -/
theorem chunkstream_ok_all_stored (H : Bytes → Bytes) (jobs : List (Nat × Bytes)) (n : Nat) (s : CStream.St)
    (h : CStream.Reachable H (CStream.St.init jobs n) s) (rows : List CStream.Row)
    (hr : s.result = some (.ok rows)) : ∀ j, j < jobs.length → j ∈ s.stored :=
  CStream.ok_all_stored H jobs n s h rows hr

/-- … and a failed store, a chunker error or an early stop of the feeder is never reported as success -/
theorem chunkstream_failure_not_ok (H : Bytes → Bytes) (jobs : List (Nat × Bytes)) (n : Nat) (s : CStream.St)
    (h : CStream.Reachable H (CStream.St.init jobs n) s) (rows : List CStream.Row)
    (hr : s.result = some (.ok rows)) : s.groupErr = false ∧ s.broke = false ∧ s.next = jobs.length :=
  CStream.failure_not_ok H jobs n s h rows hr

/-! ### the S3 and SFTP chunk stores as targets (`Model/RemoteStores.lean`) -/

open Desync.Remote in
/-- **`S3Store.StoreChunk` is truthful**: it returns nil iff the data was available, `toStorage` worked and one of the
    attempts `1 … max ErrorRetry 1` succeeded (ErrorRetry 0 and 1: one attempt; k: k attempts); it makes at most
    `max ErrorRetry 1` requests, all before the last failed; on nil the object holds exactly `toStorage(data)`, put by
    the last attempt; on an error the object is what it was and (when it got as far as the loop) the whole budget was used -/
theorem s3_store_truthful (retry : Nat) (data : Option Bytes) (toSt : Bytes → Option Bytes)
    (out : Nat → PutOutcome) (obj : Option Bytes) (r : S3StoreOut)
    (h : s3StoreChunk retry data toSt out obj = r) :
    (r.res = .ok ↔ ∃ d b, data = some d ∧ toSt d = some b ∧ ∃ k, 1 ≤ k ∧ k ≤ max retry 1 ∧ out k = .ok) ∧
    r.attempts ≤ max retry 1 ∧
    (∀ k, 1 ≤ k → k < r.attempts → out k = .fail) ∧
    (r.res = .ok → ∃ d b, data = some d ∧ toSt d = some b ∧ r.obj = some b ∧ out r.attempts = .ok) ∧
    (r.res = .error → r.obj = obj) ∧
    (r.res = .error → ∀ d b, data = some d → toSt d = some b → r.attempts = max retry 1) :=
  Remote.s3_store_truthful retry data toSt out obj r h

open Desync.Remote in
/-- not vacuous, and the seeded regression as a concrete case: every attempt fails ⇒ an error, nothing stored -/
example : (s3StoreChunk 3 (some [1]) some (fun _ => .fail) none) = ⟨.error, 3, none⟩ ∧
    (s3StoreChunk 3 (some [1]) some (fun k => if k = 3 then .ok else .fail) none) = ⟨.ok, 3, some [1]⟩ ∧
    (s3StoreChunk 0 (some [1]) some (fun k => if k = 2 then .ok else .fail) none) = ⟨.error, 1, none⟩ ∧
    (s3StoreChunk 1 (some [1]) some (fun k => if k = 2 then .ok else .fail) none) = ⟨.error, 1, none⟩ := by
  simp [s3StoreChunk, s3PutLoop]

open Desync.Remote in
/-- **partial — named for what it is**: `HasChunk` of the S3 and the SFTP store reports a FAILING stat request
    (permission denied, outage, connection lost) as `(false, nil)` — "absent" — and never returns an error.  What is
    missing for a clean contract: the failure is not reported (`verify`-like callers that only ask HasChunk are told
    "absent" during an outage). -/
theorem s3_has_masks_failures_partial (o : StatOutcome) :
    s3HasChunk .failure = ⟨false, false⟩ ∧ sftpHasChunk .failure = ⟨false, false⟩ ∧
    (s3HasChunk o).err = false ∧ (sftpHasChunk o).err = false ∧
    ((s3HasChunk o).has = true ↔ o = .found) ∧ ((sftpHasChunk o).has = true ↔ o = .found) :=
  Remote.has_masks_failures o

open Desync.Remote in
/-- … and under C06's use it cannot become a false success: in `ChunkStorage.StoreChunk` a `false` from HasChunk only
    makes `StoreChunk` run, whose own (truthful) result is returned; nil therefore means the object exists, and when
    HasChunk had not said `true` it holds exactly `toStorage(data)` -/
theorem has_false_is_safe_for_bulk_writes (retry : Nat) (data : Option Bytes) (toSt : Bytes → Option Bytes)
    (st : StatOutcome) (out : Nat → PutOutcome) (obj : Option Bytes)
    (hworld : st = .found → obj.isSome = true)
    (hok : (bulkStore retry data toSt st out obj).res = .ok) :
    (bulkStore retry data toSt st out obj).obj.isSome = true ∧
    (st ≠ .found → ∃ d b k, data = some d ∧ toSt d = some b ∧ (bulkStore retry data toSt st out obj).obj = some b ∧
      1 ≤ k ∧ k ≤ max retry 1 ∧ out k = .ok) :=
  Remote.has_false_is_safe_for_bulk_writes retry data toSt st out obj hworld hok

open Desync.Remote in
example : (bulkStore 2 (some [7]) some .failure (fun _ => .fail) none).res = .error ∧
    (bulkStore 2 (some [7]) some .failure (fun _ => .ok) none) = ⟨.ok, 1, some [7]⟩ := by
  simp [bulkStore, s3HasChunk, s3StoreChunk, s3PutLoop]

open Desync.Remote in
/-- **`SFTPStoreBase.StoreObject` is atomic on the final name**, for every failure point (every `e`, every length of a
    partial copy): nil ⇒ the final name holds the complete object and the temp name is gone; error ⇒ the final name has
    its previous content (or still does not exist) — never a prefix; no other name is touched; what is left under the
    temp name is a prefix of the object (or what was there) -/
theorem sftp_store_atomic (name digits b : Bytes) (e : SftpEnv) (d : RDir) (hd : digits ≠ []) :
    ((sftpStoreObject name digits b e d).res = .ok →
      (sftpStoreObject name digits b e d).dir.get name = some b ∧
      (sftpStoreObject name digits b e d).dir.get (name ++ digits) = none) ∧
    ((sftpStoreObject name digits b e d).res = .error →
      (sftpStoreObject name digits b e d).dir.get name = d.get name) ∧
    (∀ n, n ≠ name → n ≠ name ++ digits → (sftpStoreObject name digits b e d).dir.get n = d.get n) ∧
    (∀ c, (sftpStoreObject name digits b e d).dir.get (name ++ digits) = some c →
      (∃ k, c = b.take k) ∨ d.get (name ++ digits) = some c) :=
  Remote.sftp_store_atomic name digits b e d hd

open Desync.Remote in
/-- every failing step is reported: nil exactly when a `Create` got through and copy, close and rename succeeded -/
theorem sftp_store_reports_every_failure (name digits b : Bytes) (e : SftpEnv) (d : RDir) (hd : digits ≠ []) :
    (sftpStoreObject name digits b e d).res = .ok ↔
      ((d.exists_ = true ∧ (e.create1 = true ∨ e.create2 = true)) ∨ (d.exists_ = false ∧ e.mkdir = true ∧ e.create2 = true)) ∧
      e.copyFail = none ∧ e.close = true ∧ e.rename = true :=
  Remote.sftp_store_ok_iff name digits b e d hd

open Desync.Remote in
/-- a failed close or rename leaves the whole object under the temp name, a failed copy whose `Remove` fails a prefix -/
example : (sftpStoreObject [1] [48] [5, 6] ⟨true, true, true, none, true, true, false⟩ ⟨true, [([1], [9])]⟩).dir.files
      = [([1, 48], [5, 6]), ([1], [9])] ∧
    (sftpStoreObject [1] [48] [5, 6] ⟨true, true, true, some 1, false, true, true⟩ ⟨true, [([1], [9])]⟩).dir.files
      = [([1, 48], [5]), ([1], [9])] ∧
    (sftpStoreObject [1] [48] [5, 6] ⟨true, true, true, none, true, true, true⟩ ⟨true, [([1], [9])]⟩).dir.files
      = [([1], [5, 6])] := by decide

/-- what a failed `StoreObject` of a chunk leaves behind is a name `SFTPStore.Prune` classifies as a temporary file
    and removes (C16 `sftp_temp_names`), never the canonical name of a chunk -/
theorem sftp_leftover_is_pruned (unc : Bool) (id digits : Bytes) (h : id.length = 32) (hd : digits ≠ [])
    (hall : digits.all isDigit = true) :
    sftpClassify unc ((nameFromID unc id).2 ++ digits) = .removeTemp ∧
    ∀ (b : Bool) (id' : Bytes), id'.length = 32 → (nameFromID unc id).2 ++ digits ≠ (nameFromID b id').2 :=
  Remote.sftp_leftover_is_pruned unc id digits h hd hall

open Desync.Remote in
/-- **the SFTP connection pool is balanced**: under any interleaving of any number of methods, with any outcomes, the
    connections in the channel plus those held by running methods are N; when none is running the pool is full again;
    and with N ≥ 1 a request can always go on (a connection is free, or a running method can return and free one) -/
theorem sftp_pool_balanced (n : Nat) (es : List PoolM.Ev) (s : PoolM.St) (hf : PoolM.faithful es = true)
    (h : PoolM.run (PoolM.init n) es = some s) :
    s.free + s.held = n ∧ (s.held = 0 → s.free = n) ∧
    (1 ≤ n → (PoolM.step s .take).isSome = true ∨ (PoolM.step s (.finish true)).isSome = true) :=
  PoolM.balanced n es s hf h

open Desync.Remote in
/-- one return path that keeps the connection blocks every later request on a pool of one (the D14 kind of hang) -/
theorem sftp_pool_leak_blocks :
    PoolM.run (PoolM.init 1) [.take, .finish false] = some ⟨0, 0⟩ ∧ ∀ e, PoolM.step ⟨0, 0⟩ e = none :=
  PoolM.leak_blocks

end Desync.C06
