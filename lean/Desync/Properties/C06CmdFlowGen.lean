/-
  Regenerated obligations: the flows extracted from cmd/desync/{make,chop,cache,tar,untar,extract,verifyindex,verify,
  prune,cat,pull,store}.go pass the static checks the command-layer theorems need.  A changed source breaks only these.
-/
import Desync.Generated.Facts
import Desync.Model.CmdFlow

namespace Desync.C06
open Desync.Cmd

/-- **regenerated obligation**: `runMake`, `runChop`, `runCache`, `runTar` were understood completely, propagate every
    error, and write the index (make, tar -i) only by `return storeCaibxFile(…)` -/
theorem gen_cmdflow_bulk_writers :
    Gen.cmdflow_runMake.allErrorsPropagated = true ∧ Gen.cmdflow_runMake.indexStoredLast = true ∧
    Gen.cmdflow_runChop.allErrorsPropagated = true ∧ Gen.cmdflow_runChop.indexStoredLast = true ∧
    Gen.cmdflow_runCache.allErrorsPropagated = true ∧ Gen.cmdflow_runCache.indexStoredLast = true ∧
    Gen.cmdflow_runTar.allErrorsPropagated = true ∧ Gen.cmdflow_runTar.indexStoredLast = true := by
  decide

/-- **regenerated obligation**: the chunk-storing call of each bulk writer is there (`ChopFile` in make and chop,
    `Copy` in cache, `ChunkStream` in tar) and the index write of make and tar -/
theorem gen_cmdflow_bulk_writers_call :
    Gen.cmdflow_runMake.body.callees.contains "desync.ChopFile" = true ∧
    Gen.cmdflow_runMake.body.callees.contains "storeCaibxFile" = true ∧
    Gen.cmdflow_runChop.body.callees.contains "desync.ChopFile" = true ∧
    Gen.cmdflow_runCache.body.callees.contains "desync.Copy" = true ∧
    Gen.cmdflow_runTar.body.callees.contains "desync.ChunkStream" = true ∧
    Gen.cmdflow_runTar.body.callees.contains "desync.Tar" = true ∧
    Gen.cmdflow_runTar.body.callees.contains "storeCaibxFile" = true := by
  decide

/-- **regenerated obligation**: the other command functions and the index helpers propagate every error too -/
theorem gen_cmdflow_others_propagate :
    Gen.cmdflow_runVerifyIndex.allErrorsPropagated = true ∧ Gen.cmdflow_runExtract.allErrorsPropagated = true ∧
    Gen.cmdflow_runUntar.allErrorsPropagated = true ∧ Gen.cmdflow_runPrune.allErrorsPropagated = true ∧
    Gen.cmdflow_runCat.allErrorsPropagated = true ∧ Gen.cmdflow_runVerify.allErrorsPropagated = true ∧
    Gen.cmdflow_runPull.allErrorsPropagated = true ∧
    Gen.cmdflow_readCaibxFile.allErrorsPropagated = true ∧ Gen.cmdflow_storeCaibxFile.allErrorsPropagated = true ∧
    Gen.cmdflow_writeWithTmpFile.allErrorsPropagated = true ∧ Gen.cmdflow_writeInplace.allErrorsPropagated = true := by
  decide

end Desync.C06
