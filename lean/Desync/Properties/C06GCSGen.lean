/-
  C06 / C14, regenerated obligations for `GCStore.StoreChunk` / `HasChunk`.
-/
import Desync.Proofs.GCStoreShapes

namespace Desync.C06
open Desync

set_option maxRecDepth 16384

/-- `GCStore.StoreChunk` still returns the error of `io.Copy` and the error of `Close`, and nil only after both -/
theorem gen_gcs_store : Gen.site_gcs_store_found = true ∧ Gen.gcsStoreSkel = GCS.Expected.gcsStoreSkel := by decide

/-- `GCStore.HasChunk`: ErrObjectNotExist → (false, nil); another error → (false, err); otherwise (true, nil) -/
theorem gen_gcs_has : Gen.site_gcs_has_found = true ∧ Gen.gcsHasSkel = GCS.Expected.gcsHasSkel := by decide

end Desync.C06
