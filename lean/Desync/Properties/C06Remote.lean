/-
  C06, regenerated obligations for the S3 / SFTP chunk stores: s3.go and sftp.go still have the statement skeletons
  `Model/RemoteStores.lean` mirrors (`Proofs/RemoteStoresShapes.lean` holds them as they were when the model was
  written; extracted by harness/extract/remotestorefacts.go).  A module of its own so that a changed skeleton breaks
  these obligations only.
-/
import Desync.Proofs.RemoteStoresShapes

namespace Desync.C06
open Desync Desync.Remote

-- `decide` compares string literals character by character (the longest statement has 130)
set_option maxRecDepth 16384

/-- `S3Store.StoreChunk` is still the loop of `s3PutLoop`, and the error of `PutObject` reaches the `return` -/
theorem gen_remote_s3_store :
    Gen.site_remote_s3_store_found = true ∧ Gen.site_remote_s3_store_put_found = true ∧
    Gen.remoteS3LoopAssignsOuterErr = true ∧ Gen.remoteS3StoreSkel = Expected.remoteS3StoreSkel := by decide

/-- both `HasChunk` still end in `return err == nil, nil` -/
theorem gen_remote_has :
    Gen.site_remote_s3_has_found = true ∧ Gen.site_remote_sftp_has_found = true ∧
    Gen.remoteS3HasSkel = Expected.remoteS3HasSkel ∧ Gen.remoteSftpHasSkel = Expected.remoteSftpHasSkel := by decide

/-- `SFTPStoreBase.StoreObject` / `SFTPStore.StoreChunk` still have the steps and failure paths of `sftpStoreObject` -/
theorem gen_remote_sftp_store :
    Gen.site_remote_sftp_storeobject_found = true ∧ Gen.site_remote_sftp_store_found = true ∧
    Gen.remoteSftpStoreObjectSkel = Expected.remoteSftpStoreObjectSkel ∧
    Gen.remoteSftpStoreSkel = Expected.remoteSftpStoreSkel := by decide

/-- every method of `SFTPStore` that takes a connection from the pool begins with
    `c := <-s.pool; defer func() { s.pool <- c }()` and takes no other: no return path keeps the connection -/
theorem gen_remote_pool :
    Gen.site_remote_sftp_pool_found = true ∧
    Gen.remoteSftpPoolDeferredPutBack = ["GetChunk", "HasChunk", "Prune", "RemoveChunk", "StoreChunk"] ∧
    Gen.remoteSftpPoolOtherTakers = [] ∧ Gen.remoteSftpPoolDrains = ["Close"] := by decide

end Desync.C06
