/-
  C11 — Store chains follow their documented routing, caching and failover policy.

  Models: `Model/Chain.lean` (sequential semantics of every chain shape cmd/desync/store.go
  builds: router over single stores and failover groups, optional cache, optionally repairable),
  `Model/Failover.lean` and `Model/Swap.lean` (the two wrappers with shared mutable state, as step
  machines over all interleavings).  Members are scripted leaves with arbitrary contents and fault
  schedules.  Tie: operation sequences on the real wrappers around scripted members are compared
  with `Chain.getChunk`/`hasChunk` including every member's call log; FailoverGroup and SwapStore
  are run under a cooperative scheduler and their event traces replayed through the machines.
-/
import Desync.Generated.Facts
import Desync.Proofs.ChainProofs
import Desync.Proofs.SwapProofs

namespace Desync.C11
open Desync

/-! ### router -/

/-- a router returns a chunk if some group has it and all earlier groups merely lack it -/
theorem router_first_non_missing (w : Chain.World) (id : Nat) (pre : List (List Nat)) (members : List Nat)
    (rest : List (List Nat)) (g0 t : Nat) (v : Bool) (hpre : Chain.AllMissing w id g0 pre)
    (hhit : (Chain.grpGet (Chain.skipWorld w id g0 pre) (g0 + pre.length) members id).1 = .chunk t v) :
    Chain.routerGet w id g0 (pre ++ members :: rest) =
      (.chunk t v, (Chain.grpGet (Chain.skipWorld w id g0 pre) (g0 + pre.length) members id).2) :=
  Chain.router_first_non_missing w id pre members rest g0 t v hpre hhit

/-- a router reports "missing" exactly when every member lacks the chunk: a failure of a member is
    never turned into "missing" (and stops the search) -/
theorem router_missing_iff_all_missing (w : Chain.World) (id g : Nat) (gs : List (List Nat)) :
    (Chain.routerGet w id g gs).1 = .missing ↔ Chain.AllMissing w id g gs :=
  Chain.routerGet_missing_iff w id g gs

/-! ### cache -/

/-- a cached chunk is served without touching any upstream store -/
theorem cache_hit_no_upstream (cfg : Chain.Cfg) (w : Chain.World) (id c : Nat) (rep : Bool) (t : Nat)
    (hc : cfg.cache = some (c, rep)) (hans : (Chain.leafGet w c id).1 = .chunk t true) :
    (Chain.getChunk cfg w id).1 = .chunk t true ∧
      ∀ (i : Nat), i ≠ c → (Chain.getChunk cfg w id).2.leaves[i]? = w.leaves[i]? :=
  Chain.cache_hit_no_upstream cfg w id c rep t hc hans

/-- on a miss the cache fills itself from upstream -/
theorem cache_fill (cfg : Chain.Cfg) (w : Chain.World) (id c : Nat) (rep : Bool) (t : Nat) (v : Bool)
    (hc : cfg.cache = some (c, rep)) (hloc : (Chain.leafGet w c id).1 = .missing)
    (hup : (Chain.routerGet (Chain.leafGet w c id).2 id 0 cfg.groups).1 = .chunk t v)
    (hst : (Chain.leafStore (Chain.routerGet (Chain.leafGet w c id).2 id 0 cfg.groups).2 c id ⟨t, v⟩).1 = true) :
    (Chain.getChunk cfg w id).1 = .chunk t v ∧
      ∃ l, (Chain.getChunk cfg w id).2.leaves[c]? = some l ∧ l.content.lookup id = some ⟨t, v⟩ :=
  Chain.cache_fill cfg w id c rep t v hc hloc hup hst

/-- with repair enabled an invalid cached chunk is replaced from upstream … -/
theorem cache_repair (cfg : Chain.Cfg) (w : Chain.World) (id c t : Nat) (v : Bool)
    (hc : cfg.cache = some (c, true)) (hloc : (Chain.leafGet w c id).1 = .invalid)
    (hup : (Chain.routerGet (Chain.leafGet w c id).2 id 0 cfg.groups).1 = .chunk t v)
    (hst : (Chain.leafStore (Chain.routerGet (Chain.leafGet w c id).2 id 0 cfg.groups).2 c id ⟨t, v⟩).1 = true) :
    (Chain.getChunk cfg w id).1 = .chunk t v ∧
      ∃ l, (Chain.getChunk cfg w id).2.leaves[c]? = some l ∧ l.content.lookup id = some ⟨t, v⟩ :=
  Chain.cache_repair cfg w id c t v hc hloc hup hst

/-- … and without it the invalid chunk is an error and upstream is not consulted -/
theorem cache_no_repair_invalid (cfg : Chain.Cfg) (w : Chain.World) (id c : Nat)
    (hc : cfg.cache = some (c, false)) (hloc : (Chain.leafGet w c id).1 = .invalid) :
    Chain.getChunk cfg w id = (.invalid, (Chain.leafGet w c id).2) ∧
      ∀ (i : Nat), i ≠ c → (Chain.getChunk cfg w id).2.leaves[i]? = w.leaves[i]? :=
  Chain.cache_no_repair_invalid cfg w id c hc hloc

/-! ### failover group -/

/-- sequentially: a group with one healthy member whose other members are down, replicas or
    corrupt returns the healthy member's answer -/
theorem failover_healthy_sequential (w : Chain.World) (g : Nat) (members : List Nat) (hpos id : Nat) (ans : Chain.R)
    (hh : hpos < members.length) (hact : w.active.getD g 0 < members.length)
    (hans : ans ≠ .invalid) (H : Chain.HealthyGroup g members hpos id ans w) :
    (Chain.grpGet w g members id).1 = ans :=
  Chain.grpGet_healthy w g members hpos id ans hh hact hans H

/-- a missing chunk is never masked: "missing" from the active member is returned as such -/
theorem failover_missing_not_masked (w : Chain.World) (g : Nat) (members : List Nat) (id : Nat)
    (hne : members ≠ []) (h : (Chain.leafGet w (Chain.curMember w g members) id).1 = .missing)
    (hact : w.active.getD g 0 < members.length) :
    (Chain.grpGet w g members id).1 = .missing :=
  Chain.grpGet_missing_not_masked w g members id hne h hact

/-! The concurrent machines (`Model/Failover.lean`, `Model/Swap.lean`) run at the granularity of the
mutex operations and are validated against event traces recorded from the real code
(`failover.accept`, `swap.accept`).  `wp` = writer preference of the mutex on or off, `tr` = the
members are replicas; every theorem holds for both values of both. -/

/-- **all interleavings**: with a permanently healthy member no concurrent request — `GetChunk` or
    `HasChunk` — ever exhausts its attempts: the group keeps succeeding, whatever the other members do
    (fail, recover, answer differently) and however many callers fail over at the same time -/
theorem failover_never_fails (n h : Nat) (wp tr : Bool) (reqs : List (Failover.Op × Bool)) (hn : 1 ≤ n) (hh : h < n)
    (s : Failover.St) (hr : Failover.Reachable (Failover.St.init n h wp tr reqs) s) :
    ∀ t : Nat, s.callers[t]? ≠ some Failover.PC.failed :=
  Failover.never_fails n h wp tr reqs hn hh s hr

/-- and no request gets stuck: a caller that has not returned has an enabled event of its own, or it
    waits for the mutex and a holder of the mutex has an enabled event (holders never block), or it
    waits behind an announced writer that can take the lock now -/
theorem failover_no_deadlock (n h : Nat) (wp tr : Bool) (reqs : List (Failover.Op × Bool)) (hn : 1 ≤ n) (hh : h < n)
    (s : Failover.St) (hr : Failover.Reachable (Failover.St.init n h wp tr reqs) s) (t : Nat) (pc : Failover.PC)
    (hpc : s.callers[t]? = some pc) (hok : ∀ o a, pc ≠ Failover.PC.ok o a) :
    (∃ (e : Failover.Ev) (s' : Failover.St), e.caller = t ∧ Failover.step s e = some s') ∨
    (pc.waiting = true ∧ ∃ (u : Nat) (q : Failover.PC), u ≠ t ∧ s.callers[u]? = some q ∧
      ((q.holds = true ∧ ∃ (e : Failover.Ev) (s' : Failover.St), e.caller = u ∧ Failover.step s e = some s') ∨
       (q.isPendingW = true ∧ ∃ s', Failover.step s (.lock u) = some s'))) :=
  Failover.no_deadlock n h wp tr reqs hn hh s hr t pc hpc hok

/-- `active` only moves when the member it points to has failed a request: the step is the
    `errorFrom(a)` of a caller holding the write lock with `a = active` (the `i == g.active` guard: a
    second caller reporting the same member finds `active` moved and changes nothing); `active` moves
    to the next member and never away from the healthy one -/
theorem failover_active_only_moves_on_error_of_active (n h : Nat) (wp tr : Bool) (reqs : List (Failover.Op × Bool))
    (hn : 1 ≤ n) (hh : h < n) (s s' : Failover.St) (hr : Failover.Reachable (Failover.St.init n h wp tr reqs) s)
    (e : Failover.Ev) (hs : Failover.step s e = some s') (hne : s'.active ≠ s.active) :
    ∃ t i, e = .errFrom t ∧ s.callers[t]? = some (.holdW i s.active) ∧ s.active ≠ h ∧
      s'.active = (s.active + 1) % n :=
  Failover.active_only_moves_on_error_of_active n h wp tr reqs hn hh s s' hr e hs hne

/-- a request returns what a member answered, unmasked: a chunk or "missing" (`GetChunk`), a verdict
    (`HasChunk`); it is the truth whenever it came from the healthy member or the members are replicas -/
theorem failover_result_is_answer (n h : Nat) (wp tr : Bool) (reqs : List (Failover.Op × Bool)) (s : Failover.St)
    (hr : Failover.Reachable (Failover.St.init n h wp tr reqs) s) (t : Nat) (o : Failover.Out) (a : Nat)
    (hpc : s.callers[t]? = some (.ok o a)) :
    ∃ op p, reqs[t]? = some (op, p) ∧ Failover.classify op o = some true ∧
      (a = h ∨ tr = true → o = Failover.truth op p) :=
  Failover.result_is_answer n h wp tr reqs s hr t o a hpc

/-- `HasChunk` (no `ChunkMissing` arm: every error fails over): what it returns is a verdict, and the
    true one from the healthy member or from replicas -/
theorem failover_has_healthy (n h : Nat) (wp tr : Bool) (reqs : List (Failover.Op × Bool)) (s : Failover.St)
    (hr : Failover.Reachable (Failover.St.init n h wp tr reqs) s) (t : Nat) (p : Bool)
    (hreq : reqs[t]? = some (.has, p)) (o : Failover.Out) (a : Nat) (hpc : s.callers[t]? = some (.ok o a)) :
    ∃ b, o = .has b ∧ (a = h ∨ tr = true → b = p) :=
  Failover.has_healthy n h wp tr reqs s hr t p hreq o a hpc

/-- the lock discipline that makes `current()` and `errorFrom()` atomic: a caller inside `errorFrom`
    is alone, and the `active` read inside `current()` stays the current one while the read lock is held -/
theorem failover_lock_discipline (n h : Nat) (wp tr : Bool) (reqs : List (Failover.Op × Bool)) (s : Failover.St)
    (hr : Failover.Reachable (Failover.St.init n h wp tr reqs) s) :
    (∀ (t u : Nat) (p q : Failover.PC), s.callers[t]? = some p → s.callers[u]? = some q → t ≠ u →
      p.isWriter = true → q.holds = false) ∧
    (∀ (t i a : Nat), s.callers[t]? = some (.holdR i a) → a = s.active) :=
  ⟨(Failover.mutex n h wp tr reqs s hr).excl, (Failover.mutex n h wp tr reqs s hr).pin⟩

/-- **every request returns**: whatever the members do and however the callers are scheduled, a run of
    `k` callers on `n` members takes at most `k (10 n + 10)` steps (the loop bound `len(g.stores)`); by
    `failover_no_deadlock` a run can only stop when every caller has returned -/
theorem failover_every_schedule_ends (n h : Nat) (wp tr : Bool) (reqs : List (Failover.Op × Bool))
    (s' : Failover.St) (es : List Failover.Ev)
    (hrun : Failover.run (Failover.St.init n h wp tr reqs) es = some s') :
    es.length ≤ reqs.length * (n * 10 + 10) := by
  have := Failover.run_bounded n h wp tr reqs _ s' .refl es hrun
  rw [Failover.total_init] at this
  omega

/-- non-vacuity: three members, the healthy one last; two callers (a `GetChunk` and a `HasChunk`) both
    call member 0, both get an error and both report it: the first advances `active`, the second finds
    it moved (stale) — then member 1 fails the first caller again; both end with the healthy member's answer -/
example : ∃ s, Failover.Reachable (Failover.St.init 3 2 true false [(.get, true), (.has, false)]) s ∧
    s.callers = [.ok .chunk 2, .ok (.has false) 2] ∧ s.active = 2 :=
  ⟨_, Failover.run_reachable .refl
    [.wantR 0, .rlock 0, .wantR 1, .rlock 1, .runlock 0, .runlock 1, .call 0 0, .call 1 0, .ret 0 .error, .ret 1 .missing,
     .wantW 0, .wantW 1, .lock 0, .errFrom 0, .unlock 0, .lock 1, .errFrom 1, .unlock 1,
     .wantR 0, .rlock 0, .runlock 0, .call 0 1, .ret 0 .error, .wantW 0, .lock 0, .errFrom 0, .unlock 0,
     .wantR 1, .rlock 1, .runlock 1, .call 1 2, .ret 1 (.has false),
     .wantR 0, .rlock 0, .runlock 0, .call 0 2, .ret 0 .chunk] rfl, rfl, rfl⟩

/-- without a healthy member (`h` names none of the two) a request does fail: the hypothesis `h < n` of
    `failover_never_fails` is needed -/
example : ∃ s, Failover.Reachable (Failover.St.init 2 7 true false [(.get, true)]) s ∧ s.callers = [.failed] :=
  ⟨_, Failover.run_reachable .refl
    [.wantR 0, .rlock 0, .runlock 0, .call 0 0, .ret 0 .error, .wantW 0, .lock 0, .errFrom 0, .unlock 0,
     .wantR 0, .rlock 0, .runlock 0, .call 0 1, .ret 0 .error, .wantW 0, .lock 0, .errFrom 0, .unlock 0,
     .giveUp 0] rfl, rfl⟩

/-! ### swap -/

/-- **all interleavings**: the store a request has read under the read lock — before, during and after
    its member call — is the installed one and has not been closed by any `Swap` -/
theorem swap_no_use_after_close (curW wp : Bool) (roles : List Swap.Role) (s : Swap.St)
    (hr : Swap.Reachable (Swap.St.init curW wp roles) s) (t : Nat) (p : Swap.PC) (e : Nat)
    (ht : s.callers[t]? = some p) (he : p.epoch = some e) : e ∉ s.closedSwap ∧ e = s.current :=
  Swap.no_use_after_close curW wp roles s hr t p e ht he

/-- a `Swap` between taking and releasing the write lock is alone: no request in flight, no other `Swap` -/
theorem swap_writer_alone (curW wp : Bool) (roles : List Swap.Role) (s : Swap.St)
    (hr : Swap.Reachable (Swap.St.init curW wp roles) s) (t u : Nat) (p q : Swap.PC)
    (hp : s.callers[t]? = some p) (hq : s.callers[u]? = some q) (hne : t ≠ u) (hw : p.isWriter = true) :
    q.holds = false :=
  Swap.writer_alone curW wp roles s hr t u p q hp hq hne hw

/-- no request is lost or blocked for ever: a caller that has not returned has an enabled event of its
    own, or waits for the mutex while a holder has one (a swap waits exactly for the requests in flight,
    requests wait exactly for a swap), or waits behind an announced `Swap` that can take the lock now -/
theorem swap_progress (curW wp : Bool) (roles : List Swap.Role) (s : Swap.St)
    (hr : Swap.Reachable (Swap.St.init curW wp roles) s) (t : Nat) (pc : Swap.PC)
    (hpc : s.callers[t]? = some pc) (hfin : pc.final = false) :
    (∃ (e : Swap.Ev) (s' : Swap.St), e.caller = t ∧ Swap.step s e = some s') ∨
    (pc.waiting = true ∧ ∃ (u : Nat) (q : Swap.PC), u ≠ t ∧ s.callers[u]? = some q ∧
      ((q.holds = true ∧ ∃ (e : Swap.Ev) (s' : Swap.St), e.caller = u ∧ Swap.step s e = some s') ∨
       (q.isPendingW = true ∧ ∃ s', Swap.step s (.lock u) = some s'))) :=
  Swap.progress curW wp roles s hr t pc hpc hfin

/-- `SwapWriteStore.StoreChunk` asserts `s.s.(WriteStore)`: on a wrapper built on a writable store the
    installed store stays writable through every swap (others are refused) and the assertion never panics -/
theorem swap_store_never_panics (wp : Bool) (roles : List Swap.Role) (s : Swap.St)
    (hr : Swap.Reachable (Swap.St.init true wp roles) s) :
    s.curW = true ∧ ∀ (t e : Nat), s.callers[t]? ≠ some (.panicked e) :=
  Swap.store_never_panics wp roles s hr

/-- **every request and every swap returns**: a run of `k` callers takes at most `7 k` steps; by
    `swap_progress` it can only stop when every caller has returned -/
theorem swap_every_schedule_ends (curW wp : Bool) (roles : List Swap.Role) (s' : Swap.St) (es : List Swap.Ev)
    (hrun : Swap.run (Swap.St.init curW wp roles) es = some s') : es.length ≤ roles.length * 7 := by
  have := Swap.run_bounded _ s' es hrun
  rw [Swap.total_init] at this
  omega

/-- non-vacuity: a `StoreChunk` in flight on store 0 while a `Swap` announces itself; the swap waits,
    the request finishes on store 0, then store 0 is closed and store 1 installed; a `GetChunk`
    that came later runs on store 1 -/
example : ∃ s, Swap.Reachable (Swap.St.init true true [.req .store, .swap true, .req .get]) s ∧
    s.callers = [.done 0, .swapped, .done 1] ∧ s.closedSwap = [0] ∧ s.current = 1 :=
  ⟨_, Swap.run_reachable .refl
    [.wantR 0, .rlock 0 0, .enter 0 0, .wantW 1, .wantR 2, .exit 0 0, .runlock 0, .lock 1, .closeOld 1 0, .install 1,
     .unlock 1, .rlock 2 1, .enter 2 1, .exit 2 1, .runlock 2] rfl, rfl, rfl, rfl⟩

/-- a wrapper that was built on a store that is not writable does panic in `StoreChunk` -/
example : ∃ s, Swap.Reachable (Swap.St.init false true [.req .store]) s ∧ s.callers = [.panicked 0] :=
  ⟨_, Swap.run_reachable .refl [.wantR 0, .rlock 0 0, .runlock 0] rfl, rfl⟩

/-- **regenerated obligation**: the local store a cache is built on writes a chunk unconditionally — `StoreChunk`
    does not look at what is already there — so that `cache_repair` (an invalid cached chunk is replaced from
    upstream) holds for the real cache member and not only for the model's -/
theorem gen_cache_member_overwrites :
    Gen.localStoreChunkShape.contains "Stat" = false ∧ Gen.localStoreChunkShape.contains "HasChunk" = false ∧
    Gen.localStoreChunkShape.contains "Rename" = true ∧ Gen.site_shape_local_StoreChunk_found = true := by
  decide

end Desync.C11
