/-
  C11 — Store chains follow their documented routing, caching and failover policy.

  Models: `Model/Chain.lean` (sequential semantics of every chain shape cmd/desync/store.go
  builds: router over single stores and failover groups, optional cache, optionally repairable),
  `Model/Failover.lean` and `Model/Swap.lean` (the two wrappers with shared mutable state, as step
  machines over all interleavings).  Members are scripted leaves with arbitrary contents and fault
  schedules.  Tie: operation sequences on the real wrappers around scripted members are compared
  with `Chain.getChunk`/`hasChunk` including every member's call log; FailoverGroup and SwapStore
  are stressed concurrently.
-/
import Desync.Generated.Facts
import Desync.Proofs.ChainProofs
import Desync.Proofs.SwapProofs

namespace Desync.C11
open Desync

/-! ### router -/

/-- a router returns a chunk if some group has it and all earlier groups merely lack it -/
theorem router_first_non_missing (w : Chain.World) (id : Nat) (pre : List (List Nat)) (members : List Nat)
    (rest : List (List Nat)) (g0 t : Nat) (v : Bool) (hpre : Chain.AllMissing w id g0 pre)
    (hhit : (Chain.grpGet (Chain.skipWorld w id g0 pre) (g0 + pre.length) members id).1 = .chunk t v) :
    Chain.routerGet w id g0 (pre ++ members :: rest) =
      (.chunk t v, (Chain.grpGet (Chain.skipWorld w id g0 pre) (g0 + pre.length) members id).2) :=
  Chain.router_first_non_missing w id pre members rest g0 t v hpre hhit

/-- a router reports "missing" exactly when every member lacks the chunk: a failure of a member is
    never turned into "missing" (and stops the search) -/
theorem router_missing_iff_all_missing (w : Chain.World) (id g : Nat) (gs : List (List Nat)) :
    (Chain.routerGet w id g gs).1 = .missing ↔ Chain.AllMissing w id g gs :=
  Chain.routerGet_missing_iff w id g gs

/-! ### cache -/

/-- a cached chunk is served without touching any upstream store -/
theorem cache_hit_no_upstream (cfg : Chain.Cfg) (w : Chain.World) (id c : Nat) (rep : Bool) (t : Nat)
    (hc : cfg.cache = some (c, rep)) (hans : (Chain.leafGet w c id).1 = .chunk t true) :
    (Chain.getChunk cfg w id).1 = .chunk t true ∧
      ∀ (i : Nat), i ≠ c → (Chain.getChunk cfg w id).2.leaves[i]? = w.leaves[i]? :=
  Chain.cache_hit_no_upstream cfg w id c rep t hc hans

/-- on a miss the cache fills itself from upstream -/
theorem cache_fill (cfg : Chain.Cfg) (w : Chain.World) (id c : Nat) (rep : Bool) (t : Nat) (v : Bool)
    (hc : cfg.cache = some (c, rep)) (hloc : (Chain.leafGet w c id).1 = .missing)
    (hup : (Chain.routerGet (Chain.leafGet w c id).2 id 0 cfg.groups).1 = .chunk t v)
    (hst : (Chain.leafStore (Chain.routerGet (Chain.leafGet w c id).2 id 0 cfg.groups).2 c id ⟨t, v⟩).1 = true) :
    (Chain.getChunk cfg w id).1 = .chunk t v ∧
      ∃ l, (Chain.getChunk cfg w id).2.leaves[c]? = some l ∧ l.content.lookup id = some ⟨t, v⟩ :=
  Chain.cache_fill cfg w id c rep t v hc hloc hup hst

/-- with repair enabled an invalid cached chunk is replaced from upstream … -/
theorem cache_repair (cfg : Chain.Cfg) (w : Chain.World) (id c t : Nat) (v : Bool)
    (hc : cfg.cache = some (c, true)) (hloc : (Chain.leafGet w c id).1 = .invalid)
    (hup : (Chain.routerGet (Chain.leafGet w c id).2 id 0 cfg.groups).1 = .chunk t v)
    (hst : (Chain.leafStore (Chain.routerGet (Chain.leafGet w c id).2 id 0 cfg.groups).2 c id ⟨t, v⟩).1 = true) :
    (Chain.getChunk cfg w id).1 = .chunk t v ∧
      ∃ l, (Chain.getChunk cfg w id).2.leaves[c]? = some l ∧ l.content.lookup id = some ⟨t, v⟩ :=
  Chain.cache_repair cfg w id c t v hc hloc hup hst

/-- … and without it the invalid chunk is an error and upstream is not consulted -/
theorem cache_no_repair_invalid (cfg : Chain.Cfg) (w : Chain.World) (id c : Nat)
    (hc : cfg.cache = some (c, false)) (hloc : (Chain.leafGet w c id).1 = .invalid) :
    Chain.getChunk cfg w id = (.invalid, (Chain.leafGet w c id).2) ∧
      ∀ (i : Nat), i ≠ c → (Chain.getChunk cfg w id).2.leaves[i]? = w.leaves[i]? :=
  Chain.cache_no_repair_invalid cfg w id c hc hloc

/-! ### failover group -/

/-- sequentially: a group with one healthy member whose other members are down, replicas or
    corrupt returns the healthy member's answer -/
theorem failover_healthy_sequential (w : Chain.World) (g : Nat) (members : List Nat) (hpos id : Nat) (ans : Chain.R)
    (hh : hpos < members.length) (hact : w.active.getD g 0 < members.length)
    (hans : ans ≠ .invalid) (H : Chain.HealthyGroup g members hpos id ans w) :
    (Chain.grpGet w g members id).1 = ans :=
  Chain.grpGet_healthy w g members hpos id ans hh hact hans H

/-- a missing chunk is never masked: "missing" from the active member is returned as such -/
theorem failover_missing_not_masked (w : Chain.World) (g : Nat) (members : List Nat) (id : Nat)
    (hne : members ≠ []) (h : (Chain.leafGet w (Chain.curMember w g members) id).1 = .missing)
    (hact : w.active.getD g 0 < members.length) :
    (Chain.grpGet w g members id).1 = .missing :=
  Chain.grpGet_missing_not_masked w g members id hne h hact

/-- **all interleavings**: with a permanently healthy member no concurrent request ever exhausts
    its attempts — the group keeps succeeding -/
theorem failover_never_fails (n h k : Nat) (hn : 1 ≤ n) (hh : h < n) (s : Failover.St)
    (hr : Failover.Reachable (Failover.St.init n h k) s) : ∀ t : Nat, s.callers[t]? ≠ some Failover.PC.failed :=
  Failover.never_fails n h k hn hh s hr

/-- and no request gets stuck -/
theorem failover_no_deadlock (n h k : Nat) (hn : 1 ≤ n) (hh : h < n) (s : Failover.St)
    (hr : Failover.Reachable (Failover.St.init n h k) s) (t : Nat) (pc : Failover.PC)
    (hpc : s.callers[t]? = some pc) (hok : pc ≠ Failover.PC.ok) :
    ∃ e s', e.caller = t ∧ Failover.step s e = some s' :=
  Failover.no_deadlock n h k hn hh s hr t pc hpc hok

/-! ### swap -/

/-- **all interleavings**: a request in flight never runs on a store that has been closed by a swap -/
theorem swap_no_use_after_close (k : Nat) (s : Swap.St) (hr : Swap.Reachable (Swap.St.init k) s) (t e : Nat)
    (ht : s.callers[t]? = some (Swap.PC.inReq e)) : e ∉ s.closed ∧ e = s.current :=
  Swap.no_use_after_close k s hr t e ht

/-- no request is lost or blocked forever; a swap waits exactly for the requests in flight -/
theorem swap_progress (k : Nat) (s : Swap.St) (hr : Swap.Reachable (Swap.St.init k) s) :
    (∀ t : Nat, s.callers[t]? = some .idle → ∃ s', Swap.step s (.enter t) = some s') ∧
    (∀ (t : Nat) e, s.callers[t]? = some (Swap.PC.inReq e) → ∃ s', Swap.step s (.leave t) = some s') ∧
    ((∀ (t : Nat) e, s.callers[t]? ≠ some (Swap.PC.inReq e)) → ∃ s', Swap.step s .swap = some s') :=
  Swap.progress k s hr

/-- **regenerated obligation**: the local store a cache is built on writes a chunk unconditionally — `StoreChunk`
    does not look at what is already there — so that `cache_repair` (an invalid cached chunk is replaced from
    upstream) holds for the real cache member and not only for the model's -/
theorem gen_cache_member_overwrites :
    Gen.localStoreChunkShape.contains "Stat" = false ∧ Gen.localStoreChunkShape.contains "HasChunk" = false ∧
    Gen.localStoreChunkShape.contains "Rename" = true ∧ Gen.site_shape_local_StoreChunk_found = true := by
  decide

end Desync.C11
