/-
  C15 — "a chunk or index server CONFIGURED WITH an authorization value …, a server NOT STARTED WRITABLE …, unless
  write verification WAS DISABLED": how the command line and the environment of `desync chunk-server` /
  `desync index-server` become the handler's configuration (`Model/StoreOpts.lean`, the server part), composed with
  the handler theorems of `Properties/C15.lean`.  `enc` is the byte encoding of Go strings (any function).
-/
import Desync.Model.StoreOpts
import Desync.Properties.C15

namespace Desync.C15
open Desync Desync.StoreOpts

/-- **the authorization value is the configured one**: the flag's value if one was given, otherwise the value of
    `DESYNC_HTTP_AUTH` — for BOTH servers — and it is empty only if both are empty -/
theorem server_auth_is_configured_value (enc : String → Bytes) (s : ServerIn) (w : Bool) :
    (chunkServerCfg enc s w).auth = enc (serverAuth s.flagAuth s.envAuth) ∧
    (indexServerCfg enc s w).auth = enc (serverAuth s.flagAuth s.envAuth) ∧
    (s.flagAuth ≠ "" → serverAuth s.flagAuth s.envAuth = s.flagAuth) ∧
    (s.flagAuth = "" → serverAuth s.flagAuth s.envAuth = s.envAuth) ∧
    (serverAuth s.flagAuth s.envAuth = "" ↔ s.flagAuth = "" ∧ s.envAuth = "") := by
  refine ⟨rfl, rfl, ?_, ?_, ?_⟩
  · intro h; simp [serverAuth, h]
  · intro h; simp [serverAuth, h]
  · unfold serverAuth
    by_cases h : s.flagAuth = "" <;> simp [h]

/-- end to end: a server started with an authorization value (flag or environment) answers 401 and touches no store
    for every request that does not carry exactly that value -/
theorem configured_server_refuses_unauthorized (enc : String → Bytes) (H : Bytes → Bytes) (dec : Bytes → Option Bytes)
    (s : ServerIn) (w : Bool) (o : StoreOracle) (r : Request)
    (ha : enc (serverAuth s.flagAuth s.envAuth) ≠ []) (hh : r.authHeader ≠ enc (serverAuth s.flagAuth s.envAuth)) :
    serveChunk H dec (chunkServerCfg enc s w) o r = ⟨401, []⟩ ∧ serveIndex (indexServerCfg enc s w) o r = ⟨401, []⟩ :=
  ⟨(unauthorized_no_store_call H dec (chunkServerCfg enc s w) o r ha hh).1,
   (unauthorized_no_store_call H dec (indexServerCfg enc s w) o r ha hh).2⟩

/-- **writable only if asked**: the handler's writable flag is the `-w` flag, and a server started without it issues
    no write to its store, whatever the request -/
theorem server_writable_only_if_asked (enc : String → Bytes) (H : Bytes → Bytes) (dec : Bytes → Option Bytes)
    (s : ServerIn) (w : Bool) (o : StoreOracle) (r : Request) :
    (chunkServerCfg enc s w).writable = s.writable ∧ (indexServerCfg enc s w).writable = s.writable ∧
    (s.writable = false →
      (∀ c ∈ (serveChunk H dec (chunkServerCfg enc s w) o r).calls, c.isWrite = false) ∧
      (∀ c ∈ (serveIndex (indexServerCfg enc s w) o r).calls, c.isWrite = false)) :=
  ⟨rfl, rfl, fun h =>
    ⟨(readonly_no_write H dec (chunkServerCfg enc s w) o r h).1, (readonly_no_write H dec (indexServerCfg enc s w) o r h).2⟩⟩

/-- **the server verifies unless that was disabled**: with `--skip-verify-write=false` a chunk reaches the store only
    under the ID of the path and only if it hashes to it; the upstream stores verify what they read unless
    `--skip-verify-read` is set or the configuration entry of THAT store says so; and the chunk format served is
    compressed unless `-u` was given -/
theorem server_verifies_unless_disabled (enc : String → Bytes) (H : Bytes → Bytes) (dec : Bytes → Option Bytes)
    (s : ServerIn) (w : Bool) (o : StoreOracle) (r : Request) (id : Bytes) (c : ChunkObj) (e : StoreOptions) :
    (s.skipVerifyWrite = false → Call.storeChunk id c ∈ (serveChunk H dec (chunkServerCfg enc s w) o r).calls →
      idFromPath (!s.uncompressed) r.path = some id ∧ ∀ b, C03.delivers dec c b → H b = id) ∧
    (upstreamSkipVerify s e = true ↔ s.skipVerifyRead = true ∨ e.skipVerify = true) ∧
    (chunkServerCfg enc s w).compressed = !s.uncompressed :=
  ⟨fun hv hc => put_verified H dec (chunkServerCfg enc s w) o r id c hv hc, by simp [upstreamSkipVerify], rfl⟩

/-- **mutual TLS**: client certificates are required exactly when `--mutual-tls` was given AND the listener is a TLS
    listener (`--key`); `--client-ca` alone requires nothing -/
theorem mutual_tls_requires_client_cert (s : ServerIn) :
    (clientAuth s = .requireAndVerifyClientCert ↔ s.mutualTLS = true) ∧
    (requiresClientCert s = true ↔ s.mutualTLS = true ∧ s.key ≠ "") := by
  constructor
  · unfold clientAuth; cases s.mutualTLS <;> simp
  · unfold requiresClientCert usesTLS clientAuth
    cases s.mutualTLS <;> simp

/-- non-vacuity: a server with the value only in the environment, read-only, verifying -/
example : (chunkServerCfg (fun s => s.toUTF8.toList) ⟨"", "secret", false, false, false, false, true, "k.pem"⟩ true).writable = false ∧
    serverAuth "" "secret" = "secret" ∧ serverAuth "flag" "secret" = "flag" ∧
    requiresClientCert ⟨"", "secret", false, false, false, false, true, "k.pem"⟩ = true ∧
    requiresClientCert ⟨"", "secret", false, false, false, false, true, ""⟩ = false := by decide

end Desync.C15
