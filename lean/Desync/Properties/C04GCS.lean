/-
  C04 for the Google Cloud Storage index store (`GCIndexStore`, gcsindex.go) as modelled in `Model/GCStore.lean`.
-/
import Desync.Proofs.GCStoreProofs

namespace Desync.C04
open Desync Desync.Remote Desync.GCS

/-- **GCS index store round trip**: when `StoreIndex` returns nil the object holds exactly the bytes `idx.WriteTo`
    produced, and a `GetIndex` that reads the whole object hands exactly those bytes to `IndexFromReader`; a failed
    `StoreIndex` of a complete encoding leaves the previous object or the complete new one — never a mixture; a
    `GetIndex` that does not read the whole object is an error -/
theorem gcs_index_roundtrip (b partialB : Bytes) (o : UploadOutcome) (obj : Option Bytes) :
    ((gcsIndexStore (some b) partialB o obj).1 = .ok →
      (gcsIndexStore (some b) partialB o obj).2 = some b ∧ gcsIndexGet (.body b) = .ok b) ∧
    ((gcsIndexStore (some b) partialB o obj).2 = obj ∨ (gcsIndexStore (some b) partialB o obj).2 = some b) ∧
    (∀ g, gcsIndexGet g ≠ .error → ∃ x, g = .body x ∧ gcsIndexGet g = .ok x) := by
  refine ⟨?_, ?_, ?_⟩
  · cases o <;> simp [gcsIndexStore, gcsIndexGet]
  · cases o <;> simp [gcsIndexStore]
  · intro g hg
    cases g <;> simp_all [gcsIndexGet]

example : gcsIndexStore (some [1, 2]) [] .stored none = (.ok, some [1, 2]) ∧
    gcsIndexStore (some [1, 2]) [] .refused (some [9]) = (.error, some [9]) ∧
    gcsIndexGet (.readErr [1]) = .error := by decide

end Desync.C04
