/-
  C14 for the Google Cloud Storage backend: a missing object and a failing request are told apart by `GetChunk` and by
  `HasChunk` (`Model/GCStore.lean`).
-/
import Desync.Proofs.GCStoreProofs

namespace Desync.C14
open Desync Desync.Remote Desync.GCS

/-- **missing vs failed on GCS**: `GetChunk` answers `ChunkMissing` exactly when the client library reported
    `storage.ErrObjectNotExist` (at open, or from the re-opened download) — never for a refused or broken request, and
    a refused or broken request is never anything but an error; `HasChunk` answers `(false, nil)` exactly for "no such
    object" and passes every other failure on as an error -/
theorem gcs_missing_vs_failed (H : Bytes → Bytes) (dec : Bytes → Option Bytes) (id : Bytes) (convs : List Conv)
    (skipVerify : Bool) (o : GCS.GetOutcome) (s : StatOutcome) :
    (gcsGetChunk H dec id convs skipVerify o = .missing ↔ (o = .openNotExist ∨ o = .readNotExist)) ∧
    (o = .openErr ∨ o = .readErr → gcsGetChunk H dec id convs skipVerify o = .error) ∧
    (s = .notFound ↔ ((gcsHasChunk s).has = false ∧ (gcsHasChunk s).err = false)) ∧
    ((gcsHasChunk s).err = true ↔ s = .failure) :=
  ⟨(GCS.get_truthful H dec id convs skipVerify o).2.2.1, (GCS.get_truthful H dec id convs skipVerify o).2.2.2,
   (GCS.has_truthful s).2.2, (GCS.has_truthful s).2.1⟩

example : gcsHasChunk .failure = ⟨false, true⟩ ∧ gcsHasChunk .notFound = ⟨false, false⟩ := by decide

end Desync.C14
