/-
  C05, the mtree output leg (mtreefs.go; `desync mtree`, the fourth FilesystemWriter).

  What is proved about `Model/MtreeFS.lean` (tied to mtreefs.go by the regenerated facts of `C05MtreeGen.lean` and by
  the `mtree.line` / `mtree.parse` / `mtree.name` correspondences):

  * `mtree_filename_roundtrip`, `mtree_filename_injective`: as a function on byte strings `mtreeFilename` loses nothing.
  * `mtree_line_roundtrip`: for every node whose name is not empty and has no space (and, for a symbolic link, whose
    target has no space) an independent mtree(5) reader recovers EVERY field the line carries: path, type (character
    versus block device included), the twelve permission / set-id / sticky bits, uid, gid, size, link target, seconds and
    nanoseconds of the modification time, the content digest together with the algorithm.  `mtree_line_injective` follows.
  * where the code does not achieve it — `mtreeFilename` leaves the space, the field separator of the format, as it is:
    `mtree_line_not_injective` (two different symbolic links, one line), `mtree_space_in_name_misread` (a directory
    `a uid=0` owned by 1000 reads back as `a` owned by 0), `mtree_empty_name_unreadable`; reproduction against the real
    code: harness/repro/mtree_space (reported as an observation).
  * what the line does NOT carry: device numbers (`mtree_line_omits_device_numbers`); extended attributes are not in the model
    at all.  A modification time before the epoch is printed as `Unix()` and `Nanosecond()`, i.e. 0.5 s before the epoch
    is `-1.500000000` (`mtree_negative_time_text`): the reader above takes the two numbers apart again, a reader that takes
    the text for a decimal fraction is a second off.
  * write errors: the `Create*` methods drop the result of `fmt.Fprintln`.  `mtree_create_hides_write_errors` (what the
    caller is told is the same for EVERY writer, and is never a write error), `mtree_full_disk_reports_success` (a writer
    that runs full after the header: every call reports success, the second line is cut), `mtree_new_reports_write_error`
    (the header is the one write whose result is looked at), `mtree_unlimited_writer_gets_everything`.
-/
import Desync.Proofs.MtreeFSRoundTrip

namespace Desync.C05
open Desync Desync.MtreeFS

/-- reading a name back -/
theorem mtree_filename_roundtrip (s : Bytes) : unescape (mtreeFilename s) = some s :=
  unescape_mtreeFilename s

/-- the encoding of names is injective -/
theorem mtree_filename_injective (s t : Bytes) (h : mtreeFilename s = mtreeFilename t) : s = t := by
  have hs := unescape_mtreeFilename s
  rw [h, unescape_mtreeFilename t] at hs
  exact (Option.some.inj hs).symm

/-- every field of every node is recovered from the line the writer prints -/
theorem mtree_line_roundtrip (H : Hashes) (op : Op) (line : Bytes) (hl : lineOf H op = .ok line) (hr : Readable op) :
    parseLine (line ++ [10]) = .entry (fieldsOf H op) :=
  roundtrip H op line hl hr

/-- the fields the theorem speaks about, spelled out for a file: nothing of the node but its xattrs is missing -/
example (H : Hashes) (n : MNode) (d : Bytes) :
    fieldsOf H (.file n .sha256 (some d)) =
      { path := n.name, type := .file, mode := (Mode.filemodeToStat n.mode &&& 0o7777).toUInt64.toNat, uid := n.uid,
        gid := n.gid, sec := n.sec, nsec := n.nsec, size := some n.size, link := none,
        digest := some (.sha256, H.h256 d) } := rfl

/-- a device: the type says which of the two kinds it is -/
example (H : Hashes) (n : MNode) :
    (fieldsOf H (.device n)).type = if n.mode &&& Mode.ModeCharDevice != 0 then .char else .block := rfl

/-- hypotheses satisfiable, and the statement computes: a set-uid file with a name from the whole byte range, a
    negative owner and a sub-second time before the epoch -/
example :
    let H : Hashes := { h512 := fun _ => [1, 2], h256 := fun _ => [0xab, 0xcd] }
    let n : MNode := { name := [92, 35, 9, 255, 61, 97], uid := -2, gid := 4294967295, mode := 0x800000 ||| 0o755,
                       sec := -1, nsec := 500000000, size := 18446744073709551615 }
    parseLine ((match lineOf H (.file n .sha256 (some [7])) with | .ok l => l | .error _ => []) ++ [10]) =
      .entry { path := n.name, type := .file, mode := 0o4755, uid := -2, gid := 4294967295, sec := -1, nsec := 500000000,
               size := some 18446744073709551615, link := none, digest := some (.sha256, [0xab, 0xcd]) } := by
  decide

/-- two nodes with the same line say the same in every field -/
theorem mtree_line_injective (H : Hashes) (op₁ op₂ : Op) (line : Bytes) (h₁ : lineOf H op₁ = .ok line)
    (h₂ : lineOf H op₂ = .ok line) (r₁ : Readable op₁) (r₂ : Readable op₂) : fieldsOf H op₁ = fieldsOf H op₂ := by
  have a := roundtrip H op₁ line h₁ r₁
  rw [roundtrip H op₂ line h₂ r₂] at a
  exact (Parsed.entry.inj a).symm

/-! ### the space -/

/-- `a` → `b type=link mode=0777 target=c` and `a type=link mode=0777 target=b` → `c` -/
def spaceLink₁ : MNode :=
  { name := [97], mode := 0x8000000 ||| 0o777,
    target := [98, 32] ++ kv kType vLink ++ [32] ++ kv kMode [48, 55, 55, 55] ++ [32] ++ kv kTarget [99] }
def spaceLink₂ : MNode :=
  { name := [97, 32] ++ kv kType vLink ++ [32] ++ kv kMode [48, 55, 55, 55] ++ [32] ++ kv kTarget [98],
    mode := 0x8000000 ||| 0o777, target := [99] }

/-- the line does not determine the node: `mtreeFilename` leaves the field separator unescaped -/
theorem mtree_line_not_injective (H : Hashes) :
    spaceLink₁ ≠ spaceLink₂ ∧ spaceLink₁.name ≠ spaceLink₂.name ∧
    lineOf H (.symlink spaceLink₁) = lineOf H (.symlink spaceLink₂) := by
  refine ⟨by decide, by decide, ?_⟩
  simp only [lineOf]
  congr 1

/-- a directory named `a uid=0`, owned by 1000 -/
def spaceDir : MNode := { name := [97, 32] ++ kv kUid [48], uid := 1000, gid := 1000, mode := 0x80000000 ||| 0o755 }

/-- … reads back as a directory `a` owned by 0 -/
theorem mtree_space_in_name_misread (H : Hashes) :
    parseLine (joinSp (wordsDir spaceDir) ++ [10]) =
      .entry { path := [97], type := .dir, mode := 0o755, uid := 0, gid := 1000, sec := 0, nsec := 0 } ∧
    (fieldsOf H (.dir spaceDir)).path = [97, 32, 117, 105, 100, 61, 48] ∧ (fieldsOf H (.dir spaceDir)).uid = 1000 := by
  refine ⟨by decide, rfl, rfl⟩

/-- a node with the empty name (the library accepts it; `UnTar` never produces one: its names are `path.Join(".", …)`)
    prints a line whose first word is `type=dir` -/
theorem mtree_empty_name_unreadable :
    parseLine (joinSp (wordsDir { name := [], mode := 0x80000000 ||| 0o755 }) ++ [10]) = .bad := by decide

/-! ### what the line leaves out, and the text of a time before the epoch -/

theorem mtree_line_omits_device_numbers (H : Hashes) (n : MNode) (major minor : Nat) :
    lineOf H (.device { n with major := major, minor := minor }) = lineOf H (.device n) := rfl

/-- half a second before the epoch: `Unix() = -1`, `Nanosecond() = 500000000` -/
theorem mtree_negative_time_text : fmtTime (-1) 500000000 = [45, 49, 46, 53, 48, 48, 48, 48, 48, 48, 48, 48] := by decide

/-! ### write errors -/

/-- what `UnTar` is told by the `Create*` methods is the same whatever the writer does, and is never a write error -/
theorem mtree_create_hides_write_errors (H : Hashes) (ops : List Op) (s s' : Sink) :
    (createAll H s ops).2 = (createAll H s' ops).2 ∧ (createAll H s ops).2 ≠ .writeErr :=
  ⟨createAll_ret_indep H ops s s', createAll_ne_writeErr H ops s⟩

/-- two directories -/
def fullDiskOps : List Op :=
  [.dir { name := [46], mode := 0x80000000 ||| 0o755 }, .dir { name := [46, 47, 97], mode := 0x80000000 ||| 0o755 }]

/-- a writer that takes 64 bytes: the header and the first line fit, the second line is cut after 2 bytes; `NewMtreeFS`
    and both `CreateDir` calls report success -/
theorem mtree_full_disk_reports_success (H : Hashes) :
    (run H { room := some 64 } fullDiskOps).2 = .ok ∧
    (run H { room := some 64 } fullDiskOps).1.out.length = 64 ∧
    (header ++ 10 :: ideal H fullDiskOps).length = 114 := by
  refine ⟨rfl, rfl, rfl⟩

/-- the header is the one write whose result reaches the caller -/
theorem mtree_new_reports_write_error (s : Sink) (r : Nat) (hs : s.room = some r) (hr : r < 12) :
    (newMtreeFS s).2 = .writeErr := by
  have hl : (header ++ [10]).length = 12 := by decide
  unfold newMtreeFS Sink.println Sink.write
  simp only [hs, hl]
  have : ¬ (12 ≤ r) := by omega
  simp [this]

theorem createAll_unlimited (H : Hashes) (ops : List Op) (out : Bytes)
    (hok : ∀ op ∈ ops, ∃ l, lineOf H op = .ok l) :
    createAll H { out := out, room := none } ops = ({ out := out ++ ideal H ops, room := none }, .ok) := by
  induction ops generalizing out with
  | nil => simp [createAll, ideal]
  | cons op ops ih =>
    obtain ⟨l, hl⟩ := hok op (by simp)
    unfold createAll create
    simp only [hl, Sink.println, Sink.write, ideal]
    rw [ih _ (fun o ho => hok o (by simp [ho]))]
    simp

/-- a writer that never fails receives the header and one line per node -/
theorem mtree_unlimited_writer_gets_everything (H : Hashes) (ops : List Op)
    (hok : ∀ op ∈ ops, ∃ l, lineOf H op = .ok l) :
    run H { out := [], room := none } ops = ({ out := header ++ 10 :: ideal H ops, room := none }, .ok) := by
  unfold run newMtreeFS Sink.println Sink.write
  simp only [List.nil_append, Bool.false_eq_true, if_false]
  rw [createAll_unlimited H ops _ hok]
  simp

/-- the header line is a comment for the reader -/
theorem mtree_header_is_comment : parseLine (header ++ [10]) = .comment := by decide

end Desync.C05
