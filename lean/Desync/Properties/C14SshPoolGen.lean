/- C14 — regenerated obligation for remotessh.go: what `GetChunk`, `HasChunk`, `Close` and `NewRemoteSSHStore` do with
   the pool channel (harness/extract/sshpoolfacts.go, extracted by meaning: local names normalised, single-assignment
   locals looked through, a deferred put-back counted where it runs, `verif…` hook calls skipped) is what the step
   machine `Model/SshPool.lean` does -/
import Desync.Generated.Facts
import Desync.Model.SshPool

namespace Desync.C14
open Desync

/-- `GetChunk` has ONE path: take a session out of the pool, `RequestChunk(id)` on THAT session, put THAT session back,
    return `RequestChunk`'s two results as they are — no branch between take and put-back, so the session goes back
    whatever the result (`SshPool.step`: `take`, `send`+`recv`, `put`);
    `HasChunk` calls `GetChunk` with its own id and maps nil → (true, nil), `ChunkMissing` → (false, nil), any other
    error → (false, err) (`SshPool.outOf`);
    `Close` runs `for i := 0; i < r.n; i++`, takes a session per pass, says goodbye to it and keeps the LAST goodbye's
    error, which it returns (`cwant`/`cbye`, `Out.closed`);
    `NewRemoteSSHStore` makes the channel with capacity `opt.N`, sets `n` to the same `opt.N`, starts `n` sessions one
    after the other, puts each into the channel, and on the first failing start returns the store built so far TOGETHER
    with the error (`SshPool.construct` with `cap = n`; `constructor_failure`);
    nothing else in the package touches the channel -/
theorem gen_sshpool_shape :
    Gen.site_sshpool_GetChunk_found = true ∧ Gen.site_sshpool_HasChunk_found = true ∧
    Gen.site_sshpool_Close_found = true ∧ Gen.site_sshpool_Ctor_found = true ∧
    Gen.sshpoolGetChunk = ["take", "request", "put", "return-result"] ∧
    Gen.sshpoolHasChunk = ["nil→true,nil", "ChunkMissing→false,nil", "other→false,err"] ∧
    Gen.sshpoolClose = ["for:i=0;i<n;i++", "take", "goodbye-last-err", "return-err"] ∧
    Gen.sshpoolCtor = ["cap=opt.N", "n=opt.N", "for:i=0;i<n;i++", "start", "if-err→return-store,err", "put",
      "return-store,nil"] ∧
    Gen.sshpoolPoolUsers = ["Close", "GetChunk", "NewRemoteSSHStore"] := by decide

end Desync.C14
