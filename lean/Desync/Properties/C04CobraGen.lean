import Desync.Model.CobraInit
import Desync.Generated.Facts

/-! Regenerated obligations: how cmd/desync initialises the configured digest (session 7, after seeded change C04-l). -/
namespace Desync.C04

open Desync

/-- the digest is set by a function registered with `cobra.OnInitialize`, so it runs for every sub-command -/
theorem gen_cmd_digest_global :
    Gen.site_cobra_root_found = true ∧
    (∀ f ∈ Gen.cobraDigestSetter, f ∈ Gen.cobraOnInitialize) ∧ Gen.cobraDigestSetter ≠ [] := by decide

/-- no command of cmd/desync sets a persistent hook: nothing can shadow another command's initialisation -/
theorem gen_cmd_no_persistent_hooks : Gen.cobraPersistentHooks = [] := by decide

/-- with the regenerated shape the initialisation reaches every command path (instance of the general theorem) -/
theorem cmd_digest_reaches_every_command (path : List CobraInit.Node) :
    CobraInit.initRuns (Gen.cobraDigestSetter.all (· ∈ Gen.cobraOnInitialize) && !Gen.cobraDigestSetter.isEmpty) path = true := by
  have : (Gen.cobraDigestSetter.all (· ∈ Gen.cobraOnInitialize) && !Gen.cobraDigestSetter.isEmpty) = true := by decide
  rw [this]; exact CobraInit.onInitialize_reaches_every_command path

end Desync.C04
