/-
  C15 / C14 — the index location: `indexStoreFromLocation` asks the configuration about everything before the last
  separator of its argument.  `runIndexServer` appends a "/" to the served store's location before calling it, so the
  options of an index server's upstream store are those of the entry for the STORE's location; a client's
  `<store>/<name>.caibx` is looked up under `<store>`.
-/
import Desync.Proofs.StoreOptsProofs

namespace Desync.C15
open Desync Desync.StoreOpts

/-- for `location = store ++ "/" ++ name` with no "/" in `name` the configuration key is `store` — in particular for the
    index server's `store ++ "/"` (empty name) -/
theorem index_config_key_is_store_location (store name : Bytes) (h : cSlash ∉ name) :
    indexConfigKey (store ++ [cSlash] ++ name) = store ∧ indexConfigKey (store ++ [cSlash]) = store := by
  have h1 := beforeLast_append cSlash store name h
  have h2 := beforeLast_append cSlash store [] (by simp)
  simp only [List.append_nil] at h2
  constructor
  · unfold indexConfigKey; rw [h1]
  · unfold indexConfigKey; rw [h2]

/-- a location without any separator has the empty key (the working directory's entry, if any, then applies) -/
theorem index_config_key_no_separator (loc : Bytes) (h1 : cSlash ∉ loc) (h2 : cBsl ∉ loc) : indexConfigKey loc = [] := by
  have c1 : loc.contains cSlash = false := by simpa using h1
  have c2 : loc.contains cBsl = false := by simpa using h2
  simp only [indexConfigKey, beforeLast, c1, c2]
  rfl

-- "/s/x" ↦ "/s", "/s/" ↦ "/s", "x" ↦ ""
example : indexConfigKey [47, 115, 47, 120] = [47, 115] ∧ indexConfigKey [47, 115, 47] = [47, 115] ∧
    indexConfigKey [120] = [] := by decide

end Desync.C15
