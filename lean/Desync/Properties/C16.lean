/-
  C16 — Prune and verify remove exactly what they should.

  Model: `Model/LocalStore.lean`: `pruneClassify`/`verifyClassify` = the per-file filter of
  `LocalStore.Prune`/`Verify`, `pruneWalk` = the walk with `RemoveChunk(id)` acting on the
  canonical path of the ID.  Tie: Prune result and remaining files of generated store directories
  (both formats, temp, junk, misplaced, upper-case names; arbitrary keep-sets) are compared with
  the model exactly; Verify/repair is monitored on the implementation.  `Model/SftpStore.lean` is
  `SFTPStore.Prune` (after the repair of D14), compared the same way through pkg/sftp's server.
  `Model/S3Store.lean` is `S3Store.Prune` with `idFromName`, compared the same way through an in-process
  S3 service (minio client against it).
-/
import Desync.Proofs.LocalStoreProofs
import Desync.Proofs.SftpStoreProofs
import Desync.Proofs.S3StoreProofs
import Desync.Proofs.LocalVerifyProofs

namespace Desync.C16
open Desync

/-- **prune deletes only** temporary chunk files and the canonical file of an unreferenced ID of
    the store's own format — whether it ends in success or in an error -/
theorem prune_removes_only (unc : Bool) (keep : Bytes → Bool) (d d' : StoreDir)
    (h : prune unc keep d = .ok d' ∨ prune unc keep d = .failed d') :
    (∀ f ∈ d', f ∈ d) ∧
    ∀ f ∈ d, f ∉ d' →
      hasPrefix f.2 Gen.tmpChunkPrefixBytes = true ∨
      ∃ id, id.length = 32 ∧ keep id = false ∧ f = nameFromID unc id ∧ pruneClassify unc f.2 = .consider id :=
  ⟨prune_subset unc keep d d' h, prune_removed_only unc keep d d' h⟩

/-- a referenced chunk is never deleted -/
theorem prune_keeps_referenced (unc : Bool) (keep : Bytes → Bool) (d d' : StoreDir) (id : Bytes)
    (hk : keep id = true) (hid : id.length = 32) (hin : nameFromID unc id ∈ d)
    (h : prune unc keep d = .ok d' ∨ prune unc keep d = .failed d') : nameFromID unc id ∈ d' :=
  Desync.prune_keeps_referenced unc keep d d' id hk hid hin h

/-- a chunk of the other compression format is never deleted, wherever it lies -/
theorem prune_keeps_other_format (unc : Bool) (keep : Bytes → Bool) (d d' : StoreDir)
    (dir id : Bytes) (hid : id.length = 32) (hin : (dir, (nameFromID (!unc) id).2) ∈ d)
    (h : prune unc keep d = .ok d' ∨ prune unc keep d = .failed d') :
    (dir, (nameFromID (!unc) id).2) ∈ d' :=
  Desync.prune_keeps_other_format unc keep d d' dir id hid hin h

/-- a file that is not a chunk name of this store's format (and not a temp file) is never deleted -/
theorem prune_keeps_non_chunks (unc : Bool) (keep : Bytes → Bool) (d d' : StoreDir)
    (f : Bytes × Bytes) (hs : pruneClassify unc f.2 = .skip) (hin : f ∈ d)
    (h : prune unc keep d = .ok d' ∨ prune unc keep d = .failed d') : f ∈ d' :=
  prune_keeps_skipped unc keep d d' f hs hin h

/-- **complete on success**: when prune reports success no temporary chunk file and no canonical
    own-format file of an unreferenced ID is left.  (A chunk-like name in a wrong directory or with
    upper-case hex is never deleted itself: `RemoveChunk` acts on the canonical path, and prune
    fails when that file does not exist — the failure case is covered by the theorems above.) -/
theorem prune_complete_on_success (unc : Bool) (keep : Bytes → Bool) (d d' : StoreDir)
    (h : prune unc keep d = .ok d') :
    (∀ f ∈ d', hasPrefix f.2 Gen.tmpChunkPrefixBytes = false) ∧
    (∀ id, id.length = 32 → keep id = false → nameFromID unc id ∈ d → nameFromID unc id ∉ d') :=
  Desync.prune_complete_on_success unc keep d d' h

/-- verify considers exactly the store's own canonical chunk files (each as its own ID) and skips
    the other format -/
theorem verify_considers_own_only (unc : Bool) (id : Bytes) (h : id.length = 32) :
    verifyClassify unc (nameFromID unc id).2 = .consider id ∧
    verifyClassify unc (nameFromID (!unc) id).2 = .skip :=
  ⟨(classify_own unc id h).2, (classify_other_format unc id h).2⟩

/-! ### verify (`Model/LocalVerify.lean`: the walk, `GetChunk` on the canonical path, report, repair)

`valid id content` is the verdict of the verifying constructor (C03) and a parameter here. -/

/-- **verify reports exactly the chunks whose content does not match their ID**: an "invalid" line is printed for `id`
    iff the store holds the canonical own-format file of `id` with content the constructor rejects -/
theorem verify_reports_exactly_the_invalid (unc repair : Bool) (valid : Bytes → Bytes → Bool) (d : StoreFiles) (hd : d.Nodup)
    (id : Bytes) (hid : id.length = 32) :
    (∃ r, VerifyLine.invalid id r ∈ (verify unc repair valid d).2) ↔
      ∃ content, (nameFromID unc id, content) ∈ d ∧ valid id content = false :=
  verify_reports_exactly_invalid unc repair valid d hd id hid

/-- **with repair, verify removes exactly those**: what is gone afterwards is the canonical file of an ID with rejected
    content; every such file is gone; nothing is created or rewritten; without repair nothing is removed -/
theorem verify_repair_removes_exactly_the_invalid (unc : Bool) (valid : Bytes → Bytes → Bool) (d : StoreFiles) (hd : d.Nodup) :
    (∀ f ∈ d, f ∉ (verify unc true valid d).1 → ∃ id, id.length = 32 ∧ f.1 = nameFromID unc id ∧ valid id f.2 = false) ∧
    (∀ id content, id.length = 32 → (nameFromID unc id, content) ∈ d → valid id content = false →
      (nameFromID unc id, content) ∉ (verify unc true valid d).1) ∧
    (∀ f ∈ (verify unc true valid d).1, f ∈ d) ∧
    (verify unc false valid d).1 = d :=
  ⟨fun f hf hg => verify_removes_only_invalid unc valid d hd f hf hg,
   fun id content hid hin hbad => verify_removes_every_invalid unc valid d hd id content hid hin hbad,
   verify_subset unc true valid d, verify_no_repair_keeps_all unc valid d⟩

/-- valid chunks, chunks of the other format (wherever they lie) and files that are not chunk names survive a repair -/
theorem verify_repair_keeps_the_rest (unc : Bool) (valid : Bytes → Bytes → Bool) (d : StoreFiles) (hd : d.Nodup)
    (f : (Bytes × Bytes) × Bytes) (hf : f ∈ d)
    (h : (∃ id, id.length = 32 ∧ f.1 = nameFromID unc id ∧ valid id f.2 = true) ∨
         (∃ dir id, id.length = 32 ∧ f.1 = (dir, (nameFromID (!unc) id).2)) ∨
         verifyClassify unc f.1.2 = .skip) :
    f ∈ (verify unc true valid d).1 :=
  verify_keeps_valid_and_foreign unc valid d hd f hf h

/-! ### the SFTP store -/

/-- SFTP prune deletes only temporary files of interrupted uploads and the canonical file of an
    unreferenced ID of the store's own format -/
theorem sftp_prune_removes_only (unc : Bool) (keep : Bytes → Bool) (d d' : StoreDir)
    (h : sftpPrune unc keep d = .ok d' ∨ sftpPrune unc keep d = .failed d') :
    (∀ f ∈ d', f ∈ d) ∧
    ∀ f ∈ d, f ∉ d' →
      sftpClassify unc f.2 = .removeTemp ∨
      ∃ id, id.length = 32 ∧ keep id = false ∧ f = nameFromID unc id ∧ sftpClassify unc f.2 = .consider id :=
  ⟨sftpPrune_subset unc keep d d' h, sftpPrune_removed_only unc keep d d' h⟩

theorem sftp_prune_keeps_referenced (unc : Bool) (keep : Bytes → Bool) (d d' : StoreDir) (id : Bytes)
    (hk : keep id = true) (hid : id.length = 32) (hin : nameFromID unc id ∈ d)
    (h : sftpPrune unc keep d = .ok d' ∨ sftpPrune unc keep d = .failed d') : nameFromID unc id ∈ d' :=
  sftpPrune_keeps_referenced unc keep d d' id hk hid hin h

theorem sftp_prune_keeps_other_format (unc : Bool) (keep : Bytes → Bool) (d d' : StoreDir)
    (dir id : Bytes) (hid : id.length = 32) (hin : (dir, (nameFromID (!unc) id).2) ∈ d)
    (h : sftpPrune unc keep d = .ok d' ∨ sftpPrune unc keep d = .failed d') :
    (dir, (nameFromID (!unc) id).2) ∈ d' :=
  sftpPrune_keeps_other_format unc keep d d' dir id hid hin h

theorem sftp_prune_keeps_non_chunks (unc : Bool) (keep : Bytes → Bool) (d d' : StoreDir)
    (f : Bytes × Bytes) (hs : sftpClassify unc f.2 = .skip) (hin : f ∈ d)
    (h : sftpPrune unc keep d = .ok d' ∨ sftpPrune unc keep d = .failed d') : f ∈ d' :=
  sftpPrune_keeps_skipped unc keep d d' f hs hin h

/-- on success no temporary file of an interrupted upload and no unreferenced own-format chunk is left -/
theorem sftp_prune_complete_on_success (unc : Bool) (keep : Bytes → Bool) (d d' : StoreDir)
    (h : sftpPrune unc keep d = .ok d') :
    (∀ f ∈ d', isSftpTempName f.2 (extOf unc) = false) ∧
    (∀ id, id.length = 32 → keep id = false → nameFromID unc id ∈ d → nameFromID unc id ∉ d') :=
  ⟨sftpPrune_no_temp_left unc keep d d' h, (sftpPrune_complete_on_success unc keep d d' h).2⟩

/-- what an interrupted upload leaves behind is recognised, and a chunk name of either format never is -/
theorem sftp_temp_names (unc : Bool) (id digits : Bytes) (h : id.length = 32) (hd : digits ≠ [])
    (hall : digits.all isDigit = true) :
    sftpClassify unc ((nameFromID unc id).2 ++ digits) = .removeTemp ∧
    isSftpTempName (nameFromID unc id).2 (extOf unc) = false ∧
    isSftpTempName (nameFromID (!unc) id).2 (extOf unc) = false :=
  ⟨sftp_temp_classified unc id digits h hd hall, sftp_temp_not_chunk unc id h, sftp_temp_not_other_chunk unc id h⟩

/-! ### the S3 store -/

/-- S3 prune deletes only the canonical object of an unreferenced ID of the store's own format
    (removing an object never fails on S3, so there is no half-way outcome) -/
theorem s3_prune_removes_only (unc : Bool) (keep : Bytes → Bool) (d : StoreDir) :
    (∀ f ∈ s3Prune unc keep d, f ∈ d) ∧
    ∀ f ∈ d, f ∉ s3Prune unc keep d →
      ∃ id, id.length = 32 ∧ keep id = false ∧ f = nameFromID unc id ∧ s3Classify unc f.1 f.2 = .consider id :=
  ⟨s3Prune_subset unc keep d, s3Prune_removed_only unc keep d⟩

theorem s3_prune_keeps_referenced (unc : Bool) (keep : Bytes → Bool) (d : StoreDir) (id : Bytes)
    (hk : keep id = true) (hid : id.length = 32) (hin : nameFromID unc id ∈ d) :
    nameFromID unc id ∈ s3Prune unc keep d :=
  s3Prune_keeps_referenced unc keep d id hk hid hin

theorem s3_prune_keeps_other_format (unc : Bool) (keep : Bytes → Bool) (d : StoreDir) (dir id : Bytes)
    (hid : id.length = 32) (hin : (dir, (nameFromID (!unc) id).2) ∈ d) :
    (dir, (nameFromID (!unc) id).2) ∈ s3Prune unc keep d :=
  s3Prune_keeps_other_format unc keep d dir id hid hin

theorem s3_prune_keeps_non_chunks (unc : Bool) (keep : Bytes → Bool) (d : StoreDir) (f : Bytes × Bytes)
    (hs : s3Classify unc f.1 f.2 = .skip) (hin : f ∈ d) : f ∈ s3Prune unc keep d :=
  s3Prune_keeps_skipped unc keep d f hs hin

/-- afterwards no canonical own-format object of an unreferenced ID is left -/
theorem s3_prune_complete (unc : Bool) (keep : Bytes → Bool) (d : StoreDir) :
    ∀ id, id.length = 32 → keep id = false → nameFromID unc id ∈ d → nameFromID unc id ∉ s3Prune unc keep d :=
  s3Prune_complete unc keep d

theorem gen_sites :
    Gen.site_str_tmpChunkPrefix_found = true ∧ Gen.site_str_CompressedChunkExt_found = true ∧
    Gen.site_str_UncompressedChunkExt_found = true := by decide

/-! ### `desync prune` with several index files -/

/-- the keep-set `runPrune` builds: the chunk IDs of all the given indexes -/
def cmdKeep (indexes : List (List Bytes)) (id : Bytes) : Bool := indexes.any (·.contains id)

/-- a chunk that any of the given indexes references is in the keep-set, so (`prune_keeps_referenced`) the
    store keeps it -/
theorem cmd_prune_keeps_every_index (unc : Bool) (indexes : List (List Bytes)) (d d' : StoreDir)
    (idx : List Bytes) (hidx : idx ∈ indexes) (id : Bytes) (hmem : id ∈ idx)
    (hid : id.length = 32) (hin : nameFromID unc id ∈ d)
    (h : prune unc (cmdKeep indexes) d = .ok d' ∨ prune unc (cmdKeep indexes) d = .failed d') :
    nameFromID unc id ∈ d' := by
  apply Desync.prune_keeps_referenced unc (cmdKeep indexes) d d' id _ hid hin h
  simp only [cmdKeep, List.any_eq_true]
  exact ⟨idx, hidx, by simpa using hmem⟩

/-- **regenerated obligation**: `runPrune` makes one keep-set before the loop over the index files, adds the
    ID of every chunk of every index, never resets it, and hands it to `Prune` -/
theorem gen_cmd_prune :
    Gen.cmdPruneShape = ["make-keep-set", "range-args", "add:ID", "Prune:keep-set"] ∧
    Gen.site_shape_cmd_prune_found = true := by
  decide

/-- **regenerated obligation**: `desync verify` hands every invocation to the store's `Verify` with the worker
    count and the repair flag the user gave; no path returns success before that call -/
theorem gen_cmd_verify_delegates :
    Gen.cmdVerifyShape = ["call(opt.n,opt.repair)"] ∧
    Gen.site_shape_cmdVerifyShape_found = true := by
  decide

end Desync.C16
