/-
  C06 / C14 for the Google Cloud Storage chunk store (`GCStore.StoreChunk`, `GCStore.HasChunk`, gcs.go) as modelled in
  `Model/GCStore.lean`: nil from StoreChunk means the object holds `toStorage(data)`; HasChunk tells a missing object
  from a failing request.
-/
import Desync.Proofs.GCStoreProofs

namespace Desync.C06
open Desync Desync.Remote Desync.GCS

/-- **`GCStore.StoreChunk` is truthful**: nil exactly when the data could be obtained and converted and the upload
    was finalised by a successful `Close`; then the object IS `toStorage(data)`.  An error leaves the object as it was
    unless the service stored it and the answer was lost (then it holds the new bytes — never anything else).
    At most one upload. -/
theorem gcs_store_truthful (data : Option Bytes) (toSt : Bytes → Option Bytes) (o : UploadOutcome) (obj : Option Bytes) :
    ((gcsStoreChunk data toSt o obj).res = .ok ↔ ∃ d b, data = some d ∧ toSt d = some b ∧ o = .stored) ∧
    ((gcsStoreChunk data toSt o obj).res = .ok → ∃ d b, data = some d ∧ toSt d = some b ∧
        (gcsStoreChunk data toSt o obj).obj = some b) ∧
    ((gcsStoreChunk data toSt o obj).res = .error → o ≠ .storedNoReply → (gcsStoreChunk data toSt o obj).obj = obj) ∧
    ((gcsStoreChunk data toSt o obj).obj = obj ∨
      ∃ d b, data = some d ∧ toSt d = some b ∧ (gcsStoreChunk data toSt o obj).obj = some b) ∧
    (gcsStoreChunk data toSt o obj).uploads ≤ 1 :=
  GCS.store_truthful data toSt o obj

/-- **`GCStore.HasChunk` is truthful** (the full contract — S3 and SFTP only have `s3_has_masks_failures_partial`):
    `true` exactly for an object that is there, an error exactly for a failing request, `(false, nil)` exactly for
    "no such object" -/
theorem gcs_has_truthful (o : StatOutcome) :
    ((gcsHasChunk o).has = true ↔ o = .found) ∧ ((gcsHasChunk o).err = true ↔ o = .failure) ∧
    (o = .notFound ↔ ((gcsHasChunk o).has = false ∧ (gcsHasChunk o).err = false)) :=
  GCS.has_truthful o

/-- the bulk-write path `ChunkStorage.StoreChunk` over a GCS store: nil means the object exists — it was found, or it
    was reported absent and now holds exactly `toStorage(data)`; a failing HasChunk is never taken for either -/
theorem gcs_bulk_store_truthful (data : Option Bytes) (toSt : Bytes → Option Bytes) (st : StatOutcome) (o : UploadOutcome)
    (obj : Option Bytes) (hworld : st = .found → obj.isSome = true)
    (hok : (gcsBulkStore data toSt st o obj).res = .ok) :
    (gcsBulkStore data toSt st o obj).obj.isSome = true ∧
    (st = .found ∨ (st = .notFound ∧ ∃ d b, data = some d ∧ toSt d = some b ∧ o = .stored ∧
      (gcsBulkStore data toSt st o obj).obj = some b)) :=
  GCS.bulk_store_truthful data toSt st o obj hworld hok

/-- not vacuous; a refused Close is an error with the old object in place; a dropped Close error would be the bug -/
example : gcsStoreChunk (some [1]) some .stored (some [9]) = ⟨.ok, 1, some [1]⟩ ∧
    gcsStoreChunk (some [1]) some .refused (some [9]) = ⟨.error, 1, some [9]⟩ ∧
    gcsStoreChunk (some [1]) some .storedNoReply none = ⟨.error, 1, some [1]⟩ ∧
    gcsStoreChunk none some .stored none = ⟨.error, 0, none⟩ ∧
    gcsBulkStore (some [1]) some .failure .stored none = ⟨.error, 0, none⟩ ∧
    gcsBulkStore (some [1]) some .notFound .stored none = ⟨.ok, 1, some [1]⟩ := by
  simp [gcsStoreChunk, gcsBulkStore, gcsHasChunk]

end Desync.C06
