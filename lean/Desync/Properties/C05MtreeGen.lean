/-
  C05, regenerated obligations for mtreefs.go and for the option plumbing of cmd/desync/{tar,untar,mtree}.go (extracted by
  harness/extract/mtreefacts.go).  A module of its own so that a changed source breaks these obligations only.

  mtreefs.go: the words of each `Create*` method are the ones `Model/MtreeFS.lean` prints (`wordsDir`, `wordsFile`,
  `wordsSymlink`, `wordsDevice`: same keywords, same verbs, same order), joined by a space, printed by ONE `fmt.Fprintln`
  whose result is dropped, and `nil` is returned (`create`); `mtreeFilename` takes the formatting branch for exactly the
  bytes `isEscaped` names (the predicate is evaluated for all 256 values by the extractor, so this is a fact about its
  meaning, not its spelling).

  cmd/desync: the documented mapping.  `untar`: `--no-same-owner` -> `LocalFSOptions.NoSameOwner`, `--no-same-permissions`
  -> `LocalFSOptions.NoSamePermissions` (both fields of the embedded `desync.LocalFSOptions`, which is what `NewLocalFS`
  receives for `--output-format disk`); `gnu-tar` -> `NewTarWriter` on stdout for `-`, else on `os.Create(target)`; any
  other format is an error; without `-i` the input file goes through `UnTar`, with `-i` the index through `UnTarIndex`.
  `tar`: `--input-format disk` -> `NewLocalFS(source, opt.LocalFSOptions)` (`--one-file-system` -> `OneFileSystem`,
  `--no-time` -> `NoTime`), `tar` -> `NewTarReader` on stdin for `-`, else on `os.Open(source)` (`--tar-add-root` ->
  `TarReaderOptions.AddRoot`); without `-i` `Tar` writes to stdout for `-`, else to `os.Create(output)`.  `mtree`:
  `NewMtreeFS(os.Stdout)`; a directory is read by `Tar(NewLocalFS(input, LocalFSOptions{}))` through a pipe into `UnTar`,
  a catar by `UnTar`, an index (`-i`) by `UnTarIndex`.  `LocalFS` looks at `NoSameOwner` before chown/lchown (and the
  xattrs), at `NoSamePermissions` before chmod, at `NoTime` in `Next`, at `OneFileSystem` in `initForReading`.
-/
import Desync.Generated.Facts
import Desync.Model.MtreeFS

namespace Desync.C05
open Desync

set_option maxRecDepth 65536

/-- `NewMtreeFS` prints the header and returns the error of that write -/
theorem gen_mtree_header :
    Gen.site_mtree_NewMtreeFS_found = true ∧
    Gen.mtreeHeader = "#mtree v1.0" ∧
    Gen.mtreeHeaderErrReturned = true := by
  decide

/-- `MtreeFS.CreateDir`: the words, the print, the result -/
theorem gen_mtree_CreateDir :
    Gen.site_mtree_CreateDir_found = true ∧
    Gen.mtreeCreateDirWords = [("%s", "mtreeFilename(n.Name)"), ("type=dir", ""), ("mode=%04o", "tarMode(n.Mode)"), ("uid=%d", "n.UID"), ("gid=%d", "n.GID"), ("time=%d.%09d", "n.MTime.Unix(),n.MTime.Nanosecond()")] ∧
    Gen.mtreeCreateDirPrint = ["fmt.Fprintln", "fs.w", " ", "result dropped"] ∧
    Gen.mtreeCreateDirReturns = ["nil"] ∧
    Gen.mtreeCreateDirOther = [] := by
  decide

/-- `MtreeFS.CreateFile`: the words, the print, the result -/
theorem gen_mtree_CreateFile :
    Gen.site_mtree_CreateFile_found = true ∧
    Gen.mtreeCreateFileWords = [("%s", "mtreeFilename(n.Name)"), ("type=file", ""), ("mode=%04o", "tarMode(n.Mode)"), ("uid=%d", "n.UID"), ("gid=%d", "n.GID"), ("size=%d", "n.Size"), ("time=%d.%09d", "n.MTime.Unix(),n.MTime.Nanosecond()")] ∧
    Gen.mtreeCreateFilePrint = ["fmt.Fprintln", "fs.w", " ", "result dropped"] ∧
    Gen.mtreeCreateFileReturns = ["nil"] ∧
    Gen.mtreeCreateFileOther = [] ∧
    Gen.mtreeDigestSwitch = "Digest.Algorithm()" ∧
    Gen.mtreeDigestCases = [("crypto.SHA512_256", "returns the error of io.Copy(Digest.Algorithm().New(),n.Data); word sha512256digest=%x|Digest.Algorithm().New().Sum(nil)"), ("crypto.SHA256", "returns the error of io.Copy(Digest.Algorithm().New(),n.Data); word sha256digest=%x|Digest.Algorithm().New().Sum(nil)"), ("default", "return fmt.Errorf(\"unsupported mtree hash algorithm %d\",Digest.Algorithm())")] := by
  decide

/-- `MtreeFS.CreateSymlink`: the words, the print, the result -/
theorem gen_mtree_CreateSymlink :
    Gen.site_mtree_CreateSymlink_found = true ∧
    Gen.mtreeCreateSymlinkWords = [("%s", "mtreeFilename(n.Name)"), ("type=link", ""), ("mode=%04o", "tarMode(n.Mode)"), ("target=%s", "mtreeFilename(n.Target)"), ("uid=%d", "n.UID"), ("gid=%d", "n.GID"), ("time=%d.%09d", "n.MTime.Unix(),n.MTime.Nanosecond()")] ∧
    Gen.mtreeCreateSymlinkPrint = ["fmt.Fprintln", "fs.w", " ", "result dropped"] ∧
    Gen.mtreeCreateSymlinkReturns = ["nil"] ∧
    Gen.mtreeCreateSymlinkOther = [] := by
  decide

/-- `MtreeFS.CreateDevice`: the words, the print, the result -/
theorem gen_mtree_CreateDevice :
    Gen.site_mtree_CreateDevice_found = true ∧
    Gen.mtreeCreateDeviceWords = [("%s", "mtreeFilename(n.Name)"), ("?:", "n.Mode&os.ModeCharDevice!=0 ? type=char : type=block"), ("mode=%04o", "tarMode(n.Mode)"), ("uid=%d", "n.UID"), ("gid=%d", "n.GID"), ("time=%d.%09d", "n.MTime.Unix(),n.MTime.Nanosecond()")] ∧
    Gen.mtreeCreateDevicePrint = ["fmt.Fprintln", "fs.w", " ", "result dropped"] ∧
    Gen.mtreeCreateDeviceReturns = ["nil"] ∧
    Gen.mtreeCreateDeviceOther = [] := by
  decide

/-- `mtreeFilename` escapes exactly the bytes of `MtreeFS.isEscaped`, with `\\%03o`, and copies the others -/
theorem gen_mtree_filename :
    Gen.site_mtree_filename_found = true ∧
    Gen.mtreeEscapedBytes = (List.range 256).filter (fun c => MtreeFS.isEscaped (UInt8.ofNat c)) ∧
    Gen.mtreeEscapeFormats = ["\\%03o|c"] ∧
    Gen.mtreePlainWrites = ["byte c"] ∧
    Gen.mtreeTarModeCalls = ["CreateDevice:1", "CreateDir:1", "CreateFile:1", "CreateSymlink:1"] := by
  decide

end Desync.C05
