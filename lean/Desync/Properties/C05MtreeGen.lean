/-
  C05, regenerated obligations for mtreefs.go and for the option plumbing of cmd/desync/{tar,untar,mtree}.go (extracted by
  harness/extract/mtreefacts.go).  A module of its own so that a changed source breaks these obligations only.

  mtreefs.go: the words of each `Create*` method are the ones `Model/MtreeFS.lean` prints (`wordsDir`, `wordsFile`,
  `wordsSymlink`, `wordsDevice`: same keywords, same verbs, same order), joined by a space, printed by ONE `fmt.Fprintln`
  whose result is dropped, and `nil` is returned (`create`); `mtreeFilename` takes the formatting branch for exactly the
  bytes `isEscaped` names (the predicate is evaluated for all 256 values by the extractor, so this is a fact about its
  meaning, not its spelling).

  cmd/desync: the documented mapping.  `untar`: `--no-same-owner` -> `LocalFSOptions.NoSameOwner`, `--no-same-permissions`
  -> `LocalFSOptions.NoSamePermissions` (both fields of the embedded `desync.LocalFSOptions`, which is what `NewLocalFS`
  receives for `--output-format disk`); `gnu-tar` -> `NewTarWriter` on stdout for `-`, else on `os.Create(target)`; any
  other format is an error; without `-i` the input file goes through `UnTar`, with `-i` the index through `UnTarIndex`.
  `tar`: `--input-format disk` -> `NewLocalFS(source, opt.LocalFSOptions)` (`--one-file-system` -> `OneFileSystem`,
  `--no-time` -> `NoTime`), `tar` -> `NewTarReader` on stdin for `-`, else on `os.Open(source)` (`--tar-add-root` ->
  `TarReaderOptions.AddRoot`); without `-i` `Tar` writes to stdout for `-`, else to `os.Create(output)`.  `mtree`:
  `NewMtreeFS(os.Stdout)`; a directory is read by `Tar(NewLocalFS(input, LocalFSOptions{}))` through a pipe into `UnTar`,
  a catar by `UnTar`, an index (`-i`) by `UnTarIndex`.  `LocalFS` looks at `NoSameOwner` before chown/lchown (and the
  xattrs), at `NoSamePermissions` before chmod, at `NoTime` in `Next`, at `OneFileSystem` in `initForReading`.
-/
import Desync.Generated.Facts
import Desync.Model.MtreeFS

namespace Desync.C05
open Desync

set_option maxRecDepth 65536

/-- `NewMtreeFS` prints the header and returns the error of that write -/
theorem gen_mtree_header :
    Gen.site_mtree_NewMtreeFS_found = true ∧
    Gen.mtreeHeader = "#mtree v1.0" ∧
    Gen.mtreeHeaderErrReturned = true := by
  decide

/-- `MtreeFS.CreateDir`: the words, the print, the result -/
theorem gen_mtree_CreateDir :
    Gen.site_mtree_CreateDir_found = true ∧
    Gen.mtreeCreateDirWords = [("%s", "mtreeFilename(n.Name)"), ("type=dir", ""), ("mode=%04o", "tarMode(n.Mode)"), ("uid=%d", "n.UID"), ("gid=%d", "n.GID"), ("time=%d.%09d", "n.MTime.Unix(),n.MTime.Nanosecond()")] ∧
    Gen.mtreeCreateDirPrint = ["fmt.Fprintln", "fs.w", " ", "result dropped"] ∧
    Gen.mtreeCreateDirReturns = ["nil"] ∧
    Gen.mtreeCreateDirOther = [] := by
  decide

/-- `MtreeFS.CreateFile`: the words, the print, the result -/
theorem gen_mtree_CreateFile :
    Gen.site_mtree_CreateFile_found = true ∧
    Gen.mtreeCreateFileWords = [("%s", "mtreeFilename(n.Name)"), ("type=file", ""), ("mode=%04o", "tarMode(n.Mode)"), ("uid=%d", "n.UID"), ("gid=%d", "n.GID"), ("size=%d", "n.Size"), ("time=%d.%09d", "n.MTime.Unix(),n.MTime.Nanosecond()")] ∧
    Gen.mtreeCreateFilePrint = ["fmt.Fprintln", "fs.w", " ", "result dropped"] ∧
    Gen.mtreeCreateFileReturns = ["nil"] ∧
    Gen.mtreeCreateFileOther = [] ∧
    Gen.mtreeDigestSwitch = "Digest.Algorithm()" ∧
    Gen.mtreeDigestCases = [("crypto.SHA512_256", "returns the error of io.Copy(Digest.Algorithm().New(),n.Data); word sha512256digest=%x|Digest.Algorithm().New().Sum(nil)"), ("crypto.SHA256", "returns the error of io.Copy(Digest.Algorithm().New(),n.Data); word sha256digest=%x|Digest.Algorithm().New().Sum(nil)"), ("default", "return fmt.Errorf(\"unsupported mtree hash algorithm %d\",Digest.Algorithm())")] := by
  decide

/-- `MtreeFS.CreateSymlink`: the words, the print, the result -/
theorem gen_mtree_CreateSymlink :
    Gen.site_mtree_CreateSymlink_found = true ∧
    Gen.mtreeCreateSymlinkWords = [("%s", "mtreeFilename(n.Name)"), ("type=link", ""), ("mode=%04o", "tarMode(n.Mode)"), ("target=%s", "mtreeFilename(n.Target)"), ("uid=%d", "n.UID"), ("gid=%d", "n.GID"), ("time=%d.%09d", "n.MTime.Unix(),n.MTime.Nanosecond()")] ∧
    Gen.mtreeCreateSymlinkPrint = ["fmt.Fprintln", "fs.w", " ", "result dropped"] ∧
    Gen.mtreeCreateSymlinkReturns = ["nil"] ∧
    Gen.mtreeCreateSymlinkOther = [] := by
  decide

/-- `MtreeFS.CreateDevice`: the words, the print, the result -/
theorem gen_mtree_CreateDevice :
    Gen.site_mtree_CreateDevice_found = true ∧
    Gen.mtreeCreateDeviceWords = [("%s", "mtreeFilename(n.Name)"), ("?:", "n.Mode&os.ModeCharDevice!=0 ? type=char : type=block"), ("mode=%04o", "tarMode(n.Mode)"), ("uid=%d", "n.UID"), ("gid=%d", "n.GID"), ("time=%d.%09d", "n.MTime.Unix(),n.MTime.Nanosecond()")] ∧
    Gen.mtreeCreateDevicePrint = ["fmt.Fprintln", "fs.w", " ", "result dropped"] ∧
    Gen.mtreeCreateDeviceReturns = ["nil"] ∧
    Gen.mtreeCreateDeviceOther = [] := by
  decide

/-- `mtreeFilename` escapes exactly the bytes of `MtreeFS.isEscaped`, with `\\%03o`, and copies the others -/
theorem gen_mtree_filename :
    Gen.site_mtree_filename_found = true ∧
    Gen.mtreeEscapedBytes = (List.range 256).filter (fun c => MtreeFS.isEscaped (UInt8.ofNat c)) ∧
    Gen.mtreeEscapeFormats = ["\\%03o|c"] ∧
    Gen.mtreePlainWrites = ["byte c"] ∧
    Gen.mtreeTarModeCalls = ["CreateDevice:1", "CreateDir:1", "CreateFile:1", "CreateSymlink:1"] := by
  decide

/-- `desync tar`: flags, option struct, guarded calls -/
theorem gen_cmd_tar :
    Gen.site_cmd_Tar_flags_found = true ∧
    Gen.site_cmd_runTar_found = true ∧
    Gen.cmdTarFlags = [("chunk-size", "opt.chunkSize StringVar \"16:64:256\""), ("index", "opt.createIndex BoolVar false"), ("input-format", "opt.inFormat StringVar \"disk\""), ("no-time", "opt.NoTime BoolVar false"), ("one-file-system", "opt.OneFileSystem BoolVar false"), ("store", "opt.store StringVar \"\""), ("tar-add-root", "opt.AddRoot BoolVar false")] ∧
    Gen.cmdTarOptions = ["embedded cmdStoreOptions", "store string", "chunkSize string", "createIndex bool", "embedded desync.LocalFSOptions", "inFormat string", "embedded desync.TarReaderOptions"] ∧
    Gen.cmdRunTarPlan = [("opt.createIndex&&opt.store==\"\"", "errors.New(\"-i requires a store (-s <location>)\")"), ("!(opt.createIndex&&opt.store==\"\") && opt.AddRoot&&opt.inFormat!=\"tar\"", "errors.New(\"--tar-add-root works only with --input-format tar\")"), ("!(opt.createIndex&&opt.store==\"\") && !(opt.AddRoot&&opt.inFormat!=\"tar\") && opt.inFormat==\"disk\"", "desync.NewLocalFS(args[1],opt.LocalFSOptions)"), ("!(opt.createIndex&&opt.store==\"\") && !(opt.AddRoot&&opt.inFormat!=\"tar\") && opt.inFormat==\"tar\" && args[1]==\"-\"", "os.Stdin"), ("!(opt.createIndex&&opt.store==\"\") && !(opt.AddRoot&&opt.inFormat!=\"tar\") && opt.inFormat==\"tar\" && !(args[1]==\"-\")", "os.Open(args[1])"), ("!(opt.createIndex&&opt.store==\"\") && !(opt.AddRoot&&opt.inFormat!=\"tar\") && opt.inFormat==\"tar\"", "desync.NewTarReader(r,opt.TarReaderOptions)"), ("!(opt.createIndex&&opt.store==\"\") && !(opt.AddRoot&&opt.inFormat!=\"tar\") && opt.inFormat not in {\"disk\",\"tar\"}", "fmt.Errorf(\"invalid input format '%s'\",opt.inFormat)"), ("!(opt.createIndex&&opt.store==\"\") && !(opt.AddRoot&&opt.inFormat!=\"tar\") && !opt.createIndex && args[0]==\"-\"", "os.Stdout"), ("!(opt.createIndex&&opt.store==\"\") && !(opt.AddRoot&&opt.inFormat!=\"tar\") && !opt.createIndex && !(args[0]==\"-\")", "os.Create(args[0])"), ("!(opt.createIndex&&opt.store==\"\") && !(opt.AddRoot&&opt.inFormat!=\"tar\") && !opt.createIndex", "desync.Tar(ctx,w,fs)"), ("!(opt.createIndex&&opt.store==\"\") && !(opt.AddRoot&&opt.inFormat!=\"tar\") && !(!opt.createIndex)", "io.Pipe()"), ("!(opt.createIndex&&opt.store==\"\") && !(opt.AddRoot&&opt.inFormat!=\"tar\") && !(!opt.createIndex)", "WritableStore(opt.store,opt.cmdStoreOptions)"), ("!(opt.createIndex&&opt.store==\"\") && !(opt.AddRoot&&opt.inFormat!=\"tar\") && !(!opt.createIndex)", "parseChunkSizeParam(opt.chunkSize)"), ("!(opt.createIndex&&opt.store==\"\") && !(opt.AddRoot&&opt.inFormat!=\"tar\") && !(!opt.createIndex)", "desync.NewChunker(r,min,avg,max)"), ("!(opt.createIndex&&opt.store==\"\") && !(opt.AddRoot&&opt.inFormat!=\"tar\") && !(!opt.createIndex)", "desync.Tar(ctx,w,fs)"), ("!(opt.createIndex&&opt.store==\"\") && !(opt.AddRoot&&opt.inFormat!=\"tar\") && !(!opt.createIndex)", "desync.ChunkStream(ctx,c,s,opt.n)"), ("!(opt.createIndex&&opt.store==\"\") && !(opt.AddRoot&&opt.inFormat!=\"tar\") && !(!opt.createIndex) && !(tarErr!=nil)", "storeCaibxFile(index,args[0],opt.cmdStoreOptions)")] := by
  decide

/-- `desync untar`: flags, option struct, guarded calls -/
theorem gen_cmd_untar :
    Gen.site_cmd_Untar_flags_found = true ∧
    Gen.site_cmd_runUntar_found = true ∧
    Gen.cmdUntarFlags = [("cache", "opt.cache StringVar \"\""), ("index", "opt.readIndex BoolVar false"), ("no-same-owner", "opt.NoSameOwner BoolVar false"), ("no-same-permissions", "opt.NoSamePermissions BoolVar false"), ("output-format", "opt.outFormat StringVar \"disk\""), ("store", "opt.stores StringSliceVar nil")] ∧
    Gen.cmdUntarOptions = ["embedded cmdStoreOptions", "embedded desync.LocalFSOptions", "stores []string", "cache string", "readIndex bool", "outFormat string"] ∧
    Gen.cmdRunUntarPlan = [("opt.readIndex&&len(opt.stores)==0", "errors.New(\"-i requires at least one store (-s <location>)\")"), ("!(opt.readIndex&&len(opt.stores)==0) && opt.outFormat==\"disk\"", "desync.NewLocalFS(args[1],opt.LocalFSOptions)"), ("!(opt.readIndex&&len(opt.stores)==0) && opt.outFormat==\"gnu-tar\" && args[1]==\"-\"", "os.Stdout"), ("!(opt.readIndex&&len(opt.stores)==0) && opt.outFormat==\"gnu-tar\" && !(args[1]==\"-\")", "os.Create(args[1])"), ("!(opt.readIndex&&len(opt.stores)==0) && opt.outFormat==\"gnu-tar\"", "desync.NewTarWriter(w)"), ("!(opt.readIndex&&len(opt.stores)==0) && opt.outFormat not in {\"disk\",\"gnu-tar\"}", "fmt.Errorf(\"invalid output format '%s'\",opt.outFormat)"), ("!(opt.readIndex&&len(opt.stores)==0) && !opt.readIndex", "os.Open(args[0])"), ("!(opt.readIndex&&len(opt.stores)==0) && !opt.readIndex", "io.TeeReader(f,desync.NewProgressBar(\"Unpacking \"))"), ("!(opt.readIndex&&len(opt.stores)==0) && !opt.readIndex", "desync.UnTar(ctx,r,fs)"), ("!(opt.readIndex&&len(opt.stores)==0) && !(!opt.readIndex)", "MultiStoreWithCache(opt.cmdStoreOptions,opt.cache,opt.stores)"), ("!(opt.readIndex&&len(opt.stores)==0) && !(!opt.readIndex)", "readCaibxFile(args[0],opt.cmdStoreOptions)"), ("!(opt.readIndex&&len(opt.stores)==0) && !(!opt.readIndex)", "desync.UnTarIndex(ctx,fs,index,s,opt.n,desync.NewProgressBar(\"Unpacking \"))")] := by
  decide

/-- `desync mtree`: flags, option struct, guarded calls -/
theorem gen_cmd_mtree :
    Gen.site_cmd_Mtree_flags_found = true ∧
    Gen.site_cmd_runMtree_found = true ∧
    Gen.cmdMtreeFlags = [("cache", "opt.cache StringVar \"\""), ("index", "opt.readIndex BoolVar false"), ("store", "opt.stores StringSliceVar nil")] ∧
    Gen.cmdMtreeOptions = ["embedded cmdStoreOptions", "stores []string", "cache string", "readIndex bool"] ∧
    Gen.cmdRunMtreePlan = [("opt.readIndex&&len(opt.stores)==0", "errors.New(\"-i requires at least one store (-s <location>)\")"), ("!(opt.readIndex&&len(opt.stores)==0)", "desync.NewMtreeFS(os.Stdout)"), ("!(opt.readIndex&&len(opt.stores)==0)", "os.Stdout"), ("!(opt.readIndex&&len(opt.stores)==0)", "os.Stat(args[0])"), ("!(opt.readIndex&&len(opt.stores)==0) && opt.readIndex&&stat.IsDir()", "errors.New(\"-i can't be used with input directory\")"), ("!(opt.readIndex&&len(opt.stores)==0) && !(opt.readIndex&&stat.IsDir()) && stat.IsDir()", "io.Pipe()"), ("!(opt.readIndex&&len(opt.stores)==0) && !(opt.readIndex&&stat.IsDir()) && stat.IsDir()", "desync.NewLocalFS(args[0],desync.LocalFSOptions{…})"), ("!(opt.readIndex&&len(opt.stores)==0) && !(opt.readIndex&&stat.IsDir()) && stat.IsDir()", "desync.Tar(ctx,w,desync.NewLocalFS(args[0],desync.LocalFSOptions{…}))"), ("!(opt.readIndex&&len(opt.stores)==0) && !(opt.readIndex&&stat.IsDir()) && stat.IsDir()", "desync.UnTar(ctx,r,mtreeFS)"), ("!(opt.readIndex&&len(opt.stores)==0) && !(opt.readIndex&&stat.IsDir()) && !(stat.IsDir()) && !opt.readIndex", "os.Open(args[0])"), ("!(opt.readIndex&&len(opt.stores)==0) && !(opt.readIndex&&stat.IsDir()) && !(stat.IsDir()) && !opt.readIndex", "desync.UnTar(ctx,r,mtreeFS)"), ("!(opt.readIndex&&len(opt.stores)==0) && !(opt.readIndex&&stat.IsDir()) && !(stat.IsDir()) && !(!opt.readIndex)", "MultiStoreWithCache(opt.cmdStoreOptions,opt.cache,opt.stores)"), ("!(opt.readIndex&&len(opt.stores)==0) && !(opt.readIndex&&stat.IsDir()) && !(stat.IsDir()) && !(!opt.readIndex)", "readCaibxFile(args[0],opt.cmdStoreOptions)"), ("!(opt.readIndex&&len(opt.stores)==0) && !(opt.readIndex&&stat.IsDir()) && !(stat.IsDir()) && !(!opt.readIndex)", "desync.UnTarIndex(ctx,mtreeFS,index,s,opt.n,desync.NullProgressBar{…})")] := by
  decide

/-- where `LocalFS` looks at its options -/
theorem gen_localfs_option_guards :
    Gen.site_localfs_option_guards_found = true ∧
    Gen.localfsOptionFields = ["OneFileSystem", "NoSameOwner", "NoSamePermissions", "NoTime"] ∧
    Gen.localfsOptionGuards = [("SetDirPermissions: !fs.opts.NoSameOwner", "os.Chown,xattr.LSet"), ("SetDirPermissions: !fs.opts.NoSamePermissions", "syscall.Chmod"), ("SetFilePermissions: !fs.opts.NoSameOwner", "os.Chown,xattr.LSet"), ("SetFilePermissions: !fs.opts.NoSamePermissions", "syscall.Chmod"), ("SetSymlinkPermissions: !fs.opts.NoSameOwner", "os.Lchown,xattr.LSet"), ("CreateDevice: !fs.opts.NoSameOwner", "os.Chown,xattr.LSet"), ("CreateDevice: !fs.opts.NoSamePermissions", "syscall.Chmod"), ("Next: fs.opts.NoTime", "time.Unix"), ("initForReading: fs.opts.OneFileSystem", "os.Lstat")] := by
  decide

/-- the documented mapping read off the regenerated tables: the two untar flags reach the fields of their names, and the
    struct that holds them is the one `NewLocalFS` receives -/
theorem gen_untar_flags_reach_localfs :
    Gen.cmdUntarFlags.lookup "no-same-owner" = some "opt.NoSameOwner BoolVar false" ∧
    Gen.cmdUntarFlags.lookup "no-same-permissions" = some "opt.NoSamePermissions BoolVar false" ∧
    Gen.cmdUntarOptions.contains "embedded desync.LocalFSOptions" = true ∧
    (Gen.cmdRunUntarPlan.map Prod.snd).contains "desync.NewLocalFS(args[1],opt.LocalFSOptions)" = true ∧
    Gen.cmdTarFlags.lookup "one-file-system" = some "opt.OneFileSystem BoolVar false" ∧
    Gen.cmdTarFlags.lookup "no-time" = some "opt.NoTime BoolVar false" ∧
    (Gen.cmdRunTarPlan.map Prod.snd).contains "desync.NewLocalFS(args[1],opt.LocalFSOptions)" = true := by
  decide

end Desync.C05
