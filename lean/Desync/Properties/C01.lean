/-
  C01  Extract reproduces the indexed blob byte-for-byte.

  Two models, both tied to /repo on every run:
  * `Model/Assemble.lean` — `AssembleFile` with one worker, executable, everything it calls
    (planner, validation and the skip/regenerate loop, seed segment writes with the clone
    arithmetic regenerated from fileseed.go/nullseed.go, the kernel's FICLONERANGE rules, the self
    seed).  Tie: exact correspondence of status, output bytes and the five counters of
    `ExtractStats` with the real `AssembleFile` (N = 1) on generated cases.
  * `Model/AssembleConc.lean` — N concurrent workers over one shared file, every file operation a
    step, everything a worker writes while copying or cloning from a seed *arbitrary* but inside
    its own segment.  Tie: trace validation — the real `AssembleFile` runs with 2..4 workers under a
    cooperative scheduler (hooks `verifAsm`), and the recorded events (jobs received, every copy,
    clone and zero fill with its bytes, every re-hash and in-place verdict, self-seed lookups and
    publications) must be a run of the machine ending in the same file (`asmconc.accept`,
    `accepted_trace_safe`); besides that the confinement theorems below, the regenerated order of
    operations, and monitors on real runs with N in 2..8 under scheduling noise at the yield hooks.
  Helper lemmas live in `Proofs/Assemble*.lean`, `Proofs/AsmFile.lean`, `Proofs/FileLemmas.lean`.
-/
import Desync.Proofs.AssembleComplete
import Desync.Proofs.AssembleConcProofs
import Desync.Proofs.AssembleConcBridge
import Desync.Proofs.AssembleFindPlan

namespace Desync.C01
open Desync Desync.Asm

/-! ## regenerated obligations: the order of operations the models implement -/

/-- `writeChunk`: self seed first, then the in-place comparison (unless the target is known
    blank), then the store with the length check before the write -/
theorem gen_writeChunk_shape :
    Gen.writeChunkShape = ["getChunk", "WriteInto", "if:!isBlank", "ReadAt", "Sum", "GetChunk", "Data", "WriteAt"] := by decide

/-- `AssembleFile`: truncate (unless block device), null seed, self seed; worker: WriteInto, then
    re-read and re-hash every chunk, `writeChunk` on a mismatch, `ss.add` last; plan, validate,
    regenerate, rewind, plan again; the result goes through `waitOrInterrupted` (C07) -/
theorem gen_assemble_shape :
    Gen.assembleShape = ["if:!isBlkDevice", "Truncate", "newNullChunkSeed", "newSelfSeed", "WriteInto", "ReadAt", "Sum",
      "writeChunk", "add", "writeChunk", "add", "Plan", "Validate", "Regenerate", "Rewind", "Plan", "waitOrInterrupted"] := by decide

/-- `nullChunkSection.WriteInto`, as a decision table over (canReflink, isBlank) read off the control flow however it is
    spelled: no cloning → skip if blank, else fill; otherwise clone -/
theorem gen_null_shape :
    Gen.nullWriteIntoTable = ["false,false->copy", "false,true->return", "true,false->clone", "true,true->clone"] := by decide

/-- `selfSeed.add` holds the lock while it advances the written prefix -/
theorem gen_selfseed_shape : Gen.selfSeedAddShape = ["Lock", "Unlock", "if:!ok", "delete"] := by decide

/-- every extracted site was found in the source -/
theorem gen_sites :
    (Gen.site_fsclone_srcAlignStart_found && Gen.site_fsclone_srcAlignEnd_found && Gen.site_fsclone_dstAlignStart_found &&
     Gen.site_fsclone_alignLength_found && Gen.site_fsclone_dstAlignEnd_found && Gen.site_fsclone_guard_found &&
     Gen.site_fsclone_fallbackCopy_found && Gen.site_fsclone_headCopy_found && Gen.site_fsclone_tailCopy_found &&
     Gen.site_fsclone_cloneRange_found && Gen.site_fsclone_two_copies_found && Gen.site_fswrite_useCopy_found &&
     Gen.site_fswrite_wrongSize_found && Gen.site_fswrite_copyArgs_found && Gen.site_fswrite_cloneArgs_found &&
     Gen.site_nullclone_dstAlignStart_found && Gen.site_nullclone_dstAlignEnd_found && Gen.site_nullclone_guard_found &&
     Gen.site_nullclone_fallbackCopy_found && Gen.site_nullclone_headCopy_found && Gen.site_nullclone_tailCopy_found &&
     Gen.site_nullclone_loopInit_found && Gen.site_nullclone_loopCond_found && Gen.site_nullclone_loopStep_found &&
     Gen.site_nullclone_cloneRange_found && Gen.site_seq_better_found && Gen.site_fileseed_limit_found &&
     Gen.site_nullseed_limit_found && Gen.site_shape_writeChunk_found && Gen.site_shape_assemble_found &&
     Gen.site_shape_null_writeInto_found && Gen.site_shape_selfseed_add_found) = true := by decide

/-! ## the plan -/

/-- **the plan covers every index position exactly once**, for every index and every seed set -/
theorem plan_partitions (e : Env) (seeds : List Seed) : Partition e.chunks.length 0 (plan e seeds) :=
  Asm.plan_partitions e seeds

/-- a plan item without a seed source is a single chunk: the worker's `panic` is unreachable -/
theorem no_panic (cf : Cfg) (e : Env) (seeds : List Seed) (r : Run) (it : PlanItem)
    (hm : it ∈ plan e seeds) (hs : it.source = .store) :
    runJob cf e r it = (writeChunk cf e r (e.chunks.getD it.first default)).map
      (fun r' => { r' with ss := r'.ss.add it.first it.last }) :=
  runJob_no_panic cf e seeds r it hm hs

/-- a seed marked invalid is never planned with -/
theorem invalid_seed_unused (e : Env) (seeds : List Seed) (k : Nat) (s : Seed) (hk : seeds[k]? = some s)
    (hinv : s.invalid = true) (it : PlanItem) (hm : it ∈ plan e seeds) (seg : FSeg) : it.source ≠ .file k seg :=
  plan_invalid_unused e seeds k s hk hinv it hm seg

/-! ## a seed write stays inside its segment (block cloning included) -/

/-- `fileSeedSegment.WriteInto` (copy, or head copy + tail copy + FICLONERANGE with the arithmetic
    regenerated from fileseed.go) changes nothing outside `[offset, offset+length)` and never
    touches a seed file -/
theorem file_write_confined {ovl : Bytes → Nat → Nat → Nat → Bytes} {s : FSeg} {fs fs' : FS}
    {offset length bs c cl : Nat} {fz : Bool}
    (hst : Small s.srcStart) (hoff : Small offset) (hlen : Small length) (hbs : Small bs)
    (hpos : 0 < bs) (hd : offset + length ≤ fs.target.length)
    (h : s.writeInto ovl fs offset length bs = .ok fs' c cl fz) :
    fs'.seeds = fs.seeds ∧ AgreeOutside fs.target fs'.target offset (offset + length) :=
  FSeg.writeInto_confined hst hoff hlen hbs hpos hd h

/-- after the size check nothing makes `fileSeedSegment.WriteInto` fail: a refused clone (e.g.
    overlapping ranges when the seed is the target itself) falls back to a plain copy -/
theorem file_write_fails_only_on_size {ovl : Bytes → Nat → Nat → Nat → Bytes} {s : FSeg} {fs : FS}
    {offset length bs : Nat}
    (hst : Small s.srcStart) (hoff : Small offset) (hlen : Small length) (hbs : Small bs) (hpos : 0 < bs) :
    s.writeInto ovl fs offset length bs = .err ↔ u length ≠ u s.size :=
  FSeg.writeInto_err_iff_wrong_size ovl s fs hst hoff hlen hbs hpos

/-- the same for `nullChunkSection.WriteInto` (skip, zero fill, or block-wise clone of the zero block) -/
theorem null_write_confined {fs fs' : FS} {sfrom sto : Nat} {canReflink : Bool}
    {offset length bs : Nat} {isBlank : Bool} {c cl : Nat} {fz : Bool}
    (hoff : Small offset) (hlen : Small length) (hbs : Small bs) (hpos : 0 < bs)
    (hd : offset + length ≤ fs.target.length)
    (h : nullWriteInto fs sfrom sto canReflink offset length bs isBlank = .ok fs' c cl fz) :
    fs'.seeds = fs.seeds ∧ AgreeOutside fs.target fs'.target offset (offset + length) :=
  nullWriteInto_confined hoff hlen hbs hpos hd h

/-! ## safety: success ⇒ the output is the blob -/

/-- **one worker.**  Whatever seeds were supplied (stale, corrupted, empty, duplicated, lying
    about sizes, unopenable, or the target itself), whatever the target held before, whatever
    the invalid-seed action, with or without block cloning (per seed, null seed, self seed), any
    block size, any result of an overlapping same-file copy: if `AssembleFile` reports success the
    output has exactly the indexed length and equals the blob. -/
theorem assemble_safe {cf : Cfg} {e : Env} {blob : Bytes} {seeds : List Seed} {files : List Bytes}
    {prior : Option Bytes} {r : Run} (wf : WFSeq cf e blob) (hsm : SeedsSmall seeds)
    (hr : cf.act = .regenerate → RechunkSmall cf.rechunk)
    (h : assemble cf e seeds files prior = some r) :
    r.fs.target = blob ∧ r.fs.target.length = blob.length ∧ r.fs.seeds = files :=
  ⟨assemble_safe' wf hsm hr h, assemble_length wf hsm hr h, assemble_seeds_untouched h⟩

/-- **N workers, every interleaving.**  In every reachable state of the concurrent machine the
    settled positions hold the blob's bytes, and when every plan item has completed (`AssembleFile`
    returns nil) the file is the blob — for every number of workers, every schedule, every content
    a seed write may leave inside its segment, every prior content. -/
theorem assemble_safe_concurrent {e : AsmConc.Env} {blob prior : Bytes} {n : Nat} {s : AsmConc.St}
    (hwf : AsmConc.WF e blob) (h : AsmConc.Reachable e (AsmConc.init e prior n) s) :
    s.file.length = blob.length ∧ (AsmConc.Done e s → s.file = blob) :=
  ⟨AsmConc.conc_length hwf h, AsmConc.conc_safe hwf h⟩

/-- the self seed only ever offers positions whose plan items have completed, i.e. ranges that
    hold their final bytes and are never written again -/
theorem selfseed_offers_settled {e : AsmConc.Env} {blob prior : Bytes} {n : Nat} {s : AsmConc.St}
    (hwf : AsmConc.WF e blob) (h : AsmConc.Reachable e (AsmConc.init e prior n) s) (p : Nat)
    (hp : p < s.ss.written) :
    readUpTo s.file (e.startOf p) (e.sizeOf p) = AsmConc.chunkData e blob p := by
  obtain ⟨k, f, l, hk, hpl, hf, hl⟩ := AsmConc.selfseed_prefix_finished hwf h p hp
  exact AsmConc.settled_correct hwf h p (Or.inl ⟨k, f, l, hk, hpl, hf, hl⟩)

/-- **what an accepted trace means.**  The trace validation (driver command `asmconc.accept`) maps the recorded
    events of a real run of `AssembleFile` with several workers to machine events and runs them with
    `AsmConc.run`; whenever that run goes through, its final state has the indexed length, is the blob if every plan
    item completed, and everything the self seed offers holds its final bytes. -/
theorem accepted_trace_safe {e : AsmConc.Env} {blob prior : Bytes} {n : Nat} {evs : List AsmConc.Ev} {s : AsmConc.St}
    (hwf : AsmConc.WF e blob) (h : AsmConc.run e (AsmConc.init e prior n) evs = some s) :
    s.file.length = blob.length ∧ (AsmConc.Done e s → s.file = blob) ∧
    ∀ p, p < s.ss.written → readUpTo s.file (e.startOf p) (e.sizeOf p) = AsmConc.chunkData e blob p :=
  have hr := AsmConc.run_reachable evs _ s AsmConc.Reachable.refl h
  ⟨AsmConc.conc_length hwf hr, AsmConc.conc_safe hwf hr, fun p hp => selfseed_offers_settled hwf hr p hp⟩

/-- **the trace validation end to end.**  `asmconc.accept` takes the plan from the sequential model's validate / skip /
    regenerate loop (`findPlan`), builds the machine's environment from it (`AsmConc.envOf`) and runs the machine events
    it mapped the recorded run to.  Under the assumptions of the sequential safety theorem (the index describes the blob,
    IDs collision free: `WFSeq`) that environment is well-formed, so whenever the run goes through — i.e. whenever the
    driver answers `accept` — the final file has the indexed length, and it is the blob if every plan item completed. -/
theorem accepted_trace_end_to_end {cf : Cfg} {e : Env} {blob prior : Bytes} {fs : FS} {seeds : List Seed} {fuel k n : Nat}
    {items : List PlanItem} {evs : List AsmConc.Ev} {s : AsmConc.St} (wf : WFSeq cf e blob)
    (hp : findPlan cf.H cf.rechunk e fs cf.act fuel seeds = some (items, k))
    (h : AsmConc.run (AsmConc.envOf cf.H e items) (AsmConc.init (AsmConc.envOf cf.H e items) prior n) evs = some s) :
    s.file.length = blob.length ∧ (AsmConc.Done (AsmConc.envOf cf.H e items) s → s.file = blob) := by
  obtain ⟨seeds', rfl, _, _, _⟩ := findPlan_returns_valid _ _ _ _ _ _ _ _ _ hp
  have := accepted_trace_safe (AsmConc.envOf_wf wf seeds') h
  exact ⟨this.1, this.2.1⟩

/-- the hypotheses of `accepted_trace_safe` can be met: a run of two workers that ends `Done` -/
example : ∃ s, AsmConc.run AsmConc.Example.env (AsmConc.init AsmConc.Example.env AsmConc.Example.prior 2)
    AsmConc.Example.events = some s ∧ s.file = AsmConc.Example.blob := ⟨_, rfl, rfl⟩

/-- the concurrent machine never gets stuck before it is done (with a complete sound store) -/
theorem no_deadlock {e : AsmConc.Env} {blob prior : Bytes} {n : Nat} {s : AsmConc.St}
    (hwf : AsmConc.WF e blob) (h : AsmConc.Reachable e (AsmConc.init e prior n) s) (hn : 0 < n)
    (hnd : ¬ AsmConc.Done e s) : ∃ ev s', AsmConc.step e s ev = some s' :=
  AsmConc.conc_progress hwf h hn hnd

/-! ## liveness: a complete store and usable seeds ⇒ success -/

/-- an empty blob: success at once, whatever the seeds, store, action and prior content -/
theorem empty_blob (cf : Cfg) (e : Env) (seeds : List Seed) (files : List Bytes) (prior : Option Bytes)
    (h : e.chunks = []) : assemble cf e seeds files prior = some { fs := ⟨[], files⟩ } :=
  assemble_empty cf e seeds files prior h

/-- consistent seeds: success under every action -/
theorem complete_consistent {cf : Cfg} {e : Env} {blob : Bytes} {seeds : List Seed}
    {files : List Bytes} {prior : Option Bytes} (hwf : WFSeq cf e blob) (hst : StoreComplete cf e blob)
    (hnull : NullIsZeros cf e) (hb : cf.isBlank = isBlankOf prior) (hsm : SeedsSmall seeds)
    (hct : SeedsContiguous seeds) (hstatic : ∀ s ∈ seeds, s.Static files)
    (hr : cf.act = .regenerate → RechunkSmall cf.rechunk ∧ RechunkContig cf.rechunk)
    (hc : ∀ s ∈ seeds, s.Consistent cf.H
      { target := truncate (prior.getD []) (indexLength e.chunks), seeds := files }) :
    ∃ r, assemble cf e seeds files prior = some r ∧ r.fs.target = blob :=
  assemble_complete_consistent hwf hst hnull hb hsm hct hstatic hr hc

/-- skip: success whatever the (static) seeds hold; the validate loop ends within `#seeds + 1` attempts -/
theorem complete_skip {cf : Cfg} {e : Env} {blob : Bytes} {seeds : List Seed}
    {files : List Bytes} {prior : Option Bytes} (hwf : WFSeq cf e blob) (hst : StoreComplete cf e blob)
    (hnull : NullIsZeros cf e) (hb : cf.isBlank = isBlankOf prior) (hsm : SeedsSmall seeds)
    (hct : SeedsContiguous seeds) (hstatic : ∀ s ∈ seeds, s.Static files) (hact : cf.act = .skip) :
    ∃ r, assemble cf e seeds files prior = some r ∧ r.fs.target = blob :=
  assemble_complete_skip hwf hst hnull hb hsm hct hstatic hact

/-- regenerate: success whatever the seeds hold, also for a seed that is the target itself, with or
    without block cloning: a clone the file system refuses (overlapping ranges of one file) is
    followed by a plain copy (see DESIGN section 12, finding F-C01-alias) -/
theorem complete_regenerate {cf : Cfg} {e : Env} {blob : Bytes} {seeds : List Seed}
    {files : List Bytes} {prior : Option Bytes} (hwf : WFSeq cf e blob) (hst : StoreComplete cf e blob)
    (hnull : NullIsZeros cf e) (hb : cf.isBlank = isBlankOf prior) (hsm : SeedsSmall seeds)
    (hct : SeedsContiguous seeds)
    (hsrc : ∀ s ∈ seeds, s.Static files ∨ s.src = .target)
    (hact : cf.act = .regenerate)
    (hre : RechunkOK cf.H cf.rechunk) (hrs : RechunkSmall cf.rechunk) (hrc : RechunkContig cf.rechunk) :
    ∃ r, assemble cf e seeds files prior = some r ∧ r.fs.target = blob :=
  assemble_complete_regenerate_alias hwf hst hnull hb hsm hct hsrc hact hre hrs hrc

/-- the validate / skip loop always ends with a validated plan -/
theorem validate_loop_terminates_skip (H : Bytes → Bytes) (rechunk : Nat → Bytes → Option (List IChunk))
    (e : Env) (fs : FS) (seeds : List Seed) :
    ∃ p k, findPlan H rechunk e fs .skip (seeds.length + 1) seeds = some (p, k) :=
  findPlan_skip_total H rechunk e fs seeds

/-- (C08) **re-running an in-place extract that died**: it completes with the exact blob and goes
    to the store at most once per position whose bytes are not already correct -/
theorem inplace_resume {cf : Cfg} {e : Env} {blob : Bytes} {files : List Bytes} {t0 : Bytes}
    (hwf : WFSeq cf e blob) (hst : StoreComplete cf e blob) (hnull : NullIsZeros cf e)
    (hb : cf.isBlank = isBlankOf (some t0)) (hlen : t0.length = blob.length) (hne : blob ≠ []) :
    ∃ r, assemble cf e [] files (some t0) = some r ∧ r.fs.target = blob ∧
      r.stats.fromStore ≤ ((List.range e.chunks.length).filter
        (fun p => readUpTo t0 (e.startOf p) (e.sizeOf p) ≠ chunkData e blob p)).length :=
  Asm.inplace_resume hwf hst hnull hb hlen hne

/-- **regenerated obligation**: `desync extract` returns the assembly's error before it does anything else with
    the result (printing the statistics must not replace a failure by exit status 0) -/
theorem gen_cmd_extract_reports_failure :
    Gen.cmdExtractTail = ["if:err!=nil:return err", "if:opt.printStats:return printJSON(…)", "return nil"] ∧
    Gen.site_shape_cmd_extract_tail_found = true := by
  decide

end Desync.C01
