/-
  C16 / C20, regenerated obligations for `GCStore.Prune` / `RemoveChunk` / `idFromName` / `nameFromID`.
-/
import Desync.Proofs.GCStoreShapes

namespace Desync.C16
open Desync

set_option maxRecDepth 16384

theorem gen_gcs_prune : Gen.site_gcs_prune_found = true ∧ Gen.gcsPruneSkel = GCS.Expected.gcsPruneSkel := by decide

theorem gen_gcs_remove : Gen.site_gcs_remove_found = true ∧ Gen.gcsRemoveSkel = GCS.Expected.gcsRemoveSkel := by decide

/-- the name functions: the store's own extension is appended / required, the other one never; same bodies as s3.go's,
    which `s3Classify` / `nameFromID` model -/
theorem gen_gcs_names :
    Gen.site_gcs_idfromname_found = true ∧ Gen.site_gcs_namefromid_found = true ∧ Gen.site_gcs_prefix_found = true ∧
    Gen.gcsNamesAsS3 = true ∧ Gen.gcsIDFromNameSkel = GCS.Expected.gcsIDFromNameSkel ∧
    Gen.gcsNameFromIDSkel = GCS.Expected.gcsNameFromIDSkel ∧
    Gen.gcsNormalizePrefixSkel = GCS.Expected.gcsNormalizePrefixSkel := by decide

end Desync.C16
