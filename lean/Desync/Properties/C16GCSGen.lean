/-
  C16 / C20, regenerated obligations for `GCStore.Prune` / `RemoveChunk` / `idFromName` / `nameFromID`.
-/
import Desync.Proofs.GCStoreShapes

namespace Desync.C16
open Desync

set_option maxRecDepth 16384

theorem gen_gcs_prune : Gen.site_gcs_prune_found = true ∧ Gen.gcsPruneSkel = GCS.Expected.gcsPruneSkel := by decide

theorem gen_gcs_remove : Gen.site_gcs_remove_found = true ∧ Gen.gcsRemoveSkel = GCS.Expected.gcsRemoveSkel := by decide

/-- the name functions: the store's own extension is appended / required, the other one never.  The bodies are compared with
    the expected skeletons of gcs.go itself; that they once were spelled like s3.go's (`Gen.gcsNamesAsS3`) is NOT demanded: a
    harmless rewrite of `S3Store.idFromName` (benign/C16-h2) made that conjunct false and the check alarm although nothing about
    GCS — or S3, whose own facts are extracted by meaning — had changed (session 7) -/
theorem gen_gcs_names :
    Gen.site_gcs_idfromname_found = true ∧ Gen.site_gcs_namefromid_found = true ∧ Gen.site_gcs_prefix_found = true ∧
    Gen.gcsIDFromNameSkel = GCS.Expected.gcsIDFromNameSkel ∧
    Gen.gcsNameFromIDSkel = GCS.Expected.gcsNameFromIDSkel ∧
    Gen.gcsNormalizePrefixSkel = GCS.Expected.gcsNormalizePrefixSkel := by decide

end Desync.C16
