/-
  C09 — Random-access reads through an index return exactly the blob's bytes.

  Model: `Model/ReadSeeker.lean` (`IdxPos` = `IndexPos`: `findOffset`, `loadChunk`, `Seek`, `Read`;
  `fuseRead` = the index mount file handle's `read`: lock; Seek; Read).  Hypotheses (`Setup`):
  the index tiles the blob with non-empty chunks (C02), the store is sound (C03), equal chunk IDs
  mean equal content and the null ID means `max` zero bytes (digest collision-freeness on the
  chunks of this index).  Tie: behavioural correspondence `ip.ops` (seek/read/FUSE-read sequences
  with scripted store failures) plus a monitor replaying every op against the blob.

  Several requests in flight on ONE handle of the mount (go-fuse serves each in its own goroutine):
  `Model/MountHandle.lean`, a step machine over the shared reader and the handle's mutex whose
  per-request program is the regenerated shape of `indexFileHandle.read`
  (`gen_mount_handle_locked`, Properties/C09/GenMountHandle.lean); `concurrent_handle_reads_exact`
  for every interleaving, `split_lock_violates` for the shape with two critical sections.
-/
import Desync.Proofs.ReadSeekerProofs
import Desync.Proofs.MountHandleProofs

namespace Desync.C09
open Desync

/-- **every sequence of seeks and reads** on a reader over a sound, non-failing store behaves
    exactly like a plain `io.ReadSeeker` over the blob's bytes: each read returns
    `blob[p, min(p+n, L))`, EOF exactly at `p = L`, seeks outside `[0, L]` fail without moving -/
theorem ops_exact {blob : Bytes} {fetch : Fetch} (ops : List Op) (ip : IdxPos) (calls : Nat)
    (hs : Setup blob ip fetch) (hi : Inv blob ip) (hnf : NeverFails ip fetch) :
    (run fetch ip calls ops).1 = (specRun blob ip.pos ops).1 ∧
    (run fetch ip calls ops).2.1.pos = (specRun blob ip.pos ops).2 :=
  let h := Desync.ops_exact ops ip calls hs hi hnf
  ⟨h.1, h.2.1⟩

/-- **store errors surface as errors, never as short or altered data**: whatever the store does
    (any call may fail), every read result is the complete correct run or an error after a correct
    prefix; EOF only at the end; never a panic -/
theorem ops_safe {blob : Bytes} {fetch : Fetch} (ops : List Op) (ip : IdxPos) (calls : Nat)
    (hs : Setup blob ip fetch) (hi : Inv blob ip) :
    SafeTrace blob ip.pos ops (run fetch ip calls ops).1 :=
  (Desync.ops_safe ops ip calls hs hi).1

/-- a fresh reader satisfies the invariant (also for an empty index) -/
theorem new_reader_inv (blob : Bytes) (chunks : List RChunk) (length nullID nullLen : Nat)
    (ht : TilesFrom 0 chunks) : Inv blob (IdxPos.new chunks length nullID nullLen) :=
  inv_new blob chunks length nullID nullLen ht

/-- **FUSE reads** `(offset, size)` in any order on a handle return `blob[off, min(off+size, L))` -/
theorem fuse_read_exact {blob : Bytes} {ip : IdxPos} {fetch : Fetch}
    (hs : Setup blob ip fetch) (hi : Inv blob ip) (hnf : NeverFails ip fetch) (off n calls : Nat)
    (hoff : off ≤ blob.length) :
    ∃ ip' calls', ip.fuseRead fetch off n calls = (some ((blob.drop off).take n), ip', calls') ∧
      Inv blob ip' ∧ SameIdx ip ip' :=
  (fuseRead_exact hs hi hnf off n calls).1 hoff

/-- FUSE reads never return altered bytes, whatever the store does -/
theorem fuse_read_safe {blob : Bytes} {ip : IdxPos} {fetch : Fetch}
    (hs : Setup blob ip fetch) (hi : Inv blob ip) (off n calls : Nat) (b : Bytes)
    (h : (ip.fuseRead fetch off n calls).1 = some b) : b = (blob.drop off).take n :=
  ((fuseRead_safe hs hi off n calls).2.2 b h).2.1

/-- seeking: succeeds exactly for targets in `[0, L]` -/
theorem seek_spec {blob : Bytes} {ip : IdxPos} {fetch : Fetch}
    (hs : Setup blob ip fetch) (hi : Inv blob ip) (offset : Int) (w : Whence) :
    (0 ≤ seekTarget ip offset w ∧ seekTarget ip offset w ≤ blob.length →
      ∃ ip', ip.seek offset w = .ok ip' ∧ ip'.pos = (seekTarget ip offset w).toNat ∧
        Inv blob ip' ∧ SameIdx ip ip') ∧
    (seekTarget ip offset w < 0 → ip.seek offset w = .error .before) ∧
    (seekTarget ip offset w > blob.length → ip.seek offset w = .error .beyond) :=
  Desync.seek_spec hs hi offset w

/-- **concurrent read requests on one handle**: `rq` are the requests `(offset, length)` in flight on
    one handle of the index mount, each running `lock; Seek; Read; unlock` on the shared reader (the
    shape of the real code, `gen_mount_handle_locked`).  For EVERY schedule (every interleaving of
    their steps, of any length) and whatever the store does, a request that has returned has returned
    something; data only if it is exactly `blob[off, off+len)` cut at the end of the blob, otherwise
    EIO; with a store that does not fail, exactly those bytes for every offset inside the blob; EIO
    for offsets beyond the end.  From the sequential `fuse_read_safe` / `fuse_read_exact`: the result
    of each request is the result of one sequential FUSE read from some state of the reader that
    satisfies the reader invariant. -/
theorem concurrent_handle_reads_exact {blob : Bytes} {ip0 : IdxPos} {fetch : Fetch}
    (hs : Setup blob ip0 fetch) (hi : Inv blob ip0) (rq : List MountHandle.Req) (calls : Nat)
    (sched : List Nat) (r : Nat) (q : MountHandle.Req) (st : MountHandle.ReqSt)
    (hq : rq[r]? = some q)
    (hst : (MountHandle.runSched MountHandle.lockedShape fetch rq sched
              (MountHandle.St.init ip0 calls rq.length)).reqs[r]? = some st)
    (hdone : st.done MountHandle.lockedShape) :
    (∃ o, st.res = some o) ∧
    (∀ b, st.res = some (some b) → q.off ≤ blob.length ∧ b = (blob.drop q.off).take q.len) ∧
    (NeverFails ip0 fetch → q.off ≤ blob.length →
      st.res = some (some ((blob.drop q.off).take q.len))) ∧
    (blob.length < q.off → st.res = some none) :=
  MountHandle.good_spec hs (MountHandle.concurrent_reads hs hi rq calls sched r q st hq hst hdone)

/-- no deadlock on the handle's mutex: in every state an interleaving can reach, while some request
    has not returned, some request can take a step (and every step taken advances a program of four
    operations, so every run in which requests that can move eventually do lets all of them return) -/
theorem concurrent_handle_reads_progress {blob : Bytes} {ip0 : IdxPos} {fetch : Fetch}
    (hs : Setup blob ip0 fetch) (hi : Inv blob ip0) (rq : List MountHandle.Req) (calls : Nat)
    (sched : List Nat) (r : Nat) (q : MountHandle.Req) (st : MountHandle.ReqSt)
    (hq : rq[r]? = some q)
    (hst : (MountHandle.runSched MountHandle.lockedShape fetch rq sched
              (MountHandle.St.init ip0 calls rq.length)).reqs[r]? = some st)
    (hnd : ¬ st.done MountHandle.lockedShape) :
    ∃ r', (MountHandle.step MountHandle.lockedShape fetch rq
            (MountHandle.runSched MountHandle.lockedShape fetch rq sched
              (MountHandle.St.init ip0 calls rq.length)) r').isSome :=
  MountHandle.progress
    (MountHandle.run_sinv hs sched _ (MountHandle.init_sinv (fetch := fetch) rq calls hi)) r q st hq hst hnd

/-- every run is finite: of the entries of any schedule at most `4·k` are moves (a move advances one
    of the `k` programs of four operations by one; the other entries name a request that is blocked
    in `Lock` or has returned).  With `concurrent_handle_reads_progress`: a run in which some request
    that can move does move until none can ends with every request returned. -/
theorem concurrent_handle_reads_bounded {blob : Bytes} {ip0 : IdxPos} {fetch : Fetch}
    (hs : Setup blob ip0 fetch) (hi : Inv blob ip0) (rq : List MountHandle.Req) (calls : Nat)
    (sched : List Nat) :
    MountHandle.countMoves MountHandle.lockedShape fetch rq sched
      (MountHandle.St.init ip0 calls rq.length) ≤ 4 * rq.length :=
  Nat.le_trans (Nat.le_add_right _ _)
    (MountHandle.moves_bounded hs sched _ (MountHandle.init_sinv (fetch := fetch) rq calls hi))

/-- **the seeded regression, decided**: with the critical section split in two (`lock; Seek; unlock;
    lock; Read; unlock`) two requests on the two-chunk blob of `hypotheses_satisfiable` and the
    schedule "request 0 seeks, request 1 seeks, request 0 reads" make request 0 return, with success,
    the bytes at request 1's offset -/
theorem split_lock_violates :
    ((MountHandle.runSched MountHandle.splitShape MountHandle.exFetch MountHandle.exReqs
        [0, 0, 0, 1, 1, 1, 0, 0, 0] (MountHandle.St.init MountHandle.exIp 0 2)).reqs[0]?.map
        (fun st => (st.pc, st.res))) = some (6, some (some [12, 13])) ∧
    (MountHandle.exBlob.drop 0).take 2 = [10, 11] := MountHandle.split_violates

/-- the same when the mutex is held around the Seek only -/
theorem seek_only_lock_violates :
    ((MountHandle.runSched MountHandle.seekOnlyShape MountHandle.exFetch MountHandle.exReqs
        [0, 0, 0, 1, 1, 1, 0] (MountHandle.St.init MountHandle.exIp 0 2)).reqs[0]?.map
        (fun st => (st.pc, st.res))) = some (4, some (some [12, 13])) ∧
    (MountHandle.exBlob.drop 0).take 2 = [10, 11] := MountHandle.seek_only_violates

/-- non-vacuity of `concurrent_handle_reads_exact`: on that example (which satisfies `Setup`, `Inv`,
    `NeverFails`: `hypotheses_satisfiable`) an interleaved schedule lets both requests return, with
    their own bytes -/
theorem concurrent_handle_example :
    ((MountHandle.runSched MountHandle.lockedShape MountHandle.exFetch MountHandle.exReqs
        [0, 0, 1, 0, 1, 0, 1, 1, 1, 1] (MountHandle.St.init MountHandle.exIp 0 2)).reqs.map
        (fun st => (st.pc, st.res))) = [(4, some (some [10, 11])), (4, some (some [12, 13]))] :=
  MountHandle.locked_example

/-- non-vacuity: the hypotheses are jointly satisfiable (a concrete two-chunk index) -/
theorem hypotheses_satisfiable :
    let blob : Bytes := [10, 11, 12, 13]
    let ip : IdxPos := IdxPos.new [⟨1, 0, 2⟩, ⟨2, 2, 2⟩] 4 0 8
    let fetch : Fetch := fun _ id => if id = 1 then some [10, 11] else if id = 2 then some [12, 13] else none
    Setup blob ip fetch ∧ Inv blob ip ∧ NeverFails ip fetch := setup_example

end Desync.C09
