/-
  C09 — Random-access reads through an index return exactly the blob's bytes.

  Model: `Model/ReadSeeker.lean` (`IdxPos` = `IndexPos`: `findOffset`, `loadChunk`, `Seek`, `Read`;
  `fuseRead` = the index mount file handle's `read`: lock; Seek; Read).  Hypotheses (`Setup`):
  the index tiles the blob with non-empty chunks (C02), the store is sound (C03), equal chunk IDs
  mean equal content and the null ID means `max` zero bytes (digest collision-freeness on the
  chunks of this index).  Tie: behavioural correspondence `ip.ops` (seek/read/FUSE-read sequences
  with scripted store failures) plus a monitor replaying every op against the blob.
-/
import Desync.Proofs.ReadSeekerProofs

namespace Desync.C09
open Desync

/-- **every sequence of seeks and reads** on a reader over a sound, non-failing store behaves
    exactly like a plain `io.ReadSeeker` over the blob's bytes: each read returns
    `blob[p, min(p+n, L))`, EOF exactly at `p = L`, seeks outside `[0, L]` fail without moving -/
theorem ops_exact {blob : Bytes} {fetch : Fetch} (ops : List Op) (ip : IdxPos) (calls : Nat)
    (hs : Setup blob ip fetch) (hi : Inv blob ip) (hnf : NeverFails ip fetch) :
    (run fetch ip calls ops).1 = (specRun blob ip.pos ops).1 ∧
    (run fetch ip calls ops).2.1.pos = (specRun blob ip.pos ops).2 :=
  let h := Desync.ops_exact ops ip calls hs hi hnf
  ⟨h.1, h.2.1⟩

/-- **store errors surface as errors, never as short or altered data**: whatever the store does
    (any call may fail), every read result is the complete correct run or an error after a correct
    prefix; EOF only at the end; never a panic -/
theorem ops_safe {blob : Bytes} {fetch : Fetch} (ops : List Op) (ip : IdxPos) (calls : Nat)
    (hs : Setup blob ip fetch) (hi : Inv blob ip) :
    SafeTrace blob ip.pos ops (run fetch ip calls ops).1 :=
  (Desync.ops_safe ops ip calls hs hi).1

/-- a fresh reader satisfies the invariant (also for an empty index) -/
theorem new_reader_inv (blob : Bytes) (chunks : List RChunk) (length nullID nullLen : Nat)
    (ht : TilesFrom 0 chunks) : Inv blob (IdxPos.new chunks length nullID nullLen) :=
  inv_new blob chunks length nullID nullLen ht

/-- **FUSE reads** `(offset, size)` in any order on a handle return `blob[off, min(off+size, L))` -/
theorem fuse_read_exact {blob : Bytes} {ip : IdxPos} {fetch : Fetch}
    (hs : Setup blob ip fetch) (hi : Inv blob ip) (hnf : NeverFails ip fetch) (off n calls : Nat)
    (hoff : off ≤ blob.length) :
    ∃ ip' calls', ip.fuseRead fetch off n calls = (some ((blob.drop off).take n), ip', calls') ∧
      Inv blob ip' ∧ SameIdx ip ip' :=
  (fuseRead_exact hs hi hnf off n calls).1 hoff

/-- FUSE reads never return altered bytes, whatever the store does -/
theorem fuse_read_safe {blob : Bytes} {ip : IdxPos} {fetch : Fetch}
    (hs : Setup blob ip fetch) (hi : Inv blob ip) (off n calls : Nat) (b : Bytes)
    (h : (ip.fuseRead fetch off n calls).1 = some b) : b = (blob.drop off).take n :=
  ((fuseRead_safe hs hi off n calls).2.2 b h).2.1

/-- seeking: succeeds exactly for targets in `[0, L]` -/
theorem seek_spec {blob : Bytes} {ip : IdxPos} {fetch : Fetch}
    (hs : Setup blob ip fetch) (hi : Inv blob ip) (offset : Int) (w : Whence) :
    (0 ≤ seekTarget ip offset w ∧ seekTarget ip offset w ≤ blob.length →
      ∃ ip', ip.seek offset w = .ok ip' ∧ ip'.pos = (seekTarget ip offset w).toNat ∧
        Inv blob ip' ∧ SameIdx ip ip') ∧
    (seekTarget ip offset w < 0 → ip.seek offset w = .error .before) ∧
    (seekTarget ip offset w > blob.length → ip.seek offset w = .error .beyond) :=
  Desync.seek_spec hs hi offset w

/-- non-vacuity: the hypotheses are jointly satisfiable (a concrete two-chunk index) -/
theorem hypotheses_satisfiable :
    let blob : Bytes := [10, 11, 12, 13]
    let ip : IdxPos := IdxPos.new [⟨1, 0, 2⟩, ⟨2, 2, 2⟩] 4 0 8
    let fetch : Fetch := fun _ id => if id = 1 then some [10, 11] else if id = 2 then some [12, 13] else none
    Setup blob ip fetch ∧ Inv blob ip ∧ NeverFails ip fetch := setup_example

end Desync.C09
