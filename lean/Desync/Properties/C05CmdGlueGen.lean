/-
  C05, regenerated obligations for the option plumbing of cmd/desync/{tar,untar,mtree}.go and for the places where LocalFS
  looks at its options (extracted by harness/extract/mtreefacts.go; the documented mapping is spelled out in the header of
  C05MtreeGen.lean).  A module of its own so that a change of the commands breaks these obligations only.
-/
import Desync.Generated.Facts

namespace Desync.C05
open Desync

set_option maxRecDepth 65536

/-- `desync tar`: flags, option struct, guarded calls -/
theorem gen_cmd_tar :
    Gen.site_cmd_Tar_flags_found = true ∧
    Gen.site_cmd_runTar_found = true ∧
    Gen.cmdTarFlags = [("chunk-size", "opt.chunkSize StringVar \"16:64:256\""), ("index", "opt.createIndex BoolVar false"), ("input-format", "opt.inFormat StringVar \"disk\""), ("no-time", "opt.NoTime BoolVar false"), ("one-file-system", "opt.OneFileSystem BoolVar false"), ("store", "opt.store StringVar \"\""), ("tar-add-root", "opt.AddRoot BoolVar false")] ∧
    Gen.cmdTarOptions = ["embedded cmdStoreOptions", "store string", "chunkSize string", "createIndex bool", "embedded desync.LocalFSOptions", "inFormat string", "embedded desync.TarReaderOptions"] ∧
    Gen.cmdRunTarPlan = [("opt.createIndex&&opt.store==\"\"", "errors.New(\"-i requires a store (-s <location>)\")"), ("!(opt.createIndex&&opt.store==\"\") && opt.AddRoot&&opt.inFormat!=\"tar\"", "errors.New(\"--tar-add-root works only with --input-format tar\")"), ("!(opt.createIndex&&opt.store==\"\") && !(opt.AddRoot&&opt.inFormat!=\"tar\") && opt.inFormat==\"disk\"", "desync.NewLocalFS(args[1],opt.LocalFSOptions)"), ("!(opt.createIndex&&opt.store==\"\") && !(opt.AddRoot&&opt.inFormat!=\"tar\") && opt.inFormat==\"tar\" && args[1]==\"-\"", "os.Stdin"), ("!(opt.createIndex&&opt.store==\"\") && !(opt.AddRoot&&opt.inFormat!=\"tar\") && opt.inFormat==\"tar\" && !(args[1]==\"-\")", "os.Open(args[1])"), ("!(opt.createIndex&&opt.store==\"\") && !(opt.AddRoot&&opt.inFormat!=\"tar\") && opt.inFormat==\"tar\"", "desync.NewTarReader(r,opt.TarReaderOptions)"), ("!(opt.createIndex&&opt.store==\"\") && !(opt.AddRoot&&opt.inFormat!=\"tar\") && opt.inFormat not in {\"disk\",\"tar\"}", "fmt.Errorf(\"invalid input format '%s'\",opt.inFormat)"), ("!(opt.createIndex&&opt.store==\"\") && !(opt.AddRoot&&opt.inFormat!=\"tar\") && !opt.createIndex && args[0]==\"-\"", "os.Stdout"), ("!(opt.createIndex&&opt.store==\"\") && !(opt.AddRoot&&opt.inFormat!=\"tar\") && !opt.createIndex && !(args[0]==\"-\")", "os.Create(args[0])"), ("!(opt.createIndex&&opt.store==\"\") && !(opt.AddRoot&&opt.inFormat!=\"tar\") && !opt.createIndex", "desync.Tar(ctx,w,fs)"), ("!(opt.createIndex&&opt.store==\"\") && !(opt.AddRoot&&opt.inFormat!=\"tar\") && !(!opt.createIndex)", "io.Pipe()"), ("!(opt.createIndex&&opt.store==\"\") && !(opt.AddRoot&&opt.inFormat!=\"tar\") && !(!opt.createIndex)", "WritableStore(opt.store,opt.cmdStoreOptions)"), ("!(opt.createIndex&&opt.store==\"\") && !(opt.AddRoot&&opt.inFormat!=\"tar\") && !(!opt.createIndex)", "parseChunkSizeParam(opt.chunkSize)"), ("!(opt.createIndex&&opt.store==\"\") && !(opt.AddRoot&&opt.inFormat!=\"tar\") && !(!opt.createIndex)", "desync.NewChunker(r,min,avg,max)"), ("!(opt.createIndex&&opt.store==\"\") && !(opt.AddRoot&&opt.inFormat!=\"tar\") && !(!opt.createIndex)", "desync.Tar(ctx,w,fs)"), ("!(opt.createIndex&&opt.store==\"\") && !(opt.AddRoot&&opt.inFormat!=\"tar\") && !(!opt.createIndex)", "desync.ChunkStream(ctx,c,s,opt.n)"), ("!(opt.createIndex&&opt.store==\"\") && !(opt.AddRoot&&opt.inFormat!=\"tar\") && !(!opt.createIndex) && !(tarErr!=nil)", "storeCaibxFile(index,args[0],opt.cmdStoreOptions)")] := by
  decide

/-- `desync untar`: flags, option struct, guarded calls -/
theorem gen_cmd_untar :
    Gen.site_cmd_Untar_flags_found = true ∧
    Gen.site_cmd_runUntar_found = true ∧
    Gen.cmdUntarFlags = [("cache", "opt.cache StringVar \"\""), ("index", "opt.readIndex BoolVar false"), ("no-same-owner", "opt.NoSameOwner BoolVar false"), ("no-same-permissions", "opt.NoSamePermissions BoolVar false"), ("output-format", "opt.outFormat StringVar \"disk\""), ("store", "opt.stores StringSliceVar nil")] ∧
    Gen.cmdUntarOptions = ["embedded cmdStoreOptions", "embedded desync.LocalFSOptions", "stores []string", "cache string", "readIndex bool", "outFormat string"] ∧
    Gen.cmdRunUntarPlan = [("opt.readIndex&&len(opt.stores)==0", "errors.New(\"-i requires at least one store (-s <location>)\")"), ("!(opt.readIndex&&len(opt.stores)==0) && opt.outFormat==\"disk\"", "desync.NewLocalFS(args[1],opt.LocalFSOptions)"), ("!(opt.readIndex&&len(opt.stores)==0) && opt.outFormat==\"gnu-tar\" && args[1]==\"-\"", "os.Stdout"), ("!(opt.readIndex&&len(opt.stores)==0) && opt.outFormat==\"gnu-tar\" && !(args[1]==\"-\")", "os.Create(args[1])"), ("!(opt.readIndex&&len(opt.stores)==0) && opt.outFormat==\"gnu-tar\"", "desync.NewTarWriter(w)"), ("!(opt.readIndex&&len(opt.stores)==0) && opt.outFormat not in {\"disk\",\"gnu-tar\"}", "fmt.Errorf(\"invalid output format '%s'\",opt.outFormat)"), ("!(opt.readIndex&&len(opt.stores)==0) && !opt.readIndex", "os.Open(args[0])"), ("!(opt.readIndex&&len(opt.stores)==0) && !opt.readIndex", "io.TeeReader(f,desync.NewProgressBar(\"Unpacking \"))"), ("!(opt.readIndex&&len(opt.stores)==0) && !opt.readIndex", "desync.UnTar(ctx,r,fs)"), ("!(opt.readIndex&&len(opt.stores)==0) && !(!opt.readIndex)", "MultiStoreWithCache(opt.cmdStoreOptions,opt.cache,opt.stores)"), ("!(opt.readIndex&&len(opt.stores)==0) && !(!opt.readIndex)", "readCaibxFile(args[0],opt.cmdStoreOptions)"), ("!(opt.readIndex&&len(opt.stores)==0) && !(!opt.readIndex)", "desync.UnTarIndex(ctx,fs,index,s,opt.n,desync.NewProgressBar(\"Unpacking \"))")] := by
  decide

/-- `desync mtree`: flags, option struct, guarded calls -/
theorem gen_cmd_mtree :
    Gen.site_cmd_Mtree_flags_found = true ∧
    Gen.site_cmd_runMtree_found = true ∧
    Gen.cmdMtreeFlags = [("cache", "opt.cache StringVar \"\""), ("index", "opt.readIndex BoolVar false"), ("store", "opt.stores StringSliceVar nil")] ∧
    Gen.cmdMtreeOptions = ["embedded cmdStoreOptions", "stores []string", "cache string", "readIndex bool"] ∧
    Gen.cmdRunMtreePlan = [("opt.readIndex&&len(opt.stores)==0", "errors.New(\"-i requires at least one store (-s <location>)\")"), ("!(opt.readIndex&&len(opt.stores)==0)", "desync.NewMtreeFS(os.Stdout)"), ("!(opt.readIndex&&len(opt.stores)==0)", "os.Stdout"), ("!(opt.readIndex&&len(opt.stores)==0)", "os.Stat(args[0])"), ("!(opt.readIndex&&len(opt.stores)==0) && opt.readIndex&&stat.IsDir()", "errors.New(\"-i can't be used with input directory\")"), ("!(opt.readIndex&&len(opt.stores)==0) && !(opt.readIndex&&stat.IsDir()) && stat.IsDir()", "io.Pipe()"), ("!(opt.readIndex&&len(opt.stores)==0) && !(opt.readIndex&&stat.IsDir()) && stat.IsDir()", "desync.NewLocalFS(args[0],desync.LocalFSOptions{…})"), ("!(opt.readIndex&&len(opt.stores)==0) && !(opt.readIndex&&stat.IsDir()) && stat.IsDir()", "desync.Tar(ctx,w,desync.NewLocalFS(args[0],desync.LocalFSOptions{…}))"), ("!(opt.readIndex&&len(opt.stores)==0) && !(opt.readIndex&&stat.IsDir()) && stat.IsDir()", "desync.UnTar(ctx,r,mtreeFS)"), ("!(opt.readIndex&&len(opt.stores)==0) && !(opt.readIndex&&stat.IsDir()) && !(stat.IsDir()) && !opt.readIndex", "os.Open(args[0])"), ("!(opt.readIndex&&len(opt.stores)==0) && !(opt.readIndex&&stat.IsDir()) && !(stat.IsDir()) && !opt.readIndex", "desync.UnTar(ctx,r,mtreeFS)"), ("!(opt.readIndex&&len(opt.stores)==0) && !(opt.readIndex&&stat.IsDir()) && !(stat.IsDir()) && !(!opt.readIndex)", "MultiStoreWithCache(opt.cmdStoreOptions,opt.cache,opt.stores)"), ("!(opt.readIndex&&len(opt.stores)==0) && !(opt.readIndex&&stat.IsDir()) && !(stat.IsDir()) && !(!opt.readIndex)", "readCaibxFile(args[0],opt.cmdStoreOptions)"), ("!(opt.readIndex&&len(opt.stores)==0) && !(opt.readIndex&&stat.IsDir()) && !(stat.IsDir()) && !(!opt.readIndex)", "desync.UnTarIndex(ctx,mtreeFS,index,s,opt.n,desync.NullProgressBar{…})")] := by
  decide

/-- where `LocalFS` looks at its options -/
theorem gen_localfs_option_guards :
    Gen.site_localfs_option_guards_found = true ∧
    Gen.localfsOptionFields = ["OneFileSystem", "NoSameOwner", "NoSamePermissions", "NoTime"] ∧
    Gen.localfsOptionGuards = [("SetDirPermissions: !fs.opts.NoSameOwner", "os.Chown,xattr.LSet"), ("SetDirPermissions: !fs.opts.NoSamePermissions", "syscall.Chmod"), ("SetFilePermissions: !fs.opts.NoSameOwner", "os.Chown,xattr.LSet"), ("SetFilePermissions: !fs.opts.NoSamePermissions", "syscall.Chmod"), ("SetSymlinkPermissions: !fs.opts.NoSameOwner", "os.Lchown,xattr.LSet"), ("CreateDevice: !fs.opts.NoSameOwner", "os.Chown,xattr.LSet"), ("CreateDevice: !fs.opts.NoSamePermissions", "syscall.Chmod"), ("Next: fs.opts.NoTime", "time.Unix"), ("initForReading: fs.opts.OneFileSystem", "os.Lstat")] := by
  decide

/-- the documented mapping read off the regenerated tables: the two untar flags reach the fields of their names, and the
    struct that holds them is the one `NewLocalFS` receives -/
theorem gen_untar_flags_reach_localfs :
    Gen.cmdUntarFlags.lookup "no-same-owner" = some "opt.NoSameOwner BoolVar false" ∧
    Gen.cmdUntarFlags.lookup "no-same-permissions" = some "opt.NoSamePermissions BoolVar false" ∧
    Gen.cmdUntarOptions.contains "embedded desync.LocalFSOptions" = true ∧
    (Gen.cmdRunUntarPlan.map Prod.snd).contains "desync.NewLocalFS(args[1],opt.LocalFSOptions)" = true ∧
    Gen.cmdTarFlags.lookup "one-file-system" = some "opt.OneFileSystem BoolVar false" ∧
    Gen.cmdTarFlags.lookup "no-time" = some "opt.NoTime BoolVar false" ∧
    (Gen.cmdRunTarPlan.map Prod.snd).contains "desync.NewLocalFS(args[1],opt.LocalFSOptions)" = true := by
  decide

end Desync.C05
