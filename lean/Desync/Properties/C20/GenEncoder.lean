/- C20 / C16 / C03 — regenerated obligation for compress.go / compress_datadog.go: the configuration of the
   package-wide zstd ENCODER (harness/extract/compressfacts.go) -/
import Desync.Generated.Facts

namespace Desync.C20
open Desync

/-- the encoder every chunk is written with is `zstd.NewWriter(nil)` WITHOUT options (default level, default window,
    content checksum as the package defaults decide, no dictionary): whatever changes the frames desync writes turns
    this red; `Compress` is `EncodeAll` on that shared encoder into a fresh buffer and nothing else.  The cgo variant is
    `zstd.CompressLevel(nil, b, 3)`. -/
theorem gen_encoder_standard_frames :
    Gen.site_compressDefault_found = true ∧ Gen.site_compressDatadog_found = true ∧
    Gen.site_compressEncoderCtor_found = true ∧
    Gen.compressEncoderCtor = "zstd.NewWriter" ∧ Gen.compressEncoderTarget = "nil" ∧
    Gen.compressEncoderOptions = [] ∧
    Gen.compressDefaultCompressBody = ["return encoder.EncodeAll(src, make([]byte, 0, len(src))), nil"] ∧
    Gen.compressDatadogCompressBody = ["return zstd.CompressLevel(nil, b, 3)"] ∧
    Gen.compressOtherVars = [] ∧ Gen.compressSharedAssigners = [] := by decide

end Desync.C20
