/- C20 / C16 / C03 — regenerated obligation for compress.go / compress_datadog.go: the configuration of the
   package-wide zstd DECODER (harness/extract/compressfacts.go) -/
import Desync.Generated.Facts

namespace Desync.C20
open Desync

/-- the decoder every chunk is read with is `zstd.NewReader(nil)` WITHOUT options — in particular nothing that limits
    memory (`WithDecoderMaxMemory`), the window size (`WithDecoderMaxWindow`), or makes the outcome depend on the
    concurrency or on dictionaries; `Decompress` is `DecodeAll` on that shared decoder and nothing else, and no function
    replaces the shared objects.  The cgo variant (build tag `datadog`) is `zstd.Decompress` of libzstd's one-shot API.
    Together with the large-chunk and large-window monitors (C16 `c16LargeChunks`, C20 casync-frame cases) this is the
    totality of the verifying constructor's decoder on valid frames that `Model/LocalVerify.lean` takes as a parameter. -/
theorem gen_decoder_unbounded :
    Gen.site_compressDefault_found = true ∧ Gen.site_compressDatadog_found = true ∧
    Gen.site_compressDecoderCtor_found = true ∧
    Gen.compressFiles = ["compress.go", "compress_datadog.go"] ∧
    Gen.compressDefaultBuildTags = ["+build !datadog"] ∧ Gen.compressDatadogBuildTags = ["+build datadog"] ∧
    Gen.compressDefaultImports = ["github.com/klauspost/compress/zstd"] ∧
    Gen.compressDatadogImports = ["github.com/DataDog/zstd"] ∧
    Gen.compressDecoderCtor = "zstd.NewReader" ∧ Gen.compressDecoderTarget = "nil" ∧
    Gen.compressDecoderOptions = [] ∧
    Gen.compressDefaultDecompressBody = ["return decoder.DecodeAll(src, dst)"] ∧
    Gen.compressDatadogDecompressBody = ["return zstd.Decompress(out, in)"] ∧
    Gen.compressOtherVars = [] ∧ Gen.compressSharedAssigners = [] := by decide

end Desync.C20
