/-
  C03, regenerated obligations for `S3Store.GetChunk` / `SFTPStore.GetChunk`: the statement skeletons
  `Model/RemoteStores.lean` mirrors (`Proofs/RemoteStoresShapes.lean`).
-/
import Desync.Proofs.RemoteStoresShapes

namespace Desync.C03
open Desync Desync.Remote

-- `decide` compares string literals character by character (the longest statement has 130)
set_option maxRecDepth 16384

/-- `S3Store.GetChunk` is still the loop of `s3GetLoop` with the error-code switch of `s3GetChunk` -/
theorem gen_remote_s3_get :
    Gen.site_remote_s3_get_found = true ∧ Gen.remoteS3GetSkel = Expected.remoteS3GetSkel := by decide

/-- `SFTPStore.GetChunk` is still Open / IsNotExist → ChunkMissing / ReadAll / constructor -/
theorem gen_remote_sftp_get :
    Gen.site_remote_sftp_get_found = true ∧ Gen.remoteSftpGetSkel = Expected.remoteSftpGetSkel := by decide

end Desync.C03
