/-
  C10 — Copy-on-read sparse files return the blob's bytes or an error, never stale zeros.

  Models: `Model/Sparse.lean` (one session: `loadChunk`, `loadRange`, `ReadAt`, `NewSparseFile`,
  state save/load, pre-load), `Model/SparseSys.lean` (cache file and state file across sessions),
  `Model/SparseConc.lean` (concurrent readers as a step machine; theorems in the second half).
  Hypotheses (`SparseStatic`): the index tiles the blob with non-empty chunks (C02), the store is
  sound (C03), null-ID chunks are zeros.
-/
import Desync.Proofs.SparseSysProofs
import Desync.Generated.Facts
import Desync.Proofs.SparseConcProofs

namespace Desync.C10
open Desync

/-- **every read in every history** — any sequence of reads (any offset/length, also zero-length
    and beyond the end), state saves and restarts (cache file kept, deleted or resized; state file
    kept or dropped), with the store failing at arbitrary calls — returns exactly the blob's bytes
    for its range, or an error caused by a failed store call -/
theorem reads_blob_or_error {blob : Bytes} {chunks : List RChunk} {nullID length : Nat} {fetch : Fetch}
    (hst : SparseStatic blob chunks nullID length fetch) (ops : List SysOp)
    (hok : ∀ op ∈ ops, SysOpOK length op) :
    ∀ (j : Nat) (r : SparseRead),
      ((SparseSys.init fetch chunks nullID length).run fetch ops).1[j]? = some (some r) →
      match r with
      | .data b eof => ∃ off n, ops[j]? = some (.read off n) ∧ b = (blob.drop off).take n ∧
          (eof = true ↔ b.length < n)
      | .err => ∃ k id, fetch k id = none :=
  sys_reads_blob_or_error hst ops hok

/-- **retry after an error**: a failing read leaves the session in a good state (the chunk is not
    marked done), so a later read of the same range again fetches or fails — it cannot return the
    unpopulated zeros -/
theorem error_keeps_invariant {blob : Bytes} {s : SparseSt} {fetch : Fetch}
    (hs : SparseSetup blob s fetch) (hi : SparseInv blob s) (off n : Nat) :
    SparseInv blob (s.readAt fetch off n).2 :=
  (readAt_inv hs hi off n).1

/-- one read, from any good session state -/
theorem read_blob_or_error {blob : Bytes} {s : SparseSt} {fetch : Fetch}
    (hs : SparseSetup blob s fetch) (hi : SparseInv blob s) (off n : Nat) (b : Bytes) (eof : Bool)
    (h : (s.readAt fetch off n).1 = .data b eof) :
    b = (blob.drop off).take n :=
  (readAt_data hs hi h).1

/-- the same through the sparse mount's file node (`sparseIndexFile.Read`): the request is answered with exactly
    the blob's bytes of the range, or with EIO — and the session state is the one `ReadAt` left -/
theorem mount_read_blob_or_error {blob : Bytes} {s : SparseSt} {fetch : Fetch}
    (hs : SparseSetup blob s fetch) (hi : SparseInv blob s) (off n : Nat) :
    (∀ b, (s.mountRead fetch off n).1 = some b → b = (blob.drop off).take n) ∧
    (s.mountRead fetch off n).2 = (s.readAt fetch off n).2 ∧
    SparseInv blob (s.mountRead fetch off n).2 := by
  have hinv := (readAt_inv hs hi off n).1
  unfold SparseSt.mountRead
  cases hr : s.readAt fetch off n with
  | mk r s' =>
    rw [hr] at hinv
    cases r with
    | data b eof =>
      refine ⟨fun b' hb => ?_, rfl, hinv⟩
      simp at hb; subst hb
      exact (readAt_data hs hi (by rw [hr])).1
    | err => exact ⟨fun b' hb => by simp at hb, rfl, hinv⟩

/-- pre-loading from a state file (any flags, any store failures) preserves the invariant -/
theorem preload_keeps_invariant {blob : Bytes} {s : SparseSt} {fetch : Fetch}
    (hs : SparseSetup blob s fetch) (hi : SparseInv blob s) (init : Option (List Bool)) :
    SparseInv blob (preload fetch s init) :=
  (preload_inv hs hi init).1

/-- the acceptance rule must be paired with invalidating the state file on re-initialisation:
    without it (the pinned tree) this three-session history returns a zero byte for a blob byte 1 -/
theorem stale_state_counterexample_pinned :
    let s1 := SparseSt.open cxFetch cxChunks 0 1 [] none none 0
    let r1 := s1.readAt cxFetch 0 1
    let saved := r1.2.saveState
    let s2 := SparseSt.open cxFetch cxChunks 0 1 [] (some saved) none 0
    let s3 := SparseSt.open cxFetch cxChunks 0 1 s2.file (some saved) none 0
    r1.1 = .data [1] false ∧ saved = [true] ∧ s2.file = [0] ∧ s2.done = [false] ∧
    (s3.readAt cxFetch 0 1).1 = .data [0] false := open_stale_scenario

/-! ### concurrent readers: every interleaving -/

/-- **all interleavings**: with any number of concurrent readers and any store failures, a reader
    that returns successfully has read a range that held the blob's bytes — never the unpopulated
    zeros of the cache file -/
theorem concurrent_read_sees_blob (isNull : List Bool) (k : Nat) (s : SparseConc.St)
    (h : SparseConc.Reachable (SparseConc.St.init isNull k) s) (r : Nat) (range : List Nat) (sawBlob : Bool)
    (hr : s.readers[r]? = some (.returned true range sawBlob)) : sawBlob = true :=
  SparseConc.read_sees_blob isNull k s h r range sawBlob hr

/-- at most one loader per chunk at any time (one store request per chunk, no write after done) -/
theorem concurrent_single_loader (isNull : List Bool) (k : Nat) (s : SparseConc.St)
    (h : SparseConc.Reachable (SparseConc.St.init isNull k) s) (r1 r2 i : Nat) (pc1 pc2 : SparseConc.PC)
    (h1 : s.readers[r1]? = some pc1) (h2 : s.readers[r2]? = some pc2)
    (hh1 : pc1.holds = some i) (hh2 : pc2.holds = some i) : r1 = r2 :=
  SparseConc.single_loader isNull k s h r1 r2 i pc1 pc2 h1 h2 hh1 hh2

/-- no deadlock and no lost wake-up: every active reader can move, or waits for a mutex whose
    holder (another reader) can move -/
theorem concurrent_no_deadlock (isNull : List Bool) (k : Nat) (s : SparseConc.St)
    (h : SparseConc.Reachable (SparseConc.St.init isNull k) s) (r : Nat) (pc : SparseConc.PC)
    (hr : s.readers[r]? = some pc) (hact : pc ≠ .idle ∧ ∀ ok rg sb, pc ≠ .returned ok rg sb) :
    (∃ e s', SparseConc.step s e = some s') :=
  (SparseConc.no_deadlock isNull k s h r pc hr hact).1

/-- every way a load can fail (the store call, `Data()`, opening or writing the cache file, the
    latter possibly after a partial write) leaves the reader in `failed` for the chunk it was loading,
    still holding the chunk's mutex; bitmap, mutexes and cache file flags are unchanged -/
theorem concurrent_load_failure_is_failed (s s' : SparseConc.St) (r : Nat) (e : SparseConc.Ev)
    (he : e = .fetchFail r ∨ e = .dataFail r ∨ e = .writeFail r) (hs : SparseConc.step s e = some s') :
    ∃ pc range i, s.readers[r]? = some pc ∧ pc.loading = some i ∧ pc.range = range ∧
      s'.readers[r]? = some (.failed range i) ∧
      s'.done = s.done ∧ s'.lock = s.lock ∧ s'.populated = s.populated :=
  SparseConc.fail_to_failed s s' r e he hs

/-- a failed load leaves the chunk not done: in every reachable state (whatever the other readers did
    in between) a reader whose load of chunk `i` failed sees `done i = false`, its `release` is enabled,
    and after it the chunk is still not done, its mutex is free and the reader returns an error -/
theorem concurrent_failed_load_retried (isNull : List Bool) (k : Nat) (s : SparseConc.St)
    (h : SparseConc.Reachable (SparseConc.St.init isNull k) s) (r i : Nat) (range : List Nat)
    (hr : s.readers[r]? = some (.failed range i)) :
    s.done.getD i false = false ∧
    ∃ s', SparseConc.step s (.release r) = some s' ∧
      s'.done.getD i false = false ∧ s'.lock.getD i none = none ∧
      s'.readers[r]? = some (.returned false range false) :=
  SparseConc.failed_not_done isNull k s h r i range hr

/-- … and the next reader loads it again: a read that starts while a non-null chunk of its range is
    not done puts the chunk on its to-do list, and a reader that finds the chunk not done under the
    chunk's mutex issues the store call -/
theorem concurrent_undone_chunk_loaded_again (s : SparseConc.St) :
    (∀ s' r range, SparseConc.step s (.start r range) = some s' →
      ∃ todo, s'.readers[r]? = some (.want range todo) ∧
        ∀ i ∈ range, s.done.getD i false = false → s.isNull.getD i false = false → i ∈ todo) ∧
    (∀ r i range todo, s.readers[r]? = some (.locked range todo i) → s.done.getD i false = false →
      SparseConc.step s (.check r) = some (SparseConc.setR s r (.fetching range todo i))) :=
  ⟨fun s' r range hs => SparseConc.start_todo s s' r range hs,
   fun r i range todo hr hd => SparseConc.check_undone_fetches s r i range todo hr hd⟩

/-- **trace validation is sound**: an event trace that the driver's `sparse.accept` replays through
    `step` without a rejection ends in a reachable state, so every call it shows returning
    successfully has read the blob's bytes -/
theorem concurrent_accepted_trace_safe (isNull : List Bool) (k : Nat) (es : List SparseConc.Ev) (s : SparseConc.St)
    (hacc : SparseConc.replay (SparseConc.St.init isNull k) es = some s) :
    SparseConc.Reachable (SparseConc.St.init isNull k) s ∧
    ∀ (r : Nat) (range : List Nat) (sawBlob : Bool),
      s.readers[r]? = some (SparseConc.PC.returned true range sawBlob) → sawBlob = true :=
  have hr := SparseConc.replay_reachable _ _ s es .refl hacc
  ⟨hr, fun r range sb h => SparseConc.read_sees_blob isNull k s hr r range sb h⟩

/-- non-vacuity: two readers of chunk 0 (chunk 1 is a null chunk) and a pre-load call; reader 0's store
    call fails while reader 1 waits for the mutex, reader 1 then loads the chunk and reads the blob, the
    pre-load call finds the chunk done -/
example :
    (SparseConc.replay (SparseConc.St.init [false, true] 3)
      [.start 0 [0, 1], .start 1 [0], .acquire 0, .check 0, .fetchFail 0, .release 0,
       .acquire 1, .check 1, .fetchOk 1, .preload 2 0, .write 1, .mark 1, .release 1, .acquire 2,
       .ready 1, .check 2, .read 1, .release 2, .loaded 2]).map (fun s => (s.readers, s.done, s.lock)) =
    some ([.returned false [0, 1] false, .returned true [0] true, .returned true [] true],
          [true, false], [none, none]) := by decide

/-- non-vacuity of the rejection: a second reader cannot take a held mutex -/
example :
    SparseConc.replay (SparseConc.St.init [false] 2)
      [.start 0 [0], .start 1 [0], .acquire 0, .acquire 1] = none := by decide

/-- the machine's step order is the regenerated one -/
theorem gen_conc_shape : Gen.sparseLoadChunkShape = SparseConc.modelledShape := by decide

/-- the order of operations in `loadChunk` is the one the models implement (no `sync.Once`, the
    done bit is read under the chunk mutex before the store call and set after the write) -/
theorem gen_sparse_shape :
    Gen.site_shape_sparse_loadChunk_found = true ∧
    Gen.sparseLoadChunkShape = ["chunk.mu.Lock", "done.Get", "GetChunk", "Data", "WriteAt", "done.Set"] := by
  decide

end Desync.C10
