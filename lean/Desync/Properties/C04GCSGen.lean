/-
  C04, regenerated obligation for `GCIndexStore` (gcsindex.go).
-/
import Desync.Proofs.GCStoreShapes

namespace Desync.C04
open Desync

set_option maxRecDepth 16384

/-- GetIndexReader / GetIndex (the reader is closed by a DEFERRED call, after IndexFromReader) / StoreIndex (the error of
    WriteTo and the error of Close are returned) -/
theorem gen_gcs_index :
    Gen.site_gcs_index_reader_found = true ∧ Gen.site_gcs_index_get_found = true ∧ Gen.site_gcs_index_store_found = true ∧
    Gen.gcsIndexReaderSkel = GCS.Expected.gcsIndexReaderSkel ∧ Gen.gcsIndexGetSkel = GCS.Expected.gcsIndexGetSkel ∧
    Gen.gcsIndexStoreSkel = GCS.Expected.gcsIndexStoreSkel := by decide

end Desync.C04
