/-
  C07 at the command layer: the signal handler of `main` cancels the context every command function receives, the
  long-running library calls are given that context, their interruption error is propagated, and `main` turns an
  error into a non-zero exit status.  The library-level fact ("a cancelled long-running call returns an error unless
  its work is complete": `Desync.C07.cancel_never_success` and the per-function instances) enters as the hypothesis
  `CancelContract` on the oracle.
-/
import Desync.Proofs.CmdFlow
import Desync.Properties.C06CmdFlow

namespace Desync.C07
open Desync.Cmd

/-- **a cancelled command never reports success**: in a flow that propagates every error and hands the command's
    context to every long-running call, if such a call runs (or is still running) once the context has been
    cancelled, the command function returns an error — for every option setting, loop length, cancellation point
    and every outcome of the other calls -/
theorem cmd_cancel_never_success (f : Flow) (h1 : f.allErrorsPropagated = true) (h2 : f.longStepsGetCmdCtx = true)
    (env : Env) (orc : Oracle) (cancelAt : Nat) (hlib : CancelContract orc cancelAt)
    (hlong : ∃ e ∈ (run f env orc).2, e.kind = .call ∧ isLong e.callee = true ∧ cancelAt ≤ e.pos) :
    (run f env orc).1 = .err := by
  apply C06.cmd_failure_is_reported f h1 env orc
  obtain ⟨e, he, hk, hl, hc⟩ := hlong
  refine ⟨e, he, ?_⟩
  simp only [Flow.longStepsGetCmdCtx, Bool.and_eq_true] at h2
  simp only [run, List.mem_append] at he
  rcases he with he | he
  · exact exec_cancelInv orc cancelAt hlib _ {} (Block.all_lin _ env f.body h2.2) (by intro e he; simp at he) e he hk hl hc
  · have := (closeEffects_ok _ _ e he).2
    rw [this] at hk
    cases hk

/-- **exit status**: `main` exits non-zero exactly when the command function returned an error -/
theorem cmd_exit_status_nonzero_iff_error (m : MainShape) (hm : m.ok = true) (r : Result) :
    exitStatus m r ≠ 0 ↔ r = .err := by
  have hne : m.exitOnError ≠ 0 := by
    simp only [MainShape.ok, Bool.and_eq_true, decide_eq_true_eq] at hm
    exact hm.1.2
  cases r <;> simp [exitStatus, hne]

/-- **SIGINT / SIGTERM**: composition of the three layers.  With `main` as checked by `MainShape.ok` (both signals
    registered, the handler cancels the context the command was given, an error exits non-zero) a command whose
    long-running call is caught by the cancellation exits with a non-zero status -/
theorem cmd_signalled_exits_nonzero (m : MainShape) (hm : m.ok = true) (f : Flow)
    (h1 : f.allErrorsPropagated = true) (h2 : f.longStepsGetCmdCtx = true)
    (env : Env) (orc : Oracle) (cancelAt : Nat) (hlib : CancelContract orc cancelAt)
    (hlong : ∃ e ∈ (run f env orc).2, e.kind = .call ∧ isLong e.callee = true ∧ cancelAt ≤ e.pos) :
    exitStatus m (run f env orc).1 ≠ 0 :=
  (cmd_exit_status_nonzero_iff_error m hm _).mpr (cmd_cancel_never_success f h1 h2 env orc cancelAt hlib hlong)

/-- and success is exit status 0 with every call succeeded -/
theorem cmd_exit_zero_means_all_ok (m : MainShape) (hm : m.ok = true) (f : Flow) (h1 : f.allErrorsPropagated = true)
    (env : Env) (orc : Oracle) (h0 : exitStatus m (run f env orc).1 = 0) : ∀ e ∈ (run f env orc).2, e.ok = true := by
  apply C06.cmd_success_means_every_step_succeeded f h1 env orc
  intro herr
  have := (cmd_exit_status_nonzero_iff_error m hm _).mpr herr
  exact this h0

/-- hypotheses are satisfiable: cancellation arrives after two effects, `IndexFromFile` (third) is given the
    command's context and therefore fails -/
def cancelledOracle : Oracle :=
  { fails := fun hist s => isLong s.callee && decide (s.ctx = .cmd) && decide (2 ≤ hist.length), stops := fun _ _ => false }

example : CancelContract cancelledOracle 2 := by
  intro hist s hl hc hn
  simp [cancelledOracle, hl, hc, hn]

example : (run C06.exampleFlow C06.exampleEnv cancelledOracle).1 = .err := by decide

/-- the mutant the theorem excludes: `context.Background()` handed to the long-running call — the cancellation does
    not reach it and the command reports success -/
def backgroundFlow : Flow := { name := "example", complete := true, body :=
  (.cons (.step ⟨"opt.validate", .none, .propagate⟩)
  (.cons (.step ⟨"readCaibxFile", .none, .propagate⟩)
  (.cons (.ret ⟨"desync.VerifyIndex", .background, .propagate⟩) .nil))) }

theorem cmd_background_context_violates :
    backgroundFlow.longStepsGetCmdCtx = false ∧ CancelContract cancelledOracle 2 ∧
    (run backgroundFlow C06.exampleEnv cancelledOracle).1 = .ok := by
  refine ⟨by decide, ?_, by decide⟩
  intro hist s hl hc hn
  simp [cancelledOracle, hl, hc, hn]

end Desync.C07
