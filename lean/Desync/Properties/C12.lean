/-
  C12 — Request de-duplication is safe under every interleaving.

  Model: `Model/Dedup.lean` — one machine per request kind (GetChunk, HasChunk, StoreChunk): the
  map of in-flight requests with atomic `loadOrStore`/`delete`, leaders calling upstream and
  publishing with `markDone`, followers waiting on `done`.  Upstream results are arbitrary.
  Interpretation (DESIGN §6): "in flight" = registered in the map, from the leader's `loadOrStore`
  to its `delete`.
  Tie: (a) regenerated shapes — the leader path's call order of all three wrapped operations and
  the order inside `request.markDone` (result published before `done` is closed); (c) trace
  validation — event traces of the real `DedupQueue.GetChunk` / `DedupQueue.HasChunk` under a
  cooperative scheduler are replayed through `step` and the callers' results compared; traces of
  writers, readers and `HasChunk` callers on one real `WriteDedupQueue` are replayed through
  `WdqSys.step` (`Model/WdqSystem.lean`: `WDedup.step` for the write queue, `Dedup.step` once per kind
  for the embedded `DedupQueue`), whose components are runs of the machines the theorems are about
  (`wdq_system_components`).
-/
import Desync.Proofs.DedupProofs
import Desync.Proofs.WriteDedupProofs
import Desync.Proofs.WdqSystem
import Desync.Generated.Facts

namespace Desync.C12
open Desync.Dedup

/-- **result**: a caller that returned `v` used a request for its own chunk ID and got exactly
    the result the upstream call made for that request returned -/
theorem result_is_upstream (ids : List Nat) (s : St) (h : Reachable (St.init ids) s)
    (t v r : Nat) (ht : s.callers[t]? = some (.returned v r)) :
    (r, v) ∈ s.upHist ∧ ∃ q, s.reqs[r]? = some q ∧ q.id = ids.getD t 0 ∧ q.done = true ∧ q.val = v := by
  obtain ⟨h1, q, hq, _, hid, hd, hv⟩ := returned_value_is_upstream ids s h t v r ht
  exact ⟨h1, q, hq, hid, hd, hv⟩

/-- **single flight**: at most one upstream request per chunk ID is in flight at any time -/
theorem single_flight (ids : List Nat) (s : St) (h : Reachable (St.init ids) s) (t1 t2 r1 r2 : Nat)
    (h1 : s.callers[t1]? = some (.upstream r1)) (h2 : s.callers[t2]? = some (.upstream r2))
    (hid : (s.reqs.getD r1 ⟨0, false, 0⟩).id = (s.reqs.getD r2 ⟨0, false, 0⟩).id) : t1 = t2 :=
  Desync.Dedup.single_flight ids s h t1 t2 r1 r2 h1 h2 hid

/-- **no reuse after return**: a caller joins only a request whose leader is still between its
    registration and its delete — i.e. a request in flight during the caller's own call; after the
    leader has returned its result is never handed out again -/
theorem joins_only_in_flight (ids : List Nat) (s : St) (h : Reachable (St.init ids) s) (t r : Nat) (s' : St)
    (hs : step s (.call t) = some s') (hf : s'.callers[t]? = some (.follower r)) :
    ∃ tl : Nat, tl ≠ t ∧ (s.callers[tl]? = some (C.upstream r) ∨ (∃ v, s.callers[tl]? = some (C.got r v)) ∨
      (∃ v, s.callers[tl]? = some (C.published r v))) :=
  no_join_after_delete ids s h t r s' hs hf

/-- the unconditional `delete(q.requests, id)` removes exactly the leader's own entry, never a
    newer request for the same ID -/
theorem delete_removes_own_entry (ids : List Nat) (s : St) (h : Reachable (St.init ids) s) (t r v : Nat)
    (s' : St) (hc : s.callers[t]? = some (.published r v)) (hs : step s (.delete t) = some s') :
    ∃ q, s.reqs[r]? = some q ∧ (q.id, r) ∈ s.queue ∧ ∀ p, p ∈ s.queue → (p ∈ s'.queue ↔ p ≠ (q.id, r)) :=
  delete_removes_own ids s h t r v s' hc hs

/-- **no deadlock, no lost wake-up**: every caller that has not returned can take a step itself,
    or follows a request whose leader (another caller) can take a step -/
theorem no_deadlock (ids : List Nat) (s : St) (h : Reachable (St.init ids) s) (t : Nat) (c : C)
    (ht : s.callers[t]? = some c) (hnr : ∀ v r, c ≠ .returned v r) :
    (∃ e s', e.caller = t ∧ step s e = some s') ∨
    (∃ r tl, c = .follower r ∧ tl ≠ t ∧
      ((s.callers[tl]? = some (.upstream r) ∧ ∀ v, ∃ s', step s (.upRet tl v) = some s') ∨
       (∃ v, s.callers[tl]? = some (.got r v) ∧ ∃ s', step s (.markDone tl) = some s'))) :=
  Desync.Dedup.no_deadlock ids s h t c ht hnr

/-- **every caller returns**: a run performs at most four steps per caller, and a state in which
    nothing can move has every caller returned -/
theorem all_callers_return (ids : List Nat) :
    (∀ es, effSteps (St.init ids) es ≤ 4 * ids.length) ∧
    (∀ s, Reachable (St.init ids) s → (∀ e, step s e = none) →
      ∀ (t : Nat) (c : C), s.callers[t]? = some c → ∃ v r, c = C.returned v r) :=
  ⟨steps_bounded_init ids, fun s h hst t c ht => stuck_only_when_all_returned ids s h hst t c ht⟩

/-- **regenerated obligation**: the three de-duplicated operations have the modelled leader path
    (register, call upstream, publish, delete) and `markDone` assigns the result before closing -/
theorem gen_dedup_shape :
    Gen.dedupGetChunkShape = ["loadOrStore", "wait", "upstream", "markDone", "delete"] ∧
    Gen.dedupHasChunkShape = ["loadOrStore", "wait", "upstream", "markDone", "delete"] ∧
    Gen.dedupStoreChunkShape = ["loadOrStore", "wait", "upstream", "markDone", "delete"] ∧
    Gen.dedupMarkDoneShape = modelledMarkDoneShape ∧
    Gen.site_shape_dedup_GetChunk_found = true ∧ Gen.site_shape_dedup_HasChunk_found = true ∧
    Gen.site_shape_dedup_StoreChunk_found = true ∧ Gen.site_shape_dedup_markDone_found = true := by
  decide

/-! ### reads that overlap a de-duplicated write (writededupqueue.go, `Model/WriteDedup.lean`)

Callers are writers (`StoreChunk` of a chunk with an ID and data) and readers (`GetChunk`); the write
queue is looked at under its mutex; a reader that finds a write of its ID in flight waits for it. -/

/-- **reads overlapping a write see that chunk**: a reader that found a write of its chunk ID in
    flight returns exactly the chunk that write's leader handed to the store, with the store's error -/
theorem overlapping_read_sees_written_chunk (roles : List WDedup.Role) (s : WDedup.St)
    (h : WDedup.Reachable (WDedup.St.init roles) s)
    (t d e r : Nat) (ht : s.callers[t]? = some (.rreturned d e r)) :
    ∃ (id tl : Nat), roles[t]? = some (.reader id) ∧ tl ≠ t ∧ roles[tl]? = some (.writer id d) ∧
      (r, d, e) ∈ s.upHist ∧
      ∃ q, s.reqs[r]? = some q ∧ q.id = id ∧ q.done = true ∧ q.val = d ∧ q.err = e :=
  WDedup.overlapping_read_sees_written_chunk roles s h t d e r ht

/-- the write a reader waits on is in flight at the moment of its look: its leader, a writer of the same
    ID, is between its registration and its delete -/
theorem read_joins_only_in_flight_write (roles : List WDedup.Role) (s : WDedup.St)
    (h : WDedup.Reachable (WDedup.St.init roles) s)
    (t r : Nat) (s' : WDedup.St) (hs : WDedup.step s (.rpeek t) = some s')
    (hf : s'.callers[t]? = some (.rwait r)) :
    ∃ (tl id : Nat), tl ≠ t ∧ roles[t]? = some (.reader id) ∧ (∃ d, roles[tl]? = some (.writer id d)) ∧
      ((∃ d, s.callers[tl]? = some (WDedup.C.wupstream r d)) ∨ (∃ d e, s.callers[tl]? = some (WDedup.C.wgot r d e)) ∨
       (∃ d e, s.callers[tl]? = some (WDedup.C.wpublished r d e))) :=
  WDedup.read_joins_only_in_flight_write roles s h t r s' hs hf

/-- a reader goes on to the upstream store (through `DedupQueue.GetChunk`, the machine above) only when no
    write of its ID is in flight -/
theorem read_passes_only_without_write (roles : List WDedup.Role) (s : WDedup.St)
    (h : WDedup.Reachable (WDedup.St.init roles) s)
    (t id : Nat) (s' : WDedup.St) (hs : WDedup.step s (.rpeek t) = some s')
    (hf : s'.callers[t]? = some (.rpass id)) :
    roles[t]? = some (.reader id) ∧ ∀ (tl : Nat) (c : WDedup.C) (r : Nat) (q : WDedup.Req),
      s.callers[tl]? = some c → c.wlead = some r → s.reqs[r]? = some q → q.id ≠ id :=
  WDedup.read_passes_only_without_write roles s h t id s' hs hf

/-- at most one upstream `StoreChunk` per chunk ID is in flight at any time -/
theorem write_single_flight (roles : List WDedup.Role) (s : WDedup.St)
    (h : WDedup.Reachable (WDedup.St.init roles) s) (t1 t2 r1 r2 d1 d2 : Nat)
    (h1 : s.callers[t1]? = some (.wupstream r1 d1)) (h2 : s.callers[t2]? = some (.wupstream r2 d2))
    (hid : (s.reqs.getD r1 ⟨0, false, 0, 0⟩).id = (s.reqs.getD r2 ⟨0, false, 0, 0⟩).id) : t1 = t2 :=
  WDedup.write_single_flight roles s h t1 t2 r1 r2 d1 d2 h1 h2 hid

/-- every writer returns the error of an upstream `StoreChunk` of a chunk with its own ID -/
theorem write_result_is_upstream (roles : List WDedup.Role) (s : WDedup.St)
    (h : WDedup.Reachable (WDedup.St.init roles) s)
    (t e r : Nat) (ht : s.callers[t]? = some (.wreturned e r)) :
    ∃ (id d d' : Nat), roles[t]? = some (.writer id d) ∧ (r, d', e) ∈ s.upHist ∧
      ∃ q, s.reqs[r]? = some q ∧ q.id = id ∧ q.done = true ∧ q.err = e :=
  WDedup.write_result_is_upstream roles s h t e r ht

/-- no deadlock, no lost wake-up, and every run ends (at most four steps per caller; a state in which
    nothing moves has every caller returned or passed on) -/
theorem write_queue_live (roles : List WDedup.Role) :
    (∀ s, WDedup.Reachable (WDedup.St.init roles) s → ∀ (t : Nat) (c : WDedup.C), s.callers[t]? = some c → c.final = false →
      (∃ e s', e.caller = t ∧ WDedup.step s e = some s') ∨
      (∃ r tl, (c = .wfollower r ∨ c = .rwait r) ∧ tl ≠ t ∧
        ((∃ d, s.callers[tl]? = some (.wupstream r d) ∧ ∀ e, ∃ s', WDedup.step s (.wupRet tl e) = some s') ∨
         (∃ d e, s.callers[tl]? = some (.wgot r d e) ∧ ∃ s', WDedup.step s (.wmarkDone tl) = some s')))) ∧
    (∀ es, WDedup.effSteps (WDedup.St.init roles) es ≤ 4 * roles.length) ∧
    (∀ s, WDedup.Reachable (WDedup.St.init roles) s → (∀ e, WDedup.step s e = none) →
      ∀ (t : Nat) (c : WDedup.C), s.callers[t]? = some c → c.final = true) :=
  ⟨fun s h t c ht hnf => WDedup.no_deadlock roles s h t c ht hnf,
   WDedup.steps_bounded_init roles,
   fun s h hst t c ht => WDedup.stuck_only_when_all_final roles s h hst t c ht⟩

/-- **regenerated obligation**: `WriteDedupQueue.StoreChunk` publishes the chunk being written together with
    the upstream error, and `WriteDedupQueue.GetChunk` looks at the write queue under its lock, waits for a
    write in flight, and otherwise continues into `DedupQueue.GetChunk` -/
theorem gen_wdq_shape :
    Gen.wdqStoreMarkDoneArgs = WDedup.modelledStoreMarkDoneArgs ∧
    Gen.wdqGetChunkShape = WDedup.modelledReadShape ∧
    Gen.site_shape_wdq_markDoneArgs_found = true ∧ Gen.site_shape_wdq_GetChunk_found = true := by
  decide

/-- **regenerated obligation**: one machine per kind of request — `GetChunk`, `HasChunk` and `StoreChunk` each use
    their own queue and no other; `WriteDedupQueue.GetChunk` looks at the write queue and then delegates -/
theorem gen_one_queue_per_kind :
    Gen.dedupQueuesOfGetChunk = ["getChunkQueue"] ∧ Gen.dedupQueuesOfHasChunk = ["hasChunkQueue"] ∧
    Gen.dedupQueuesOfStoreChunk = ["storeChunkQueue"] ∧
    Gen.dedupQueuesOfWriteGetChunk = ["storeChunkQueue", "DedupQueue"] ∧
    Gen.dedupQueuesOfWriteHasChunk = ["DedupQueue"] := by
  decide

/-! ### one `WriteDedupQueue` as a whole (`Model/WdqSystem.lean`) — the machine recorded traces are replayed through

The write queue's machine, and the `DedupQueue` machine once for the readers that passed on into
`DedupQueue.GetChunk` and once for the `HasChunk` callers. -/

/-- every component of a reachable state of the whole is reachable in its own machine: the theorems above hold
    of every trace the replay accepts (`WdqSys.replay_reachable`) -/
theorem wdq_system_components (roles : List WDedup.Role) (hids : List Nat) (s : WdqSys.St)
    (h : WdqSys.Reachable (WdqSys.St.init roles hids) s) :
    WDedup.Reachable (WDedup.St.init roles) s.w ∧
    Dedup.Reachable (Dedup.St.init (roles.map WdqSys.roleId)) s.g ∧
    Dedup.Reachable (Dedup.St.init hids) s.h :=
  WdqSys.reachable_components roles hids s h

/-- a caller has moved inside `DedupQueue.GetChunk` only after its locked look at the write queue found no write of
    its chunk ID in flight -/
theorem wdq_read_path_only_after_pass (roles : List WDedup.Role) (hids : List Nat) (s : WdqSys.St)
    (h : WdqSys.Reachable (WdqSys.St.init roles hids) s) (t : Nat) :
    s.g.callers[t]? = (Dedup.St.init (roles.map WdqSys.roleId)).callers[t]? ∨
    ∃ id, s.w.callers[t]? = some (.rpass id) ∧ roles[t]? = some (.reader id) := by
  rcases WdqSys.read_path_only_after_pass roles hids s h t with h0 | h0
  · exact .inl h0
  · right
    simp only [WdqSys.passed] at h0
    split at h0
    · rename_i id hc
      exact ⟨id, hc, WdqSys.rpass_role roles s.w (WdqSys.reachable_components roles hids s h).1 t id hc⟩
    · simp at h0

/-- **what a `WriteDedupQueue.GetChunk` returns** when it did not meet a write in flight (otherwise:
    `overlapping_read_sees_written_chunk`): the result of an upstream `GetChunk` for its own chunk ID, made for
    the request it used -/
theorem wdq_reader_result_via_read_path (roles : List WDedup.Role) (hids : List Nat) (s : WdqSys.St)
    (h : WdqSys.Reachable (WdqSys.St.init roles hids) s) (t v r : Nat)
    (ht : s.g.callers[t]? = some (.returned v r)) :
    ∃ id, roles[t]? = some (.reader id) ∧ s.w.callers[t]? = some (.rpass id) ∧ (r, v) ∈ s.g.upHist ∧
      ∃ q, s.g.reqs[r]? = some q ∧ q.id = id ∧ q.done = true ∧ q.val = v :=
  WdqSys.reader_result_via_read_path roles hids s h t v r ht

/-- non-vacuity: a writer of chunk 1 (data 2), a reader that finds that write in flight and returns its chunk, a
    reader that arrives after the write's delete, passes and returns what its own upstream `GetChunk` answered
    (12), and a `HasChunk` caller — the event notation is that of the recorded traces -/
example : ∃ s, WdqSys.Reachable (WdqSys.St.init [.writer 1 2, .reader 1, .reader 1] [1]) s ∧
    s.w.callers[0]? = some (.wreturned 0 0) ∧ s.w.callers[1]? = some (.rreturned 2 0 0) ∧
    s.w.callers[2]? = some (.rpass 1) ∧ s.g.callers[2]? = some (.returned 12 0) ∧
    s.h.callers[0]? = some (.returned 1 0) := by
  have hr : ∃ s, WdqSys.replay (WdqSys.St.init [.writer 1 2, .reader 1, .reader 1] [1])
      [.w (.wcall 0), .w (.rpeek 1), .h (.call 0), .w (.wupRet 0 0), .w (.wmarkDone 0), .w (.rwake 1), .w (.wdelete 0),
       .w (.rpeek 2), .g (.call 2), .h (.upRet 0 1), .g (.upRet 2 12), .g (.markDone 2), .h (.markDone 0),
       .g (.delete 2), .h (.delete 0)] = some s ∧
      s.w.callers[0]? = some (.wreturned 0 0) ∧ s.w.callers[1]? = some (.rreturned 2 0 0) ∧
      s.w.callers[2]? = some (.rpass 1) ∧ s.g.callers[2]? = some (.returned 12 0) ∧
      s.h.callers[0]? = some (.returned 1 0) := ⟨_, rfl, rfl, rfl, rfl, rfl, rfl⟩
  obtain ⟨s, h, rest⟩ := hr
  exact ⟨s, WdqSys.replay_reachable .refl _ s h, rest⟩

/-- and a step inside `DedupQueue.GetChunk` by a caller that has not passed the write queue is not a behaviour -/
example : WdqSys.step (WdqSys.St.init [.writer 1 2, .reader 1] []) (.g (.call 1)) = none := rfl

end Desync.C12
