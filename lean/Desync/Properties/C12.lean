/-
  C12 — Request de-duplication is safe under every interleaving.

  Model: `Model/Dedup.lean` — one machine per request kind (GetChunk, HasChunk, StoreChunk): the
  map of in-flight requests with atomic `loadOrStore`/`delete`, leaders calling upstream and
  publishing with `markDone`, followers waiting on `done`.  Upstream results are arbitrary.
  Interpretation (DESIGN §6): "in flight" = registered in the map, from the leader's `loadOrStore`
  to its `delete`.
  Tie: (a) regenerated shapes — the leader path's call order of all three wrapped operations and
  the order inside `request.markDone` (result published before `done` is closed); (c) trace
  validation — event traces of the real `DedupQueue.GetChunk` under a cooperative scheduler are
  replayed through `step` and the callers' results compared.
-/
import Desync.Proofs.DedupProofs
import Desync.Proofs.WriteDedupProofs
import Desync.Generated.Facts

namespace Desync.C12
open Desync.Dedup

/-- **result**: a caller that returned `v` used a request for its own chunk ID and got exactly
    the result the upstream call made for that request returned -/
theorem result_is_upstream (ids : List Nat) (s : St) (h : Reachable (St.init ids) s)
    (t v r : Nat) (ht : s.callers[t]? = some (.returned v r)) :
    (r, v) ∈ s.upHist ∧ ∃ q, s.reqs[r]? = some q ∧ q.id = ids.getD t 0 ∧ q.done = true ∧ q.val = v := by
  obtain ⟨h1, q, hq, _, hid, hd, hv⟩ := returned_value_is_upstream ids s h t v r ht
  exact ⟨h1, q, hq, hid, hd, hv⟩

/-- **single flight**: at most one upstream request per chunk ID is in flight at any time -/
theorem single_flight (ids : List Nat) (s : St) (h : Reachable (St.init ids) s) (t1 t2 r1 r2 : Nat)
    (h1 : s.callers[t1]? = some (.upstream r1)) (h2 : s.callers[t2]? = some (.upstream r2))
    (hid : (s.reqs.getD r1 ⟨0, false, 0⟩).id = (s.reqs.getD r2 ⟨0, false, 0⟩).id) : t1 = t2 :=
  Desync.Dedup.single_flight ids s h t1 t2 r1 r2 h1 h2 hid

/-- **no reuse after return**: a caller joins only a request whose leader is still between its
    registration and its delete — i.e. a request in flight during the caller's own call; after the
    leader has returned its result is never handed out again -/
theorem joins_only_in_flight (ids : List Nat) (s : St) (h : Reachable (St.init ids) s) (t r : Nat) (s' : St)
    (hs : step s (.call t) = some s') (hf : s'.callers[t]? = some (.follower r)) :
    ∃ tl : Nat, tl ≠ t ∧ (s.callers[tl]? = some (C.upstream r) ∨ (∃ v, s.callers[tl]? = some (C.got r v)) ∨
      (∃ v, s.callers[tl]? = some (C.published r v))) :=
  no_join_after_delete ids s h t r s' hs hf

/-- the unconditional `delete(q.requests, id)` removes exactly the leader's own entry, never a
    newer request for the same ID -/
theorem delete_removes_own_entry (ids : List Nat) (s : St) (h : Reachable (St.init ids) s) (t r v : Nat)
    (s' : St) (hc : s.callers[t]? = some (.published r v)) (hs : step s (.delete t) = some s') :
    ∃ q, s.reqs[r]? = some q ∧ (q.id, r) ∈ s.queue ∧ ∀ p, p ∈ s.queue → (p ∈ s'.queue ↔ p ≠ (q.id, r)) :=
  delete_removes_own ids s h t r v s' hc hs

/-- **no deadlock, no lost wake-up**: every caller that has not returned can take a step itself,
    or follows a request whose leader (another caller) can take a step -/
theorem no_deadlock (ids : List Nat) (s : St) (h : Reachable (St.init ids) s) (t : Nat) (c : C)
    (ht : s.callers[t]? = some c) (hnr : ∀ v r, c ≠ .returned v r) :
    (∃ e s', e.caller = t ∧ step s e = some s') ∨
    (∃ r tl, c = .follower r ∧ tl ≠ t ∧
      ((s.callers[tl]? = some (.upstream r) ∧ ∀ v, ∃ s', step s (.upRet tl v) = some s') ∨
       (∃ v, s.callers[tl]? = some (.got r v) ∧ ∃ s', step s (.markDone tl) = some s'))) :=
  Desync.Dedup.no_deadlock ids s h t c ht hnr

/-- **every caller returns**: a run performs at most four steps per caller, and a state in which
    nothing can move has every caller returned -/
theorem all_callers_return (ids : List Nat) :
    (∀ es, effSteps (St.init ids) es ≤ 4 * ids.length) ∧
    (∀ s, Reachable (St.init ids) s → (∀ e, step s e = none) →
      ∀ (t : Nat) (c : C), s.callers[t]? = some c → ∃ v r, c = C.returned v r) :=
  ⟨steps_bounded_init ids, fun s h hst t c ht => stuck_only_when_all_returned ids s h hst t c ht⟩

/-- **regenerated obligation**: the three de-duplicated operations have the modelled leader path
    (register, call upstream, publish, delete) and `markDone` assigns the result before closing -/
theorem gen_dedup_shape :
    Gen.dedupGetChunkShape = ["loadOrStore", "wait", "upstream", "markDone", "delete"] ∧
    Gen.dedupHasChunkShape = ["loadOrStore", "wait", "upstream", "markDone", "delete"] ∧
    Gen.dedupStoreChunkShape = ["loadOrStore", "wait", "upstream", "markDone", "delete"] ∧
    Gen.dedupMarkDoneShape = modelledMarkDoneShape ∧
    Gen.site_shape_dedup_GetChunk_found = true ∧ Gen.site_shape_dedup_HasChunk_found = true ∧
    Gen.site_shape_dedup_StoreChunk_found = true ∧ Gen.site_shape_dedup_markDone_found = true := by
  decide

/-! ### reads that overlap a de-duplicated write (writededupqueue.go, `Model/WriteDedup.lean`)

Callers are writers (`StoreChunk` of a chunk with an ID and data) and readers (`GetChunk`); the write
queue is looked at under its mutex; a reader that finds a write of its ID in flight waits for it. -/

/-- **reads overlapping a write see that chunk**: a reader that found a write of its chunk ID in
    flight returns exactly the chunk that write's leader handed to the store, with the store's error -/
theorem overlapping_read_sees_written_chunk (roles : List WDedup.Role) (s : WDedup.St)
    (h : WDedup.Reachable (WDedup.St.init roles) s)
    (t d e r : Nat) (ht : s.callers[t]? = some (.rreturned d e r)) :
    ∃ (id tl : Nat), roles[t]? = some (.reader id) ∧ tl ≠ t ∧ roles[tl]? = some (.writer id d) ∧
      (r, d, e) ∈ s.upHist ∧
      ∃ q, s.reqs[r]? = some q ∧ q.id = id ∧ q.done = true ∧ q.val = d ∧ q.err = e :=
  WDedup.overlapping_read_sees_written_chunk roles s h t d e r ht

/-- the write a reader waits on is in flight at the moment of its look: its leader, a writer of the same
    ID, is between its registration and its delete -/
theorem read_joins_only_in_flight_write (roles : List WDedup.Role) (s : WDedup.St)
    (h : WDedup.Reachable (WDedup.St.init roles) s)
    (t r : Nat) (s' : WDedup.St) (hs : WDedup.step s (.rpeek t) = some s')
    (hf : s'.callers[t]? = some (.rwait r)) :
    ∃ (tl id : Nat), tl ≠ t ∧ roles[t]? = some (.reader id) ∧ (∃ d, roles[tl]? = some (.writer id d)) ∧
      ((∃ d, s.callers[tl]? = some (WDedup.C.wupstream r d)) ∨ (∃ d e, s.callers[tl]? = some (WDedup.C.wgot r d e)) ∨
       (∃ d e, s.callers[tl]? = some (WDedup.C.wpublished r d e))) :=
  WDedup.read_joins_only_in_flight_write roles s h t r s' hs hf

/-- a reader goes on to the upstream store (through `DedupQueue.GetChunk`, the machine above) only when no
    write of its ID is in flight -/
theorem read_passes_only_without_write (roles : List WDedup.Role) (s : WDedup.St)
    (h : WDedup.Reachable (WDedup.St.init roles) s)
    (t id : Nat) (s' : WDedup.St) (hs : WDedup.step s (.rpeek t) = some s')
    (hf : s'.callers[t]? = some (.rpass id)) :
    roles[t]? = some (.reader id) ∧ ∀ (tl : Nat) (c : WDedup.C) (r : Nat) (q : WDedup.Req),
      s.callers[tl]? = some c → c.wlead = some r → s.reqs[r]? = some q → q.id ≠ id :=
  WDedup.read_passes_only_without_write roles s h t id s' hs hf

/-- at most one upstream `StoreChunk` per chunk ID is in flight at any time -/
theorem write_single_flight (roles : List WDedup.Role) (s : WDedup.St)
    (h : WDedup.Reachable (WDedup.St.init roles) s) (t1 t2 r1 r2 d1 d2 : Nat)
    (h1 : s.callers[t1]? = some (.wupstream r1 d1)) (h2 : s.callers[t2]? = some (.wupstream r2 d2))
    (hid : (s.reqs.getD r1 ⟨0, false, 0, 0⟩).id = (s.reqs.getD r2 ⟨0, false, 0, 0⟩).id) : t1 = t2 :=
  WDedup.write_single_flight roles s h t1 t2 r1 r2 d1 d2 h1 h2 hid

/-- every writer returns the error of an upstream `StoreChunk` of a chunk with its own ID -/
theorem write_result_is_upstream (roles : List WDedup.Role) (s : WDedup.St)
    (h : WDedup.Reachable (WDedup.St.init roles) s)
    (t e r : Nat) (ht : s.callers[t]? = some (.wreturned e r)) :
    ∃ (id d d' : Nat), roles[t]? = some (.writer id d) ∧ (r, d', e) ∈ s.upHist ∧
      ∃ q, s.reqs[r]? = some q ∧ q.id = id ∧ q.done = true ∧ q.err = e :=
  WDedup.write_result_is_upstream roles s h t e r ht

/-- no deadlock, no lost wake-up, and every run ends (at most four steps per caller; a state in which
    nothing moves has every caller returned or passed on) -/
theorem write_queue_live (roles : List WDedup.Role) :
    (∀ s, WDedup.Reachable (WDedup.St.init roles) s → ∀ (t : Nat) (c : WDedup.C), s.callers[t]? = some c → c.final = false →
      (∃ e s', e.caller = t ∧ WDedup.step s e = some s') ∨
      (∃ r tl, (c = .wfollower r ∨ c = .rwait r) ∧ tl ≠ t ∧
        ((∃ d, s.callers[tl]? = some (.wupstream r d) ∧ ∀ e, ∃ s', WDedup.step s (.wupRet tl e) = some s') ∨
         (∃ d e, s.callers[tl]? = some (.wgot r d e) ∧ ∃ s', WDedup.step s (.wmarkDone tl) = some s')))) ∧
    (∀ es, WDedup.effSteps (WDedup.St.init roles) es ≤ 4 * roles.length) ∧
    (∀ s, WDedup.Reachable (WDedup.St.init roles) s → (∀ e, WDedup.step s e = none) →
      ∀ (t : Nat) (c : WDedup.C), s.callers[t]? = some c → c.final = true) :=
  ⟨fun s h t c ht hnf => WDedup.no_deadlock roles s h t c ht hnf,
   WDedup.steps_bounded_init roles,
   fun s h hst t c ht => WDedup.stuck_only_when_all_final roles s h hst t c ht⟩

/-- **regenerated obligation**: `WriteDedupQueue.StoreChunk` publishes the chunk being written together with
    the upstream error, and `WriteDedupQueue.GetChunk` looks at the write queue under its lock, waits for a
    write in flight, and otherwise continues into `DedupQueue.GetChunk` -/
theorem gen_wdq_shape :
    Gen.wdqStoreMarkDoneArgs = WDedup.modelledStoreMarkDoneArgs ∧
    Gen.wdqGetChunkShape = WDedup.modelledReadShape ∧
    Gen.site_shape_wdq_markDoneArgs_found = true ∧ Gen.site_shape_wdq_GetChunk_found = true := by
  decide

/-- **regenerated obligation**: one machine per kind of request — `GetChunk`, `HasChunk` and `StoreChunk` each use
    their own queue and no other; `WriteDedupQueue.GetChunk` looks at the write queue and then delegates -/
theorem gen_one_queue_per_kind :
    Gen.dedupQueuesOfGetChunk = ["getChunkQueue"] ∧ Gen.dedupQueuesOfHasChunk = ["hasChunkQueue"] ∧
    Gen.dedupQueuesOfStoreChunk = ["storeChunkQueue"] ∧
    Gen.dedupQueuesOfWriteGetChunk = ["storeChunkQueue", "DedupQueue"] ∧
    Gen.dedupQueuesOfWriteHasChunk = ["DedupQueue"] := by
  decide

end Desync.C12
