/-
  C03 / C14, regenerated obligation for `GCStore.GetChunk`: gcs.go still has the (normalised) body `gcsGetChunk` mirrors.
-/
import Desync.Proofs.GCStoreShapes

namespace Desync.C03
open Desync

set_option maxRecDepth 16384

/-- `GCStore.GetChunk` still maps `storage.ErrObjectNotExist` of NewReader and of ReadAll to ChunkMissing, every other
    error to an error, and ends in `NewChunkFromStorage(id, b, s.converters, s.opt.SkipVerify)` on the bytes read -/
theorem gen_gcs_get : Gen.site_gcs_get_found = true ∧ Gen.gcsGetSkel = GCS.Expected.gcsGetSkel := by decide

end Desync.C03
