/-
  C13 — Archives written by desync are well-formed casync catar.

  Model: `Model/Archive.lean` (`tarOne`/`tarChildren`/`tarStream` = `tar()` over the record
  stream), `Model/Format.lean` (`encElem`), `Model/Goodbye.lean` (`makeGoodbyeBST`, `bst`),
  `Hash/SipHash.lean`.  Tie: archive bytes for generated record streams are compared byte for
  byte with `desync.Tar`; the BST layout is compared for every fan-out up to the tier's limit;
  SipHash is compared with dchest/siphash; an independent grammar checker (written in Go from
  casync's format description) accepts the implementation's output and the casync-made
  fixtures.  What is proved here is unbounded: every fan-out `n`, every name, every size.
-/
import Desync.Proofs.TarProofs
import Desync.Proofs.TarGoodbyeSeek
import Desync.Proofs.LocalFSReadProofs

namespace Desync.C13
open Desync

/-! ### element sizes -/

/-- every element kind the encoder emits carries a size field equal to its encoded length
    (payload: header + data) -/
theorem elem_size_exact :
    (∀ f : FileRec, (encElem (entryElem f)).length = 64 ∧ (entryElem f).sizeField = 64) ∧
    (∀ n : Bytes, 16 + n.length + 1 < 2^64 →
      (Elem.filename (UInt64.ofNat (16 + n.length + 1)) n).sizeField.toNat
        = (encElem (.filename (UInt64.ofNat (16 + n.length + 1)) n)).length) ∧
    (∀ t : Bytes, 16 + t.length + 1 < 2^64 →
      (Elem.symlink (UInt64.ofNat (16 + t.length + 1)) t).sizeField.toNat
        = (encElem (.symlink (UInt64.ofNat (16 + t.length + 1)) t)).length) ∧
    (∀ ma mi : UInt64, (encElem (.device 32 ma mi)).length = 32) ∧
    (∀ items : List GoodbyeItem, 16 + items.length * 24 < 2^64 →
      (Elem.goodbye (UInt64.ofNat (16 + items.length * 24)) items).sizeField.toNat
        = (encElem (.goodbye (UInt64.ofNat (16 + items.length * 24)) items)).length) ∧
    (∀ k v : Bytes, k.length + v.length + 18 < 2^64 →
      (Elem.xattr (u64len k + 1 + u64len v + 1 + 16) (k ++ [0] ++ v)).sizeField.toNat
        = (encElem (.xattr (u64len k + 1 + u64len v + 1 + 16) (k ++ [0] ++ v))).length) ∧
    (∀ data : Bytes, 16 + data.length < 2^64 →
      (Elem.payload (16 + u64len data)).sizeField.toNat
        = (Elem.payload (16 + u64len data)).encLen data.length) :=
  ⟨entryElem_size, filename_sizeField, symlink_sizeField, device_size, goodbye_sizeField,
   xattr_sizeField, payload_sizeField⟩

/-! ### the goodbye table is a complete binary search tree, for every fan-out -/

/-- the Go code never indexes out of range while laying out the table, whatever the number of
    children -/
theorem bst_total (items : List GoodbyeItem) : (makeGoodbyeBST items).isSome :=
  makeGoodbyeBST_isSome items

/-- the table holds exactly the children (a permutation, nothing lost or duplicated) in an array
    of the same length: heap slots `0 … n-1` are all used, i.e. the tree is *complete* -/
theorem bst_complete (items bst : List GoodbyeItem) (h : makeGoodbyeBST items = some bst) :
    bst.Perm items ∧ bst.length = items.length :=
  ⟨makeGoodbyeBST_perm items bst h, makeGoodbyeBST_length items bst h⟩

/-- the in-order traversal of the heap-indexed table is the list of children sorted by
    (SipHash of the name, offset): the table is a binary *search* tree for casync's lookup -/
theorem bst_inorder_sorted (items bst : List GoodbyeItem) (h : makeGoodbyeBST items = some bst) :
    heapInorder (fun j => bst[j]!) bst.length 0 = sortGoodbye items ∧
    (sortGoodbye items).Pairwise (fun a b => goodbyeLt b a = false) ∧
    (sortGoodbye items).Perm items :=
  ⟨makeGoodbyeBST_inorder items bst h, sortGoodbye_sorted items, sortGoodbye_perm items⟩

/-! ### an independent decoder reconstructs what was written -/

/-- decoding what the encoder wrote yields the same element, for every element kind `tar` emits -/
theorem elements_decode_back :
    (∀ (ff mode fl uid gid mt : UInt64) (r : Bytes) (a : Nat),
      decNext ⟨encElem (.entry 64 ff mode fl uid gid mt) ++ r, a⟩
        = .ok (some (.entry 64 ff mode fl uid gid mt), ⟨r, a⟩)) ∧
    (∀ (n r : Bytes) (a : Nat), 16 + n.length + 1 < 2^64 →
      decNext ⟨encElem (.filename (UInt64.ofNat (16 + n.length + 1)) n) ++ r, a⟩
        = .ok (some (.filename (UInt64.ofNat (16 + n.length + 1)) n), ⟨r, a + n.length + 1⟩)) ∧
    (∀ (items : List GoodbyeItem) (r : Bytes) (a : Nat) (hne : items ≠ []),
      (items.getLast hne).hash = Gen.CaFormatGoodbyeTailMarker → 16 + items.length * 24 < 2^64 →
      decNext ⟨encElem (.goodbye (UInt64.ofNat (16 + items.length * 24)) items) ++ r, a⟩
        = .ok (some (.goodbye (UInt64.ofNat (16 + items.length * 24)) items), ⟨r, a + 24 * items.length⟩)) :=
  ⟨decNext_entry_enc, decNext_filename_enc, decNext_goodbye_enc⟩

/-- end to end for a directory with one regular file: the archive desync writes unpacks to the
    same two nodes (the general tree case is covered by the correspondence, see C05) -/
theorem one_file_roundtrip (root f : FileRec)
    (hrk : root.kind = .dir) (hrx : root.xattrs = [])
    (hfk : f.kind = .reg) (hfx : f.xattrs = []) (hpar : f.parent = root.path)
    (hname : validName f.base = true) (hsz : f.size = u64len f.data)
    (hdata : f.data.length < 2 ^ 63) (hbase : 16 + f.base.length + 1 < 2 ^ 64) :
    ∃ b, tarStream [root, f] = some b ∧
      untar b = .ok [.dir [dot] ⟨root.uid, root.gid, root.mode, root.mtime, []⟩,
                     .file f.base ⟨f.uid, f.gid, f.mode, f.mtime, []⟩ f.size f.data] :=
  untar_tar_one_file root f hrk hrx hfk hfx hpar hname hsz hdata hbase

/-! ### nested trees: every directory, at every depth, ends in a goodbye table that leads to its children

`archive_is_tree_encoding` identifies what `Tar` writes for a well-formed tree with the closed form
`Tree.body`, which is recursive: the encoding of a sub-directory is again a `Tree.body`.  The four theorems
after it are therefore statements about the directories at every depth of every archive. -/

/-- the archive written for a tree of any nesting and fan-out is the closed form `Tree.body` -/
theorem archive_is_tree_encoding (r : FileRec) (cs : List Tree) (hrk : r.kind = .dir)
    (hcs : Tree.WFList r.path [r.path] cs) :
    tarStream (Tree.dir r cs).records = some (Tree.dir r cs).body :=
  tarStream_tree r cs hrk hcs

/-- a directory's encoding ends with its goodbye element -/
theorem goodbye_closes_directory (f : FileRec) (cs : List Tree) :
    (Tree.dir f cs).body.drop (Tree.goodbyePos f cs) = encElem (goodbyeElem (Tree.table f cs)) :=
  goodbye_at_end f cs

/-- **sizes and tail marker**: the table holds one item per child, laid out by `makeGoodbyeBST`, followed
    by the tail item: back-offset to the directory's own entry, size of the goodbye element, marker -/
theorem goodbye_tail_item (f : FileRec) (cs : List Tree)
    (hlen : (Tree.dir f cs).body.length < 2 ^ 64) (hsz : 16 + (cs.length + 1) * 24 < 2 ^ 64) :
    ∃ bst, Tree.table f cs = bst ++ [⟨UInt64.ofNat (Tree.goodbyePos f cs),
        UInt64.ofNat (16 + (cs.length + 1) * 24), Gen.CaFormatGoodbyeTailMarker⟩] ∧
      bst.length = cs.length ∧
      (encElem (goodbyeElem (Tree.table f cs))).length = 16 + (cs.length + 1) * 24 :=
  goodbye_table_shape f cs hlen hsz

/-- **correct back-offsets and sizes**: going back `offset` bytes from the start of the goodbye element and
    reading `size` bytes yields exactly one child's filename element followed by that child's complete
    encoding, and `hash` is the SipHash-2-4 of that child's name — what casync needs to seek into the archive -/
theorem goodbye_item_leads_to_child (f : FileRec) (cs : List Tree)
    (hlen : (Tree.dir f cs).body.length < 2 ^ 64) (hsz : 16 + (cs.length + 1) * 24 < 2 ^ 64)
    (it : GoodbyeItem) (hit : it ∈ (Tree.table f cs).dropLast) :
    ∃ t ∈ cs, it.hash = sipHashName t.hd.base ∧
      it.offset.toNat ≤ Tree.goodbyePos f cs ∧ Tree.hdrLen f ≤ Tree.goodbyePos f cs - it.offset.toNat ∧
      (((Tree.dir f cs).body.drop (Tree.goodbyePos f cs - it.offset.toNat)).take it.size.toNat
        = encElem (fnameElem t.hd) ++ t.body) :=
  goodbye_item_seeks_to_child f cs hlen hsz it hit

/-- **nothing is missing**: every child has an item that leads to it -/
theorem goodbye_lists_every_child (f : FileRec) (cs : List Tree)
    (hlen : (Tree.dir f cs).body.length < 2 ^ 64) (hsz : 16 + (cs.length + 1) * 24 < 2 ^ 64)
    (t : Tree) (ht : t ∈ cs) :
    ∃ it ∈ (Tree.table f cs).dropLast, it.hash = sipHashName t.hd.base ∧
      it.offset.toNat ≤ Tree.goodbyePos f cs ∧
      (((Tree.dir f cs).body.drop (Tree.goodbyePos f cs - it.offset.toNat)).take it.size.toNat
        = encElem (fnameElem t.hd) ++ t.body) :=
  goodbye_every_child_listed f cs hlen hsz t ht

/-- **an independent decoder reconstructs the same tree**: the decoder model (written from the decoder's
    code, sharing nothing with the encoder but the element codec) reads back exactly the tree's nodes,
    for any nesting and fan-out -/
theorem nested_tree_decodes_back (r : FileRec) (cs : List Tree)
    (hrk : r.kind = .dir) (hrx : XattrsOK r.xattrs)
    (hsize : 16 + (cs.length + 1) * 24 < 2 ^ 64)
    (hcs : Tree.WFList r.path [r.path] cs) :
    ∃ b, tarStream (Tree.dir r cs).records = some b ∧
      untar b = .ok (.dir [dot] ⟨r.uid, r.gid, r.mode, r.mtime, r.xattrs⟩ ::
        cs.flatMap (Tree.nodes [dot])) :=
  untar_tar_tree r cs hrk hrx hsize hcs

/-! ### the payload element holds exactly as many bytes as its size field says

No hypothesis relates the size a `FilesystemReader` reports for a file to the bytes its `Data` yields (a file
can change after its size was taken; sysfs and procfs report sizes that are not what a read delivers). -/

/-- when `tar` succeeds on a regular file, the payload element is followed by exactly `size` bytes of content
    and its size field, as a number, is 16 + that count -/
theorem payload_size_always_exact (fuel : Nat) (f : FileRec) (rest : List FileRec) (out : Bytes) (rest' : List FileRec)
    (hk : f.kind = .reg) (h : tarOne (fuel + 1) f rest = some (out, rest')) :
    f.size.toNat ≤ f.data.length ∧ rest' = rest ∧
    out = encElem (entryElem f) ++ encXattrs f.xattrs ++ encElem (.payload (16 + f.size)) ++ f.data.take f.size.toNat ∧
    (f.data.take f.size.toNat).length = f.size.toNat :=
  tarOne_reg_payload_exact fuel f rest out rest' hk h

/-- a file that yields fewer bytes than its size is an error, not a short payload -/
theorem short_file_is_an_error (fuel : Nat) (f : FileRec) (rest : List FileRec)
    (hk : f.kind = .reg) (hs : f.data.length < f.size.toNat) : tarOne (fuel + 1) f rest = none :=
  tarOne_reg_short_fails fuel f rest hk hs

/-- regenerated constants this property depends on -/
theorem gen_sites :
    Gen.site_const_CaFormatGoodbye_found = true ∧ Gen.site_const_CaFormatGoodbyeTailMarker_found = true ∧
    Gen.site_const_CaFormatGoodbyeHashKey0_found = true ∧ Gen.site_const_CaFormatGoodbyeHashKey1_found = true ∧
    Gen.site_const_CaFormatFilename_found = true ∧ Gen.site_const_CaFormatEntry_found = true ∧
    Gen.site_const_CaFormatPayload_found = true := by decide

/-! ### packing from disk: child names sorted -/

/-- **Child names are sorted when packing from disk.**  The record stream `Tar` gets from `LocalFS` for any directory of a
    valid file system is the pre-order traversal of a tree in which the children of every directory come in strictly
    increasing byte-wise name order (`Tree.Walked`; model of `filepath.Walk` + `LocalFS.Next`, `Model/LocalFSRead.lean`) -/
theorem disk_children_sorted (env : LFS.Env) (nt : Bool) (skip : LFS.RPath → Bool) (fs : LFS.FS)
    (root : List LFS.Name) (hv : LFS.FSValid fs) (hr : LFS.SrcRoot fs root) :
    ∃ t : Tree, LFS.readTree env nt skip fs (LFS.absStr root) = some (.ok t.records) ∧
      t.Walked (LFS.absStr root) ∧ ∀ f ∈ t.records, LFS.RecOK nt root f :=
  LFS.readTree_walked env nt skip fs root hv hr

/-- … and the archive written for a representable directory is the closed form `Tree.body` of that sorted tree: the goodbye
    theorems above apply to every directory of every archive packed from disk, with children in sorted order -/
theorem disk_archive_is_sorted_tree_encoding (env : LFS.Env) (nt : Bool) (fs : LFS.FS) (root : List LFS.Name)
    (hv : LFS.FSValid fs) (hr : LFS.SrcRoot fs root) (hd : LFS.IsDir (fs.get root))
    (hrep : ∀ recs, LFS.readTree env nt LFS.noSkip fs (LFS.absStr root) = some (.ok recs) → LFS.Representable nt recs) :
    ∃ (r : FileRec) (cs : List Tree),
      LFS.readTree env nt LFS.noSkip fs (LFS.absStr root) = some (.ok (Tree.dir r cs).records) ∧
      (Tree.dir r cs).Walked (LFS.absStr root) ∧ (Tree.dir r cs).Sorted ∧
      tarStream (Tree.dir r cs).records = some (Tree.dir r cs).body :=
  LFS.disk_archive_is_sorted_tree_encoding env nt fs root hv hr hd hrep

/-- regenerated: the walk of `startSerializer` and what its callback sends -/
theorem gen_lfsread_walk :
    Gen.site_lfsread_walk_found = true ∧ Gen.lfsWalkCallback = LFS.ReadFacts.walkCallback := by decide

/-! non-vacuity: three children -/
example : (makeGoodbyeBST [⟨1, 1, 30⟩, ⟨2, 1, 10⟩, ⟨3, 1, 20⟩]).isSome := bst_total _

end Desync.C13
