/-
  C13 — Archives written by desync are well-formed casync catar.

  Model: `Model/Archive.lean` (`tarOne`/`tarChildren`/`tarStream` = `tar()` over the record
  stream), `Model/Format.lean` (`encElem`), `Model/Goodbye.lean` (`makeGoodbyeBST`, `bst`),
  `Hash/SipHash.lean`.  Tie: archive bytes for generated record streams are compared byte for
  byte with `desync.Tar`; the BST layout is compared for every fan-out up to the tier's limit;
  SipHash is compared with dchest/siphash; an independent grammar checker (written in Go from
  casync's format description) accepts the implementation's output and the casync-made
  fixtures.  What is proved here is unbounded: every fan-out `n`, every name, every size.
-/
import Desync.Proofs.TarProofs

namespace Desync.C13
open Desync

/-! ### element sizes -/

/-- every element kind the encoder emits carries a size field equal to its encoded length
    (payload: header + data) -/
theorem elem_size_exact :
    (∀ f : FileRec, (encElem (entryElem f)).length = 64 ∧ (entryElem f).sizeField = 64) ∧
    (∀ n : Bytes, 16 + n.length + 1 < 2^64 →
      (Elem.filename (UInt64.ofNat (16 + n.length + 1)) n).sizeField.toNat
        = (encElem (.filename (UInt64.ofNat (16 + n.length + 1)) n)).length) ∧
    (∀ t : Bytes, 16 + t.length + 1 < 2^64 →
      (Elem.symlink (UInt64.ofNat (16 + t.length + 1)) t).sizeField.toNat
        = (encElem (.symlink (UInt64.ofNat (16 + t.length + 1)) t)).length) ∧
    (∀ ma mi : UInt64, (encElem (.device 32 ma mi)).length = 32) ∧
    (∀ items : List GoodbyeItem, 16 + items.length * 24 < 2^64 →
      (Elem.goodbye (UInt64.ofNat (16 + items.length * 24)) items).sizeField.toNat
        = (encElem (.goodbye (UInt64.ofNat (16 + items.length * 24)) items)).length) ∧
    (∀ k v : Bytes, k.length + v.length + 18 < 2^64 →
      (Elem.xattr (u64len k + 1 + u64len v + 1 + 16) (k ++ [0] ++ v)).sizeField.toNat
        = (encElem (.xattr (u64len k + 1 + u64len v + 1 + 16) (k ++ [0] ++ v))).length) ∧
    (∀ data : Bytes, 16 + data.length < 2^64 →
      (Elem.payload (16 + u64len data)).sizeField.toNat
        = (Elem.payload (16 + u64len data)).encLen data.length) :=
  ⟨entryElem_size, filename_sizeField, symlink_sizeField, device_size, goodbye_sizeField,
   xattr_sizeField, payload_sizeField⟩

/-! ### the goodbye table is a complete binary search tree, for every fan-out -/

/-- the Go code never indexes out of range while laying out the table, whatever the number of
    children -/
theorem bst_total (items : List GoodbyeItem) : (makeGoodbyeBST items).isSome :=
  makeGoodbyeBST_isSome items

/-- the table holds exactly the children (a permutation, nothing lost or duplicated) in an array
    of the same length: heap slots `0 … n-1` are all used, i.e. the tree is *complete* -/
theorem bst_complete (items bst : List GoodbyeItem) (h : makeGoodbyeBST items = some bst) :
    bst.Perm items ∧ bst.length = items.length :=
  ⟨makeGoodbyeBST_perm items bst h, makeGoodbyeBST_length items bst h⟩

/-- the in-order traversal of the heap-indexed table is the list of children sorted by
    (SipHash of the name, offset): the table is a binary *search* tree for casync's lookup -/
theorem bst_inorder_sorted (items bst : List GoodbyeItem) (h : makeGoodbyeBST items = some bst) :
    heapInorder (fun j => bst[j]!) bst.length 0 = sortGoodbye items ∧
    (sortGoodbye items).Pairwise (fun a b => goodbyeLt b a = false) ∧
    (sortGoodbye items).Perm items :=
  ⟨makeGoodbyeBST_inorder items bst h, sortGoodbye_sorted items, sortGoodbye_perm items⟩

/-! ### an independent decoder reconstructs what was written -/

/-- decoding what the encoder wrote yields the same element, for every element kind `tar` emits -/
theorem elements_decode_back :
    (∀ (ff mode fl uid gid mt : UInt64) (r : Bytes) (a : Nat),
      decNext ⟨encElem (.entry 64 ff mode fl uid gid mt) ++ r, a⟩
        = .ok (some (.entry 64 ff mode fl uid gid mt), ⟨r, a⟩)) ∧
    (∀ (n r : Bytes) (a : Nat), 16 + n.length + 1 < 2^64 →
      decNext ⟨encElem (.filename (UInt64.ofNat (16 + n.length + 1)) n) ++ r, a⟩
        = .ok (some (.filename (UInt64.ofNat (16 + n.length + 1)) n), ⟨r, a + n.length + 1⟩)) ∧
    (∀ (items : List GoodbyeItem) (r : Bytes) (a : Nat) (hne : items ≠ []),
      (items.getLast hne).hash = Gen.CaFormatGoodbyeTailMarker → 16 + items.length * 24 < 2^64 →
      decNext ⟨encElem (.goodbye (UInt64.ofNat (16 + items.length * 24)) items) ++ r, a⟩
        = .ok (some (.goodbye (UInt64.ofNat (16 + items.length * 24)) items), ⟨r, a + 24 * items.length⟩)) :=
  ⟨decNext_entry_enc, decNext_filename_enc, decNext_goodbye_enc⟩

/-- end to end for a directory with one regular file: the archive desync writes unpacks to the
    same two nodes (the general tree case is covered by the correspondence, see C05) -/
theorem one_file_roundtrip (root f : FileRec)
    (hrk : root.kind = .dir) (hrx : root.xattrs = [])
    (hfk : f.kind = .reg) (hfx : f.xattrs = []) (hpar : f.parent = root.path)
    (hname : validName f.base = true) (hsz : f.size = u64len f.data)
    (hdata : f.data.length < 2 ^ 63) (hbase : 16 + f.base.length + 1 < 2 ^ 64) :
    ∃ b, tarStream [root, f] = some b ∧
      untar b = .ok [.dir [dot] ⟨root.uid, root.gid, root.mode, root.mtime, []⟩,
                     .file f.base ⟨f.uid, f.gid, f.mode, f.mtime, []⟩ f.size f.data] :=
  untar_tar_one_file root f hrk hrx hfk hfx hpar hname hsz hdata hbase

/-- regenerated constants this property depends on -/
theorem gen_sites :
    Gen.site_const_CaFormatGoodbye_found = true ∧ Gen.site_const_CaFormatGoodbyeTailMarker_found = true ∧
    Gen.site_const_CaFormatGoodbyeHashKey0_found = true ∧ Gen.site_const_CaFormatGoodbyeHashKey1_found = true ∧
    Gen.site_const_CaFormatFilename_found = true ∧ Gen.site_const_CaFormatEntry_found = true ∧
    Gen.site_const_CaFormatPayload_found = true := by decide

/-! non-vacuity: three children -/
example : (makeGoodbyeBST [⟨1, 1, 30⟩, ⟨2, 1, 10⟩, ⟨3, 1, 20⟩]).isSome := bst_total _

end Desync.C13
