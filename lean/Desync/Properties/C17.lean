/-
  C17 — verify-index accepts a file if and only if it matches the index.

  Model: `Model/VerifyIndex.lean`; the batching arithmetic (`batch`, loop step, `last`, clamp,
  slice bounds) is regenerated from verifyindex.go on every run, so `batches_partition` is a
  theorem about the expressions the code contains now.  Digest `H` is a parameter.
  Cancellation is C07's subject; here the context is not cancelled.
-/
import Desync.Proofs.VerifyIndexProofs
import Desync.Generated.Facts

namespace Desync.C17
open Desync

/-- the batches handed to the workers are consecutive and cover `[0, c)` exactly once, for every
    chunk count `c` and worker count `n ≥ 1` (batch size depends on `c / (10 n)`) -/
theorem batches_partition (c n : Nat) (hn : 1 ≤ n) :
    (batches c n).flatMap (fun (p : Nat × Nat) => List.range' p.1 (p.2 - p.1)) = List.range c :=
  Desync.batches_partition c n hn

/-- **accept ⇔ match**: success iff (regular file ⇒ exact length) and every chunk range hashes
    to its ID — for every worker count -/
theorem verify_iff (H : Digest) (file : Bytes) (isDevice : Bool) (idx : Index) (n : Nat) (hn : 1 ≤ n) :
    verifyIndex H file isDevice idx n = .ok ↔
      ((isDevice = true ∨ file.length = idx.length.toNat) ∧ ∀ c ∈ idx.chunks, validateChunk H file c = true) :=
  Desync.verify_iff H file isDevice idx n hn

/-- the verdict does not depend on the worker count -/
theorem verdict_independent_of_workers (H : Digest) (file : Bytes) (isDevice : Bool) (idx : Index)
    (n m : Nat) (hn : 1 ≤ n) (hm : 1 ≤ m) :
    verifyIndex H file isDevice idx n = verifyIndex H file isDevice idx m :=
  verify_indep_n H file isDevice idx n m hn hm

/-- **any altered, missing or extra byte is detected**: two files accepted against the same
    tiling index are equal, provided the digest does not collide on the compared ranges -/
theorem single_change_detected (H : Digest) (f g : Bytes) (idx : Index) (n : Nat) (hn : 1 ≤ n)
    (ht : Tiles 0 idx.chunks) (hlen : idx.length.toNat = tileEnd 0 idx.chunks)
    (hf : verifyIndex H f false idx n = .ok) (hg : verifyIndex H g false idx n = .ok)
    (hinj : ∀ c ∈ idx.chunks,
      H ((f.drop c.start.toNat).take c.size.toNat) = H ((g.drop c.start.toNat).take c.size.toNat) →
      (f.drop c.start.toNat).take c.size.toNat = (g.drop c.start.toNat).take c.size.toNat) :
    f = g :=
  Desync.single_change_detected H f g idx n hn ht hlen hf hg hinj

/-- regenerated sites were found -/
theorem gen_sites :
    Gen.site_verify_batch_found = true ∧ Gen.site_verify_step_found = true ∧
    Gen.site_verify_last_found = true ∧ Gen.site_verify_clampCond_found = true ∧
    Gen.site_verify_clampVal_found = true ∧ Gen.site_verify_sliceLo_found = true ∧
    Gen.site_verify_sliceHi_found = true := by decide

/-! non-vacuity -/
example : batches 25 1 = [(0,3),(3,6),(6,9),(9,12),(12,15),(15,18),(18,21),(21,24),(24,25)] := by decide
example : Tiles 0 [⟨[], 0, 5⟩, ⟨[], 5, 7⟩] ∧ tileEnd 0 [⟨[], 0, 5⟩, ⟨[], 5, 7⟩] = 12 := by
  simp [Tiles, tileEnd]

/-- **regenerated obligation**: `desync verify-index` hands every invocation to `VerifyIndex` with the worker
    count the user gave; no path returns success before that call -/
theorem gen_cmd_delegates :
    Gen.cmdVerifyIndexShape = ["call(opt.n)"] ∧
    Gen.site_shape_cmdVerifyIndexShape_found = true := by
  decide

end Desync.C17
