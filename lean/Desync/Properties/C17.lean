/-
  C17 — verify-index accepts a file if and only if it matches the index.

  Model: `Model/VerifyIndex.lean`; the batching arithmetic (the feeder loop evaluated
  symbolically: start, condition, slice bounds, next value of the loop variable as functions of
  the loop variable, the chunk count and the worker count) is regenerated from verifyindex.go on every run, so `batches_partition` is a
  theorem about the expressions the code contains now.  Digest `H` is a parameter.
  `Model/VerifyIndexConc.lean`: the function as the code runs it — length check, then the worker
  pool of `Model/Pool.lean` whose job j is the j-th batch and succeeds iff every chunk of the batch
  validates (`Pool.stepJ`); `verify_index_concurrent` quantifies over every worker count, every
  schedule and every cancellation point.  The pool machine is tied to verifyindex.go by its
  regenerated shape and by event traces recorded under a cooperative scheduler (`pool.accept`).
-/
import Desync.Proofs.VerifyIndexProofs
import Desync.Proofs.VerifyIndexConcProofs
import Desync.Generated.Facts

namespace Desync.C17
open Desync

/-- the batches handed to the workers are consecutive and cover `[0, c)` exactly once, for every
    chunk count `c` and worker count `n ≥ 1` (batch size depends on `c / (10 n)`) -/
theorem batches_partition (c n : Nat) (hn : 1 ≤ n) :
    (batches c n).flatMap (fun (p : Nat × Nat) => List.range' p.1 (p.2 - p.1)) = List.range c :=
  Desync.batches_partition c n hn

/-- **accept ⇔ match**: success iff (regular file ⇒ exact length) and every chunk range hashes
    to its ID — for every worker count -/
theorem verify_iff (H : Digest) (file : Bytes) (isDevice : Bool) (idx : Index) (n : Nat) (hn : 1 ≤ n) :
    verifyIndex H file isDevice idx n = .ok ↔
      ((isDevice = true ∨ file.length = idx.length.toNat) ∧ ∀ c ∈ idx.chunks, validateChunk H file c = true) :=
  Desync.verify_iff H file isDevice idx n hn

/-- the verdict does not depend on the worker count -/
theorem verdict_independent_of_workers (H : Digest) (file : Bytes) (isDevice : Bool) (idx : Index)
    (n m : Nat) (hn : 1 ≤ n) (hm : 1 ≤ m) :
    verifyIndex H file isDevice idx n = verifyIndex H file isDevice idx m :=
  verify_indep_n H file isDevice idx n m hn hm

/-- **any altered, missing or extra byte is detected**: two files accepted against the same
    tiling index are equal, provided the digest does not collide on the compared ranges -/
theorem single_change_detected (H : Digest) (f g : Bytes) (idx : Index) (n : Nat) (hn : 1 ≤ n)
    (ht : Tiles 0 idx.chunks) (hlen : idx.length.toNat = tileEnd 0 idx.chunks)
    (hf : verifyIndex H f false idx n = .ok) (hg : verifyIndex H g false idx n = .ok)
    (hinj : ∀ c ∈ idx.chunks,
      H ((f.drop c.start.toNat).take c.size.toNat) = H ((g.drop c.start.toNat).take c.size.toNat) →
      (f.drop c.start.toNat).take c.size.toNat = (g.drop c.start.toNat).take c.size.toNat) :
    f = g :=
  Desync.single_change_detected H f g idx n hn ht hlen hf hg hinj

/-- **`VerifyIndex` on its worker pool, every worker count, every schedule**: `s` is any state the
    pool can reach (`ReachableJ`: any interleaving of feeder and workers, any moment of a parent
    cancellation) and `o` what `VerifyIndex` returns there.  If the context was not cancelled, `o` is the
    verdict of the sequential model — in particular success iff the file has the indexed length (or is
    a device) and every chunk range hashes to its ID.  If it was cancelled at any moment, success still
    means that the file matches (the shape marks and reports the interruption: `gen_pool_shape`) -/
theorem verify_index_concurrent (sh : Pool.PoolShape) (H : Digest) (file : Bytes) (isDevice : Bool)
    (idx : Index) (n : Nat) (hn : 1 ≤ n) (s : Pool.St)
    (h : Pool.ReachableJ sh (goodBatch H file idx n) (Pool.St.init (verifyJobs idx n) n) s)
    (o : VerifyOutcome) (ho : verifyIndexConc file isDevice idx n s = some o) :
    (s.parentCancelled = false →
      o = (verifyIndex H file isDevice idx n).toOutcome ∧
      (o = .ok ↔ ((isDevice = true ∨ file.length = idx.length.toNat) ∧
        ∀ c ∈ idx.chunks, validateChunk H file c = true))) ∧
    (sh.ok = true → o = .ok → ((isDevice = true ∨ file.length = idx.length.toNat) ∧
        ∀ c ∈ idx.chunks, validateChunk H file c = true)) := by
  refine ⟨fun hc => ?_, fun hsh hok => ?_⟩
  · have heq := verifyIndexConc_eq_sequential sh H file isDevice idx n s h hc o ho
    refine ⟨heq, ?_⟩
    rw [← Desync.verify_iff H file isDevice idx n hn, heq]
    cases verifyIndex H file isDevice idx n <;> simp [VerifyRes.toOutcome]
  · subst hok
    exact (Desync.verify_iff H file isDevice idx n hn).1
      (verifyIndexConc_ok_sound sh hsh H file isDevice idx n s h ho)

/-- every schedule goes on until `VerifyIndex` returns: in a reachable state of the pool without a
    result some step other than a cancellation is enabled (no lost worker, no blocked feeder) -/
theorem verify_index_concurrent_progress (sh : Pool.PoolShape) (H : Digest) (file : Bytes) (idx : Index)
    (n : Nat) (hn : 1 ≤ n) (s : Pool.St)
    (h : Pool.ReachableJ sh (goodBatch H file idx n) (Pool.St.init (verifyJobs idx n) n) s)
    (hr : s.result = none) :
    ∃ e s', e ≠ Pool.Ev.parentCancel ∧ Pool.stepJ sh (goodBatch H file idx n) s e = some s' :=
  Pool.no_deadlockJ sh _ _ n s hn h hr

/-- **regenerated obligation**: `VerifyIndex` marks the interruption in its `ctx.Done()` arm and
    reports it after `g.Wait()` (the shape `verify_index_concurrent` needs under cancellation) -/
theorem gen_pool_shape :
    (Pool.PoolShape.mk Gen.poolShape_VerifyIndex.1 Gen.poolShape_VerifyIndex.2).ok = true ∧
    Gen.site_pool_VerifyIndex_found = true ∧ Gen.site_pool_waitOrInterrupted_found = true := by decide

/-- regenerated sites were found: the feeder loop of `VerifyIndex` was recognised and evaluated
    symbolically (start value, condition, slice bounds and next value of its loop variable) -/
theorem gen_sites :
    Gen.site_verify_init_found = true ∧ Gen.site_verify_cond_found = true ∧
    Gen.site_verify_lo_found = true ∧ Gen.site_verify_hi_found = true ∧
    Gen.site_verify_next_found = true := by decide

/-! non-vacuity -/
-- (stated so that it does not depend on the batch size, which the property does not depend on either)
example : (batches 25 1).head? = some (0, feedBatch 25 1 + 1) ∧
    (batches 25 1).getLast?.map (·.2) = some 25 ∧ 2 ≤ (batches 25 1).length := by decide
example : Tiles 0 [⟨[], 0, 5⟩, ⟨[], 5, 7⟩] ∧ tileEnd 0 [⟨[], 0, 5⟩, ⟨[], 5, 7⟩] = 12 := by
  simp [Tiles, tileEnd]

/-- the hypotheses of `verify_index_concurrent` are satisfiable: a one-chunk file that matches (one
    chunk is one batch whatever the batch size, which the property does not depend on), two workers, a
    schedule ending in success; and a mismatching one ending in `mismatch` -/
example : ∃ s, Pool.ReachableJ ⟨true, true⟩ (goodBatch (fun b => b) [1, 2, 3] ⟨0, 0, 0, 0, [⟨[1, 2, 3], 0, 3⟩]⟩ 2)
      (Pool.St.init (verifyJobs ⟨0, 0, 0, 0, [⟨[1, 2, 3], 0, 3⟩]⟩ 2) 2) s ∧
    verifyIndexConc [1, 2, 3] false ⟨0, 0, 0, 0, [⟨[1, 2, 3], 0, 3⟩]⟩ 2 s = some .ok := by
  have hj : verifyJobs ⟨0, 0, 0, 0, [⟨[1, 2, 3], 0, 3⟩]⟩ 2 = 1 := by decide
  rw [hj]
  have hrun : ((Pool.runJ ⟨true, true⟩ (goodBatch (fun b => b) [1, 2, 3] ⟨0, 0, 0, 0, [⟨[1, 2, 3], 0, 3⟩]⟩ 2)
      (Pool.St.init 1 2) [.feedSend 1, .workOk 1, .feedEnd, .workExit 0, .workExit 1, .wait]).map
      (·.result)) = some (some .ok) := by decide
  cases hs : Pool.runJ ⟨true, true⟩ (goodBatch (fun b => b) [1, 2, 3] ⟨0, 0, 0, 0, [⟨[1, 2, 3], 0, 3⟩]⟩ 2)
      (Pool.St.init 1 2) [.feedSend 1, .workOk 1, .feedEnd, .workExit 0, .workExit 1, .wait] with
  | none => simp [hs] at hrun
  | some s =>
    simp only [hs, Option.map_some, Option.some.injEq] at hrun
    exact ⟨s, Pool.reachableJ_of_runJ _ .refl hs, by simp [verifyIndexConc, hrun]; decide⟩

example : verifyJobs ⟨0, 0, 0, 0, [⟨[1, 2, 3], 0, 3⟩]⟩ 1 = 1 ∧
    ((Pool.runJ ⟨true, true⟩ (goodBatch (fun b => b) [1, 2, 4] ⟨0, 0, 0, 0, [⟨[1, 2, 3], 0, 3⟩]⟩ 1)
      (Pool.St.init 1 1) [.feedSend 0, .workFail 0, .feedEnd, .wait]).map (·.result)) =
    some (some .err) := by decide

/-- **regenerated obligation**: `desync verify-index` hands every invocation to `VerifyIndex` with the worker
    count the user gave; no path returns success before that call -/
theorem gen_cmd_delegates :
    Gen.cmdVerifyIndexShape = ["call(opt.n)"] ∧
    Gen.site_shape_cmdVerifyIndexShape_found = true := by
  decide

end Desync.C17
