/-
  C07 — A cancelled or interrupted operation never reports success.

  Model: `Model/Pool.lean` — the "feeder + N workers + errgroup" machine shared by AssembleFile,
  Plan.Validate, VerifyIndex, ChopFile, Copy, ChunkStream and UnTarIndex, with a `parentCancel`
  event enabled at every step.  The theorem is proved for every shape that marks and reports the
  interruption; that the seven functions have this shape is regenerated from the source on every
  run (`Gen.poolShape_*`, plus the body of `waitOrInterrupted`).
  Tie beyond the shapes: the harness cancels the context at the k-th hit of the instrumented
  feeder site for every k and every function and monitors "nil ⇒ work complete".
  Not modelled: signal delivery and exit status of cmd/desync (the CLI cancels the same context),
  worker-checked loops of Tar/UnTar/pChunker (they test ctx at every iteration; exercised only).
-/
import Desync.Proofs.PoolProofs

namespace Desync.C07
open Desync.Pool

/-- **every schedule, every cancellation point**: with a shape that marks and reports
    interruption, a result of success means every job was completed -/
theorem cancel_never_success (sh : PoolShape) (hsh : sh.ok = true) (jobs n : Nat) (s : St)
    (h : Reachable sh (St.init jobs n) s) (hr : s.result = some .ok) :
    ∀ j, j < jobs → s.done.getD j false = true :=
  Desync.Pool.cancel_never_success sh hsh jobs n s h hr

/-- a failing job is always reported -/
theorem failure_is_reported (sh : PoolShape) (jobs n : Nat) (s : St)
    (h : Reachable sh (St.init jobs n) s) (hr : s.result = some .ok) : s.groupErr = false :=
  Desync.Pool.failure_is_reported sh jobs n s h hr

/-- without cancellation and failures the operation succeeds with all work done (so the
    interruption error is not raised spuriously) -/
theorem no_cancel_success (sh : PoolShape) (jobs n : Nat) (s : St) (r : Res)
    (h : Reachable sh (St.init jobs n) s) (hr : s.result = some r)
    (hc : s.parentCancelled = false) (he : s.groupErr = false) :
    r = .ok ∧ ∀ j, j < jobs → s.done.getD j false = true :=
  no_cancel_all_done sh jobs n s r h hr hc he

/-- the pool never deadlocks -/
theorem pool_no_deadlock (sh : PoolShape) (jobs n : Nat) (s : St) (hn : 1 ≤ n)
    (h : Reachable sh (St.init jobs n) s) (hr : s.result = none) :
    ∃ e s', e ≠ Ev.parentCancel ∧ step sh s e = some s' :=
  no_deadlock sh jobs n s hn h hr

/-- the pinned tree's shape reports success with unfinished work (sensitivity witness) -/
theorem legacy_shape_violates : ∃ (es : List Ev), let s := run ⟨false, false⟩ (St.init 2 1) es
    s.result = some .ok ∧ s.done.getD 1 false = false :=
  Desync.Pool.legacy_shape_violates

/-- **regenerated obligation**: all seven pool functions mark the interruption in their
    `ctx.Done()` arm and report it after `g.Wait()` -/
theorem gen_shapes_report_interruption :
    (PoolShape.mk Gen.poolShape_AssembleFile.1 Gen.poolShape_AssembleFile.2).ok = true ∧
    (PoolShape.mk Gen.poolShape_PlanValidate.1 Gen.poolShape_PlanValidate.2).ok = true ∧
    (PoolShape.mk Gen.poolShape_VerifyIndex.1 Gen.poolShape_VerifyIndex.2).ok = true ∧
    (PoolShape.mk Gen.poolShape_ChopFile.1 Gen.poolShape_ChopFile.2).ok = true ∧
    (PoolShape.mk Gen.poolShape_Copy.1 Gen.poolShape_Copy.2).ok = true ∧
    (PoolShape.mk Gen.poolShape_ChunkStream.1 Gen.poolShape_ChunkStream.2).ok = true ∧
    (PoolShape.mk Gen.poolShape_UnTarIndex.1 Gen.poolShape_UnTarIndex.2).ok = true ∧
    Gen.site_pool_waitOrInterrupted_found = true ∧
    Gen.site_pool_AssembleFile_found = true ∧ Gen.site_pool_PlanValidate_found = true ∧
    Gen.site_pool_VerifyIndex_found = true ∧ Gen.site_pool_ChopFile_found = true ∧
    Gen.site_pool_Copy_found = true ∧ Gen.site_pool_ChunkStream_found = true ∧
    Gen.site_pool_UnTarIndex_found = true := by decide

/-- **extract without --in-place leaves the destination untouched unless it succeeded**: the
    assembly writes a temporary file next to the target, a failed (or interrupted) assembly returns
    before the rename, and nothing else creates or opens the destination -/
theorem gen_extract_tmpfile_protocol :
    Gen.site_shape_extract_tmpfile_found = true ∧
    Gen.extractTmpFileShape = ["TempFile", "Remove", "Assemble", "Rename"] ∧
    Gen.extractTmpFileReturnsOnError = true := by decide

end Desync.C07
