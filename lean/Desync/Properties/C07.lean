/-
  C07 — A cancelled or interrupted operation never reports success.

  Model: `Model/Pool.lean` — the "feeder + N workers + errgroup" machine shared by AssembleFile,
  Plan.Validate, VerifyIndex, ChopFile, Copy, ChunkStream and UnTarIndex, with a `parentCancel`
  event enabled at every step.  The theorem is proved for every shape that marks and reports the
  interruption; that the seven functions have this shape is regenerated from the source on every
  run (`Gen.poolShape_*`, plus the body of `waitOrInterrupted`).
  Tie beyond the shapes: the harness cancels the context at the k-th hit of the instrumented
  feeder site for every k and every function and monitors "nil ⇒ work complete"; for VerifyIndex,
  ChopFile and Copy event traces recorded under a cooperative scheduler (parent cancellation at a
  random point, scripted store faults, mismatching files) are replayed through `Pool.step`
  (`pool.accept`): every event must be enabled, the machine must enable exactly what the code can do
  next, and its result and completed jobs must be the function's.
  `Model/CancelSeq.lean` — the sequential loop of `UnTar` polling its context at the top of every
  iteration, and the `UnTarIndex` pipeline (assembler → pipe → `UnTar`): where the polls sit and what
  the assembler does when cancelled are regenerated (`Gen.untarPoll`, `Gen.tarPoll`, `Gen.pchunkerPoll`,
  `Gen.untarIndexAssemblerOnCancel`).
  Not modelled: signal delivery and exit status of cmd/desync (the CLI cancels the same context); the
  recursion of `tar` and the worker loop of `pChunker.start` are tied by their regenerated poll only.
-/
import Desync.Proofs.PoolProofs
import Desync.Proofs.PoolJobsProofs
import Desync.Proofs.CancelSeqProofs

namespace Desync.C07
open Desync.Pool

/-- **every schedule, every cancellation point**: with a shape that marks and reports
    interruption, a result of success means every job was completed -/
theorem cancel_never_success (sh : PoolShape) (hsh : sh.ok = true) (jobs n : Nat) (s : Pool.St)
    (h : Reachable sh (Pool.St.init jobs n) s) (hr : s.result = some .ok) :
    ∀ j, j < jobs → s.done.getD j false = true :=
  Desync.Pool.cancel_never_success sh hsh jobs n s h hr

/-- a failing job is always reported -/
theorem failure_is_reported (sh : PoolShape) (jobs n : Nat) (s : Pool.St)
    (h : Reachable sh (Pool.St.init jobs n) s) (hr : s.result = some .ok) : s.groupErr = false :=
  Desync.Pool.failure_is_reported sh jobs n s h hr

/-- without cancellation and failures the operation succeeds with all work done (so the
    interruption error is not raised spuriously) -/
theorem no_cancel_success (sh : PoolShape) (jobs n : Nat) (s : Pool.St) (r : Pool.Res)
    (h : Reachable sh (Pool.St.init jobs n) s) (hr : s.result = some r)
    (hc : s.parentCancelled = false) (he : s.groupErr = false) :
    r = .ok ∧ ∀ j, j < jobs → s.done.getD j false = true :=
  no_cancel_all_done sh jobs n s r h hr hc he

/-- the pool never deadlocks -/
theorem pool_no_deadlock (sh : PoolShape) (jobs n : Nat) (s : Pool.St) (hn : 1 ≤ n)
    (h : Reachable sh (Pool.St.init jobs n) s) (hr : s.result = none) :
    ∃ e s', e ≠ Ev.parentCancel ∧ step sh s e = some s' :=
  no_deadlock sh jobs n s hn h hr

/-- **jobs whose outcome is fixed** (job j can only succeed if `good j`: a batch that validates, a
    chunk the stores accept — `Pool.stepJ`): under every schedule and cancellation point a reported
    success means that every job is one that succeeds; and the pool with fixed outcomes cannot get stuck -/
theorem cancel_success_means_all_jobs_good (sh : PoolShape) (hsh : sh.ok = true) (good : Nat → Bool)
    (jobs n : Nat) (s : Pool.St) (h : ReachableJ sh good (Pool.St.init jobs n) s)
    (hr : s.result = some .ok) : ∀ j, j < jobs → good j = true :=
  okJ_all_good sh hsh good jobs n s h hr

theorem oracle_pool_no_deadlock (sh : PoolShape) (good : Nat → Bool) (jobs n : Nat) (s : Pool.St)
    (hn : 1 ≤ n) (h : ReachableJ sh good (Pool.St.init jobs n) s) (hr : s.result = none) :
    ∃ e s', e ≠ Ev.parentCancel ∧ stepJ sh good s e = some s' :=
  no_deadlockJ sh good jobs n s hn h hr

/-- the pinned tree's shape reports success with unfinished work (sensitivity witness) -/
theorem legacy_shape_violates : ∃ (es : List Ev), let s := run ⟨false, false⟩ (Pool.St.init 2 1) es
    s.result = some .ok ∧ s.done.getD 1 false = false :=
  Desync.Pool.legacy_shape_violates

/-- **regenerated obligation**: all seven pool functions mark the interruption in their
    `ctx.Done()` arm and report it after `g.Wait()` -/
theorem gen_shapes_report_interruption :
    (PoolShape.mk Gen.poolShape_AssembleFile.1 Gen.poolShape_AssembleFile.2).ok = true ∧
    (PoolShape.mk Gen.poolShape_PlanValidate.1 Gen.poolShape_PlanValidate.2).ok = true ∧
    (PoolShape.mk Gen.poolShape_VerifyIndex.1 Gen.poolShape_VerifyIndex.2).ok = true ∧
    (PoolShape.mk Gen.poolShape_ChopFile.1 Gen.poolShape_ChopFile.2).ok = true ∧
    (PoolShape.mk Gen.poolShape_Copy.1 Gen.poolShape_Copy.2).ok = true ∧
    (PoolShape.mk Gen.poolShape_ChunkStream.1 Gen.poolShape_ChunkStream.2).ok = true ∧
    (PoolShape.mk Gen.poolShape_UnTarIndex.1 Gen.poolShape_UnTarIndex.2).ok = true ∧
    Gen.site_pool_waitOrInterrupted_found = true ∧
    Gen.site_pool_AssembleFile_found = true ∧ Gen.site_pool_PlanValidate_found = true ∧
    Gen.site_pool_VerifyIndex_found = true ∧ Gen.site_pool_ChopFile_found = true ∧
    Gen.site_pool_Copy_found = true ∧ Gen.site_pool_ChunkStream_found = true ∧
    Gen.site_pool_UnTarIndex_found = true := by decide

/-- **extract without --in-place leaves the destination untouched unless it succeeded**: the
    assembly writes a temporary file next to the target, a failed (or interrupted) assembly returns
    before the rename, and nothing else creates or opens the destination -/
theorem gen_extract_tmpfile_protocol :
    Gen.site_shape_extract_tmpfile_found = true ∧
    Gen.extractTmpFileShape = ["TempFile", "Remove", "Assemble", "Rename"] ∧
    Gen.extractTmpFileReturnsOnError = true := by decide

/-! ### sequential loops and the UnTarIndex pipeline -/

/-- **UnTar**: a run that ends in success went through the whole archive — it returns exactly what the
    uncancelled run returns — whenever the cancellation arrived; a cancellation seen at poll `k` with at
    least `k` nodes in the archive ends in `Interrupted`; a context cancelled before the call always does -/
theorem untar_cancel_never_success :
    (∀ (c : Option Nat) (b : Bytes) (ns : List Node), CancelSeq.untarC c b = .done (.ok ns) → untar b = .ok ns) ∧
    (∀ (k : Nat) (b : Bytes) (ns : List Node), untar b = .ok ns → k ≤ ns.length →
      CancelSeq.untarC (some k) b = .interrupted) ∧
    (∀ b : Bytes, CancelSeq.untarC (some 0) b = .interrupted) := by
  refine ⟨CancelSeq.untarC_ok, ?_, CancelSeq.untarC_cancelled_at_start⟩
  intro k b ns h hk
  exact CancelSeq.untarNodesC_interrupted k _ 0 _ [] ns h (Nat.zero_le _) (by simp; omega)

/-- **UnTarIndex**: with the assembler closing the pipe with an error when cancelled, success means that
    the feeder handed out every chunk, every fetch succeeded and `UnTar` unpacked the complete archive -/
theorem untar_index_success_complete (chunks : List Bytes) (cancelAt : Option Nat) (f w : Bool)
    (ns : List Node) (h : CancelSeq.unTarIndex true chunks cancelAt f w = some ns) :
    untar chunks.flatten = .ok ns ∧ f = true ∧ w = true :=
  CancelSeq.unTarIndex_success_complete chunks cancelAt f w ns h

/-- the assembler as it was before the repair (`break loop`, clean close) reports success with the queued
    chunks dropped whenever the index is cut at a node boundary: the obligation below is not idle -/
theorem legacy_assembler_violates (chunks : List Bytes) (k : Nat) (hk : k ≤ chunks.length)
    (ns : List Node) (hacc : untar (chunks.take k).flatten = .ok ns) :
    CancelSeq.unTarIndex false chunks (some k) true true = some ns :=
  CancelSeq.legacy_assembler_drops_chunks chunks k hk ns hacc

/-- **regenerated obligation**: `UnTar`, `tar` and `pChunker.start` poll `ctx.Done()` first thing in every
    iteration / call and report `Interrupted`; after its loop `UnTar` returns the writer's `finishUntar`
    result or nil; the assembler of `UnTarIndex` closes the pipe with an error and returns `Interrupted` -/
theorem gen_polls_report_interruption :
    Gen.untarPoll = "return Interrupted" ∧ Gen.tarPoll = "return Interrupted" ∧
    Gen.pchunkerPoll = "err=Interrupted;return" ∧
    Gen.untarAfterLoop = ["if-return:f.finishUntar()", "return:nil"] ∧
    Gen.untarIndexAssemblerOnCancel = ["CloseWithError(Interrupted)", "return Interrupted"] ∧
    Gen.site_poll_UnTar_found = true ∧ Gen.site_poll_tar_found = true ∧ Gen.site_poll_pChunker_found = true ∧
    Gen.site_poll_UnTar_after_found = true ∧ Gen.site_poll_UnTarIndex_assembler_found = true := by
  decide

end Desync.C07
