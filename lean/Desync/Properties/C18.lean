/-
  C18 — Unpacking an archive never writes outside the destination directory.

  Model: `Model/Archive.lean`: `untar` maps an arbitrary byte stream to the sequence of nodes
  `UnTar` hands to the `FilesystemWriter`; the writer joins `node.name` to its root.  The
  theorem: every name is either "." or a `/`-join of *valid single components* (non-empty,
  not "." or "..", without '/' and NUL) — for every byte stream whatsoever.  What the writer
  does with such a name (lstat-checked directories, `O_CREAT|O_TRUNC`, unlink before symlink)
  is exercised on disk by the harness with sentinel siblings and hostile pre-existing symlinks;
  the POSIX resolution of a confined name is modelled by contract, not verified (DESIGN §5).
-/
import Desync.Proofs.ArchiveProofs
import Desync.Proofs.ArchiveChildren
import Desync.Proofs.LocalFSDecFacts

namespace Desync.C18
open Desync

/-- **Confinement**: for every byte stream, if unpacking gets as far as handing nodes to the
    filesystem writer, each node's name is "." or a relative path of valid components -/
theorem untar_names_confined (b : Bytes) (nodes : List Node) (h : untar b = .ok nodes) :
    ∀ n ∈ nodes, Confined n.name :=
  untar_confined b nodes h

/-- the same invariant holds after every single decoder step, so also for the nodes created
    before a later element makes unpacking fail -/
theorem every_step_confined (fuel : Nat) (a : ArchDec) (p : Pending) (n : Node) (a' : ArchDec)
    (hdir : Confined a.dir) (hname : p.name = [] ∨ validName p.name = true)
    (h : archLoop fuel a p = .ok (some n, a')) : Confined n.name ∧ Confined a'.dir :=
  archLoop_confined fuel a p n a' hdir hname h

/-- what a valid component excludes -/
theorem validName_excludes (n : Bytes) (h : validName n = true) :
    n ≠ [] ∧ n ≠ [dot] ∧ n ≠ [dot, dot] ∧ slash ∉ n ∧ (0 : UInt8) ∉ n := by
  unfold validName at h
  simp only [Bool.and_eq_true, decide_eq_true_eq, Bool.not_eq_true', ne_eq] at h
  obtain ⟨⟨⟨⟨h1, h2⟩, h3⟩, h4⟩, h5⟩ := h
  refine ⟨h1, h2, h3, ?_, ?_⟩
  · intro hc
    have := List.contains_iff_mem.mpr hc
    rw [h4] at this; cases this
  · intro hc
    have := List.contains_iff_mem.mpr hc
    rw [h5] at this; cases this

/-- a confined path has no ".." component and is not absolute: it is "." or does not start
    with '/' -/
theorem confined_not_absolute (p : Bytes) (h : Confined p) : p.head? ≠ some slash := by
  rcases h with rfl | ⟨comps, hne, hv, rfl⟩
  · decide
  · cases comps with
    | nil => exact absurd rfl hne
    | cons c cs =>
      have hc := validName_excludes c (hv c (by simp))
      cases c with
      | nil => exact absurd rfl hc.1
      | cons x xs =>
        have hx : x ≠ slash := by
          intro hx; exact hc.2.2.2.1 (by simp [hx])
        cases cs with
        | nil => simp [List.intercalate, hx]
        | cons d ds => simp [List.intercalate, hx]

/-- **Only the root is nameless**: every node after the first is a proper child of the directory
    the decoder is in at that moment (its starting directory minus the goodbye elements consumed in
    this call) — its name is that directory joined with one valid component, and it is none of
    that directory's ancestors-or-self.  So no later node can replace the directory being unpacked
    (the defect fixed by 866e492). -/
theorem later_nodes_are_children (a : ArchDec) (n : Node) (a' : ArchDec)
    (h : a.next = .ok (some n, a')) (h0 : 0 < a.nodes) (hd : Confined a.dir) :
    ∃ k c, validName c = true ∧ n.name = joinPath (dirUp k a.dir) c ∧
      a'.dir = (match (generalizing := false) n with | .dir .. => n.name | _ => dirUp k a.dir) ∧
      (∀ j, n.name ≠ dirUp j (dirUp k a.dir)) :=
  next_child_strict a n a' h h0 hd

/-- nothing follows a root that is not a directory -/
theorem nothing_after_nondir_root (a : ArchDec) (o : Option Node) (a' : ArchDec)
    (h0 : 0 < a.nodes) (hr : a.rootNotDir = true) (h : a.next = .ok (o, a')) : o = none :=
  next_none_of_rootNotDir a o a' h h0 hr

/-- for every byte stream: no node but the first is handed to the writer under the name "." -/
theorem only_first_is_root (b : Bytes) (nodes : List Node) (h : untar b = .ok nodes) :
    ∀ n ∈ nodes.tail, n.name ≠ [dot] :=
  untar_tail_ne_dot b nodes h

/-! ### the file-system level: `UnTar` onto `LocalFS` over a POSIX file system with symbolic links -/

/-- **Nothing outside the destination changes.**  `LFS.untarFS` is `UnTar` driving the `LocalFS`
    writer (`Model/LocalFS.lean`: path resolution that follows symbolic links, the system calls of
    localfs.go in their order, partial effects of a failing method kept).  For every archive byte
    stream, every option set and every initial file system whose destination path lies below real
    directories and is not itself a symbolic link — hostile links *inside* the destination allowed —
    every object not at or beneath the destination is unchanged — contents, owner, mode bits,
    extended attributes, mtime; the one exception is the modification time of the destination's
    parent directory when the destination itself is created or replaced (its owner, mode and
    extended attributes `a` stay).  This is the statement the two defects fixed by 866e492 and cf2b761 violated. -/
theorem unpacking_changes_nothing_outside (o : LFS.Opts) (root : List LFS.Name) (fs : LFS.FS) (b : Bytes)
    (h : LFS.RootOK fs root) :
    ∀ p : LFS.RPath, ¬ (root <+: p) →
      (p ≠ root.dropLast → ((LFS.untarFS o root fs b).1).get p = fs.get p) ∧
      (p = root.dropLast →
        ∃ a m m', fs.get p = some (.dir a m) ∧ ((LFS.untarFS o root fs b).1).get p = some (.dir a m') ∨
          ((LFS.untarFS o root fs b).1).get p = fs.get p) :=
  LFS.untar_fs_frame o root fs b h

/-- non-vacuity: a destination holding a hostile link satisfies the hypothesis (and an archive does
    write beneath it: `LFS.Example` in `Proofs/LocalFSProofs.lean`) -/
example : LFS.RootOK LFS.Example.fsA LFS.Example.root := LFS.Example.rootOK_A

/-! non-vacuity: "..", "a/b" and "" are not valid names; "ok" is -/
example : validName [dot, dot] = false ∧ validName [97, slash, 98] = false ∧ validName [] = false ∧
    validName [111, 107] = true := by decide

end Desync.C18
