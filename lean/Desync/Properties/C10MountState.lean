/-
  C10 — "restarts that reuse the cache file together with its saved state", with the process dying ANYWHERE: the state
  file on disk never claims a chunk the cache file does not hold.

  Model: `Model/MountState.lean` — the cache file and the state file survive the process; steps are single system calls
  (`os.Create` of the state file, its one `Write` (possibly short), `Truncate` / `WriteAt` (possibly short) on the cache
  file) and the in-memory done bit; state saves (SIGHUP handler, `Close` when the context ends) run concurrently with
  loads; `kill` anywhere; between sessions the files may be removed / the cache file resized.  Which steps exist and their
  order are regenerated facts (`gen_mount_state_shape`, Properties/C10MountFSGen.lean).  The conclusion of
  `running_done_populated` is the hypothesis `SparseInv` (done i → range i = blob range i) the session theorems
  (`C10.read_blob_or_error`, `C10.sparse_mount_requests_exact`) start from.
-/
import Desync.Proofs.MountStateProofs

namespace Desync.C10
open Desync MountState

/-- **for every kill point**: after any sequence of steps (sessions, loads, saves in flight, short writes, kills, file
    changes between sessions) from a first start without a cache file and with ANY leftover state file, if a session
    starting now would accept the state file, every chunk it claims is in the cache file -/
theorem state_on_disk_never_ahead (n : Nat) (leftover : Option (List Bool)) (es : List Ev)
    (hne : ∀ e ∈ es, e.isPowerLoss = false) (s : St)
    (h : run .writeThenMark (St.init n leftover) es = some s) : DiskOK s :=
  disk_never_ahead n leftover es hne s h

/-- a session that serves reads (whatever happened before it) has a bitmap that claims only what the cache file holds -/
theorem session_bitmap_sound (n : Nat) (leftover : Option (List Bool)) (es : List Ev)
    (hne : ∀ e ∈ es, e.isPowerLoss = false) (s : St) (p : Proc)
    (h : run .writeThenMark (St.init n leftover) es = some s) (hp : s.proc = some p) (hr : p.phase = .running) :
    s.sizeOK = true ∧ ∀ i : Nat, p.done[i]? = some true → s.pop[i]? = some true :=
  running_done_populated n leftover es hne s p h hp hr

/-- the seeded regression, decided: done bit before the data, state saved, death before the write -/
theorem state_mark_before_write_violates :
    ∃ s, run .markThenWrite (St.init 1 none)
      [.start, .initCreate, .initWrite, .initTruncate, .mark 0, .saveCreate, .saveWrite 1, .kill] = some s ∧
      s.sizeOK = true ∧ s.state = some [true] ∧ s.pop = [false] := mark_before_write_violates

/-- OUTSIDE the property (process death, not power loss): neither `loadChunk` nor `WriteState` syncs, so after a power
    loss the state file can be ahead of the cache file's durable content -/
theorem state_power_loss_violates :
    ∃ s, run .writeThenMark (St.init 1 none)
      [.start, .initCreate, .initWrite, .initTruncate, .writeChunk 0 true, .mark 0, .saveCreate, .saveWrite 1, .kill,
       .powerLoss 0] = some s ∧
      s.sizeOK = true ∧ s.state = some [true] ∧ s.pop = [false] := power_loss_violates

/-- non-vacuity: a leftover state file claiming everything, a kill in the middle of a state save, a restart that
    re-initialises, a short write, another kill, another start -/
theorem state_example_history :
    ∃ s, run .writeThenMark (St.init 2 (some [true, true]))
      [.start, .initCreate, .initWrite, .initTruncate, .writeChunk 1 true, .mark 1, .saveCreate, .kill, .start,
       .initCreate, .initWrite, .initTruncate, .writeChunk 0 false, .kill, .start] = some s ∧
      s.state = some [false, false] ∧ s.pop = [false, true] := example_history

end Desync.C10
