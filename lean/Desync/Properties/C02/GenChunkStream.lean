/-
  C02 — the regenerated obligation about `ChunkStream` (index.go), in a module of its own: it is rebuilt against the
  facts extracted from the tree under check, and when it turns red the general theorems of `Properties/C02.lean`
  stay checked.
-/
import Desync.Generated.Facts

namespace Desync.C02

/-- **regenerated obligation**: index.go's `ChunkStream` still records, stores, numbers and assembles
    what the machine says (names are normalised: `j` = the worker's loop variable, `$1 $2 $3` = the results
    of the chunker's `Next()`, `$n` = the counter): the worker calls `recordResult(j.num, IndexChunk{Start:
    j.start, Size: uint64(len(j.b)), ID: NewChunk(j.b).ID()})` exactly once per job and nothing skips an
    iteration; `recordResult` assigns `results[key] = row`; the worker stores `NewChunk(j.b)` and
    returns that call's error; the feeder sends `chunkJob{num: $n, start: $1, b: $2}`, the counter
    starts at 0 and is incremented after the send; the index is `chunks[i] = results[i]` for
    `i < len(results)` -/
theorem gen_chunkstream_shape :
    Gen.site_chunkstream_found = true ∧
    Gen.chunkStreamRecordKey = "j.num" ∧
    Gen.chunkStreamRecordRow = "IndexChunk{ID:NewChunk(j.b).ID(),Size:uint64(len(j.b)),Start:j.start}" ∧
    Gen.chunkStreamRecordOncePerJob = true ∧
    Gen.chunkStreamResultsAssign = "results[key]=row" ∧
    Gen.chunkStreamStoreArg = "NewChunk(j.b)" ∧ Gen.chunkStreamStoreErrReturned = true ∧
    Gen.chunkStreamNext = "3 results:=chunker.Next()" ∧ Gen.chunkStreamJob = "chunkJob{b:$2,num:$n,start:$1}" ∧
    Gen.chunkStreamNumbering = true ∧
    Gen.chunkStreamAssemble = ["make([]IndexChunk,len(results))", "every k<len(results): chunks[k]=results[k]", "chunks"] := by
  decide

end Desync.C02
