/-
  Reading back what `UnTar` wrote: on a file system that holds a tree of records as `LocalFS` lays it out
  (`Tree.lay`), the walk of `LocalFS` yields the tree's records again, field by field.
-/
import Desync.Proofs.LocalFSReadWalk

namespace Desync.LFS
open Desync Desync.Mode

/-- the options under which everything is restored -/
def restoreAll : Opts := ⟨false, false⟩

/-- below `q` the file system holds exactly the tree `t` as `UnTar` leaves it -/
def Holds (fs : FS) (q : RPath) (t : Tree) : Prop :=
  ∀ p, q <+: p → fs.get p = (t.lay true restoreAll q).lookup p

end Desync.LFS

namespace Desync
open LFS

mutual
/-- only directory records have children, and the names below the top are file names -/
def Tree.Plain : Tree → Prop
  | .leaf f => f.kind ≠ .dir
  | .dir f cs => f.kind = .dir ∧ Tree.PlainList cs
def Tree.PlainList : List Tree → Prop
  | [] => True
  | t :: ts => validName t.hd.base = true ∧ t.Plain ∧ Tree.PlainList ts
end

mutual
theorem Tree.plain_of_wf : (t : Tree) → ∀ (p : Bytes) (anc : List Bytes), t.WF p anc → t.Plain
  | .leaf f, p, anc, h => by
    simp only [Tree.WF, LeafWF] at h
    simp only [Tree.Plain]
    rcases h.1 with h | h | h <;> simp [h]
  | .dir f cs, p, anc, h => by
    simp only [Tree.WF] at h
    simp only [Tree.Plain]
    exact ⟨h.1, Tree.plainList_of_wf cs _ _ h.2.2.2.2.2.2.2⟩
theorem Tree.plainList_of_wf : (cs : List Tree) → ∀ (p : Bytes) (anc : List Bytes),
    Tree.WFList p anc cs → Tree.PlainList cs
  | [], _, _, _ => by simp [Tree.PlainList]
  | t :: ts, p, anc, h => by
    simp only [Tree.WFList] at h
    simp only [Tree.PlainList]
    exact ⟨h.1.hd_name.1, Tree.plain_of_wf t p anc h.1, Tree.plainList_of_wf ts p anc h.2⟩
end

end Desync

namespace Desync.LFS
open Desync Desync.Mode

theorem FileRec.ext' {a b : FileRec} (h1 : a.base = b.base) (h2 : a.path = b.path) (h3 : a.parent = b.parent)
    (h4 : a.kind = b.kind) (h5 : a.mode = b.mode) (h6 : a.uid = b.uid) (h7 : a.gid = b.gid)
    (h8 : a.mtime = b.mtime) (h9 : a.size = b.size) (h10 : a.data = b.data) (h11 : a.target = b.target)
    (h12 : a.major = b.major) (h13 : a.minor = b.minor) (h14 : a.xattrs = b.xattrs) : a = b := by
  cases a; cases b; simp_all

theorem objOf_owner (f : FileRec) : (objOf restoreAll f).attr.owner = some (f.uid.toNat, f.gid.toNat) := by
  unfold objOf; split <;> simp [Obj.attr, attrOfRec, linkAttrOfRec, restoreAll]

theorem objOf_xattrs (f : FileRec) : (objOf restoreAll f).attr.xattrs = f.xattrs := by
  unfold objOf; split <;> simp [Obj.attr, attrOfRec, linkAttrOfRec, restoreAll]

theorem objOf_mtime (f : FileRec) : (objOf restoreAll f).mtime = mtimeOf f := by
  unfold objOf; split <;> simp [Obj.mtime]

/-- `st_mode` of the object `UnTar` makes of a record of the reader's shape -/
theorem stMode_objOf (env : Env) (rp : RPath) (f : FileRec) (T : UInt32) (P : Nat)
    (hm : f.mode = (T ||| UInt32.ofNat (P % 4096)).toUInt64)
    (hT : (f.kind = .dir ∧ T = S_IFDIR) ∨ (f.kind = .reg ∧ T = S_IFREG) ∨
     (f.kind = .symlink ∧ T = S_IFLNK ∧ P % 4096 = 0o777) ∨ (f.kind = .device ∧ (T = S_IFCHR ∨ T = S_IFBLK))) :
    stMode env rp (objOf restoreAll f) = T ||| UInt32.ofNat (P % 4096) := by
  have hA : ArchType T ∨ SpecialType T := by
    rcases hT with ⟨_, h⟩ | ⟨_, h⟩ | ⟨_, h, _⟩ | ⟨_, h | h⟩ <;> simp [ArchType, h]
  have hlow : f.mode.toNat % 4096 = P % 4096 := by rw [hm]; exact mode_low12 T hA P
  rcases hT with ⟨hk, hT⟩ | ⟨hk, hT⟩ | ⟨hk, hT, hP⟩ | ⟨hk, _⟩
  · simp [objOf, hk, stMode, attrOfRec, restoreAll, hlow, hT]
  · simp [objOf, hk, stMode, attrOfRec, restoreAll, hlow, hT]
  · simp only [objOf, hk, stMode, hT, hP]
    exact lnk_mode
  · have hty : mknodType (metaOf f) = T.toNat := mknodType_read T hA P (metaOf f) hm
    simp [objOf, hk, stMode, attrOfRec, restoreAll, hlow, hty]

/-- the object `UnTar` makes of a record of the reader's shape reads back as that record (at the place it is found) -/
theorem readerFile_objOf (env : Env) (nt : Bool) (f : FileRec) (path : Bytes) (rp : RPath)
    (hs : Shaped f) (ht : TimeOK nt f) (hk : f.kind = .dir ∨ f.kind = .reg ∨ f.kind = .symlink ∨ f.kind = .device) :
    readerFile env nt path rp (objOf restoreAll f) =
      { f with base := pathBase (osBasename path), path := clean path, parent := dirOf (clean path) } := by
  obtain ⟨T, P, hm, hT⟩ := hs.mode
  have hA : ArchType T ∨ SpecialType T := by
    rcases hT with ⟨_, h⟩ | ⟨_, h⟩ | ⟨_, h, _⟩ | ⟨_, h | h⟩ <;> simp [ArchType, h]
  have hst := stMode_objOf env rp f T P hm hT
  apply FileRec.ext'
  · rfl
  · rfl
  · rfl
  · show kindOfFilemode (statToFilemode (stMode env rp (objOf restoreAll f))) = f.kind
    rw [hst]
    have h := kind_of_mode T P
    rcases hT with ⟨hk, hT⟩ | ⟨hk, hT⟩ | ⟨hk, hT, _⟩ | ⟨hk, hT⟩
    · rw [hk]; exact h.1 hT
    · rw [hk]; exact h.2.1 hT
    · rw [hk]; exact h.2.2.1 hT
    · rw [hk]; exact h.2.2.2.1 hT
  · show (filemodeToStat (statToFilemode (stMode env rp (objOf restoreAll f)))).toUInt64 = f.mode
    rw [hst, mode_read_back T hA P, hm]
  · show UInt64.ofNat ((objOf restoreAll f).attr.owner.getD (env.owner rp)).1 = f.uid
    rw [objOf_owner]; simp
  · show UInt64.ofNat ((objOf restoreAll f).attr.owner.getD (env.owner rp)).2 = f.gid
    rw [objOf_owner]; simp
  · show (if nt then 0 else UInt64.ofNat ((objOf restoreAll f).mtime.getD (env.now rp))) = f.mtime
    rw [objOf_mtime]
    unfold TimeOK at ht
    cases nt
    · simp only [Bool.false_eq_true, if_false] at ht ⊢
      simp [mtimeOf, ht]
    · simp only [if_true] at ht ⊢
      exact ht.symm
  · show (match objOf restoreAll f with
      | .file d _ _ => UInt64.ofNat d.length
      | .symlink t _ _ => UInt64.ofNat t.length
      | _ => 0) = f.size
    rcases hk with hk | hk | hk | hk
    · simp [objOf, hk, hs.size.2.2 (.inl hk)]
    · simp [objOf, hk, hs.size.1 hk, u64len]
    · simp [objOf, hk, hs.size.2.1 hk]
    · simp [objOf, hk, hs.size.2.2 (.inr hk)]
  · show (match objOf restoreAll f with
      | .file d _ _ => d
      | _ => []) = f.data
    rcases hk with hk | hk | hk | hk
    · simp [objOf, hk, hs.data (by simp [hk])]
    · simp [objOf, hk]
    · simp [objOf, hk, hs.data (by simp [hk])]
    · simp [objOf, hk, hs.data (by simp [hk])]
  · show (match objOf restoreAll f with
      | .symlink t _ _ => t
      | _ => []) = f.target
    rcases hk with hk | hk | hk | hk
    · simp [objOf, hk, hs.target (by simp [hk])]
    · simp [objOf, hk, hs.target (by simp [hk])]
    · simp [objOf, hk]
    · simp [objOf, hk, hs.target (by simp [hk])]
  · show rdevMajor (stRdev (objOf restoreAll f)) = f.major
    rcases hk with hk | hk | hk | hk
    · simp [objOf, hk, stRdev, rdev_zero.1, (hs.dev.2 (by simp [hk])).1]
    · simp [objOf, hk, stRdev, rdev_zero.1, (hs.dev.2 (by simp [hk])).1]
    · simp [objOf, hk, stRdev, rdev_zero.1, (hs.dev.2 (by simp [hk])).1]
    · have hd := hs.dev.1 hk
      simp only [objOf, hk, stRdev, u64_ofNat_toNat]
      exact (Mode.dev_roundtrip f.major f.minor hd.1 hd.2).1
  · show rdevMinor (stRdev (objOf restoreAll f)) = f.minor
    rcases hk with hk | hk | hk | hk
    · simp [objOf, hk, stRdev, rdev_zero.2, (hs.dev.2 (by simp [hk])).2]
    · simp [objOf, hk, stRdev, rdev_zero.2, (hs.dev.2 (by simp [hk])).2]
    · simp [objOf, hk, stRdev, rdev_zero.2, (hs.dev.2 (by simp [hk])).2]
    · have hd := hs.dev.1 hk
      simp only [objOf, hk, stRdev, u64_ofNat_toNat]
      exact (Mode.dev_roundtrip f.major f.minor hd.1 hd.2).2
  · show sortBy Prod.fst (objOf restoreAll f).attr.xattrs = f.xattrs
    rw [objOf_xattrs, sortBy_of_sorted _ _ hs.xattrs]

/-! ### helpers for the walk -/

theorem lookup_isSome_of_mem {β} {l : List (RPath × β)} {k : RPath} {v : β} (h : (k, v) ∈ l) :
    (l.lookup k).isSome = true := by
  induction l with
  | nil => simp at h
  | cons e l ih =>
    obtain ⟨k', v'⟩ := e
    rw [List.lookup_cons]
    by_cases hk : k = k'
    · subst hk; simp
    · have hb : (k == k') = false := by simpa using hk
      rw [hb]
      rcases List.mem_cons.1 h with h | h
      · simp only [Prod.mk.injEq] at h; exact absurd h.1 hk
      · exact ih h

end Desync.LFS

namespace Desync
open LFS

/-- the object at the top of a laid-out tree -/
def Tree.topObj : Tree → Obj
  | .leaf f => objOf restoreAll f
  | .dir f _ => .dir (attrOfRec restoreAll f) (mtimeOf f)

theorem Tree.lay_head_mem (t : Tree) (q : RPath) : (q, t.topObj) ∈ t.lay true restoreAll q := by
  cases t <;> simp [Tree.lay, Tree.topObj]

theorem Tree.lay_lookup_self (t : Tree) (q : RPath) : (t.lay true restoreAll q).lookup q = some t.topObj := by
  cases t <;> simp [Tree.lay, Tree.topObj]

theorem Tree.layList_mem_of_mem {fin : Bool} {o : Opts} {q : RPath} : ∀ {cs : List Tree} {c : Tree}, c ∈ cs →
    ∀ e ∈ c.lay fin o (q ++ [c.hd.base]), e ∈ Tree.layList fin o q cs
  | t :: ts, c, hc, e, he => by
    simp only [Tree.layList, List.mem_append]
    rcases List.mem_cons.1 hc with rfl | hc
    · exact .inl he
    · exact .inr (Tree.layList_mem_of_mem hc e he)

/-- with distinct sibling names, a look-up below a child goes to that child -/
theorem Tree.layList_lookup_child {fin : Bool} {o : Opts} {q p : RPath} : ∀ {cs : List Tree} {c : Tree},
    (cs.map fun c => c.hd.base).Nodup → c ∈ cs → q ++ [c.hd.base] <+: p →
    (Tree.layList fin o q cs).lookup p = (c.lay fin o (q ++ [c.hd.base])).lookup p
  | t :: ts, c, hnd, hc, hp => by
    simp only [Tree.layList, List.lookup_append]
    rcases List.mem_cons.1 hc with rfl | hc
    · rw [Tree.layList_lookup_none (other_regions hnd hp), Option.or_none]
    · have hne : t.hd.base ≠ c.hd.base := by
        simp only [List.map_cons, List.nodup_cons, List.mem_map, not_exists, not_and] at hnd
        exact fun e => hnd.1 c hc e.symm
      have hnd' : (ts.map fun c => c.hd.base).Nodup := by
        simp only [List.map_cons, List.nodup_cons] at hnd; exact hnd.2
      rw [Tree.lay_lookup_none (fun h => hne (region_unique h hp)), Option.none_or]
      exact Tree.layList_lookup_child hnd' hc hp

theorem Tree.withBase_hd (t : Tree) : t.withBase t.hd.base = t := by
  cases t <;> rfl

theorem Tree.withBase_hd_base (t : Tree) (b : Bytes) : (t.withBase b).hd.base = b := by
  cases t <;> rfl

theorem Tree.rootedAt_snoc (t : Tree) (q : RPath) (hne : q ≠ []) :
    t.rootedAt (q ++ [t.hd.base]) = t.placeAt (absStr q ++ [slash] ++ t.hd.base) := by
  unfold Tree.rootedAt
  rw [absStr_snoc q _ hne]
  simp [Tree.withBase_hd]

mutual
theorem Tree.lay_deep (fin : Bool) (o : Opts) : (t : Tree) → ∀ (q : RPath),
    ∃ e ∈ t.lay fin o q, e.1.length + 1 = q.length + t.height
  | .leaf f, q => ⟨(q, objOf o f), by simp [Tree.lay], by simp [Tree.height]⟩
  | .dir f cs, q => by
    rcases Tree.layList_deep fin o cs q with h | ⟨e, he, hl⟩
    · exact ⟨_, by simp only [Tree.lay]; exact List.mem_cons_self, by simp [Tree.height, h]⟩
    · exact ⟨e, by simp only [Tree.lay]; exact List.mem_cons_of_mem _ he, by simp only [Tree.height]; omega⟩
theorem Tree.layList_deep (fin : Bool) (o : Opts) : (cs : List Tree) → ∀ (q : RPath),
    Tree.heightList cs = 0 ∨ ∃ e ∈ Tree.layList fin o q cs, e.1.length = q.length + Tree.heightList cs
  | [], _ => .inl rfl
  | t :: ts, q => by
    right
    simp only [Tree.layList, Tree.heightList, List.mem_append]
    by_cases hle : Tree.heightList ts ≤ t.height
    · obtain ⟨e, he, hl⟩ := Tree.lay_deep fin o t (q ++ [t.hd.base])
      refine ⟨e, .inl he, ?_⟩
      simp only [List.length_append, List.length_singleton] at hl
      rw [Nat.max_eq_left hle]; omega
    · rcases Tree.layList_deep fin o ts q with h | ⟨e, he, hl⟩
      · omega
      · refine ⟨e, .inr he, ?_⟩
        rw [Nat.max_eq_right (by omega)]; exact hl
end

end Desync

namespace Desync.LFS
open Desync Desync.Mode

theorem Holds.get_top {fs : FS} {q : RPath} {t : Tree} (h : Holds fs q t) : fs.get q = some t.topObj := by
  rw [h q (List.prefix_refl _), Tree.lay_lookup_self]

/-- the region of a child of a directory that is held holds the child -/
theorem Holds.child {fs : FS} {q : RPath} {f : FileRec} {cs : List Tree} (h : Holds fs q (.dir f cs))
    (hnd : (cs.map fun c => c.hd.base).Nodup) {c : Tree} (hc : c ∈ cs) : Holds fs (q ++ [c.hd.base]) c := by
  intro p hp
  have hq : q <+: p := (List.prefix_append _ _).trans hp
  have hne : (p == q) = false := by
    have : p ≠ q := by
      rintro rfl
      exact not_prefix_snoc_self _ _ hp
    simpa using this
  rw [h p hq]
  simp only [Tree.lay, List.lookup_cons, hne]
  exact Tree.layList_lookup_child hnd hc hp

/-- the sorted listing of a directory that is held: its children's names -/
theorem readDirNames_of_holds {fs : FS} {q : RPath} {f : FileRec} {cs : List Tree} (h : Holds fs q (.dir f cs))
    (hs : StrictSorted (fun c : Tree => c.hd.base) cs) :
    readDirNames fs q = cs.map (fun c => c.hd.base) := by
  apply strictSorted_ext (readDirNames_sorted fs q) hs.map
  intro n
  have hne : (q ++ [n] == q) = false := by simp
  rw [mem_readDirNames, h (q ++ [n]) (List.prefix_append _ _)]
  simp only [Tree.lay, List.lookup_cons, hne]
  constructor
  · intro hsome
    obtain ⟨x, hx⟩ := Option.isSome_iff_exists.1 hsome
    obtain ⟨c, hc, hp⟩ := Tree.layList_lookup_region hx
    have hb : c.hd.base = n := by
      have := hp.eq_of_length (by simp)
      simpa using this
    exact List.mem_map.2 ⟨c, hc, hb⟩
  · intro hn
    obtain ⟨c, hc, rfl⟩ := List.mem_map.1 hn
    exact lookup_isSome_of_mem (Tree.layList_mem_of_mem hc _ (Tree.lay_head_mem c _))

theorem allDirs_of_dropLast {fs : FS} {q : RPath} (hne : q ≠ []) (hd : AllDirs fs q.dropLast) (hq : IsDir (fs.get q)) :
    AllDirs fs q := by
  intro Q R e hQ
  by_cases hR : R = []
  · subst hR
    simp only [List.append_nil] at e
    subst e; exact hq
  · have e' : q.dropLast ++ [q.getLast hne] = Q ++ R := by rw [List.dropLast_concat_getLast hne]; exact e
    obtain ⟨R', hR'⟩ := proper_prefix_of_snoc e' hR
    exact hd Q R' hR'.symm hQ

theorem top_names (q : RPath) (hne : q ≠ []) (hv : ∀ c ∈ q, validName c = true) :
    pathBase (osBasename (absStr q)) = q.getLast?.getD [] := by
  have e := List.dropLast_concat_getLast hne
  have hn : validName (q.getLast hne) = true := hv _ (List.getLast_mem hne)
  rw [← e, osBasename_absStr_snoc _ _ hn, pathBase_valid _ hn]
  simp

/-- the record read for the object at the top of a region -/
theorem top_record (env : Env) (nt : Bool) (f : FileRec) (q : RPath) (hne : q ≠ []) (hv : ∀ c ∈ q, validName c = true)
    (hs : Shaped f) (ht : TimeOK nt f) :
    readerFile env nt (absStr q) q (objOf restoreAll f) = ({ f with base := q.getLast?.getD [] }).movedTo (absStr q) := by
  have hk : f.kind = .dir ∨ f.kind = .reg ∨ f.kind = .symlink ∨ f.kind = .device := by
    obtain ⟨T, P, _, hT⟩ := hs.mode
    rcases hT with ⟨h, _⟩ | ⟨h, _⟩ | ⟨h, _⟩ | ⟨h, _⟩ <;> simp [h]
  rw [readerFile_objOf env nt f _ q hs ht hk, clean_absStr q hv, top_names q hne hv]
  rfl

/-- the function `walkFrom` maps over the names of a directory -/
def stepFn (fs : FS) (fuel : Nat) (path : Bytes) : Name → Option (List WalkEntry) := fun name =>
  let filename := joinName path name
  match lstatStr fs filename with
  | .error e => some [(⟨filename, .error e⟩ : WalkEntry)]
  | .ok (rp', o') => walkFrom fs noSkip fuel filename rp' o'

theorem walkFrom_dir (fs : FS) (fuel : Nat) (path : Bytes) (rp : RPath) (a : Attr) (m : Option Nat) :
    walkFrom fs noSkip (fuel + 1) path rp (.dir a m) =
      match (readDirNames fs rp).mapM (stepFn fs fuel path) with
      | none => none
      | some subs => some (⟨path, .ok (rp, .dir a m)⟩ :: subs.flatten) := by
  rw [walkFrom]
  simp [Obj.isDir, noSkip]
  rfl

theorem walkFrom_leaf (fs : FS) (fuel : Nat) (path : Bytes) (rp : RPath) (o : Obj) (h : o.isDir = false) :
    walkFrom fs noSkip (fuel + 1) path rp o = some [⟨path, .ok (rp, o)⟩] := by
  rw [walkFrom]
  simp [h]

theorem objOf_not_dir (f : FileRec) (h : f.kind ≠ .dir) : (objOf restoreAll f).isDir = false := by
  unfold objOf
  split <;> simp_all [Obj.isDir]

mutual
theorem read_back_tree (env : Env) (nt : Bool) (fs : FS) :
    (t : Tree) → ∀ (q : RPath) (fuel : Nat),
      q ≠ [] → (∀ c ∈ q, validName c = true) → Short q → AllDirs fs q.dropLast →
      Holds fs q t → t.Names → t.Plain → t.Sorted →
      (∀ f ∈ t.records, Shaped f ∧ TimeOK nt f) → t.height ≤ fuel →
      ∃ es o, fs.get q = some o ∧ walkFrom fs noSkip fuel (absStr q) q o = some es ∧
        nextAll env nt es = .ok (t.rootedAt q).records
  | .leaf f, q, fuel, hne, hv, hsh, hd, hh, hn, hp, hso, hr, hf => by
    simp only [Tree.Plain] at hp
    simp only [Tree.height] at hf
    obtain ⟨fuel', rfl⟩ : ∃ k, fuel = k + 1 := ⟨fuel - 1, by omega⟩
    have hrec := hr f (by simp [Tree.records])
    refine ⟨[⟨absStr q, .ok (q, objOf restoreAll f)⟩], objOf restoreAll f, hh.get_top, ?_, ?_⟩
    · exact walkFrom_leaf fs fuel' _ q _ (objOf_not_dir f hp)
    · simp only [nextAll]
      rw [top_record env nt f q hne hv hrec.1 hrec.2]
      rfl
  | .dir f cs, q, fuel, hne, hv, hsh, hd, hh, hn, hp, hso, hr, hf => by
    simp only [Tree.Plain] at hp
    simp only [Tree.Names] at hn
    simp only [Tree.Sorted] at hso
    simp only [Tree.height] at hf
    obtain ⟨fuel', rfl⟩ : ∃ k, fuel = k + 1 := ⟨fuel - 1, by omega⟩
    have hrec := hr f (by simp [Tree.records])
    have hget : fs.get q = some (.dir (attrOfRec restoreAll f) (mtimeOf f)) := hh.get_top
    have hobj : Obj.dir (attrOfRec restoreAll f) (mtimeOf f) = objOf restoreAll f := by simp [objOf, hp.1]
    have hall : AllDirs fs q := allDirs_of_dropLast hne hd ⟨_, _, hget⟩
    obtain ⟨subs, hsubs, hnext⟩ := read_back_list env nt fs cs q fuel' hne hv hsh hall
      (fun c hc => hh.child hn.1 hc) hn.2 hp.2 hso.2 (fun g hg => hr g (by simp [Tree.records, hg])) (by omega)
    refine ⟨⟨absStr q, .ok (q, .dir (attrOfRec restoreAll f) (mtimeOf f))⟩ :: subs.flatten, _, hget, ?_, ?_⟩
    · rw [walkFrom_dir, readDirNames_of_holds hh hso.1, hsubs]
    · simp only [nextAll]
      rw [hnext, hobj, top_record env nt f q hne hv hrec.1 hrec.2]
      rfl
theorem read_back_list (env : Env) (nt : Bool) (fs : FS) :
    (cs : List Tree) → ∀ (q : RPath) (fuel : Nat),
      q ≠ [] → (∀ c ∈ q, validName c = true) → Short q → AllDirs fs q →
      (∀ c ∈ cs, Holds fs (q ++ [c.hd.base]) c) → Tree.NamesList cs → Tree.PlainList cs → Tree.SortedList cs →
      (∀ f ∈ Tree.recordsList cs, Shaped f ∧ TimeOK nt f) → Tree.heightList cs ≤ fuel →
      ∃ subs, (cs.map (fun c => c.hd.base)).mapM (stepFn fs fuel (absStr q)) = some subs ∧
        nextAll env nt subs.flatten = .ok (Tree.recordsList (Tree.placeListAt (absStr q) cs))
  | [], q, fuel, _, _, _, _, _, _, _, _, _, _ =>
    ⟨[], by simp, by simp [nextAll, Tree.placeListAt, Tree.recordsList]⟩
  | t :: ts, q, fuel, hne, hv, hsh, hall, hh, hn, hp, hso, hr, hf => by
    simp only [Tree.NamesList] at hn
    simp only [Tree.PlainList] at hp
    simp only [Tree.SortedList] at hso
    simp only [Tree.heightList] at hf
    have hb := hp.1
    have hv' : ∀ c ∈ q ++ [t.hd.base], validName c = true := by
      intro c hc
      rcases List.mem_append.1 hc with hc | hc
      · exact hv c hc
      · simp only [List.mem_singleton] at hc; subst hc; exact hb
    have hsh' : Short (q ++ [t.hd.base]) := by
      intro c hc
      rcases List.mem_append.1 hc with hc | hc
      · exact hsh c hc
      · simp only [List.mem_singleton] at hc; subst hc; exact hn.1
    have hd' : AllDirs fs (q ++ [t.hd.base]).dropLast := by simpa using hall
    have hG : Good fs (q ++ [t.hd.base]) :=
      good_child (root := q) (cs := []) (by simp) hv hsh (by simp) (by intro c hc; simp at hc) hb hn.1 hall
    obtain ⟨es, o, hget, hwalk, hnext⟩ := read_back_tree env nt fs t (q ++ [t.hd.base]) fuel (by simp) hv' hsh' hd'
      (hh t (by simp)) hn.2.1 hp.2.1 hso.1 (fun g hg => hr g (by simp [Tree.recordsList, hg]))
      (le_trans (le_max_left _ _) hf)
    obtain ⟨subs, hsubs, hnext'⟩ := read_back_list env nt fs ts q fuel hne hv hsh hall
      (fun c hc => hh c (by simp [hc])) hn.2.2 hp.2.2 hso.2 (fun g hg => hr g (by simp [Tree.recordsList, hg]))
      (le_trans (le_max_right _ _) hf)
    have hstep : stepFn fs fuel (absStr q) t.hd.base = some es := by
      simp only [stepFn, joinName_absStr q _ hv hb, lstatStr_absStr fs _ hG hv', hget, hwalk]
    refine ⟨es :: subs, ?_, ?_⟩
    · simp [List.mapM_cons, hstep, hsubs]
    · simp only [List.flatten_cons, Tree.placeListAt, Tree.recordsList]
      rw [← Tree.rootedAt_snoc t q hne]
      exact nextAll_append env nt _ _ _ _ hnext hnext'
end

/-- the walk over a region that holds the tree `t` -/
theorem read_back (env : Env) (nt : Bool) (fs : FS) :
    ∀ (t : Tree) (q : RPath) (fuel : Nat),
      q ≠ [] → (∀ c ∈ q, validName c = true) → Short q → AllDirs fs q.dropLast →
      Holds fs q t → t.Names → t.Plain → t.Sorted →
      (∀ f ∈ t.records, Shaped f ∧ TimeOK nt f) → t.height ≤ fuel →
      ∃ es o, fs.get q = some o ∧ walkFrom fs noSkip fuel (absStr q) q o = some es ∧
        nextAll env nt es = .ok (t.rootedAt q).records :=
  read_back_tree env nt fs

/-- `depth` bounds what `read_back` needs -/
theorem holds_height_le (fs : FS) (t : Tree) (q : RPath) (h : Holds fs q t) :
    t.height + q.length ≤ depth fs + 1 := by
  obtain ⟨e, he, hl⟩ := Tree.lay_deep true restoreAll t q
  have hp : q <+: e.1 := Tree.lay_keys true restoreAll t q e he
  have hsome : (fs.get e.1).isSome = true := by
    rw [h e.1 hp]
    exact lookup_isSome_of_mem (v := e.2) he
  have := length_le_depth fs e.1 hsome
  omega

/-- **`read_of_written_tree`** at the level of `Holds` -/
theorem readTree_of_holds (env : Env) (nt : Bool) (fs : FS) (root : List Name) (t : Tree)
    (hr : SrcRoot fs root) (hh : Holds fs root t) (hn : t.Names) (hpl : t.Plain) (hs : t.Sorted)
    (hsh : ∀ f ∈ t.records, Shaped f ∧ TimeOK nt f) :
    readTree env nt noSkip fs (absStr root) = some (.ok (t.rootedAt root).records) := by
  have hG : Good fs root := by
    refine ⟨normal_of_valid hr.valid, hr.short, hr.ne, ?_⟩
    intro Q R e hQ hR
    simp only [List.nil_append]
    have e' : root.dropLast ++ [root.getLast hr.ne] = Q ++ R := by
      rw [List.dropLast_concat_getLast hr.ne]; exact e
    obtain ⟨R', hR'⟩ := proper_prefix_of_snoc e' hR
    exact hr.above Q R' hR'.symm hQ
  have hfuel : t.height ≤ depth fs + 1 := by
    have := holds_height_le fs t root hh
    omega
  obtain ⟨es, o, hget, hwalk, hnext⟩ := read_back env nt fs t root (depth fs + 1) hr.ne hr.valid hr.short hr.above
    hh hn hpl hs hsh hfuel
  have hskip : (fun q : RPath => (q ≠ root && noSkip q)) = noSkip := by
    funext q; simp [noSkip]
  unfold readTree walkTree
  rw [lstatStr_absStr fs root hG hr.valid, hget]
  simp only [hskip, hwalk, Option.map_some, hnext]

end Desync.LFS
