import Desync.Model.Dedup

set_option linter.unusedSimpArgs false

namespace Desync.Dedup

/-- the caller an event belongs to -/
def Ev.caller : Ev → Nat
  | .call t => t
  | .upRet t _ => t
  | .markDone t => t
  | .delete t => t
  | .wake t => t

/-- the request a caller is the live leader of (between registration and delete) -/
def C.lead : C → Option Nat
  | .upstream r => some r
  | .got r _ => some r
  | .published r _ => some r
  | _ => none

/-- the request a caller uses -/
def C.req : C → Option Nat
  | .start _ => none
  | .upstream r => some r
  | .got r _ => some r
  | .published r _ => some r
  | .follower r => some r
  | .returned _ r => some r

structure Inv (ids : List Nat) (s : St) : Prop where
  len : s.callers.length = ids.length
  startid : ∀ (t id : Nat), s.callers[t]? = some (C.start id) → ids[t]? = some id
  ownid : ∀ (t : Nat) (c : C) (r : Nat), s.callers[t]? = some c → c.req = some r →
    ∃ q : Req, s.reqs[r]? = some q ∧ ids[t]? = some q.id
  qkeys : ∀ (id r1 r2 : Nat), (id, r1) ∈ s.queue → (id, r2) ∈ s.queue → r1 = r2
  qreq : ∀ (id r : Nat), (id, r) ∈ s.queue → ∃ q : Req, s.reqs[r]? = some q ∧ q.id = id
  qlive : ∀ (id r : Nat), (id, r) ∈ s.queue → ∃ (t : Nat) (c : C), s.callers[t]? = some c ∧ c.lead = some r
  liveq : ∀ (t : Nat) (c : C) (r : Nat), s.callers[t]? = some c → c.lead = some r →
    ∃ q : Req, s.reqs[r]? = some q ∧ (q.id, r) ∈ s.queue
  liveuniq : ∀ (t1 t2 : Nat) (c1 c2 : C) (r : Nat), s.callers[t1]? = some c1 → s.callers[t2]? = some c2 →
    c1.lead = some r → c2.lead = some r → t1 = t2
  histlt : ∀ (r v : Nat), (r, v) ∈ s.upHist → r < s.reqs.length
  histnoup : ∀ (r v t : Nat), (r, v) ∈ s.upHist → s.callers[t]? ≠ some (C.upstream r)
  histuniq : ∀ (r v v' : Nat), (r, v) ∈ s.upHist → (r, v') ∈ s.upHist → v = v'
  upnotdone : ∀ (t r : Nat), s.callers[t]? = some (C.upstream r) →
    ∃ q : Req, s.reqs[r]? = some q ∧ q.done = false
  gothist : ∀ (t r v : Nat), s.callers[t]? = some (C.got r v) →
    (r, v) ∈ s.upHist ∧ ∃ q : Req, s.reqs[r]? = some q ∧ q.done = false
  pubdone : ∀ (t r v : Nat), s.callers[t]? = some (C.published r v) →
    (r, v) ∈ s.upHist ∧ ∃ q : Req, s.reqs[r]? = some q ∧ q.done = true ∧ q.val = v
  donehist : ∀ (r : Nat) (q : Req), s.reqs[r]? = some q → q.done = true → (r, q.val) ∈ s.upHist
  retdone : ∀ (t r v : Nat), s.callers[t]? = some (C.returned v r) →
    ∃ q : Req, s.reqs[r]? = some q ∧ q.done = true ∧ q.val = v
  notdone : ∀ (r : Nat) (q : Req), s.reqs[r]? = some q → q.done = false →
    ∃ t : Nat, s.callers[t]? = some (C.upstream r) ∨ ∃ v : Nat, s.callers[t]? = some (C.got r v)

theorem inv_init (ids : List Nat) : Inv ids (St.init ids) := by
  constructor <;> simp [St.init] <;> grind [C.req, C.lead]

/-! step inversion -/

theorem step_call_inv {s s' : St} {t : Nat} (h : step s (.call t) = some s') :
    ∃ id, s.callers[t]? = some (.start id) ∧
      ((∃ r, s.queue.lookup id = some r ∧ s' = setC s t (.follower r)) ∨
       (s.queue.lookup id = none ∧
        s' = { setC s t (.upstream s.reqs.length) with
                queue := (id, s.reqs.length) :: s.queue, reqs := s.reqs ++ [{ id }] })) := by
  simp only [step] at h
  split at h
  · rename_i id hc
    refine ⟨id, hc, ?_⟩
    split at h
    · rename_i r hr
      exact .inl ⟨r, hr, by simpa using h.symm⟩
    · rename_i hr
      exact .inr ⟨hr, by simpa using h.symm⟩
  · simp at h

theorem step_upRet_inv {s s' : St} {t v : Nat} (h : step s (.upRet t v) = some s') :
    ∃ r, s.callers[t]? = some (.upstream r) ∧
      s' = { setC s t (.got r v) with upHist := (r, v) :: s.upHist } := by
  simp only [step] at h
  split at h
  · rename_i r hc; exact ⟨r, hc, by simpa using h.symm⟩
  · simp at h

theorem step_markDone_inv {s s' : St} {t : Nat} (h : step s (.markDone t) = some s') :
    ∃ r v, s.callers[t]? = some (.got r v) ∧
      s' = { setC s t (.published r v) with
              reqs := s.reqs.modify r fun q => { q with done := true, val := v } } := by
  simp only [step] at h
  split at h
  · rename_i r v hc; exact ⟨r, v, hc, by simpa using h.symm⟩
  · simp at h

theorem step_delete_inv {s s' : St} {t : Nat} (h : step s (.delete t) = some s') :
    ∃ r v, s.callers[t]? = some (.published r v) ∧
      s' = { setC s t (.returned v r) with
              queue := s.queue.filter (·.1 ≠ (s.reqs.getD r { id := 0 }).id) } := by
  simp only [step] at h
  split at h
  · rename_i r v hc; exact ⟨r, v, hc, by simpa using h.symm⟩
  · simp at h

theorem step_wake_inv {s s' : St} {t : Nat} (h : step s (.wake t) = some s') :
    ∃ r q, s.callers[t]? = some (.follower r) ∧ s.reqs[r]? = some q ∧ q.done = true ∧
      s' = setC s t (.returned q.val r) := by
  simp only [step] at h
  split at h
  · rename_i r hc
    split at h
    · rename_i q hq
      split at h
      · rename_i hd; exact ⟨r, q, hc, hq, hd, by simpa using h.symm⟩
      · simp at h
    · simp at h
  · simp at h


theorem inv_upRet {ids s s'} {t v : Nat} (hi : Inv ids s) (h : step s (.upRet t v) = some s') : Inv ids s' := by
  obtain ⟨r, hc, rfl⟩ := step_upRet_inv h
  have hlt : t < s.callers.length := by
    rcases Nat.lt_or_ge t s.callers.length with h | h
    · exact h
    · simp [List.getElem?_eq_none h] at hc
  clear h
  obtain ⟨h1, h2, h3, h4, h5, h6, h7, h8, h9, h10, h11, h12, h13, h14, h15, h16, h17⟩ := hi
  constructor <;> simp only [setC, List.length_set, List.getElem?_set, List.mem_cons, Prod.mk.injEq]
  case qlive =>
    intro id r' hm
    obtain ⟨t0, c0, hc0, hl0⟩ := h6 id r' hm
    by_cases htt : t = t0
    · subst htt
      refine ⟨t, .got r v, by simp [hlt], ?_⟩
      grind [C.lead]
    · exact ⟨t0, c0, by simp [htt, hc0], hl0⟩
  case histnoup =>
    intro r' v' t' hm
    by_cases htt : t = t'
    · simp [htt]
    · simp only [htt, if_false]
      rcases hm with ⟨rfl, rfl⟩ | hm
      · intro hc'
        exact htt (h8 t t' _ _ r' hc hc' rfl rfl)
      · exact h10 r' v' t' hm
  all_goals first | assumption | grind [C.req, C.lead]


theorem mem_of_lookup {l : List (Nat × Nat)} {k v : Nat} (h : l.lookup k = some v) : (k, v) ∈ l := by
  induction l with
  | nil => simp at h
  | cons p l ih =>
    obtain ⟨a, b⟩ := p
    rw [List.lookup_cons] at h
    split at h
    · rename_i heq
      have : k = a := by simpa using heq
      simp_all
    · exact List.mem_cons_of_mem _ (ih h)

theorem not_mem_of_lookup {l : List (Nat × Nat)} {k : Nat} (h : l.lookup k = none) (v : Nat) : (k, v) ∉ l := by
  rw [List.lookup_eq_none_iff] at h
  intro hm
  simpa using h _ hm

theorem lt_of_getElem? {α} {l : List α} {t : Nat} {c : α} (hc : l[t]? = some c) : t < l.length := by
  rcases Nat.lt_or_ge t l.length with h | h
  · exact h
  · simp [List.getElem?_eq_none h] at hc

theorem Inv.lead_unique {ids s} (hi : Inv ids s) {t : Nat} {c : C} (hc : s.callers[t]? = some c)
    {r : Nat} (hl : c.lead = some r) :
    (∀ t', s.callers[t']? = some (C.upstream r) → t = t') ∧
    (∀ t' v', s.callers[t']? = some (C.got r v') → t = t') ∧
    (∀ t' v', s.callers[t']? = some (C.published r v') → t = t') :=
  ⟨fun t' h => hi.liveuniq t t' _ _ r hc h hl rfl, fun t' _ h => hi.liveuniq t t' _ _ r hc h hl rfl,
   fun t' _ h => hi.liveuniq t t' _ _ r hc h hl rfl⟩

theorem inv_call_follow {ids s} {t id r : Nat} (hi : Inv ids s) (hc : s.callers[t]? = some (.start id))
    (hq : (id, r) ∈ s.queue) : Inv ids (setC s t (.follower r)) := by
  have hlt := lt_of_getElem? hc
  constructor
  case len =>
    have hf := hi.len
    simp only [setC, List.length_set, List.getElem?_set, List.mem_cons, Prod.mk.injEq]
    first | assumption | grind [C.req, C.lead]
  case startid =>
    have hf := hi.startid
    simp only [setC, List.length_set, List.getElem?_set, List.mem_cons, Prod.mk.injEq]
    first | assumption | grind [C.req, C.lead]
  case ownid =>
    have hf := hi.ownid
    have hf2 := hi.qreq id r hq
    have hf3 := hi.startid t id hc
    simp only [setC, List.length_set, List.getElem?_set, List.mem_cons, Prod.mk.injEq]
    first | assumption | grind [C.req, C.lead]
  case qkeys =>
    have hf := hi.qkeys
    simp only [setC, List.length_set, List.getElem?_set, List.mem_cons, Prod.mk.injEq]
    first | assumption | grind [C.req, C.lead]
  case qreq =>
    have hf := hi.qreq
    simp only [setC, List.length_set, List.getElem?_set, List.mem_cons, Prod.mk.injEq]
    first | assumption | grind [C.req, C.lead]
  case qlive =>
    have hf := hi.qlive
    simp only [setC, List.length_set, List.getElem?_set, List.mem_cons, Prod.mk.injEq]
    first | assumption | grind [C.req, C.lead]
  case liveq =>
    have hf := hi.liveq
    simp only [setC, List.length_set, List.getElem?_set, List.mem_cons, Prod.mk.injEq]
    first | assumption | grind [C.req, C.lead]
  case liveuniq =>
    have hf := hi.liveuniq
    simp only [setC, List.length_set, List.getElem?_set, List.mem_cons, Prod.mk.injEq]
    first | assumption | grind [C.req, C.lead]
  case histlt =>
    have hf := hi.histlt
    simp only [setC, List.length_set, List.getElem?_set, List.mem_cons, Prod.mk.injEq]
    first | assumption | grind [C.req, C.lead]
  case histnoup =>
    have hf := hi.histnoup
    simp only [setC, List.length_set, List.getElem?_set, List.mem_cons, Prod.mk.injEq]
    first | assumption | grind [C.req, C.lead]
  case histuniq =>
    have hf := hi.histuniq
    simp only [setC, List.length_set, List.getElem?_set, List.mem_cons, Prod.mk.injEq]
    first | assumption | grind [C.req, C.lead]
  case upnotdone =>
    have hf := hi.upnotdone
    simp only [setC, List.length_set, List.getElem?_set, List.mem_cons, Prod.mk.injEq]
    first | assumption | grind [C.req, C.lead]
  case gothist =>
    have hf := hi.gothist
    simp only [setC, List.length_set, List.getElem?_set, List.mem_cons, Prod.mk.injEq]
    first | assumption | grind [C.req, C.lead]
  case pubdone =>
    have hf := hi.pubdone
    simp only [setC, List.length_set, List.getElem?_set, List.mem_cons, Prod.mk.injEq]
    first | assumption | grind [C.req, C.lead]
  case donehist =>
    have hf := hi.donehist
    simp only [setC, List.length_set, List.getElem?_set, List.mem_cons, Prod.mk.injEq]
    first | assumption | grind [C.req, C.lead]
  case retdone =>
    have hf := hi.retdone
    simp only [setC, List.length_set, List.getElem?_set, List.mem_cons, Prod.mk.injEq]
    first | assumption | grind [C.req, C.lead]
  case notdone =>
    have hf := hi.notdone
    simp only [setC, List.length_set, List.getElem?_set, List.mem_cons, Prod.mk.injEq]
    first | assumption | grind [C.req, C.lead]

theorem inv_wake {ids s} {t r : Nat} {q : Req} (hi : Inv ids s) (hc : s.callers[t]? = some (.follower r))
    (hq : s.reqs[r]? = some q) (hd : q.done = true) : Inv ids (setC s t (.returned q.val r)) := by
  have hlt := lt_of_getElem? hc
  constructor
  case len =>
    have hf := hi.len
    simp only [setC, List.length_set, List.getElem?_set, List.mem_cons, Prod.mk.injEq]
    first | assumption | grind [C.req, C.lead]
  case startid =>
    have hf := hi.startid
    simp only [setC, List.length_set, List.getElem?_set, List.mem_cons, Prod.mk.injEq]
    first | assumption | grind [C.req, C.lead]
  case ownid =>
    have hf := hi.ownid
    simp only [setC, List.length_set, List.getElem?_set, List.mem_cons, Prod.mk.injEq]
    first | assumption | grind [C.req, C.lead]
  case qkeys =>
    have hf := hi.qkeys
    simp only [setC, List.length_set, List.getElem?_set, List.mem_cons, Prod.mk.injEq]
    first | assumption | grind [C.req, C.lead]
  case qreq =>
    have hf := hi.qreq
    simp only [setC, List.length_set, List.getElem?_set, List.mem_cons, Prod.mk.injEq]
    first | assumption | grind [C.req, C.lead]
  case qlive =>
    have hf := hi.qlive
    simp only [setC, List.length_set, List.getElem?_set, List.mem_cons, Prod.mk.injEq]
    first | assumption | grind [C.req, C.lead]
  case liveq =>
    have hf := hi.liveq
    simp only [setC, List.length_set, List.getElem?_set, List.mem_cons, Prod.mk.injEq]
    first | assumption | grind [C.req, C.lead]
  case liveuniq =>
    have hf := hi.liveuniq
    simp only [setC, List.length_set, List.getElem?_set, List.mem_cons, Prod.mk.injEq]
    first | assumption | grind [C.req, C.lead]
  case histlt =>
    have hf := hi.histlt
    simp only [setC, List.length_set, List.getElem?_set, List.mem_cons, Prod.mk.injEq]
    first | assumption | grind [C.req, C.lead]
  case histnoup =>
    have hf := hi.histnoup
    simp only [setC, List.length_set, List.getElem?_set, List.mem_cons, Prod.mk.injEq]
    first | assumption | grind [C.req, C.lead]
  case histuniq =>
    have hf := hi.histuniq
    simp only [setC, List.length_set, List.getElem?_set, List.mem_cons, Prod.mk.injEq]
    first | assumption | grind [C.req, C.lead]
  case upnotdone =>
    have hf := hi.upnotdone
    simp only [setC, List.length_set, List.getElem?_set, List.mem_cons, Prod.mk.injEq]
    first | assumption | grind [C.req, C.lead]
  case gothist =>
    have hf := hi.gothist
    simp only [setC, List.length_set, List.getElem?_set, List.mem_cons, Prod.mk.injEq]
    first | assumption | grind [C.req, C.lead]
  case pubdone =>
    have hf := hi.pubdone
    simp only [setC, List.length_set, List.getElem?_set, List.mem_cons, Prod.mk.injEq]
    first | assumption | grind [C.req, C.lead]
  case donehist =>
    have hf := hi.donehist
    simp only [setC, List.length_set, List.getElem?_set, List.mem_cons, Prod.mk.injEq]
    first | assumption | grind [C.req, C.lead]
  case retdone =>
    have hf := hi.retdone
    simp only [setC, List.length_set, List.getElem?_set, List.mem_cons, Prod.mk.injEq]
    first | assumption | grind [C.req, C.lead]
  case notdone =>
    have hf := hi.notdone
    simp only [setC, List.length_set, List.getElem?_set, List.mem_cons, Prod.mk.injEq]
    first | assumption | grind [C.req, C.lead]

theorem inv_markDone {ids s} {t r v : Nat} (hi : Inv ids s) (hc : s.callers[t]? = some (.got r v)) :
    Inv ids { setC s t (.published r v) with
              reqs := s.reqs.modify r fun q => { q with done := true, val := v } } := by
  have hlt := lt_of_getElem? hc
  obtain ⟨hg1, q0, hg2, hg3⟩ := hi.gothist t r v hc
  constructor
  case len =>
    have hf := hi.len
    simp only [setC, List.length_set, List.getElem?_set, List.mem_cons, Prod.mk.injEq, List.length_modify]
    first | assumption | grind [C.req, C.lead]
  case startid =>
    have hf := hi.startid
    simp only [setC, List.length_set, List.getElem?_set, List.mem_cons, Prod.mk.injEq, List.length_modify]
    first | assumption | grind [C.req, C.lead]
  case ownid =>
    have hf := hi.ownid
    simp only [setC, List.length_set, List.getElem?_set, List.mem_cons, Prod.mk.injEq, List.length_modify]
    first | assumption | grind [C.req, C.lead]
  case qkeys =>
    have hf := hi.qkeys
    simp only [setC, List.length_set, List.getElem?_set, List.mem_cons, Prod.mk.injEq, List.length_modify]
    first | assumption | grind [C.req, C.lead]
  case qreq =>
    have hf := hi.qreq
    simp only [setC, List.length_set, List.getElem?_set, List.mem_cons, Prod.mk.injEq, List.length_modify]
    first | assumption | grind [C.req, C.lead]
  case qlive =>
    have hf := hi.qlive
    simp only [setC, List.length_set, List.getElem?_set, List.mem_cons, Prod.mk.injEq, List.length_modify]
    first | assumption | grind [C.req, C.lead]
  case liveq =>
    have hf := hi.liveq
    simp only [setC, List.length_set, List.getElem?_set, List.mem_cons, Prod.mk.injEq, List.length_modify]
    first | assumption | grind [C.req, C.lead]
  case liveuniq =>
    have hf := hi.liveuniq
    simp only [setC, List.length_set, List.getElem?_set, List.mem_cons, Prod.mk.injEq, List.length_modify]
    first | assumption | grind [C.req, C.lead]
  case histlt =>
    have hf := hi.histlt
    simp only [setC, List.length_set, List.getElem?_set, List.mem_cons, Prod.mk.injEq, List.length_modify]
    first | assumption | grind [C.req, C.lead]
  case histnoup =>
    have hf := hi.histnoup
    simp only [setC, List.length_set, List.getElem?_set, List.mem_cons, Prod.mk.injEq, List.length_modify]
    first | assumption | grind [C.req, C.lead]
  case histuniq =>
    have hf := hi.histuniq
    simp only [setC, List.length_set, List.getElem?_set, List.mem_cons, Prod.mk.injEq, List.length_modify]
    first | assumption | grind [C.req, C.lead]
  case upnotdone =>
    have hf := hi.upnotdone
    obtain ⟨hu1, hu2, hu3⟩ := hi.lead_unique hc rfl
    simp only [setC, List.length_set, List.getElem?_set, List.mem_cons, Prod.mk.injEq, List.length_modify]
    first | assumption | grind [C.req, C.lead]
  case gothist =>
    have hf := hi.gothist
    obtain ⟨hu1, hu2, hu3⟩ := hi.lead_unique hc rfl
    simp only [setC, List.length_set, List.getElem?_set, List.mem_cons, Prod.mk.injEq, List.length_modify]
    first | assumption | grind [C.req, C.lead]
  case pubdone =>
    have hf := hi.pubdone
    simp only [setC, List.length_set, List.getElem?_set, List.mem_cons, Prod.mk.injEq, List.length_modify]
    first | assumption | grind [C.req, C.lead]
  case donehist =>
    have hf := hi.donehist
    simp only [setC, List.length_set, List.getElem?_set, List.mem_cons, Prod.mk.injEq, List.length_modify]
    first | assumption | grind [C.req, C.lead]
  case retdone =>
    have hf := hi.retdone
    simp only [setC, List.length_set, List.getElem?_set, List.mem_cons, Prod.mk.injEq, List.length_modify]
    first | assumption | grind [C.req, C.lead]
  case notdone =>
    have hf := hi.notdone
    simp only [setC, List.length_set, List.getElem?_set, List.mem_cons, Prod.mk.injEq, List.length_modify]
    first | assumption | grind [C.req, C.lead]

theorem inv_delete {ids s} {t r v : Nat} (hi : Inv ids s) (hc : s.callers[t]? = some (.published r v)) :
    Inv ids { setC s t (.returned v r) with
              queue := s.queue.filter (·.1 ≠ (s.reqs.getD r { id := 0 }).id) } := by
  have hlt := lt_of_getElem? hc
  obtain ⟨hp1, q0, hp2, hp3, hp4⟩ := hi.pubdone t r v hc
  have hgd : (s.reqs.getD r { id := 0 }).id = q0.id := by simp [List.getD, hp2]
  rw [hgd]
  constructor
  case len =>
    have hf := hi.len
    simp only [setC, List.length_set, List.getElem?_set, List.mem_cons, Prod.mk.injEq, List.mem_filter]
    first | assumption | grind [C.req, C.lead]
  case startid =>
    have hf := hi.startid
    simp only [setC, List.length_set, List.getElem?_set, List.mem_cons, Prod.mk.injEq, List.mem_filter]
    first | assumption | grind [C.req, C.lead]
  case ownid =>
    have hf := hi.ownid
    simp only [setC, List.length_set, List.getElem?_set, List.mem_cons, Prod.mk.injEq, List.mem_filter]
    first | assumption | grind [C.req, C.lead]
  case qkeys =>
    have hf := hi.qkeys
    simp only [setC, List.length_set, List.getElem?_set, List.mem_cons, Prod.mk.injEq, List.mem_filter]
    first | assumption | grind [C.req, C.lead]
  case qreq =>
    have hf := hi.qreq
    simp only [setC, List.length_set, List.getElem?_set, List.mem_cons, Prod.mk.injEq, List.mem_filter]
    first | assumption | grind [C.req, C.lead]
  case qlive =>
    have hf := hi.qlive
    have hqr := hi.qreq
    simp only [setC, List.length_set, List.getElem?_set, List.mem_cons, Prod.mk.injEq, List.mem_filter]
    intro id' r' ⟨hm, hne⟩
    obtain ⟨t0, c0, h0, hl0⟩ := hf id' r' hm
    by_cases htt : t = t0
    · subst htt
      exfalso
      grind [C.lead]
    · exact ⟨t0, c0, by simp [htt, h0], hl0⟩
  case liveq =>
    have hf := hi.liveq
    have hqk := hi.qkeys
    obtain ⟨hu1, hu2, hu3⟩ := hi.lead_unique hc rfl
    have hmine := hi.liveq t _ r hc rfl
    simp only [setC, List.length_set, List.getElem?_set, List.mem_cons, Prod.mk.injEq, List.mem_filter]
    intro t' c' r' h' hl'
    by_cases htt : t = t'
    · subst htt
      simp [hlt] at h'
      subst h'
      simp [C.lead] at hl'
    · simp only [htt, if_false] at h'
      obtain ⟨q, hq1, hq2⟩ := hf t' c' r' h' hl'
      refine ⟨q, hq1, hq2, ?_⟩
      have : q.id ≠ q0.id := by
        intro heq
        have : r' = r := by grind
        subst this
        cases c' <;> grind [C.lead]
      simpa using this
  case liveuniq =>
    have hf := hi.liveuniq
    simp only [setC, List.length_set, List.getElem?_set, List.mem_cons, Prod.mk.injEq, List.mem_filter]
    first | assumption | grind [C.req, C.lead]
  case histlt =>
    have hf := hi.histlt
    simp only [setC, List.length_set, List.getElem?_set, List.mem_cons, Prod.mk.injEq, List.mem_filter]
    first | assumption | grind [C.req, C.lead]
  case histnoup =>
    have hf := hi.histnoup
    simp only [setC, List.length_set, List.getElem?_set, List.mem_cons, Prod.mk.injEq, List.mem_filter]
    first | assumption | grind [C.req, C.lead]
  case histuniq =>
    have hf := hi.histuniq
    simp only [setC, List.length_set, List.getElem?_set, List.mem_cons, Prod.mk.injEq, List.mem_filter]
    first | assumption | grind [C.req, C.lead]
  case upnotdone =>
    have hf := hi.upnotdone
    simp only [setC, List.length_set, List.getElem?_set, List.mem_cons, Prod.mk.injEq, List.mem_filter]
    first | assumption | grind [C.req, C.lead]
  case gothist =>
    have hf := hi.gothist
    simp only [setC, List.length_set, List.getElem?_set, List.mem_cons, Prod.mk.injEq, List.mem_filter]
    first | assumption | grind [C.req, C.lead]
  case pubdone =>
    have hf := hi.pubdone
    simp only [setC, List.length_set, List.getElem?_set, List.mem_cons, Prod.mk.injEq, List.mem_filter]
    first | assumption | grind [C.req, C.lead]
  case donehist =>
    have hf := hi.donehist
    simp only [setC, List.length_set, List.getElem?_set, List.mem_cons, Prod.mk.injEq, List.mem_filter]
    first | assumption | grind [C.req, C.lead]
  case retdone =>
    have hf := hi.retdone
    simp only [setC, List.length_set, List.getElem?_set, List.mem_cons, Prod.mk.injEq, List.mem_filter]
    first | assumption | grind [C.req, C.lead]
  case notdone =>
    have hf := hi.notdone
    simp only [setC, List.length_set, List.getElem?_set, List.mem_cons, Prod.mk.injEq, List.mem_filter]
    first | assumption | grind [C.req, C.lead]

theorem append_old {l : List Req} {x : Req} {r : Nat} {q : Req} (h : l[r]? = some q) :
    (l ++ [x])[r]? = some q := by
  have := lt_of_getElem? h
  rw [List.getElem?_append_left this]; exact h

theorem append_new {l : List Req} {x : Req} : (l ++ [x])[l.length]? = some x := by simp

theorem inv_call_lead {ids s} {t id : Nat} (hi : Inv ids s) (hc : s.callers[t]? = some (.start id))
    (hq : ∀ r, (id, r) ∉ s.queue) :
    Inv ids { setC s t (.upstream s.reqs.length) with
                queue := (id, s.reqs.length) :: s.queue, reqs := s.reqs ++ [{ id }] } := by
  have hlt := lt_of_getElem? hc
  constructor
  case len =>
    have hf := hi.len
    simp only [setC, List.length_set, List.getElem?_set, List.mem_cons, Prod.mk.injEq, List.length_append]
    first | assumption | grind [C.req, C.lead]
  case startid =>
    have hf := hi.startid
    simp only [setC, List.length_set, List.getElem?_set, List.mem_cons, Prod.mk.injEq, List.length_append]
    first | assumption | grind [C.req, C.lead]
  case ownid =>
    have hf := hi.ownid
    simp only [setC, List.length_set, List.getElem?_set, List.mem_cons, Prod.mk.injEq, List.length_append]
    intro t' c' r' h' hr'
    by_cases htt : t = t'
    · subst htt
      simp [hlt] at h'
      subst h'
      simp [C.req] at hr'
      subst hr'
      exact ⟨_, append_new, hi.startid t id hc⟩
    · simp only [htt, if_false] at h'
      obtain ⟨q, h1, h2⟩ := hf t' c' r' h' hr'
      exact ⟨q, append_old h1, h2⟩
  case qkeys =>
    have hf := hi.qkeys
    simp only [setC, List.length_set, List.getElem?_set, List.mem_cons, Prod.mk.injEq, List.length_append]
    first | assumption | grind [C.req, C.lead]
  case qreq =>
    have hf := hi.qreq
    simp only [setC, List.length_set, List.getElem?_set, List.mem_cons, Prod.mk.injEq, List.length_append]
    intro id' r' h
    rcases h with ⟨rfl, rfl⟩ | hm
    · exact ⟨_, append_new, rfl⟩
    · obtain ⟨q, h1, h2⟩ := hf id' r' hm
      exact ⟨q, append_old h1, h2⟩
  case qlive =>
    have hf := hi.qlive
    simp only [setC, List.length_set, List.getElem?_set, List.mem_cons, Prod.mk.injEq, List.length_append]
    first | assumption | grind [C.req, C.lead]
  case liveq =>
    have hf := hi.liveq
    simp only [setC, List.length_set, List.getElem?_set, List.mem_cons, Prod.mk.injEq, List.length_append]
    intro t' c' r' h' hr'
    by_cases htt : t = t'
    · subst htt
      simp [hlt] at h'
      subst h'
      simp [C.lead] at hr'
      subst hr'
      exact ⟨_, append_new, .inl ⟨rfl, rfl⟩⟩
    · simp only [htt, if_false] at h'
      obtain ⟨q, h1, h2⟩ := hf t' c' r' h' hr'
      exact ⟨q, append_old h1, .inr h2⟩
  case liveuniq =>
    have hf := hi.liveuniq
    have hlq := hi.liveq
    simp only [setC, List.length_set, List.getElem?_set, List.mem_cons, Prod.mk.injEq, List.length_append]
    first | assumption | grind [C.req, C.lead]
  case histlt =>
    have hf := hi.histlt
    simp only [setC, List.length_set, List.getElem?_set, List.mem_cons, Prod.mk.injEq, List.length_append]
    first | assumption | grind [C.req, C.lead]
  case histnoup =>
    have hf := hi.histnoup
    have hlq := hi.histlt
    simp only [setC, List.length_set, List.getElem?_set, List.mem_cons, Prod.mk.injEq, List.length_append]
    first | assumption | grind [C.req, C.lead]
  case histuniq =>
    have hf := hi.histuniq
    simp only [setC, List.length_set, List.getElem?_set, List.mem_cons, Prod.mk.injEq, List.length_append]
    first | assumption | grind [C.req, C.lead]
  case upnotdone =>
    have hf := hi.upnotdone
    simp only [setC, List.length_set, List.getElem?_set, List.mem_cons, Prod.mk.injEq, List.length_append]
    intro t' r' h'
    by_cases htt : t = t'
    · subst htt
      simp [hlt] at h'
      subst h'
      exact ⟨_, append_new, rfl⟩
    · simp only [htt, if_false] at h'
      obtain ⟨q, h1, h2⟩ := hf t' r' h'
      exact ⟨q, append_old h1, h2⟩
  case gothist =>
    have hf := hi.gothist
    simp only [setC, List.length_set, List.getElem?_set, List.mem_cons, Prod.mk.injEq, List.length_append]
    first | assumption | grind [C.req, C.lead]
  case pubdone =>
    have hf := hi.pubdone
    simp only [setC, List.length_set, List.getElem?_set, List.mem_cons, Prod.mk.injEq, List.length_append]
    first | assumption | grind [C.req, C.lead]
  case donehist =>
    have hf := hi.donehist
    simp only [setC, List.length_set, List.getElem?_set, List.mem_cons, Prod.mk.injEq, List.length_append]
    first | assumption | grind [C.req, C.lead]
  case retdone =>
    have hf := hi.retdone
    simp only [setC, List.length_set, List.getElem?_set, List.mem_cons, Prod.mk.injEq, List.length_append]
    first | assumption | grind [C.req, C.lead]
  case notdone =>
    have hf := hi.notdone
    simp only [setC, List.length_set, List.getElem?_set, List.mem_cons, Prod.mk.injEq, List.length_append]
    first | assumption | grind [C.req, C.lead]

theorem inv_step {ids s s'} {e : Ev} (hi : Inv ids s) (h : step s e = some s') : Inv ids s' := by
  cases e with
  | call t =>
    obtain ⟨id, hc, ⟨r, hr, rfl⟩ | ⟨hn, rfl⟩⟩ := step_call_inv h
    · exact inv_call_follow hi hc (mem_of_lookup hr)
    · exact inv_call_lead hi hc (not_mem_of_lookup hn)
  | upRet t v => exact inv_upRet hi h
  | markDone t =>
    obtain ⟨r, v, hc, rfl⟩ := step_markDone_inv h
    exact inv_markDone hi hc
  | delete t =>
    obtain ⟨r, v, hc, rfl⟩ := step_delete_inv h
    exact inv_delete hi hc
  | wake t =>
    obtain ⟨r, q, hc, hq, hd, rfl⟩ := step_wake_inv h
    exact inv_wake hi hc hq hd

theorem inv_reachable {ids s} (h : Reachable (St.init ids) s) : Inv ids s := by
  induction h with
  | refl => exact inv_init ids
  | step e _ hs ih => exact inv_step ih hs

/-! ## (a) result -/

/-- a caller that returned `v` using request `r` got exactly the value the (unique) upstream call made
    for request `r` returned; the request was created for the caller's own ID `ids[t]`; and that value
    is the one published in the request -/
theorem returned_value_is_upstream (ids : List Nat) (s : St) (h : Reachable (St.init ids) s)
    (t v r : Nat) (ht : s.callers[t]? = some (.returned v r)) :
    (r, v) ∈ s.upHist ∧ ∃ q, s.reqs[r]? = some q ∧ ids[t]? = some q.id ∧ q.id = ids.getD t 0 ∧
      q.done = true ∧ q.val = v := by
  have hi := inv_reachable h
  obtain ⟨q, hq, hd, hv⟩ := hi.retdone t r v ht
  obtain ⟨q', hq', hid⟩ := hi.ownid t _ r ht rfl
  have : q' = q := by simpa [hq] using hq'.symm
  subst this
  refine ⟨hv ▸ hi.donehist r q' hq hd, q', hq, hid, ?_, hd, hv⟩
  simp [List.getD, hid]

/-- exactly one upstream return per request -/
theorem one_upstream_per_request (ids : List Nat) (s : St) (h : Reachable (St.init ids) s)
    (r v v' : Nat) (h1 : (r, v) ∈ s.upHist) (h2 : (r, v') ∈ s.upHist) : v = v' :=
  (inv_reachable h).histuniq r v v' h1 h2

/-- every upstream return belongs to a registered request -/
theorem upstream_for_registered (ids : List Nat) (s : St) (h : Reachable (St.init ids) s)
    (r v : Nat) (h1 : (r, v) ∈ s.upHist) : r < s.reqs.length :=
  (inv_reachable h).histlt r v h1

/-! ## (b) single flight -/

theorem single_flight (ids : List Nat) (s : St) (h : Reachable (St.init ids) s) (t1 t2 r1 r2 : Nat)
    (h1 : s.callers[t1]? = some (.upstream r1)) (h2 : s.callers[t2]? = some (.upstream r2))
    (hid : (s.reqs.getD r1 ⟨0, false, 0⟩).id = (s.reqs.getD r2 ⟨0, false, 0⟩).id) : t1 = t2 := by
  have hi := inv_reachable h
  obtain ⟨q1, hq1, hm1⟩ := hi.liveq t1 _ r1 h1 rfl
  obtain ⟨q2, hq2, hm2⟩ := hi.liveq t2 _ r2 h2 rfl
  simp only [List.getD, hq1, hq2, Option.getD_some] at hid
  rw [hid] at hm1
  have := hi.qkeys _ _ _ hm1 hm2
  subst this
  exact hi.liveuniq t1 t2 _ _ r1 h1 h2 rfl rfl

/-- stronger form: at most one caller at a time is between registration and delete for an ID
    (upstream call in flight, or result not yet published / entry not yet deleted) -/
theorem single_leader (ids : List Nat) (s : St) (h : Reachable (St.init ids) s) (t1 t2 r1 r2 : Nat) (c1 c2 : C)
    (h1 : s.callers[t1]? = some c1) (h2 : s.callers[t2]? = some c2)
    (hl1 : c1.lead = some r1) (hl2 : c2.lead = some r2)
    (hid : (s.reqs.getD r1 ⟨0, false, 0⟩).id = (s.reqs.getD r2 ⟨0, false, 0⟩).id) : t1 = t2 ∧ r1 = r2 := by
  have hi := inv_reachable h
  obtain ⟨q1, hq1, hm1⟩ := hi.liveq t1 _ r1 h1 hl1
  obtain ⟨q2, hq2, hm2⟩ := hi.liveq t2 _ r2 h2 hl2
  simp only [List.getD, hq1, hq2, Option.getD_some] at hid
  rw [hid] at hm1
  have := hi.qkeys _ _ _ hm1 hm2
  subst this
  exact ⟨hi.liveuniq t1 t2 _ _ r1 h1 h2 hl1 hl2, rfl⟩

/-! ## (c) no reuse after return -/

/-- every entry of the `requests` map points at a request with that ID whose leader is still between
    registration and delete -/
theorem queue_entry_has_live_leader (ids : List Nat) (s : St) (h : Reachable (St.init ids) s) (id r : Nat)
    (hl : s.queue.lookup id = some r) :
    (∃ q, s.reqs[r]? = some q ∧ q.id = id) ∧
    ∃ tl : Nat, s.callers[tl]? = some (C.upstream r) ∨ (∃ v, s.callers[tl]? = some (C.got r v)) ∨
      (∃ v, s.callers[tl]? = some (C.published r v)) := by
  have hi := inv_reachable h
  have hm := mem_of_lookup hl
  refine ⟨hi.qreq id r hm, ?_⟩
  obtain ⟨tl, c, hc, hlead⟩ := hi.qlive id r hm
  refine ⟨tl, ?_⟩
  cases c <;> simp [C.lead] at hlead <;> subst hlead
  · exact .inl hc
  · exact .inr (.inl ⟨_, hc⟩)
  · exact .inr (.inr ⟨_, hc⟩)

/-- a caller becomes a follower only of a request whose leader (another caller) is still between
    registration and delete, i.e. the request is in flight during the caller's own call -/
theorem no_join_after_delete (ids : List Nat) (s : St) (h : Reachable (St.init ids) s) (t r : Nat) (s' : St)
    (hs : step s (.call t) = some s') (hf : s'.callers[t]? = some (.follower r)) :
    ∃ tl : Nat, tl ≠ t ∧ (s.callers[tl]? = some (C.upstream r) ∨ (∃ v, s.callers[tl]? = some (C.got r v)) ∨
      (∃ v, s.callers[tl]? = some (C.published r v))) := by
  obtain ⟨id, hc, ⟨r', hr, rfl⟩ | ⟨hn, rfl⟩⟩ := step_call_inv hs
  · have hlt := lt_of_getElem? hc
    simp [setC, hlt] at hf
    subst hf
    obtain ⟨_, tl, htl⟩ := queue_entry_has_live_leader ids s h id r' hr
    refine ⟨tl, ?_, htl⟩
    rintro rfl
    simp [hc] at htl
  · have hlt := lt_of_getElem? hc
    simp [setC, hlt] at hf

/-- the joined request is for the joining caller's own ID -/
theorem join_same_id (ids : List Nat) (s : St) (h : Reachable (St.init ids) s) (t id r : Nat) (s' : St)
    (hc : s.callers[t]? = some (.start id))
    (hs : step s (.call t) = some s') (hf : s'.callers[t]? = some (.follower r)) :
    ∃ q, s.reqs[r]? = some q ∧ q.id = id := by
  obtain ⟨id', hc', ⟨r', hr, rfl⟩ | ⟨hn, rfl⟩⟩ := step_call_inv hs
  · have hlt := lt_of_getElem? hc
    simp [setC, hlt] at hf
    subst hf
    have : id' = id := by simpa [hc] using hc'.symm
    subst this
    exact (queue_entry_has_live_leader ids s h id' r' hr).1
  · have hlt := lt_of_getElem? hc
    simp [setC, hlt] at hf

/-- the unconditional `delete(q.requests, id)` removes exactly the leader's own entry: it cannot remove a
    newer request for the same ID -/
theorem delete_removes_own (ids : List Nat) (s : St) (h : Reachable (St.init ids) s) (t r v : Nat) (s' : St)
    (hc : s.callers[t]? = some (.published r v)) (hs : step s (.delete t) = some s') :
    ∃ q, s.reqs[r]? = some q ∧ (q.id, r) ∈ s.queue ∧
      ∀ p, p ∈ s.queue → (p ∈ s'.queue ↔ p ≠ (q.id, r)) := by
  have hi := inv_reachable h
  obtain ⟨r', v', hc', rfl⟩ := step_delete_inv hs
  have : r' = r ∧ v' = v := by simpa [hc] using hc'.symm
  obtain ⟨rfl, rfl⟩ := this
  obtain ⟨q, hq, hm⟩ := hi.liveq t _ r' hc rfl
  refine ⟨q, hq, hm, ?_⟩
  rintro ⟨a, b⟩ hp
  have hk := hi.qkeys a b r' hp
  simp [List.mem_filter, List.getD, hq, hp]
  constructor
  · intro hne heq _
    exact hne heq
  · intro hne heq
    subst heq
    exact hne rfl (hk hm)

/-! ## (d) no deadlock, no lost wake-up -/

theorem call_enabled {s : St} {t id : Nat} (hc : s.callers[t]? = some (.start id)) :
    ∃ s', step s (.call t) = some s' := by
  simp only [step, hc]
  split <;> exact ⟨_, rfl⟩

/-- the upstream call can return any value -/
theorem upRet_enabled {s : St} {t r : Nat} (hc : s.callers[t]? = some (.upstream r)) (v : Nat) :
    ∃ s', step s (.upRet t v) = some s' := by
  simp only [step, hc]; exact ⟨_, rfl⟩

theorem markDone_enabled {s : St} {t r v : Nat} (hc : s.callers[t]? = some (.got r v)) :
    ∃ s', step s (.markDone t) = some s' := by
  simp only [step, hc]; exact ⟨_, rfl⟩

theorem delete_enabled {s : St} {t r v : Nat} (hc : s.callers[t]? = some (.published r v)) :
    ∃ s', step s (.delete t) = some s' := by
  simp only [step, hc]; exact ⟨_, rfl⟩

/-- no lost wake-up: a follower whose request is done can always wake, and returns the published value -/
theorem wake_enabled {s : St} {t r : Nat} {q : Req} (hc : s.callers[t]? = some (.follower r))
    (hq : s.reqs[r]? = some q) (hd : q.done = true) :
    step s (.wake t) = some (setC s t (.returned q.val r)) := by
  simp [step, hc, hq, hd]

/-- every caller that has not returned can take a step itself, or is a follower of a request that is not
    done yet and whose leader (another caller) can take a step: the upstream return (with any value) or
    `markDone` -/
theorem no_deadlock (ids : List Nat) (s : St) (h : Reachable (St.init ids) s) (t : Nat) (c : C)
    (ht : s.callers[t]? = some c) (hnr : ∀ v r, c ≠ .returned v r) :
    (∃ e s', e.caller = t ∧ step s e = some s') ∨
    (∃ r tl, c = .follower r ∧ tl ≠ t ∧
      ((s.callers[tl]? = some (.upstream r) ∧ ∀ v, ∃ s', step s (.upRet tl v) = some s') ∨
       (∃ v, s.callers[tl]? = some (.got r v) ∧ ∃ s', step s (.markDone tl) = some s'))) := by
  have hi := inv_reachable h
  cases c with
  | start id => obtain ⟨s', hs⟩ := call_enabled ht; exact .inl ⟨.call t, s', rfl, hs⟩
  | upstream r => obtain ⟨s', hs⟩ := upRet_enabled ht 0; exact .inl ⟨.upRet t 0, s', rfl, hs⟩
  | got r v => obtain ⟨s', hs⟩ := markDone_enabled ht; exact .inl ⟨.markDone t, s', rfl, hs⟩
  | published r v => obtain ⟨s', hs⟩ := delete_enabled ht; exact .inl ⟨.delete t, s', rfl, hs⟩
  | returned v r => exact absurd rfl (hnr v r)
  | follower r =>
    obtain ⟨q, hq, _⟩ := hi.ownid t _ r ht rfl
    cases hd : q.done with
    | true => exact .inl ⟨.wake t, _, rfl, wake_enabled ht hq hd⟩
    | false =>
      obtain ⟨tl, hu | ⟨v, hg⟩⟩ := hi.notdone r q hq hd
      · refine .inr ⟨r, tl, rfl, ?_, .inl ⟨hu, upRet_enabled hu⟩⟩
        rintro rfl; simp [ht] at hu
      · refine .inr ⟨r, tl, rfl, ?_, .inr ⟨v, hg, markDone_enabled hg⟩⟩
        rintro rfl; simp [ht] at hg

/-- a reachable state in which no event is enabled is a final state: every caller has returned -/
theorem stuck_only_when_all_returned (ids : List Nat) (s : St) (h : Reachable (St.init ids) s)
    (hstuck : ∀ e, step s e = none) (t : Nat) (c : C) (ht : s.callers[t]? = some c) :
    ∃ v r, c = .returned v r := by
  cases c with
  | returned v r => exact ⟨v, r, rfl⟩
  | _ =>
    exfalso
    rcases no_deadlock ids s h t _ ht (by intro v r; simp) with ⟨e, s', _, hs⟩ | ⟨r, tl, _, _, ⟨_, hs⟩ | ⟨v, _, s', hs⟩⟩
    · simp [hstuck] at hs
    · obtain ⟨s', hs⟩ := hs 0; simp [hstuck] at hs
    · simp [hstuck] at hs

/-! ## (e) termination: a measure that strictly decreases with every step -/

def C.rank : C → Nat
  | .start _ => 4
  | .upstream _ => 3
  | .got _ _ => 2
  | .published _ _ => 1
  | .follower _ => 1
  | .returned _ _ => 0

/-- the number of steps still to be taken, at most -/
def measure (s : St) : Nat := (s.callers.map C.rank).sum

theorem sum_rank_set {l : List C} {t : Nat} {c c' : C} (h : l[t]? = some c) :
    ((l.set t c').map C.rank).sum + c.rank = (l.map C.rank).sum + c'.rank := by
  induction l generalizing t with
  | nil => simp at h
  | cons a l ih =>
    cases t with
    | zero =>
      simp at h; subst h
      simp; omega
    | succ t =>
      simp at h
      have := ih h
      simp only [List.set_cons_succ, List.map_cons, List.sum_cons]; omega

theorem rank_le (c : C) : c.rank ≤ 4 := by cases c <;> simp [C.rank]

theorem measure_le (s : St) : measure s ≤ 4 * s.callers.length := by
  unfold measure
  induction s.callers with
  | nil => simp
  | cons a l ih => have := rank_le a; simp; omega

theorem measure_init (ids : List Nat) : measure (St.init ids) = 4 * ids.length := by
  unfold measure St.init
  induction ids with
  | nil => simp
  | cons a l ih => simp at ih ⊢; simp [ih, C.rank]; omega

/-- every step strictly decreases the measure -/
theorem step_measure {s s' : St} {e : Ev} (h : step s e = some s') : measure s' + 1 ≤ measure s := by
  cases e with
  | call t =>
    obtain ⟨id, hc, ⟨r, hr, rfl⟩ | ⟨hn, rfl⟩⟩ := step_call_inv h
    · have := sum_rank_set (c' := .follower r) hc
      simp [measure, setC, C.rank] at this ⊢; omega
    · have := sum_rank_set (c' := .upstream s.reqs.length) hc
      simp [measure, setC, C.rank] at this ⊢; omega
  | upRet t v =>
    obtain ⟨r, hc, rfl⟩ := step_upRet_inv h
    have := sum_rank_set (c' := .got r v) hc
    simp [measure, setC, C.rank] at this ⊢; omega
  | markDone t =>
    obtain ⟨r, v, hc, rfl⟩ := step_markDone_inv h
    have := sum_rank_set (c' := .published r v) hc
    simp [measure, setC, C.rank] at this ⊢; omega
  | delete t =>
    obtain ⟨r, v, hc, rfl⟩ := step_delete_inv h
    have := sum_rank_set (c' := .returned v r) hc
    simp [measure, setC, C.rank] at this ⊢; omega
  | wake t =>
    obtain ⟨r, q, hc, hq, hd, rfl⟩ := step_wake_inv h
    have := sum_rank_set (c' := .returned q.val r) hc
    simp [measure, setC, C.rank] at this ⊢; omega

/-- the number of events of the list that `run` actually executes (the others are not enabled and skipped) -/
def effSteps (s : St) : List Ev → Nat
  | [] => 0
  | e :: es =>
    match step s e with
    | some s' => effSteps s' es + 1
    | none => effSteps s es

theorem steps_measure (s : St) (es : List Ev) : effSteps s es + measure (run s es) ≤ measure s := by
  induction es generalizing s with
  | nil => simp [effSteps, run]
  | cons e es ih =>
    simp only [effSteps, run]
    cases hs : step s e with
    | none => simpa using ih s
    | some s' =>
      have h1 := step_measure hs
      have h2 := ih s'
      simp only [Option.getD_some]
      omega

theorem step_callers_length {s s' : St} {e : Ev} (h : step s e = some s') :
    s'.callers.length = s.callers.length := by
  cases e with
  | call t => obtain ⟨id, hc, ⟨r, hr, rfl⟩ | ⟨hn, rfl⟩⟩ := step_call_inv h <;> simp [setC]
  | upRet t v => obtain ⟨r, hc, rfl⟩ := step_upRet_inv h; simp [setC]
  | markDone t => obtain ⟨r, v, hc, rfl⟩ := step_markDone_inv h; simp [setC]
  | delete t => obtain ⟨r, v, hc, rfl⟩ := step_delete_inv h; simp [setC]
  | wake t => obtain ⟨r, q, hc, hq, hd, rfl⟩ := step_wake_inv h; simp [setC]

/-- any event list executed by `run`, from any state, performs at most `4 * callers.length` effective steps -/
theorem steps_bounded (s : St) (es : List Ev) : effSteps s es ≤ 4 * s.callers.length := by
  have := steps_measure s es
  have := measure_le s
  omega

/-- from the initial state: at most four steps per caller, whatever the interleaving and the upstream results -/
theorem steps_bounded_init (ids : List Nat) (es : List Ev) : effSteps (St.init ids) es ≤ 4 * ids.length := by
  have := steps_measure (St.init ids) es
  rw [measure_init] at this
  omega

theorem run_reachable {s0 s : St} (h : Reachable s0 s) (es : List Ev) : Reachable s0 (run s es) := by
  induction es generalizing s with
  | nil => exact h
  | cons e es ih =>
    simp only [run]
    cases hs : step s e with
    | none => simpa using ih h
    | some s' => simpa using ih (Reachable.step e h hs)

/-- measure zero means everybody returned -/
theorem all_returned_of_measure_zero {s : St} (h : measure s = 0) (t : Nat) (c : C)
    (ht : s.callers[t]? = some c) : ∃ v r, c = .returned v r := by
  have := sum_rank_set (c' := .returned 0 0) ht
  have h0 : (C.returned 0 0).rank = 0 := rfl
  have hc : c.rank = 0 := by unfold measure at h; omega
  cases c <;> simp [C.rank] at hc
  exact ⟨_, _, rfl⟩

/-- termination: after a run from the initial state that executed `4 * ids.length` effective steps nothing is left
    to do: every caller has returned. Together with `no_deadlock` (some event is enabled as long as somebody has
    not returned, the only environment obligation being that upstream calls return) every fair run ends with
    everybody returned after at most `4 * ids.length` steps. -/
theorem all_returned_after_max_steps (ids : List Nat) (es : List Ev)
    (h : effSteps (St.init ids) es = 4 * ids.length) (t : Nat) (c : C)
    (ht : (run (St.init ids) es).callers[t]? = some c) : ∃ v r, c = .returned v r := by
  have := steps_measure (St.init ids) es
  rw [measure_init] at this
  exact all_returned_of_measure_zero (by omega) t c ht

end Desync.Dedup
