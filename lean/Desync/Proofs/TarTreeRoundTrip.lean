/-
  (6) An arbitrarily nested directory tree (directories, regular files, symlinks, device nodes,
  xattrs everywhere) written by `tarStream` is read back by `untar`.
-/
import Desync.Proofs.TarFlatRoundTrip

namespace Desync

/-! ### statement vocabulary -/

/-- a directory tree whose nodes carry the `FileRec` the filesystem reader produces for them -/
inductive Tree
  | leaf (f : FileRec)                       -- regular file, symlink or device node
  | dir (f : FileRec) (children : List Tree)

/-- the record at the top of a tree -/
def Tree.hd : Tree → FileRec
  | .leaf f => f
  | .dir f _ => f

mutual
/-- pre-order record stream (what a sorted directory walk produces) -/
def Tree.records : Tree → List FileRec
  | .leaf f => [f]
  | .dir f cs => f :: Tree.recordsList cs
def Tree.recordsList : List Tree → List FileRec
  | [] => []
  | t :: ts => t.records ++ Tree.recordsList ts
end

/-- the records below the top of a tree -/
def Tree.sub : Tree → List FileRec
  | .leaf _ => []
  | .dir _ cs => Tree.recordsList cs

/-- the node a leaf record unpacks to inside the directory the decoder calls `d` -/
def leafNodeAt (d : Bytes) (f : FileRec) : Node :=
  match f.kind with
  | .reg => .file (joinPath d f.base) ⟨f.uid, f.gid, f.mode, f.mtime, f.xattrs⟩ f.size f.data
  | .symlink => .symlink (joinPath d f.base) ⟨f.uid, f.gid, f.mode, f.mtime, f.xattrs⟩ f.target
  | .device => .device (joinPath d f.base) ⟨f.uid, f.gid, f.mode, f.mtime, f.xattrs⟩ f.major f.minor
  | _ => .dir (joinPath d f.base) ⟨f.uid, f.gid, f.mode, f.mtime, f.xattrs⟩   -- not used

mutual
/-- the nodes `untar` hands to the filesystem writer for a tree that sits in the directory the
    decoder calls `d` ("." for the children of the root) -/
def Tree.nodes (d : Bytes) : Tree → List Node
  | .leaf f => [leafNodeAt d f]
  | .dir f cs =>
    .dir (joinPath d f.base) ⟨f.uid, f.gid, f.mode, f.mtime, f.xattrs⟩ ::
      Tree.nodesList (joinPath d f.base) cs
def Tree.nodesList (d : Bytes) : List Tree → List Node
  | [] => []
  | t :: ts => t.nodes d ++ Tree.nodesList d ts
end

/-- well-formed leaf in the directory whose `path` is `p` (this is `LeafOK` with the parent's path
    given directly) -/
def LeafWF (p : Bytes) (f : FileRec) : Prop :=
  (f.kind = .reg ∨ f.kind = .symlink ∨ f.kind = .device) ∧ f.parent = p ∧
  validName f.base = true ∧ 16 + f.base.length + 1 < 2^64 ∧
  (f.kind = .reg → f.size = u64len f.data ∧ f.data.length < 2^63) ∧
  (f.kind = .symlink → 16 + f.target.length + 1 < 2^64) ∧
  XattrsOK f.xattrs

mutual
/-- well-formedness of a (non-root) tree inside the directory whose `path` is `p`; `anc` lists the
    `path`s of all enclosing directories (`p` included).
    * every record's `parent` is the enclosing directory's `path`;
    * a directory's `path` differs from the `path` of each of its proper ancestors (this is what the
      encoder's grouping test `f.parent ≠ dir` needs);
    * names are single valid components, sizes are in range, xattrs are `XattrsOK`;
    * the goodbye table's size field does not wrap. -/
def Tree.WF (p : Bytes) (anc : List Bytes) : Tree → Prop
  | .leaf f => LeafWF p f
  | .dir f cs =>
    f.kind = .dir ∧ f.parent = p ∧ f.path ∉ anc ∧
    validName f.base = true ∧ 16 + f.base.length + 1 < 2^64 ∧ XattrsOK f.xattrs ∧
    16 + (cs.length + 1) * 24 < 2^64 ∧ Tree.WFList f.path (f.path :: anc) cs
def Tree.WFList (p : Bytes) (anc : List Bytes) : List Tree → Prop
  | [] => True
  | t :: ts => t.WF p anc ∧ Tree.WFList p anc ts
end

/-! ### closed form of the encoder's output -/

/-- the goodbye table `tarOne` builds from the children's items (offsets still counted from the
    start of the directory's entry) once `n` bytes have been written for the directory -/
def mkTable (n : Nat) (items : List GoodbyeItem) : List GoodbyeItem :=
  let bst := (makeGoodbyeBST (items.map fun (it : GoodbyeItem) =>
    { it with offset := UInt64.ofNat n - it.offset })).getD []
  bst ++ [⟨UInt64.ofNat n, UInt64.ofNat (16 + bst.length * 24 + 24), Gen.CaFormatGoodbyeTailMarker⟩]

mutual
/-- the bytes `tarOne` writes for a tree: entry, xattrs, then payload | symlink | device, or the
    children followed by the goodbye table -/
def Tree.body : Tree → Bytes
  | .leaf f => leafBody f
  | .dir f cs =>
    encElem (entryElem f) ++ (encXattrs f.xattrs ++ (Tree.bodies cs ++
      encElem (goodbyeElem (mkTable
        ((encElem (entryElem f) ++ encXattrs f.xattrs).length + (Tree.bodies cs).length)
        (Tree.items (encElem (entryElem f) ++ encXattrs f.xattrs).length cs)))))
/-- the bytes written for the children of one directory, each announced by its filename element -/
def Tree.bodies : List Tree → Bytes
  | [] => []
  | t :: ts => encElem (fnameElem t.hd) ++ (t.body ++ Tree.bodies ts)
/-- the goodbye items the child loop collects; `n` = bytes written so far for the directory -/
def Tree.items : Nat → List Tree → List GoodbyeItem
  | _, [] => []
  | n, t :: ts =>
    ⟨UInt64.ofNat n, UInt64.ofNat ((encElem (fnameElem t.hd)).length + t.body.length),
      sipHashName t.hd.base⟩ ::
      Tree.items (n + ((encElem (fnameElem t.hd)).length + t.body.length)) ts
end

/-- the goodbye table of the directory `f` with children `cs` -/
def Tree.table (f : FileRec) (cs : List Tree) : List GoodbyeItem :=
  mkTable ((encElem (entryElem f) ++ encXattrs f.xattrs).length + (Tree.bodies cs).length)
    (Tree.items (encElem (entryElem f) ++ encXattrs f.xattrs).length cs)

theorem Tree.body_dir (f : FileRec) (cs : List Tree) :
    (Tree.dir f cs).body = encElem (entryElem f) ++ (encXattrs f.xattrs ++ (Tree.bodies cs ++
      encElem (goodbyeElem (Tree.table f cs)))) := by
  simp only [Tree.body, Tree.table]

/-! ### simple facts about the definitions -/

theorem Tree.records_eq (t : Tree) : t.records = t.hd :: t.sub := by
  cases t <;> simp [Tree.records, Tree.hd, Tree.sub]

theorem Tree.recordsList_eq_flatMap (cs : List Tree) :
    Tree.recordsList cs = cs.flatMap Tree.records := by
  induction cs with
  | nil => simp [Tree.recordsList]
  | cons t ts ih => simp [Tree.recordsList, ih]

theorem Tree.nodesList_eq_flatMap (d : Bytes) (cs : List Tree) :
    Tree.nodesList d cs = cs.flatMap (Tree.nodes d) := by
  induction cs with
  | nil => simp [Tree.nodesList]
  | cons t ts ih => simp [Tree.nodesList, ih]

/-- in the root directory `leafNodeAt` is the flat theorem's `leafNode` -/
theorem leafNodeAt_dot (f : FileRec) (h : f.base ≠ []) : leafNodeAt [dot] f = leafNode f := by
  unfold leafNodeAt leafNode
  cases f.kind <;> simp [joinPath, h]

theorem Tree.items_length (cs : List Tree) : ∀ n, (Tree.items n cs).length = cs.length := by
  induction cs with
  | nil => intro n; simp [Tree.items]
  | cons t ts ih => intro n; simp [Tree.items, ih]

theorem Tree.body_length_ge (t : Tree) : t.hd.xattrs.length + 64 ≤ t.body.length := by
  cases t with
  | leaf f => simpa [Tree.hd, Tree.body] using leafBody_length_ge f
  | dir f cs =>
    have := encXattrs_length_ge f.xattrs
    simp only [Tree.hd, Tree.body, List.length_append, (entryElem_size f).1]
    omega

mutual
theorem Tree.records_length_le : (t : Tree) → t.records.length ≤ t.body.length
  | .leaf f => by
    have := leafBody_length_ge f
    simp only [Tree.records, Tree.body, List.length_cons, List.length_nil]; omega
  | .dir f cs => by
    have := Tree.recordsList_length_le cs
    simp only [Tree.records, Tree.body, List.length_cons, List.length_append, (entryElem_size f).1]
    omega
theorem Tree.recordsList_length_le :
    (ts : List Tree) → (Tree.recordsList ts).length ≤ (Tree.bodies ts).length
  | [] => by simp [Tree.recordsList, Tree.bodies]
  | t :: ts => by
    have := Tree.records_length_le t
    have := Tree.recordsList_length_le ts
    simp only [Tree.recordsList, Tree.bodies, List.length_append]; omega
end

mutual
theorem Tree.nodes_length : (d : Bytes) → (t : Tree) → (t.nodes d).length = t.records.length
  | d, .leaf f => by simp [Tree.nodes, Tree.records]
  | d, .dir f cs => by
    have := Tree.nodesList_length (joinPath d f.base) cs
    simp [Tree.nodes, Tree.records, this]
theorem Tree.nodesList_length :
    (d : Bytes) → (ts : List Tree) → (Tree.nodesList d ts).length = (Tree.recordsList ts).length
  | _, [] => by simp [Tree.nodesList, Tree.recordsList]
  | d, t :: ts => by
    have := Tree.nodes_length d t
    have := Tree.nodesList_length d ts
    simp [Tree.nodesList, Tree.recordsList, *]
end

theorem Tree.WF.hd_kind {p : Bytes} {anc : List Bytes} {t : Tree} (h : t.WF p anc) :
    t.hd.kind ≠ .other ∧ t.hd.parent = p := by
  cases t with
  | leaf f =>
    simp only [Tree.WF, LeafWF] at h
    refine ⟨?_, h.2.1⟩
    rcases h.1 with h | h | h <;> simp [Tree.hd, h]
  | dir f cs =>
    simp only [Tree.WF] at h
    exact ⟨by simp [Tree.hd, h.1], h.2.1⟩

theorem Tree.WF.hd_name {p : Bytes} {anc : List Bytes} {t : Tree} (h : t.WF p anc) :
    validName t.hd.base = true ∧ 16 + t.hd.base.length + 1 < 2^64 := by
  cases t with
  | leaf f =>
    simp only [Tree.WF, LeafWF] at h
    exact ⟨h.2.2.1, h.2.2.2.1⟩
  | dir f cs =>
    simp only [Tree.WF] at h
    exact ⟨h.2.2.2.1, h.2.2.2.2.1⟩

/-! ### the encoder side -/

/-- what may follow a subtree in the record stream: nothing, or a record whose `parent` is the
    `path` of one of the enclosing directories -/
def ContOK (anc : List Bytes) (K : List FileRec) : Prop :=
  ∀ g, K.head? = some g → g.parent ∈ anc

theorem ContOK.cons_children {dir : Bytes} {anc : List Bytes} {ts : List Tree} {K : List FileRec}
    (hts : Tree.WFList dir (dir :: anc) ts) (hK : ContOK anc K) :
    ContOK (dir :: anc) (Tree.recordsList ts ++ K) := by
  intro g hg
  cases ts with
  | nil =>
    simp only [Tree.recordsList, List.nil_append] at hg
    exact List.mem_cons_of_mem _ (hK g hg)
  | cons t ts =>
    simp only [Tree.WFList] at hts
    simp only [Tree.recordsList, Tree.records_eq, List.cons_append, List.head?_cons,
      Option.some.injEq] at hg
    subst hg
    rw [hts.1.hd_kind.2]
    exact List.mem_cons_self

/-- a directory record, given what the child loop does -/
theorem tarOne_dir_of_children (fuel : Nat) (f : FileRec) (cs : List Tree) (K : List FileRec)
    (hk : f.kind = .dir)
    (hch : tarChildren fuel f.path (Tree.recordsList cs ++ K)
        (encElem (entryElem f) ++ encXattrs f.xattrs).length []
      = some (Tree.bodies cs,
          [] ++ Tree.items (encElem (entryElem f) ++ encXattrs f.xattrs).length cs, K)) :
    tarOne (fuel + 1) f (Tree.recordsList cs ++ K) = some ((Tree.dir f cs).body, K) := by
  rw [List.nil_append] at hch
  generalize hmap : (Tree.items (encElem (entryElem f) ++ encXattrs f.xattrs).length cs).map
    (fun (it : GoodbyeItem) =>
      ({ it with offset := UInt64.ofNat ((encElem (entryElem f) ++ encXattrs f.xattrs).length +
        (Tree.bodies cs).length) - it.offset } : GoodbyeItem)) = mapped
  cases hb : makeGoodbyeBST mapped with
  | none => have := makeGoodbyeBST_isSome mapped; rw [hb] at this; cases this
  | some bst =>
    rw [tarOne]
    simp only [hk, reduceCtorEq, ↓reduceIte, hch, hmap, hb, Tree.body, mkTable,
      Option.getD_some, goodbyeElem, List.append_assoc]

/-- `tarOne` on the top record of a tree consumes exactly the subtree's records and writes
    `Tree.body`; `tarChildren` does the same for a list of siblings -/
theorem tar_tree_aux (fuel : Nat) :
    (∀ (t : Tree) (p : Bytes) (anc : List Bytes) (K : List FileRec),
      t.WF p anc → ContOK anc K → 2 * t.records.length ≤ fuel →
        tarOne fuel t.hd (t.sub ++ K) = some (t.body, K)) ∧
    (∀ (ts : List Tree) (dir : Bytes) (anc : List Bytes) (K : List FileRec) (n : Nat)
      (items : List GoodbyeItem),
      Tree.WFList dir (dir :: anc) ts → dir ∉ anc → ContOK anc K →
      2 * (Tree.recordsList ts).length + 1 ≤ fuel →
        tarChildren fuel dir (Tree.recordsList ts ++ K) n items
          = some (Tree.bodies ts, items ++ Tree.items n ts, K)) := by
  induction fuel with
  | zero =>
    refine ⟨?_, ?_⟩
    · intro t p anc K _ _ hf
      rw [Tree.records_eq] at hf
      simp at hf
    · intro ts dir anc K n items _ _ _ hf
      omega
  | succ fuel ih =>
    obtain ⟨ih1, ih2⟩ := ih
    refine ⟨?_, ?_⟩
    · intro t p anc K hwf hK hf
      cases t with
      | leaf f =>
        simp only [Tree.WF, LeafWF] at hwf
        simp only [Tree.hd, Tree.sub, List.nil_append, Tree.body]
        exact tarOne_leaf fuel f K hwf.1 hwf.2.2.2.2.1
      | dir f cs =>
        simp only [Tree.WF] at hwf
        obtain ⟨hk, _, hna, _, _, _, _, hcs⟩ := hwf
        simp only [Tree.hd, Tree.sub]
        exact tarOne_dir_of_children fuel f cs K hk
          (ih2 cs f.path anc K (encElem (entryElem f) ++ encXattrs f.xattrs).length []
            hcs hna hK (by simp only [Tree.records, List.length_cons] at hf; omega))
    · intro ts dir anc K n items hts hdir hK hf
      cases ts with
      | nil =>
        simp only [Tree.recordsList, List.nil_append, Tree.bodies, Tree.items, List.append_nil]
        cases K with
        | nil => simp [tarChildren]
        | cons g K =>
          have hne : g.parent ≠ dir := by
            intro h
            exact hdir (h ▸ hK g rfl)
          rw [tarChildren]
          simp [hne]
      | cons t ts =>
        simp only [Tree.WFList] at hts
        obtain ⟨ht, hts⟩ := hts
        obtain ⟨hno, hpar⟩ := ht.hd_kind
        have hlen : (Tree.recordsList (t :: ts)).length
            = t.records.length + (Tree.recordsList ts).length := by
          simp [Tree.recordsList]
        have h1 := ih1 t dir (dir :: anc) (Tree.recordsList ts ++ K) ht
          (ContOK.cons_children hts hK) (by omega)
        have h2 := ih2 ts dir anc K
          (n + ((encElem (fnameElem t.hd)).length + t.body.length))
          (items ++ [⟨UInt64.ofNat n,
            UInt64.ofNat ((encElem (fnameElem t.hd)).length + t.body.length),
            sipHashName t.hd.base⟩]) hts hdir hK
          (by have := t.records_eq; have : 1 ≤ t.records.length := by rw [this]; simp
              omega)
        have hstream : Tree.recordsList (t :: ts) ++ K
            = t.hd :: (t.sub ++ (Tree.recordsList ts ++ K)) := by
          simp [Tree.recordsList, Tree.records_eq]
        rw [hstream, tarChildren]
        simp only [fnameElem] at h2
        simp only [hpar, ne_eq, not_true_eq_false, ↓reduceIte, hno, h1, h2, Tree.bodies, Tree.items,
          fnameElem, List.append_assoc, List.singleton_append]

/-- the encoder half: the archive of a tree is `Tree.body` of the tree -/
theorem tarStream_tree (r : FileRec) (cs : List Tree) (hrk : r.kind = .dir)
    (hcs : Tree.WFList r.path [r.path] cs) :
    tarStream (Tree.dir r cs).records = some (Tree.dir r cs).body := by
  have hch := (tar_tree_aux (2 * (Tree.recordsList cs).length + 3)).2 cs r.path [] []
    (encElem (entryElem r) ++ encXattrs r.xattrs).length [] hcs (by simp)
    (by intro g hg; cases hg) (by omega)
  have h := tarOne_dir_of_children _ r cs [] hrk hch
  rw [List.append_nil] at h
  simp only [Tree.records, tarStream, List.length_cons]
  rw [show 2 * ((Tree.recordsList cs).length + 1) + 2 = 2 * (Tree.recordsList cs).length + 3 + 1 by omega, h]
  rfl

/-! ### paths -/

theorem tt_validName_no_slash {n : Bytes} (h : validName n = true) : slash ∉ n := by
  unfold validName at h
  simp at h
  exact h.1.2

theorem tt_dropWhile_append_all {α} (q : α → Bool) (l₁ l₂ : List α) (h : ∀ x ∈ l₁, q x = true) :
    (l₁ ++ l₂).dropWhile q = l₂.dropWhile q := by
  induction l₁ with
  | nil => rfl
  | cons a r ih =>
    have ha := h a (by simp)
    simp only [List.cons_append, List.dropWhile_cons, ha, ↓reduceIte]
    exact ih (fun x hx => h x (by simp [hx]))

theorem tt_dirOf_no_slash {c : Bytes} (h : slash ∉ c) : dirOf c = [dot] := by
  unfold dirOf
  have := tt_dropWhile_append_all (fun x => decide (x ≠ slash)) c.reverse [] (by
    intro x hx
    have : x ≠ slash := by
      intro hxs; subst hxs; exact h (List.mem_reverse.1 hx)
    simpa using this)
  rw [List.append_nil] at this
  rw [this]
  rfl

theorem tt_dirOf_snoc {d c : Bytes} (hd : d ≠ []) (hc : slash ∉ c) :
    dirOf (d ++ [slash] ++ c) = d := by
  unfold dirOf
  have hrev : (d ++ [slash] ++ c).reverse = c.reverse ++ (slash :: d.reverse) := by simp
  rw [hrev, tt_dropWhile_append_all]
  · have : (slash :: d.reverse).dropWhile (fun x => decide (x ≠ slash)) = slash :: d.reverse := by
      simp
    rw [this]
    simp [hd]
  · intro x hx
    have : x ≠ slash := by
      intro hxs; subst hxs; exact hc (List.mem_reverse.1 hx)
    simpa using this

/-- leaving a subdirectory brings the decoder back to the enclosing directory -/
theorem dirOf_joinPath {d n : Bytes} (hd : d ≠ []) (hn : validName n = true) :
    dirOf (joinPath d n) = d := by
  have hne := validName_ne_nil hn
  have hs := tt_validName_no_slash hn
  unfold joinPath
  rw [if_neg hne]
  split
  · rename_i h; rw [h]; exact tt_dirOf_no_slash hs
  · exact tt_dirOf_snoc hd hs

theorem joinPath_ne_nil {d n : Bytes} (hn : n ≠ []) : joinPath d n ≠ [] := by
  unfold joinPath
  rw [if_neg hn]
  split
  · exact hn
  · simp

/-! ### the goodbye table is acceptable to the decoder -/

theorem mkTable_ok (n : Nat) (items : List GoodbyeItem) (h : 16 + (items.length + 1) * 24 < 2^64) :
    TableOK (mkTable n items) := by
  generalize hmap : items.map (fun (it : GoodbyeItem) =>
    ({ it with offset := UInt64.ofNat n - it.offset } : GoodbyeItem)) = mapped
  have hml : mapped.length = items.length := by rw [← hmap]; simp
  cases hb : makeGoodbyeBST mapped with
  | none => have := makeGoodbyeBST_isSome mapped; rw [hb] at this; cases this
  | some bst =>
    have hbl := makeGoodbyeBST_length mapped bst hb
    simp only [mkTable, hmap, hb, Option.getD_some]
    refine ⟨⟨by simp, by simp⟩, ?_⟩
    simp only [List.length_append, List.length_cons, List.length_nil]
    omega

theorem Tree.table_ok (f : FileRec) (cs : List Tree) (h : 16 + (cs.length + 1) * 24 < 2^64) :
    TableOK (Tree.table f cs) :=
  mkTable_ok _ _ (by rw [Tree.items_length]; exact h)

/-! ### one child, with its filename element as look-ahead -/

/-- `archLoop_leaf` in an arbitrary directory `d` -/
theorem archLoop_leafAt (p : Bytes) (f : FileRec) (hf : LeafWF p f) (d : Bytes) (sz : UInt64)
    (t : Elem) (ht : IsTerm t)
    (R R' : Bytes) (hdt : ∀ a, ∃ a', decNext ⟨R, a⟩ = .ok (some t, ⟨R', a'⟩))
    (a F : Nat) (hF : f.xattrs.length + 4 ≤ F) (nd : Nat) :
    ∃ s', archLoop F ⟨⟨leafBody f ++ R, a⟩, d, some (.filename sz f.base), 0, nd, false⟩
              ⟨none, [], [], none, none⟩ = .ok (some (leafNodeAt d f), s') ∧
      ((∃ a', s' = ⟨⟨R, a'⟩, d, none, 0, nd + 1, false⟩) ∨
       (∃ a', s' = ⟨⟨R', a'⟩, d, some t, 0, nd + 1, false⟩)) := by
  obtain ⟨hkind, _, hname, _, hreg, hsym, hxa, hnd⟩ := hf
  have hne := validName_ne_nil hname
  have hfold : xattrFold [] f.xattrs = f.xattrs := by
    simpa using xattrFold_nodup [] f.xattrs (by simpa using hnd)
  rcases hkind with hk | hk | hk
  · -- regular file
    obtain ⟨hsz, hdata⟩ := hreg hk
    obtain ⟨h1, h2⟩ := payload_size_facts f.data hdata
    obtain ⟨k, rfl⟩ : ∃ k, F = k + 1 + f.xattrs.length + 1 + 1 :=
      ⟨F - (f.xattrs.length + 3), by omega⟩
    have hbody : leafBody f ++ R
        = encElem (.entry 64 Gen.TarFeatureFlags f.mode 0 f.uid f.gid f.mtime) ++
            (encXattrs f.xattrs ++ (encElem (.payload (16 + f.size)) ++ (f.data ++ R))) := by
      simp only [leafBody, leafTail, hk, entryElem, List.append_assoc]
    obtain ⟨a', hx⟩ := archLoop_xattrs f.xattrs hxa (k + 1)
      (encElem (.payload (16 + f.size)) ++ (f.data ++ R)) d 0
      (f.mode, f.uid, f.gid, f.mtime) f.base none none a [] nd false
    have hd2 := decNext_payload_enc (16 + f.size) (f.data ++ R) a'
      (by rw [hsz, h1]; omega) (by rw [hsz, h1]; omega)
    have hp : takePayload ((16 + f.size).toNat - 16) ⟨f.data ++ R, a'⟩ = .ok (f.data, ⟨R, a'⟩) := by
      rw [hsz, h1, Nat.add_sub_cancel_left]
      exact takePayload_append _ _ _
    refine ⟨_, ?_, Or.inl ⟨a', rfl⟩⟩
    rw [hbody, archLoop_last_filename (hn := hname),
      archLoop_entry (hd := decNext_entry_enc ..), hx, archLoop_payload (hnm := hne) (hd := hd2) (ht := hp)]
    simp [leafNodeAt, hk, Pending.meta, hfold, hsz, h2]
  · -- symlink
    have hts := hsym hk
    obtain ⟨k, rfl⟩ : ∃ k, F = k + 1 + 1 + f.xattrs.length + 1 + 1 :=
      ⟨F - (f.xattrs.length + 4), by omega⟩
    have hbody : leafBody f ++ R
        = encElem (.entry 64 Gen.TarFeatureFlags f.mode 0 f.uid f.gid f.mtime) ++
            (encXattrs f.xattrs ++
              (encElem (.symlink (UInt64.ofNat (16 + f.target.length + 1)) f.target) ++ R)) := by
      simp only [leafBody, leafTail, hk, entryElem, List.append_assoc]
    obtain ⟨a', hx⟩ := archLoop_xattrs f.xattrs hxa (k + 1 + 1)
      (encElem (.symlink (UInt64.ofNat (16 + f.target.length + 1)) f.target) ++ R) d 0
      (f.mode, f.uid, f.gid, f.mtime) f.base none none a [] nd false
    have hd2 := decNext_symlink_enc f.target R a' hts
    obtain ⟨a'', hd3⟩ := hdt (a' + f.target.length + 1)
    refine ⟨_, ?_, Or.inr ⟨a'', rfl⟩⟩
    rw [hbody, archLoop_last_filename (hn := hname),
      archLoop_entry (hd := decNext_entry_enc ..), hx, archLoop_symlink (hd := hd2),
      archLoop_term_symlink (hnm := hne) (ht := ht) (hd := hd3)]
    simp [leafNodeAt, hk, Pending.meta, hfold]
  · -- device node
    obtain ⟨k, rfl⟩ : ∃ k, F = k + 1 + 1 + f.xattrs.length + 1 + 1 :=
      ⟨F - (f.xattrs.length + 4), by omega⟩
    have hbody : leafBody f ++ R
        = encElem (.entry 64 Gen.TarFeatureFlags f.mode 0 f.uid f.gid f.mtime) ++
            (encXattrs f.xattrs ++ (encElem (.device 32 f.major f.minor) ++ R)) := by
      simp only [leafBody, leafTail, hk, entryElem, List.append_assoc]
    obtain ⟨a', hx⟩ := archLoop_xattrs f.xattrs hxa (k + 1 + 1)
      (encElem (.device 32 f.major f.minor) ++ R) d 0
      (f.mode, f.uid, f.gid, f.mtime) f.base none none a [] nd false
    have hd2 := decNext_device_enc f.major f.minor R a'
    obtain ⟨a'', hd3⟩ := hdt a'
    refine ⟨_, ?_, Or.inr ⟨a'', rfl⟩⟩
    rw [hbody, archLoop_last_filename (hn := hname),
      archLoop_entry (hd := decNext_entry_enc ..), hx, archLoop_device (hd := hd2),
      archLoop_term_device (hnm := hne) (ht := ht) (hd := hd3)]
    simp [leafNodeAt, hk, Pending.meta, hfold]

/-- a directory child: filename (look-ahead), entry, xattrs, then the terminator `t` (the first
    grandchild's filename or the directory's goodbye table) completes the node; the decoder enters
    the directory with `t` as look-ahead -/
theorem archLoop_dirAt (f : FileRec) (hx : XattrsOK f.xattrs) (hname : validName f.base = true)
    (d : Bytes) (sz : UInt64) (t : Elem) (ht : IsTerm t)
    (R R' : Bytes) (hdt : ∀ a, ∃ a', decNext ⟨R, a⟩ = .ok (some t, ⟨R', a'⟩))
    (a F : Nat) (hF : f.xattrs.length + 3 ≤ F) (nd : Nat) :
    ∃ a', archLoop F ⟨⟨encElem (entryElem f) ++ (encXattrs f.xattrs ++ R), a⟩, d,
                some (.filename sz f.base), 0, nd, false⟩ ⟨none, [], [], none, none⟩
      = .ok (some (.dir (joinPath d f.base) ⟨f.uid, f.gid, f.mode, f.mtime, f.xattrs⟩),
          ⟨⟨R', a'⟩, joinPath d f.base, some t, 0, nd + 1, false⟩) := by
  obtain ⟨hxa, hnd⟩ := hx
  have hfold : xattrFold [] f.xattrs = f.xattrs := by
    simpa using xattrFold_nodup [] f.xattrs (by simpa using hnd)
  obtain ⟨k, rfl⟩ : ∃ k, F = k + 1 + f.xattrs.length + 1 + 1 :=
    ⟨F - (f.xattrs.length + 3), by omega⟩
  obtain ⟨a', hxs⟩ := archLoop_xattrs f.xattrs hxa (k + 1) R d 0
    (f.mode, f.uid, f.gid, f.mtime) f.base none none a [] nd false
  obtain ⟨a'', hd3⟩ := hdt a'
  refine ⟨a'', ?_⟩
  simp only [entryElem]
  rw [archLoop_last_filename (hn := hname), archLoop_entry (hd := decNext_entry_enc ..), hxs,
    archLoop_term_dir (hadm := .inr (validName_ne_nil hname)) (ht := ht) (hd := hd3)]
  simp [Pending.meta, hfold]

/-! ### the decoder between two calls of `Next` -/

/-- the element the children's bytes (followed by the goodbye table) start with ... -/
def headElemT (cs : List Tree) (items : List GoodbyeItem) : Elem :=
  match cs with
  | [] => goodbyeElem items
  | c :: _ => fnameElem c.hd

/-- ... and what follows it; `K` = what follows the directory's goodbye table -/
def tailBytesT (cs : List Tree) (items : List GoodbyeItem) (K : Bytes) : Bytes :=
  match cs with
  | [] => K
  | c :: cs => c.body ++ (Tree.bodies cs ++ (encElem (goodbyeElem items) ++ K))

theorem headElemT_isTerm (cs : List Tree) (items : List GoodbyeItem) : IsTerm (headElemT cs items) := by
  cases cs with
  | nil => exact Or.inr ⟨_, _, rfl⟩
  | cons c cs => exact Or.inl ⟨_, _, rfl⟩

theorem decNext_headT (p : Bytes) (anc : List Bytes) (cs : List Tree) (items : List GoodbyeItem)
    (K : Bytes) (hcs : Tree.WFList p anc cs) (hit : TableOK items) (a : Nat) :
    ∃ a', decNext ⟨Tree.bodies cs ++ (encElem (goodbyeElem items) ++ K), a⟩
      = .ok (some (headElemT cs items), ⟨tailBytesT cs items K, a'⟩) := by
  cases cs with
  | nil =>
    obtain ⟨⟨hne, htail⟩, hlen⟩ := hit
    have := decNext_goodbye_enc items K a hne htail hlen
    exact ⟨_, by simpa [Tree.bodies, headElemT, tailBytesT, goodbyeElem] using this⟩
  | cons c cs =>
    simp only [Tree.WFList] at hcs
    have hbase := hcs.1.hd_name.2
    have := decNext_filename_enc c.hd.base
      (c.body ++ (Tree.bodies cs ++ (encElem (goodbyeElem items) ++ K))) a hbase
    exact ⟨_, by simpa [Tree.bodies, headElemT, tailBytesT, fnameElem, List.append_assoc] using this⟩

/-- decoder states in the directory the decoder calls `d`, in front of its remaining children `cs`:
    either nothing has been read of them, or their first element has been read as look-ahead -/
def ReadyT (cs : List Tree) (items : List GoodbyeItem) (K d : Bytes) (s : ArchDec) : Prop :=
  (∃ a nd, s = ⟨⟨Tree.bodies cs ++ (encElem (goodbyeElem items) ++ K), a⟩, d, none, 0, nd, false⟩) ∨
  (∃ a nd, s = ⟨⟨tailBytesT cs items K, a⟩, d, some (headElemT cs items), 0, nd, false⟩)

/-- one open directory: the decoder's name for it, its remaining children, its goodbye table -/
structure Frame where
  d : Bytes
  cs : List Tree
  items : List GoodbyeItem

/-- the unread input: remaining children and goodbye table of the innermost open directory, then
    the same for each enclosing directory -/
def stackBytes : List Frame → Bytes
  | [] => []
  | fr :: rest => Tree.bodies fr.cs ++ (encElem (goodbyeElem fr.items) ++ stackBytes rest)

/-- the nodes still to come -/
def stackNodes : List Frame → List Node
  | [] => []
  | fr :: rest => Tree.nodesList fr.d fr.cs ++ stackNodes rest

def FrameOK (fr : Frame) : Prop :=
  TableOK fr.items ∧ (∃ p anc, Tree.WFList p anc fr.cs) ∧ fr.d ≠ []

def StackOK : List Frame → Prop
  | [] => True
  | fr :: rest => FrameOK fr ∧ (∀ fr', rest.head? = some fr' → dirOf fr.d = fr'.d) ∧ StackOK rest

def ReadyStack (st : List Frame) (s : ArchDec) : Prop :=
  match st with
  | [] => ∃ a d nd, s = ⟨⟨[], a⟩, d, none, 0, nd, false⟩
  | fr :: rest => ReadyT fr.cs fr.items (stackBytes rest) fr.d s

/-- iterations of `archLoop` until the next node (or the end) comes out -/
def need : List Frame → Nat
  | [] => 1
  | fr :: rest =>
    match fr.cs with
    | [] => need rest + 1
    | c :: _ => c.hd.xattrs.length + 4

theorem need_le_stackBytes (st : List Frame) : need st ≤ (stackBytes st).length + 1 := by
  induction st with
  | nil => simp [need]
  | cons fr rest ih =>
    obtain ⟨d, cs, items⟩ := fr
    cases cs with
    | nil =>
      have := goodbye_size items
      simp only [need, stackBytes, Tree.bodies, List.nil_append, List.length_append, goodbyeElem, this]
      omega
    | cons c cs =>
      have := c.body_length_ge
      simp only [need, stackBytes, Tree.bodies, List.length_append]
      omega

theorem need_le (st : List Frame) (s : ArchDec) (hs : ReadyStack st s) :
    need st ≤ s.st.rest.length + 2 := by
  cases st with
  | nil => simp [need]
  | cons fr rest =>
    have h1 := need_le_stackBytes (fr :: rest)
    obtain ⟨d, cs, items⟩ := fr
    rcases hs with ⟨a, nd, rfl⟩ | ⟨a, nd, rfl⟩
    · simp only [stackBytes] at h1
      simp only
      omega
    · cases cs with
      | nil =>
        have h2 := need_le_stackBytes rest
        simp only [need, tailBytesT]
        omega
      | cons c cs =>
        have := c.body_length_ge
        simp only [need, tailBytesT, List.length_append]
        omega

/-- one call of `Next` (with enough fuel) from a state described by a stack of open directories -/
theorem next_stack (st : List Frame) : StackOK st → ∀ (s : ArchDec), ReadyStack st s →
    ∀ F, need st ≤ F →
    (stackNodes st = [] ∧ ∃ s', archLoop F s ⟨none, [], [], none, none⟩ = .ok (none, s')) ∨
    (∃ n st' s', archLoop F s ⟨none, [], [], none, none⟩ = .ok (some n, s') ∧
      stackNodes st = n :: stackNodes st' ∧ StackOK st' ∧ ReadyStack st' s') := by
  induction st with
  | nil =>
    intro _ s hs F hF
    obtain ⟨a, d, nd, rfl⟩ := hs
    obtain ⟨k, rfl⟩ : ∃ k, F = k + 1 := ⟨F - 1, by simp [need] at hF; omega⟩
    exact Or.inl ⟨rfl, _, archLoop_eof (hd := decNext_nil a) ..⟩
  | cons fr rest ih =>
    intro hok s hs F hF
    obtain ⟨d, cs, items⟩ := fr
    obtain ⟨⟨hit, ⟨p, anc, hcs⟩, hdne⟩, hchain, hrest⟩ := hok
    simp only at hit hcs hdne hchain
    cases cs with
    | nil =>
      -- the directory is finished: its goodbye table is skipped and the loop goes on
      obtain ⟨k, rfl⟩ : ∃ k, F = k + 1 := ⟨F - 1, by simp [need] at hF; omega⟩
      have hk : need rest ≤ k := by simp [need] at hF; omega
      have hpop : ∃ a' nd, archLoop (k + 1) s ⟨none, [], [], none, none⟩
          = archLoop k ⟨⟨stackBytes rest, a'⟩, dirOf d, none, 0, nd, false⟩
              ⟨none, [], [], none, none⟩ := by
        rcases hs with ⟨a, nd, rfl⟩ | ⟨a, nd, rfl⟩
        · obtain ⟨⟨hne, htail⟩, hlen⟩ := hit
          have hdn := decNext_goodbye_enc items (stackBytes rest) a hne htail hlen
          exact ⟨_, nd, by
            simp only [Tree.bodies, List.nil_append, goodbyeElem]
            rw [archLoop_goodbye_pop (hd := hdn)]⟩
        · exact ⟨a, nd, by
            simp only [tailBytesT, headElemT, goodbyeElem]
            rw [archLoop_last_goodbye]⟩
      obtain ⟨a', nd, hpop⟩ := hpop
      have hs2 : ReadyStack rest ⟨⟨stackBytes rest, a'⟩, dirOf d, none, 0, nd, false⟩ := by
        cases rest with
        | nil => exact ⟨a', dirOf d, nd, rfl⟩
        | cons fr' rest' =>
          have := hchain fr' rfl
          exact Or.inl ⟨a', nd, by simp [stackBytes, this]⟩
      rw [hpop]
      have hn : stackNodes (⟨d, [], items⟩ :: rest) = stackNodes rest := by
        simp [stackNodes, Tree.nodesList]
      rw [hn]
      exact ih hrest _ hs2 k hk
    | cons c cs =>
      simp only [Tree.WFList] at hcs
      obtain ⟨hc, hcs⟩ := hcs
      have hF' : c.hd.xattrs.length + 4 ≤ F := by simpa [need] using hF
      -- bring the state into look-ahead form
      have hlook : ∃ a nd, archLoop F s ⟨none, [], [], none, none⟩
          = archLoop F ⟨⟨tailBytesT (c :: cs) items (stackBytes rest), a⟩, d,
              some (headElemT (c :: cs) items), 0, nd, false⟩ ⟨none, [], [], none, none⟩ := by
        rcases hs with ⟨a, nd, rfl⟩ | ⟨a, nd, rfl⟩
        · obtain ⟨a1, hdn⟩ := decNext_headT p anc (c :: cs) items (stackBytes rest)
            (by simp only [Tree.WFList]; exact ⟨hc, hcs⟩) hit a
          obtain ⟨k, rfl⟩ : ∃ k, F = k + 1 := ⟨F - 1, by omega⟩
          exact ⟨a1, nd, archLoop_peek (hd := hdn) ..⟩
        · exact ⟨a, nd, rfl⟩
      obtain ⟨a, nd, hlook⟩ := hlook
      rw [hlook]
      refine Or.inr ?_
      cases c with
      | leaf f =>
        simp only [Tree.WF] at hc
        obtain ⟨s', h, hr⟩ := archLoop_leafAt p f hc d (UInt64.ofNat (16 + f.base.length + 1))
          (headElemT cs items) (headElemT_isTerm cs items) _ (tailBytesT cs items (stackBytes rest))
          (decNext_headT p anc cs items (stackBytes rest) hcs hit) a F hF' nd
        refine ⟨leafNodeAt d f, ⟨d, cs, items⟩ :: rest, s', ?_, ?_, ?_, ?_⟩
        · simpa [tailBytesT, headElemT, fnameElem, Tree.hd, Tree.body] using h
        · simp [stackNodes, Tree.nodesList, Tree.nodes]
        · exact ⟨⟨hit, ⟨p, anc, hcs⟩, hdne⟩, hchain, hrest⟩
        · rcases hr with ⟨a', rfl⟩ | ⟨a', rfl⟩
          · exact Or.inl ⟨a', _, rfl⟩
          · exact Or.inr ⟨a', _, rfl⟩
      | dir f gcs =>
        simp only [Tree.WF] at hc
        obtain ⟨_, _, _, hname, _, hx, hsz, hgcs⟩ := hc
        have htab := Tree.table_ok f gcs hsz
        obtain ⟨a', h⟩ := archLoop_dirAt f hx hname d (UInt64.ofNat (16 + f.base.length + 1))
          (headElemT gcs (Tree.table f gcs)) (headElemT_isTerm _ _) _
          (tailBytesT gcs (Tree.table f gcs)
            (Tree.bodies cs ++ (encElem (goodbyeElem items) ++ stackBytes rest)))
          (decNext_headT _ _ gcs (Tree.table f gcs) _ hgcs htab) a F (by simp [Tree.hd] at hF'; omega) nd
        refine ⟨.dir (joinPath d f.base) ⟨f.uid, f.gid, f.mode, f.mtime, f.xattrs⟩,
          ⟨joinPath d f.base, gcs, Tree.table f gcs⟩ :: ⟨d, cs, items⟩ :: rest,
          ⟨⟨tailBytesT gcs (Tree.table f gcs)
            (Tree.bodies cs ++ (encElem (goodbyeElem items) ++ stackBytes rest)), a'⟩,
            joinPath d f.base, some (headElemT gcs (Tree.table f gcs)), 0, nd + 1, false⟩, ?_, ?_, ?_, ?_⟩
        · simpa [tailBytesT, headElemT, fnameElem, Tree.hd, Tree.body_dir, List.append_assoc] using h
        · simp [stackNodes, Tree.nodesList, Tree.nodes]
        · refine ⟨⟨htab, ⟨_, _, hgcs⟩, joinPath_ne_nil (validName_ne_nil hname)⟩, ?_,
            ⟨hit, ⟨p, anc, hcs⟩, hdne⟩, hchain, hrest⟩
          intro fr' hfr'
          simp only [List.head?_cons, Option.some.injEq] at hfr'
          subst hfr'
          exact dirOf_joinPath hdne hname
        · exact Or.inr ⟨a', _, rfl⟩

theorem untarNodes_stack (fuel : Nat) : ∀ (st : List Frame) (s : ArchDec) (acc : List Node),
    StackOK st → ReadyStack st s → (stackNodes st).length + 1 ≤ fuel →
      untarNodes fuel s acc = .ok (acc.reverse ++ stackNodes st) := by
  induction fuel with
  | zero => intro st s acc _ _ hf; omega
  | succ fuel ih =>
    intro st s acc hok hs hf
    rw [untarNodes]
    unfold ArchDec.next
    rcases next_stack st hok s hs _ (need_le st s hs) with ⟨hn, s', h⟩ | ⟨n, st', s', h, hn, hok', hs'⟩
    · have h' : archLoop (s.st.rest.length + 2) s {} = .ok (none, s') := h
      rw [h', hn]
      simp
    · have h' : archLoop (s.st.rest.length + 2) s {} = .ok (some n, s') := h
      rw [h']
      simp only [Res.ok_bind]
      rw [ih st' s' (n :: acc) hok' hs' (by rw [hn] at hf; simp at hf; omega), hn]
      simp

/-! ### the root entry -/

theorem next_tree_root (r : FileRec) (cs : List Tree) (hrx : XattrsOK r.xattrs)
    (hsize : 16 + (cs.length + 1) * 24 < 2 ^ 64) (hcs : Tree.WFList r.path [r.path] cs) :
    ∃ s', ArchDec.next ⟨⟨(Tree.dir r cs).body, 0⟩, [dot], none, 0, 0, false⟩
        = .ok (some (.dir [dot] ⟨r.uid, r.gid, r.mode, r.mtime, r.xattrs⟩), s') ∧
      ReadyStack [⟨[dot], cs, Tree.table r cs⟩] s' := by
  obtain ⟨hxa, hnd⟩ := hrx
  have hit := Tree.table_ok r cs hsize
  have hfold : xattrFold [] r.xattrs = r.xattrs := by
    simpa using xattrFold_nodup [] r.xattrs (by simpa using hnd)
  have hxl := encXattrs_length_ge r.xattrs
  obtain ⟨k, hk⟩ : ∃ k, (Tree.dir r cs).body.length + 2 = k + 1 + r.xattrs.length + 1 :=
    ⟨(Tree.dir r cs).body.length - r.xattrs.length, by
      simp only [Tree.body_dir, List.length_append, (entryElem_size r).1]; omega⟩
  obtain ⟨a', hx⟩ := archLoop_xattrs r.xattrs hxa (k + 1)
    (Tree.bodies cs ++ (encElem (goodbyeElem (Tree.table r cs)) ++ [])) [dot] 0
    (r.mode, r.uid, r.gid, r.mtime) [] none none 0 [] 0 false
  obtain ⟨a'', hd⟩ := decNext_headT _ _ cs (Tree.table r cs) [] hcs hit a'
  refine ⟨_, ?_, Or.inr ⟨a'', 1, rfl⟩⟩
  unfold ArchDec.next
  show archLoop ((Tree.dir r cs).body.length + 2) _ ⟨none, [], [], none, none⟩ = _
  rw [hk]
  simp only [Tree.body_dir, entryElem]
  rw [List.append_nil] at hx hd
  rw [archLoop_entry (hd := decNext_entry_enc ..), hx,
    archLoop_term_dir (hadm := .inl rfl) (ht := headElemT_isTerm cs _) (hd := hd)]
  simp [joinPath, Pending.meta, hfold, stackBytes]

/-- the decoder half -/
theorem untar_tree_body (r : FileRec) (cs : List Tree) (hrx : XattrsOK r.xattrs)
    (hsize : 16 + (cs.length + 1) * 24 < 2 ^ 64) (hcs : Tree.WFList r.path [r.path] cs) :
    untar (Tree.dir r cs).body
      = .ok (.dir [dot] ⟨r.uid, r.gid, r.mode, r.mtime, r.xattrs⟩ :: Tree.nodesList [dot] cs) := by
  obtain ⟨s', h, hr⟩ := next_tree_root r cs hrx hsize hcs
  have hl := Tree.recordsList_length_le cs
  have hn := Tree.nodesList_length [dot] cs
  have hok : StackOK [⟨[dot], cs, Tree.table r cs⟩] :=
    ⟨⟨Tree.table_ok r cs hsize, ⟨_, _, hcs⟩, by simp⟩, by simp, trivial⟩
  obtain ⟨k, hk⟩ : ∃ k, (Tree.dir r cs).body.length + 2 = k + 1 ∧
      (stackNodes [⟨[dot], cs, Tree.table r cs⟩]).length + 1 ≤ k :=
    ⟨(Tree.dir r cs).body.length + 1, rfl, by
      simp only [stackNodes, List.append_nil, Tree.body_dir, List.length_append]; omega⟩
  unfold untar
  rw [hk.1, untarNodes]
  show (ArchDec.next ⟨⟨(Tree.dir r cs).body, 0⟩, [dot], none, 0, 0, false⟩ >>= _) = _
  rw [h]
  simp only [Res.ok_bind]
  rw [untarNodes_stack k _ s' _ hok hr hk.2]
  simp [stackNodes]

/-! ### the round trip -/

/-- (6) round trip for arbitrarily nested trees.  The root record `r` needs no name and no
    `parent`; it must be a directory with acceptable xattrs.  Everything below it is `Tree.WF`:
    `parent` fields follow the tree, a directory's `path` differs from the `path`s of its proper
    ancestors, names/sizes/xattrs are in range. -/
theorem untar_tar_tree (r : FileRec) (cs : List Tree)
    (hrk : r.kind = .dir) (hrx : XattrsOK r.xattrs)
    (hsize : 16 + (cs.length + 1) * 24 < 2 ^ 64)
    (hcs : Tree.WFList r.path [r.path] cs) :
    ∃ b, tarStream (Tree.dir r cs).records = some b ∧
      untar b = .ok (.dir [dot] ⟨r.uid, r.gid, r.mode, r.mtime, r.xattrs⟩ ::
        cs.flatMap (Tree.nodes [dot])) := by
  refine ⟨_, tarStream_tree r cs hrk hcs, ?_⟩
  rw [untar_tree_body r cs hrx hsize hcs, Tree.nodesList_eq_flatMap]

end Desync
