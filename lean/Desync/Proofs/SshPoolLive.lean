/-
  `RemoteSSH` pool machine: nobody is ever stuck while a session is left (the pool never loses one),
  the put-back never blocks, and the callers' steps are bounded.
-/
import Desync.Proofs.SshPoolProofs

namespace Desync.SshPool
open Desync

/-! ### the program counter fits the operation -/

def fits : Pc → Option Op → Prop
  | .idle, _ => True
  | .want, o => ∃ id, o.bind Op.id? = some id
  | .hold _, o => ∃ id, o.bind Op.id? = some id
  | .wait _, o => ∃ id, o.bind Op.id? = some id
  | .back _ _, o => ∃ id, o.bind Op.id? = some id
  | .cwant _ _, o => o = some .close
  | .cbye _ _, o => o = some .close
  | .done _, _ => True

def Fits (ops : List Op) (s : State) : Prop := ∀ c, fits (s.pc c) ops[c]?

theorem fits_upd {ops : List Op} {s : State} (h : Fits ops s) (c : Nat) (v : Pc) (hv : fits v ops[c]?) :
    ∀ c', fits (upd s.pc c v c') ops[c']? := by
  intro c'
  by_cases e : c' = c
  · subst e; simpa using hv
  · simp only [upd_other _ _ e]; exact h c'

theorem step_fits {H : Bytes → Bytes} {dec : Bytes → Option Bytes} {ops : List Op} {s s' : State} {e : Ev}
    (h : Fits ops s) (hs : step H dec ops s e = some s') : Fits ops s' := by
  cases e with
  | call c =>
    simp only [step] at hs
    split at hs
    · injection hs with hs; subst hs
      rename_i hpc hop
      refine fits_upd h c _ ?_
      split
      · simp [fits, hop]
      · simp [fits]
    · injection hs with hs; subst hs
      rename_i op hne hpc hop
      refine fits_upd h c _ ?_
      cases op with
      | get id => exact ⟨id, by simp [hop, Op.id?]⟩
      | has id => exact ⟨id, by simp [hop, Op.id?]⟩
      | close => exact absurd rfl hne
    · cases hs
  | take c =>
    simp only [step] at hs
    have hc := h c
    split at hs
    · injection hs with hs; subst hs
      rename_i i p hpc hpool
      rw [hpc] at hc
      exact fits_upd h c _ hc
    · injection hs with hs; subst hs
      rename_i k err i p hpc hpool
      rw [hpc] at hc
      exact fits_upd h c _ hc
    · cases hs
  | send c =>
    simp only [step] at hs
    have hc := h c
    split at hs
    · rename_i i id hpc hid
      rw [hpc] at hc
      split at hs
      · injection hs with hs; subst hs; exact fits_upd h c _ hc
      · injection hs with hs; subst hs; exact fits_upd h c _ hc
    · cases hs
  | recv c =>
    simp only [step] at hs
    have hc := h c
    split at hs
    · rename_i i id hpc hid
      rw [hpc] at hc
      split at hs
      · injection hs with hs; subst hs; exact fits_upd h c _ hc
      · cases hs
    · cases hs
  | put c =>
    simp only [step] at hs
    split at hs
    · split at hs
      · injection hs with hs; subst hs; exact fits_upd h c _ trivial
      · cases hs
    · cases hs
  | bye c =>
    simp only [step] at hs
    have hc := h c
    split at hs
    · rename_i k i hpc
      rw [hpc] at hc
      injection hs with hs; subst hs
      refine fits_upd h c _ ?_
      split
      · exact hc
      · trivial
    · cases hs
  | srvWrite i b =>
    simp only [step] at hs
    split at hs
    · cases hs
    · injection hs with hs; subst hs; exact h
  | srvExit i =>
    simp only [step] at hs
    split at hs
    · cases hs
    · injection hs with hs; subst hs; exact h

theorem reachable_fits {H : Bytes → Bytes} {dec : Bytes → Option Bytes} {ops : List Op} {n : Nat} {s : State}
    (h : Reachable H dec ops (init n) s) : Fits ops s := by
  induction h with
  | init => intro c; trivial
  | step _ hs ih => exact step_fits ih hs

/-! ### progress -/

def Pc.active : Pc → Bool
  | .idle => false
  | .done _ => false
  | _ => true

/-- the steps of a caller that is inside its function -/
def Ev.isMove : Ev → Bool
  | .take _ => true
  | .send _ => true
  | .recv _ => true
  | .put _ => true
  | .bye _ => true
  | _ => false

/-- some caller can take a step, or some caller waits for a server that has not answered -/
def Progress (H : Bytes → Bytes) (dec : Bytes → Option Bytes) (ops : List Op) (s : State) : Prop :=
  (∃ e s', e.isMove = true ∧ step H dec ops s e = some s') ∨
  (∃ c i, s.pc c = .wait i ∧ (s.sess i).ready = false)

/-- whoever has a session can move (or waits for its server): in particular the put-back never blocks -/
theorem holder_moves {H : Bytes → Bytes} {dec : Bytes → Option Bytes} {ops : List Op} {n : Nat} {s : State}
    (hi : Inv ops n s) (hf : Fits ops s) {c i : Nat} (hc : (s.pc c).sess? = some i) : Progress H dec ops s := by
  have hfc := hf c
  cases hpc : s.pc c with
  | idle => rw [hpc] at hc; cases hc
  | want => rw [hpc] at hc; cases hc
  | cwant k e => rw [hpc] at hc; cases hc
  | done o => rw [hpc] at hc; cases hc
  | hold j =>
    rw [hpc] at hfc
    obtain ⟨id, hid⟩ := hfc
    left
    by_cases he : (s.sess j).eof
    · exact ⟨.send c, _, rfl, by simp only [step, hpc, opId, hid, he, ↓reduceIte] <;> rfl⟩
    · exact ⟨.send c, _, rfl, by simp only [step, hpc, opId, hid, he]; rfl⟩
  | wait j =>
    rw [hpc] at hfc
    obtain ⟨id, hid⟩ := hfc
    by_cases hr : (s.sess j).ready
    · left
      exact ⟨.recv c, _, rfl, by simp only [step, hpc, opId, hid, hr, ↓reduceIte] <;> rfl⟩
    · right
      exact ⟨c, j, hpc, by simpa using hr⟩
  | back j r =>
    rw [hpc] at hfc
    obtain ⟨id, hid⟩ := hfc
    have hop : ∃ op, ops[c]? = some op := by
      cases h : ops[c]? with
      | none => rw [h] at hid; cases hid
      | some op => exact ⟨op, rfl⟩
    obtain ⟨op, hop⟩ := hop
    have hroom := OInv.room hi.o (c := c) (i := j) (by simp [own, hpc, Pc.sess?])
    have : s.pool.length < s.cap := by rw [hi.cap_eq, ← hi.n_eq]; exact hroom
    left
    exact ⟨.put c, _, rfl, by simp only [step, hpc, hop, this, ↓reduceIte] <;> rfl⟩
  | cbye k j =>
    left
    exact ⟨.bye c, _, rfl, by simp only [step, hpc] <;> rfl⟩

theorem all_below_length : ∀ (n : Nat) (l : List Nat), (∀ i, i < n → i ∈ l) → n ≤ l.length := by
  intro n
  induction n with
  | zero => intro l _; omega
  | succ n ih =>
    intro l h
    have hm : n ∈ l := h n (by omega)
    have h2 : ∀ i, i < n → i ∈ l.erase n := fun i hi => (List.mem_erase_of_ne (by omega)).2 (h i (by omega))
    have := ih (l.erase n) h2
    have hl := List.length_erase_of_mem hm
    have : 0 < l.length := List.length_pos_of_mem hm
    omega

theorem inv_progress {H : Bytes → Bytes} {dec : Bytes → Option Bytes} {ops : List Op} {n : Nat} {s : State}
    (hi : Inv ops n s) (hf : Fits ops s) (hret : s.retired.length < n) {c : Nat} (hact : (s.pc c).active = true) :
    Progress H dec ops s := by
  cases hs : (s.pc c).sess? with
  | some i => exact holder_moves hi hf hs
  | none =>
    cases hp : s.pool with
    | cons i p =>
      left
      cases hpc : s.pc c with
      | want => exact ⟨.take c, _, rfl, by simp only [step, hpc, hp] <;> rfl⟩
      | cwant k e => exact ⟨.take c, _, rfl, by simp only [step, hpc, hp] <;> rfl⟩
      | idle => rw [hpc] at hact; cases hact
      | done o => rw [hpc] at hact; cases hact
      | hold j => rw [hpc] at hs; cases hs
      | wait j => rw [hpc] at hs; cases hs
      | back j r => rw [hpc] at hs; cases hs
      | cbye k j => rw [hpc] at hs; cases hs
    | nil =>
      -- a session that is not retired is in somebody's hands
      have : ∃ i, i < n ∧ i ∉ s.retired := by
        apply Classical.byContradiction
        intro hno
        have hall : ∀ i, i < n → i ∈ s.retired := fun i hi => Classical.byContradiction fun h => hno ⟨i, hi, h⟩
        have := all_below_length n s.retired hall
        omega
      obtain ⟨i, hin, hir⟩ := this
      rcases hi.o.total i (by simpa [own, hi.n_eq] using hin) with h1 | h1 | ⟨c', _, h1⟩
      · simp [own, hp] at h1
      · exact absurd h1 hir
      · exact holder_moves hi hf h1

/-! ### the callers' steps are bounded -/

theorem measure_congr (s s' : State) (hn : s'.n = s.n) (hpc : ∀ c, s'.pc c = s.pc c) : ∀ k, measure s' k = measure s k := by
  intro k
  induction k with
  | zero => rfl
  | succ k ih => simp [measure, ih, hn, hpc]

theorem measure_upd (s s' : State) (c : Nat) (v : Pc) (hn : s'.n = s.n) (hpc : s'.pc = upd s.pc c v) :
    ∀ k, c < k → measure s' k + rank s.n (s.pc c) = measure s k + rank s.n v := by
  intro k
  induction k with
  | zero => intro h; omega
  | succ k ih =>
    intro hk
    by_cases e : c = k
    · subst e
      have : measure s' c = measure s c := by
        clear ih hk
        have : ∀ j, j ≤ c → measure s' j = measure s j := by
          intro j
          induction j with
          | zero => intro _; rfl
          | succ j ihj =>
            intro hj
            have e : j ≠ c := by omega
            simp [measure, ihj (by omega), hn, hpc, upd_other _ _ e]
        exact this c (Nat.le_refl c)
      simp [measure, this, hn, hpc]
      omega
    · have := ih (by omega)
      have e' : k ≠ c := fun h => e h.symm
      simp only [measure, hn, hpc, upd_other _ _ e']
      omega

end Desync.SshPool

namespace Desync.SshPool
open Desync

theorem measure_drop (s s' : State) (c : Nat) (v : Pc) (k : Nat) (hn : s'.n = s.n) (hpc : s'.pc = upd s.pc c v)
    (hc : c < k) (hr : rank s.n v < rank s.n (s.pc c)) : measure s' k < measure s k := by
  have := measure_upd s s' c v hn hpc k hc
  omega

/-- every step of a caller brings the measure down; the servers' steps leave it alone -/
theorem step_measure {H : Bytes → Bytes} {dec : Bytes → Option Bytes} {ops : List Op} {n : Nat} {s s' : State} {e : Ev}
    (hi : Inv ops n s) (hs : step H dec ops s e = some s') :
    (e.isCaller = true → measure s' ops.length < measure s ops.length) ∧
    (e.isCaller = false → measure s' ops.length = measure s ops.length) := by
  cases e with
  | call c =>
    refine ⟨fun _ => ?_, fun h => by cases h⟩
    simp only [step] at hs
    split at hs
    · injection hs with hs; subst hs
      rename_i hpc hop
      have hc : c < ops.length := by
        by_cases hlt : c < ops.length
        · exact hlt
        · rw [List.getElem?_eq_none (by omega)] at hop; cases hop
      refine measure_drop s _ c _ _ rfl rfl hc ?_
      rw [hpc]; split <;> simp [rank] <;> try omega
    · injection hs with hs; subst hs
      rename_i op hne hpc hop
      have hc : c < ops.length := by
        by_cases hlt : c < ops.length
        · exact hlt
        · rw [List.getElem?_eq_none (by omega)] at hop; cases hop
      refine measure_drop s _ c _ _ rfl rfl hc ?_
      rw [hpc]; simp [rank]
    · cases hs
  | take c =>
    refine ⟨fun _ => ?_, fun h => by cases h⟩
    simp only [step] at hs
    split at hs
    · injection hs with hs; subst hs
      rename_i i p hpc hpool
      have hc : c < ops.length := hi.lt (fun o ho => by rw [hpc] at ho; subst ho; simp)
      refine measure_drop s _ c _ _ rfl rfl hc ?_
      rw [hpc]; simp [rank]
    · injection hs with hs; subst hs
      rename_i k err i p hpc hpool
      have hc : c < ops.length := hi.lt (fun o ho => by rw [hpc] at ho; subst ho; simp)
      refine measure_drop s _ c _ _ rfl rfl hc ?_
      rw [hpc]; simp [rank]
    · cases hs
  | send c =>
    refine ⟨fun _ => ?_, fun h => by cases h⟩
    simp only [step] at hs
    split at hs
    · rename_i i id hpc hid
      have hc : c < ops.length := hi.lt (fun o ho => by rw [hpc] at ho; subst ho; simp)
      split at hs
      · injection hs with hs; subst hs
        refine measure_drop s _ c _ _ rfl rfl hc ?_
        rw [hpc]; simp [rank]
      · injection hs with hs; subst hs
        refine measure_drop s _ c _ _ rfl rfl hc ?_
        rw [hpc]; simp [rank]
    · cases hs
  | recv c =>
    refine ⟨fun _ => ?_, fun h => by cases h⟩
    simp only [step] at hs
    split at hs
    · rename_i i id hpc hid
      have hc : c < ops.length := hi.lt (fun o ho => by rw [hpc] at ho; subst ho; simp)
      split at hs
      · injection hs with hs; subst hs
        refine measure_drop s _ c _ _ rfl rfl hc ?_
        rw [hpc]; simp [rank]
      · cases hs
    · cases hs
  | put c =>
    refine ⟨fun _ => ?_, fun h => by cases h⟩
    simp only [step] at hs
    split at hs
    · rename_i i r op hpc hop
      have hc : c < ops.length := hi.lt (fun o ho => by rw [hpc] at ho; subst ho; simp)
      split at hs
      · injection hs with hs; subst hs
        refine measure_drop s _ c _ _ rfl rfl hc ?_
        rw [hpc]; simp [rank]
      · cases hs
    · cases hs
  | bye c =>
    refine ⟨fun _ => ?_, fun h => by cases h⟩
    simp only [step] at hs
    split at hs
    · rename_i k i hpc
      have hc : c < ops.length := hi.lt (fun o ho => by rw [hpc] at ho; subst ho; simp)
      injection hs with hs; subst hs
      refine measure_drop s _ c _ _ rfl rfl hc ?_
      rw [hpc]
      split
      · simp [rank]; omega
      · simp [rank]
    · cases hs
  | srvWrite i b =>
    refine ⟨fun h => (by cases h), fun _ => ?_⟩
    simp only [step] at hs
    split at hs
    · cases hs
    · injection hs with hs; subst hs; exact measure_congr s _ (by rfl) (by intro; rfl) _
  | srvExit i =>
    refine ⟨fun h => (by cases h), fun _ => ?_⟩
    simp only [step] at hs
    split at hs
    · cases hs
    · injection hs with hs; subst hs; exact measure_congr s _ (by rfl) (by intro; rfl) _

/-! ### the constructor -/

theorem constructLoop_ok (n : Nat) (ok : Nat → Bool) (hok : ∀ j, j < n → ok j = true) :
    ∀ todo i, i + todo = n → constructLoop n ok todo i (List.range i) = .ok (List.range n) := by
  intro todo
  induction todo with
  | zero => intro i h; simp at h; subst h; rfl
  | succ t ih =>
    intro i h
    have : ok i = true := hok i (by omega)
    simp only [constructLoop, this, Bool.not_true, Bool.false_eq_true, ↓reduceIte, List.length_range]
    rw [if_pos (by omega), ← List.range_succ]
    exact ih (i + 1) (by omega)

theorem constructLoop_failed (n k : Nat) (ok : Nat → Bool) (hok : ∀ j, j < k → ok j = true) (hk : ok k = false) (hkn : k < n) :
    ∀ todo i, i + todo = n → i ≤ k → constructLoop n ok todo i (List.range i) = .failed k (List.range k) := by
  intro todo
  induction todo with
  | zero => intro i h hik; omega
  | succ t ih =>
    intro i h hik
    by_cases e : i = k
    · subst e; simp [constructLoop, hk]
    · have : ok i = true := hok i (by omega)
      simp only [constructLoop, this, Bool.not_true, Bool.false_eq_true, ↓reduceIte, List.length_range]
      rw [if_pos (by omega), ← List.range_succ]
      exact ih (i + 1) (by omega) (by omega)

end Desync.SshPool
