/-
  Bridge between the two `UnTar` models: `untar` (`Model/Archive.lean`) returns the list of nodes the
  decoder hands out, `untarFS` (`Model/LocalFS.lean`) writes them to a file system as they come.  Both
  loops call `ArchDec.next` from the same start state with the same fuel, hence
  `untarFS` = apply the nodes of `untar` one by one, then `finish`.
-/
import Desync.Model.LocalFS

namespace Desync.LFS
open Desync

/-- hand the nodes to the `LocalFS` writer one by one; the first failing method ends the run (the error
    value is the file system at that point) -/
def applyAll (o : Opts) (root : List Name) : LState → List Node → Except FS LState
  | s, [] => .ok s
  | s, n :: ns =>
    match applyNode o root s n with
    | .ok s' => applyAll o root s' ns
    | .error fs => .error fs

/-- what `UnTar` returns once all nodes have been handed out -/
def finishAll : Except FS LState → FS × Bool
  | .ok s => finish s
  | .error fs => (fs, false)

theorem applyAll_append (o : Opts) (root : List Name) :
    ∀ (l₁ l₂ : List Node) (s : LState),
      applyAll o root s (l₁ ++ l₂) =
        (match applyAll o root s l₁ with
         | .ok s' => applyAll o root s' l₂
         | .error fs => .error fs)
  | [], l₂, s => by simp [applyAll]
  | n :: l₁, l₂, s => by
    simp only [List.cons_append, applyAll]
    cases applyNode o root s n with
    | ok s' => exact applyAll_append o root l₁ l₂ s'
    | error fs => rfl

theorem applyAll_append_ok (o : Opts) (root : List Name) {l₁ l₂ : List Node} {s s' : LState}
    (h : applyAll o root s l₁ = .ok s') :
    applyAll o root s (l₁ ++ l₂) = applyAll o root s' l₂ := by
  rw [applyAll_append, h]

theorem applyAll_cons_ok (o : Opts) (root : List Name) {n : Node} {ns : List Node} {s s' : LState}
    (h : applyNode o root s n = .ok s') :
    applyAll o root s (n :: ns) = applyAll o root s' ns := by
  simp only [applyAll, h]

/-- the two loops run in lock step -/
theorem untarLoop_of_untarNodes (o : Opts) (root : List Name) :
    ∀ (fuel : Nat) (a : ArchDec) (acc nodes : List Node) (s : LState),
      untarNodes fuel a acc = .ok nodes →
      ∃ rest, nodes = acc.reverse ++ rest ∧
        untarLoop o root fuel a s = finishAll (applyAll o root s rest)
  | 0, _, _, _, _, h => by simp [untarNodes] at h
  | fuel + 1, a, acc, nodes, s, h => by
    rw [untarNodes] at h
    rw [untarLoop]
    cases hn : a.next with
    | err e => rw [hn] at h; simp at h
    | panic m => rw [hn] at h; simp at h
    | ok r =>
      obtain ⟨n, a'⟩ := r
      rw [hn] at h
      simp only [Res.ok_bind] at h
      cases n with
      | none =>
        simp only [Res.pure_eq, Res.ok.injEq] at h
        exact ⟨[], by simp [h], by simp [applyAll, finishAll]⟩
      | some n =>
        simp only at h
        obtain ⟨rest, hr, hl⟩ := untarLoop_of_untarNodes o root fuel a' (n :: acc) nodes
          (match applyNode o root s n with | .ok s' => s' | .error _ => s) h
        refine ⟨n :: rest, by simpa using hr, ?_⟩
        simp only [applyAll]
        cases happ : applyNode o root s n with
        | ok s' =>
          simp only [happ] at hl
          simpa using hl
        | error fs => simp [finishAll]

/-- **bridge**: when `untar b` yields `nodes`, `untarFS` is "apply `nodes` in order, then `finish`" -/
theorem untarFS_of_untar (o : Opts) (root : List Name) (fs : FS) (b : Bytes) (nodes : List Node)
    (h : untar b = .ok nodes) :
    untarFS o root fs b = finishAll (applyAll o root { fs := fs } nodes) := by
  obtain ⟨rest, hr, hl⟩ := untarLoop_of_untarNodes o root (b.length + 2) { st := { rest := b } } []
    nodes { fs := fs } h
  simp only [List.reverse_nil, List.nil_append] at hr
  subst hr
  exact hl

end Desync.LFS
