/-
  Ownership of the sessions of a `RemoteSSH` pool, abstracted from the step machine
  (Model/SshPool.lean): who has which session.  Every session is in exactly one place — the pool,
  one caller's hands, or retired by `Close` — and the four ways a step can move one keep it so.
-/
import Desync.Model.SshPool

namespace Desync.SshPool
open Desync

/-! ### pigeonhole -/

theorem nodup_lt_length : ∀ (n : Nat) (l : List Nat), l.Nodup → (∀ x ∈ l, x < n) → l.length ≤ n := by
  intro n
  induction n with
  | zero =>
    intro l _ h
    cases l with
    | nil => simp
    | cons a t => exact absurd (h a (by simp)) (by omega)
  | succ n ih =>
    intro l hnd h
    by_cases hm : n ∈ l
    · have h1 : (l.erase n).Nodup := hnd.erase n
      have h2 : ∀ x ∈ l.erase n, x < n := by
        intro x hx
        have hx' := (List.Nodup.mem_erase_iff hnd).1 hx
        have := h x hx'.2
        have := hx'.1
        omega
      have := ih (l.erase n) h1 h2
      have hl := List.length_erase_of_mem hm
      have : 0 < l.length := List.length_pos_of_mem hm
      omega
    · have h2 : ∀ x ∈ l, x < n := by
        intro x hx
        have := h x hx
        have : x ≠ n := fun e => hm (e ▸ hx)
        omega
      have := ih l hnd h2
      omega

/-- a duplicate-free list of sessions below `n` that misses one of them is shorter than `n` -/
theorem nodup_lt_length_missing {n i : Nat} {l : List Nat} (hnd : l.Nodup) (h : ∀ x ∈ l, x < n) (hi : i < n)
    (hni : i ∉ l) : l.length < n := by
  have := nodup_lt_length n (i :: l) (List.nodup_cons.2 ⟨hni, hnd⟩) (by
    intro x hx
    rcases List.mem_cons.1 hx with rfl | hx
    · exact hi
    · exact h x hx)
  simp only [List.length_cons] at this
  omega

/-! ### who has which session -/

structure Own where
  n : Nat
  k : Nat
  pool : List Nat
  retired : List Nat
  held : Nat → Option Nat

structure OInv (o : Own) : Prop where
  poolND : o.pool.Nodup
  retND : o.retired.Nodup
  poolLt : ∀ i ∈ o.pool, i < o.n
  retLt : ∀ i ∈ o.retired, i < o.n
  poolRet : ∀ i ∈ o.pool, i ∉ o.retired
  heldOk : ∀ c i, o.held c = some i → i < o.n ∧ i ∉ o.pool ∧ i ∉ o.retired
  heldInj : ∀ c c' i, o.held c = some i → o.held c' = some i → c = c'
  total : ∀ i, i < o.n → i ∈ o.pool ∨ i ∈ o.retired ∨ ∃ c, c < o.k ∧ o.held c = some i
  outside : ∀ c, o.k ≤ c → o.held c = none

theorem OInv.init (n k : Nat) : OInv ⟨n, k, List.range n, [], fun _ => none⟩ where
  poolND := List.nodup_range
  retND := List.nodup_nil
  poolLt := fun i hi => List.mem_range.1 hi
  retLt := fun i hi => by cases hi
  poolRet := fun i _ hi => by cases hi
  heldOk := fun c i h => by cases h
  heldInj := fun c c' i h => by cases h
  total := fun i hi => Or.inl (List.mem_range.2 hi)
  outside := fun _ _ => rfl

theorem OInv.same {o : Own} (h : OInv o) (held' : Nat → Option Nat) (he : ∀ c, held' c = o.held c) :
    OInv { o with held := held' } := by
  have : held' = o.held := funext he
  subst this
  exact h

theorem OInv.take {o : Own} (h : OInv o) {c i : Nat} {p : List Nat} (hp : o.pool = i :: p) (hc : o.held c = none)
    (hk : c < o.k) : OInv { o with pool := p, held := upd o.held c (some i) } := by
  have hnd := h.poolND
  rw [hp] at hnd
  have ⟨hip, hpnd⟩ := List.nodup_cons.1 hnd
  have hiP : i ∈ o.pool := by rw [hp]; simp
  have hsub : ∀ x ∈ p, x ∈ o.pool := fun x hx => by rw [hp]; exact List.mem_cons_of_mem _ hx
  refine ⟨hpnd, h.retND, fun x hx => h.poolLt x (hsub x hx), h.retLt, fun x hx => h.poolRet x (hsub x hx), ?_, ?_, ?_, ?_⟩
  · intro c' x hx
    by_cases hcc : c' = c
    · subst hcc
      simp only [upd_same, Option.some.injEq] at hx
      subst hx
      exact ⟨h.poolLt _ hiP, hip, h.poolRet _ hiP⟩
    · simp only [upd_other _ _ hcc] at hx
      have := h.heldOk c' x hx
      exact ⟨this.1, fun hx' => this.2.1 (hsub x hx'), this.2.2⟩
  · intro c1 c2 x h1 h2
    by_cases e1 : c1 = c <;> by_cases e2 : c2 = c
    · rw [e1, e2]
    · subst e1
      simp only [upd_same, Option.some.injEq] at h1
      simp only [upd_other _ _ e2] at h2
      subst h1
      exact absurd hiP (h.heldOk c2 _ h2).2.1
    · subst e2
      simp only [upd_same, Option.some.injEq] at h2
      simp only [upd_other _ _ e1] at h1
      subst h2
      exact absurd hiP (h.heldOk c1 _ h1).2.1
    · simp only [upd_other _ _ e1] at h1
      simp only [upd_other _ _ e2] at h2
      exact h.heldInj c1 c2 x h1 h2
  · intro x hx
    by_cases hxi : x = i
    · subst hxi
      exact Or.inr (Or.inr ⟨c, hk, by simp⟩)
    · rcases h.total x hx with h1 | h1 | ⟨c', hc', h1⟩
      · rw [hp] at h1
        rcases List.mem_cons.1 h1 with h1 | h1
        · exact absurd h1 hxi
        · exact Or.inl h1
      · exact Or.inr (Or.inl h1)
      · refine Or.inr (Or.inr ⟨c', hc', ?_⟩)
        have : c' ≠ c := fun e => by rw [e, hc] at h1; cases h1
        simp only [upd_other _ _ this]
        exact h1
  · intro c' hc'
    have hc'' : o.k ≤ c' := hc'
    have : c' ≠ c := by omega
    simp only [upd_other _ _ this]
    exact h.outside c' hc'

/-- a caller gives its session away: into the pool (`toPool`) or to the retired ones -/
theorem OInv.give {o : Own} (h : OInv o) {c i : Nat} (hc : o.held c = some i) (toPool : Bool) :
    OInv { o with pool := if toPool then o.pool ++ [i] else o.pool,
                  retired := if toPool then o.retired else o.retired ++ [i],
                  held := upd o.held c none } := by
  have ⟨hin, hip, hir⟩ := h.heldOk c i hc
  have hheld : ∀ c' x, upd o.held c none c' = some x → c' ≠ c ∧ o.held c' = some x := by
    intro c' x hx
    by_cases e : c' = c
    · subst e; simp at hx
    · simp only [upd_other _ _ e] at hx; exact ⟨e, hx⟩
  have hne : ∀ c' x, upd o.held c none c' = some x → x ≠ i := by
    intro c' x hx e
    have ⟨h1, h2⟩ := hheld c' x hx
    subst e
    exact h1 (h.heldInj c' c x h2 hc)
  cases toPool
  · simp only [Bool.false_eq_true, ↓reduceIte]
    refine ⟨h.poolND, ?_, h.poolLt, ?_, ?_, ?_, ?_, ?_, ?_⟩
    · exact List.nodup_append.2 ⟨h.retND, by simp, by
        intro a ha b hb
        simp only [List.mem_cons, List.not_mem_nil, or_false] at hb
        subst hb
        exact fun e => hir (e ▸ ha)⟩
    · intro x hx
      rcases List.mem_append.1 hx with hx | hx
      · exact h.retLt x hx
      · simp only [List.mem_cons, List.not_mem_nil, or_false] at hx; subst hx; exact hin
    · intro x hx hx'
      rcases List.mem_append.1 hx' with hx' | hx'
      · exact h.poolRet x hx hx'
      · simp only [List.mem_cons, List.not_mem_nil, or_false] at hx'; subst hx'; exact hip hx
    · intro c' x hx
      have ⟨_, h2⟩ := hheld c' x hx
      have := h.heldOk c' x h2
      refine ⟨this.1, this.2.1, fun hx' => ?_⟩
      rcases List.mem_append.1 hx' with hx' | hx'
      · exact this.2.2 hx'
      · simp only [List.mem_cons, List.not_mem_nil, or_false] at hx'; exact hne c' x hx hx'
    · intro c1 c2 x h1 h2
      exact h.heldInj c1 c2 x (hheld c1 x h1).2 (hheld c2 x h2).2
    · intro x hx
      by_cases hxi : x = i
      · subst hxi; exact Or.inr (Or.inl (by simp))
      · rcases h.total x hx with h1 | h1 | ⟨c', hc', h1⟩
        · exact Or.inl h1
        · exact Or.inr (Or.inl (List.mem_append_left _ h1))
        · refine Or.inr (Or.inr ⟨c', hc', ?_⟩)
          have : c' ≠ c := fun e => by rw [e, hc] at h1; injection h1 with h1; exact hxi h1.symm
          simp only [upd_other _ _ this]; exact h1
    · intro c' hc'
      by_cases e : c' = c
      · subst e; simp
      · simp only [upd_other _ _ e]; exact h.outside c' hc'
  · simp only [↓reduceIte]
    refine ⟨?_, h.retND, ?_, h.retLt, ?_, ?_, ?_, ?_, ?_⟩
    · exact List.nodup_append.2 ⟨h.poolND, by simp, by
        intro a ha b hb
        simp only [List.mem_cons, List.not_mem_nil, or_false] at hb
        subst hb
        exact fun e => hip (e ▸ ha)⟩
    · intro x hx
      rcases List.mem_append.1 hx with hx | hx
      · exact h.poolLt x hx
      · simp only [List.mem_cons, List.not_mem_nil, or_false] at hx; subst hx; exact hin
    · intro x hx hx'
      rcases List.mem_append.1 hx with hx | hx
      · exact h.poolRet x hx hx'
      · simp only [List.mem_cons, List.not_mem_nil, or_false] at hx; subst hx; exact hir hx'
    · intro c' x hx
      have ⟨_, h2⟩ := hheld c' x hx
      have := h.heldOk c' x h2
      refine ⟨this.1, fun hx' => ?_, this.2.2⟩
      rcases List.mem_append.1 hx' with hx' | hx'
      · exact this.2.1 hx'
      · simp only [List.mem_cons, List.not_mem_nil, or_false] at hx'; exact hne c' x hx hx'
    · intro c1 c2 x h1 h2
      exact h.heldInj c1 c2 x (hheld c1 x h1).2 (hheld c2 x h2).2
    · intro x hx
      by_cases hxi : x = i
      · subst hxi; exact Or.inl (by simp)
      · rcases h.total x hx with h1 | h1 | ⟨c', hc', h1⟩
        · exact Or.inl (List.mem_append_left _ h1)
        · exact Or.inr (Or.inl h1)
        · refine Or.inr (Or.inr ⟨c', hc', ?_⟩)
          have : c' ≠ c := fun e => by rw [e, hc] at h1; injection h1 with h1; exact hxi h1.symm
          simp only [upd_other _ _ this]; exact h1
    · intro c' hc'
      by_cases e : c' = c
      · subst e; simp
      · simp only [upd_other _ _ e]; exact h.outside c' hc'

/-- whoever holds a session finds room in the channel: the put-back never blocks -/
theorem OInv.room {o : Own} (h : OInv o) {c i : Nat} (hc : o.held c = some i) : o.pool.length < o.n :=
  have ⟨hin, hip, _⟩ := h.heldOk c i hc
  nodup_lt_length_missing h.poolND h.poolLt hin hip

end Desync.SshPool
