/-
  Proofs about `S3Store.Prune` (`Model/S3Store.lean`): `idFromName` recognises the canonical keys
  of the store's own format and skips the other format's; the walk removes only canonical
  objects of unreferenced IDs, never fails, and is complete (C16).
-/
import Desync.Proofs.LocalStoreProofs
import Desync.Model.S3Store

namespace Desync

/-! ### classification -/

theorem contains_false_of_not_mem (l : Bytes) (c : UInt8) (h : c ∉ l) : l.contains c = false := by
  simpa using h

theorem hasPrefix_take (s : Bytes) (n : Nat) : hasPrefix s (s.take n) = true := by
  simp only [hasPrefix, decide_eq_true_eq, List.length_take]
  refine ⟨Nat.min_le_right _ _, ?_⟩
  rw [List.take_eq_take_iff]
  simp

/-- own-format canonical chunk names are considered as their own ID -/
theorem s3_classify_own (unc : Bool) (id : Bytes) (h : id.length = 32) :
    s3Classify unc (nameFromID unc id).1 (nameFromID unc id).2 = .consider id := by
  have hl : (hexEncode id).length = 64 := by rw [hexEncode_length, h]
  have hns : (47 : UInt8) ∉ hexEncode id := (hexEncode_no_slash_dot id).1
  have h1 : (hexEncode id).contains 47 = false := contains_false_of_not_mem _ _ hns
  have h2 : ((hexEncode id).take 4).contains 47 = false :=
    contains_false_of_not_mem _ _ (fun hm => hns (List.mem_of_mem_take hm))
  have h3 : (hexEncode id).take 4 ≠ [] := by
    intro he
    have := congrArg List.length he
    simp [List.length_take, hl] at this
  simp only [s3Classify, nameFromID, hasSuffix_append, trimSuffix_append,
    chunkIDFromString_hexEncode id h, h1, h2, hasPrefix_take]
  simp [h3]

/-- the other format's canonical names are skipped, whatever the directory -/
theorem s3_classify_other_format (unc : Bool) (dir id : Bytes) (h : id.length = 32) :
    s3Classify unc dir (nameFromID (!unc) id).2 = .skip := by
  cases unc
  · -- compressed store meets an uncompressed name: no ".cacnk" suffix
    have hs : hasSuffix (hexEncode id ++ extOf true) (extOf false) = false := by
      cases hp : hasSuffix (hexEncode id ++ extOf true) (extOf false) with
      | false => rfl
      | true =>
        have := hasSuffix_mem _ _ hp 46 (by simp [extOf, Gen.CompressedChunkExtBytes])
        simp [extOf, Gen.UncompressedChunkExtBytes] at this
        exact absurd this (hexEncode_no_slash_dot id).2
    simp [nameFromID, s3Classify, hs]
  · -- uncompressed store meets a compressed name: not a hex string
    have hd : chunkIDFromString (hexEncode id ++ extOf false) = none :=
      chunkIDFromString_dot _ (by simp [extOf, Gen.CompressedChunkExtBytes])
    have he : extOf true = [] := rfl
    simp only [nameFromID, s3Classify, Bool.not_true, he, hasSuffix_nil, trimSuffix_nil, hd]
    split
    · rfl
    · split
      · rfl
      · split <;> rfl

/-- whatever is considered has a 32-byte ID -/
theorem s3Classify_consider_length (unc : Bool) (dir name id : Bytes)
    (h : s3Classify unc dir name = .consider id) : id.length = 32 := by
  unfold s3Classify at h
  split at h
  · cases h
  · split at h
    · cases h
    · split at h
      · cases h
      · split at h
        · cases h
        · rename_i id' hid'
          injection h with h
          subst h
          exact (chunkIDFromString_some _ _ hid').2

/-! ### C16 for S3: prune -/

/-- what the walk removes, and that it only removes -/
theorem s3PruneWalk_removed_only (unc : Bool) (keep : Bytes → Bool) (l : List (Bytes × Bytes))
    (d : StoreDir) :
    (∀ f ∈ s3PruneWalk unc keep l d, f ∈ d) ∧
    ∀ f ∈ d, f ∉ s3PruneWalk unc keep l d →
      ∃ id, id.length = 32 ∧ keep id = false ∧ f = nameFromID unc id := by
  induction l generalizing d with
  | nil =>
    simp only [s3PruneWalk]
    exact ⟨fun f hf => hf, fun f hf hn => absurd hf hn⟩
  | cons x rest ih =>
    obtain ⟨dir, name⟩ := x
    simp only [s3PruneWalk]
    split
    · rename_i id hcl
      split
      · exact ih d
      · rename_i hk
        obtain ⟨hsub, hrem⟩ := ih (d.filter (· ≠ nameFromID unc id))
        refine ⟨fun f hf => (List.mem_filter.mp (hsub f hf)).1, ?_⟩
        intro f hf hn
        by_cases hfe : f = nameFromID unc id
        · exact ⟨id, s3Classify_consider_length unc _ _ _ hcl, by simpa using hk, hfe⟩
        · exact hrem f (List.mem_filter.mpr ⟨hf, by simpa using hfe⟩) hn
    · exact ih d

/-- S3 prune never adds anything -/
theorem s3Prune_subset (unc : Bool) (keep : Bytes → Bool) (d : StoreDir) :
    ∀ f ∈ s3Prune unc keep d, f ∈ d :=
  (s3PruneWalk_removed_only unc keep d d).1

/-- **S3 prune deletes only the canonical object of an unreferenced ID of the store's own format**
    (the listed key that named the ID may be a different one — `s3Prune_removes_via_alias`) -/
theorem s3Prune_removed_only (unc : Bool) (keep : Bytes → Bool) (d : StoreDir) :
    ∀ f ∈ d, f ∉ s3Prune unc keep d →
      ∃ id, id.length = 32 ∧ keep id = false ∧ f = nameFromID unc id ∧
        s3Classify unc f.1 f.2 = .consider id := by
  intro f hf hn
  obtain ⟨id, hl, hk, he⟩ := (s3PruneWalk_removed_only unc keep d d).2 f hf hn
  exact ⟨id, hl, hk, he, by rw [he]; exact s3_classify_own unc id hl⟩

theorem s3Prune_keeps_referenced (unc : Bool) (keep : Bytes → Bool) (d : StoreDir) (id : Bytes)
    (hk : keep id = true) (hid : id.length = 32) (hin : nameFromID unc id ∈ d) :
    nameFromID unc id ∈ s3Prune unc keep d := by
  apply Classical.byContradiction
  intro hn
  obtain ⟨id', _, hk', he, _⟩ := s3Prune_removed_only unc keep d _ hin hn
  have := nameFromID_injective unc _ _ he
  subst this
  rw [hk] at hk'; cases hk'

theorem s3Prune_keeps_other_format (unc : Bool) (keep : Bytes → Bool) (d : StoreDir)
    (dir id : Bytes) (hid : id.length = 32) (hin : (dir, (nameFromID (!unc) id).2) ∈ d) :
    (dir, (nameFromID (!unc) id).2) ∈ s3Prune unc keep d := by
  apply Classical.byContradiction
  intro hn
  obtain ⟨id', _, _, _, hc⟩ := s3Prune_removed_only unc keep d _ hin hn
  rw [s3_classify_other_format unc dir id hid] at hc
  cases hc

/-- keys that `idFromName` does not recognise survive -/
theorem s3Prune_keeps_skipped (unc : Bool) (keep : Bytes → Bool) (d : StoreDir)
    (f : Bytes × Bytes) (hs : s3Classify unc f.1 f.2 = .skip) (hin : f ∈ d) :
    f ∈ s3Prune unc keep d := by
  apply Classical.byContradiction
  intro hn
  obtain ⟨id', _, _, _, hc⟩ := s3Prune_removed_only unc keep d _ hin hn
  rw [hs] at hc; cases hc

theorem s3PruneWalk_complete (unc : Bool) (keep : Bytes → Bool) (l : List (Bytes × Bytes))
    (d : StoreDir) :
    ∀ f ∈ l, ∀ id, s3Classify unc f.1 f.2 = .consider id → keep id = false →
      nameFromID unc id ∉ s3PruneWalk unc keep l d := by
  induction l generalizing d with
  | nil => intro f hf; cases hf
  | cons x rest ih =>
    obtain ⟨dir, name⟩ := x
    intro f hf id hc hk
    simp only [s3PruneWalk]
    rcases List.mem_cons.mp hf with rfl | hf
    · -- the head
      simp only at hc
      rw [hc]
      simp only [hk, Bool.false_eq_true, ↓reduceIte]
      intro hin
      have := (s3PruneWalk_removed_only unc keep rest _).1 _ hin
      simp at this
    · -- the tail
      split
      · split
        · exact ih d f hf id hc hk
        · exact ih _ f hf id hc hk
      · exact ih d f hf id hc hk

/-- **S3 prune is complete** (it cannot fail): afterwards no canonical own-format object of an
    unreferenced ID is left -/
theorem s3Prune_complete (unc : Bool) (keep : Bytes → Bool) (d : StoreDir) :
    ∀ id, id.length = 32 → keep id = false → nameFromID unc id ∈ d →
      nameFromID unc id ∉ s3Prune unc keep d := by
  intro id hl hk hin
  exact s3PruneWalk_complete unc keep d d _ hin id (s3_classify_own unc id hl) hk

/-! ### non-vacuity, and the alias effect -/

section Example

private def s3A : Bytes := List.replicate 32 0xab      -- referenced
private def s3B : Bytes := List.replicate 32 0x01      -- unreferenced
private def s3C : Bytes := List.replicate 32 0x7f      -- stored in the other format

private def s3KeepA (id : Bytes) : Bool := id == s3A

/-- compressed store: referenced chunk, unreferenced chunk, uncompressed chunk of another store
    under the same prefix, a key without directory, junk -/
example :
    s3Prune false s3KeepA
        [ nameFromID false s3A, nameFromID false s3B, nameFromID true s3C,
          ([], (nameFromID false s3B).2), ([48, 49, 48, 49], [82, 69, 65, 68, 77, 69]) ]
      = [ nameFromID false s3A, nameFromID true s3C,
          ([], (nameFromID false s3B).2), ([48, 49, 48, 49], [82, 69, 65, 68, 77, 69]) ] := by
  decide

/-- a key `<2 hex>/<64 hex>.cacnk` is accepted by `idFromName` (the name starts with the
    directory) and names the ID; prune then removes the *canonical* object `<4 hex>/<64 hex>.cacnk`
    and leaves the listed alias in place -/
theorem s3Prune_removes_via_alias :
    s3Classify false [48, 49] (nameFromID false s3B).2 = .consider s3B ∧
    s3Prune false s3KeepA [ ([48, 49], (nameFromID false s3B).2), nameFromID false s3B ]
      = [ ([48, 49], (nameFromID false s3B).2) ] := by
  decide

end Example

end Desync
