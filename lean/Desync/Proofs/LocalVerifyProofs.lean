import Desync.Model.LocalVerify
import Desync.Proofs.LocalStoreProofs

namespace Desync

/-! ### helpers: association lists with unique keys -/

theorem StoreFiles.get_some_mem (p : Bytes × Bytes) (c : Bytes) :
    ∀ (d : StoreFiles), d.get p = some c → (p, c) ∈ d := by
  intro d
  induction d with
  | nil => intro h; simp [StoreFiles.get] at h
  | cons x xs ih =>
    obtain ⟨k, b⟩ := x
    intro h
    simp only [StoreFiles.get, List.lookup_cons] at h
    by_cases hk : p = k
    · subst hk
      simp at h
      subst h
      exact List.mem_cons_self
    · have : (p == k) = false := by simpa using hk
      rw [this] at h
      exact List.mem_cons_of_mem _ (ih h)

theorem StoreFiles.get_of_mem (p : Bytes × Bytes) (c : Bytes) :
    ∀ (d : StoreFiles), d.Nodup → (p, c) ∈ d → d.get p = some c := by
  intro d
  induction d with
  | nil => intro _ h; cases h
  | cons x xs ih =>
    obtain ⟨k, b⟩ := x
    intro hn hm
    simp only [StoreFiles.Nodup, List.map_cons, List.nodup_cons] at hn
    simp only [StoreFiles.get, List.lookup_cons]
    rcases List.mem_cons.mp hm with he | hm'
    · injection he with h1 h2
      subst h1; subst h2
      simp
    · by_cases hk : p = k
      · subst hk
        exact absurd (List.mem_map.mpr ⟨((p, c) : (Bytes × Bytes) × Bytes), hm', rfl⟩ :
          p ∈ List.map (fun x => x.1) xs) hn.1
      · have : (p == k) = false := by simpa using hk
        rw [this]
        exact ih hn.2 hm'

theorem StoreFiles.mem_remove (d : StoreFiles) (p : Bytes × Bytes) (f : (Bytes × Bytes) × Bytes) :
    f ∈ d.remove p ↔ f ∈ d ∧ f.1 ≠ p := by
  simp [StoreFiles.remove, List.mem_filter]

theorem StoreFiles.nodup_remove (d : StoreFiles) (p : Bytes × Bytes) (h : d.Nodup) : (d.remove p).Nodup := by
  unfold StoreFiles.Nodup StoreFiles.remove at *
  exact h.sublist (List.filter_sublist.map _)

theorem verifyClassify_consider_length (unc : Bool) (name id : Bytes)
    (h : verifyClassify unc name = .consider id) : id.length = 32 := by
  unfold verifyClassify at h
  split at h
  · cases h
  · split at h
    · cases h
    · rename_i id' hid'
      injection h with h
      subst h
      exact (chunkIDFromString_some _ _ hid').2

/-! ### the walk -/

theorem verifyWalk_subset (unc repair : Bool) (valid : Bytes → Bytes → Bool)
    (todo : List ((Bytes × Bytes) × Bytes)) :
    ∀ (d : StoreFiles) (out : List VerifyLine), ∀ f ∈ (verifyWalk unc repair valid todo d out).1, f ∈ d := by
  induction todo with
  | nil => intro d out f hf; simpa [verifyWalk] using hf
  | cons x rest ih =>
    obtain ⟨⟨dir, name⟩, c⟩ := x
    intro d out f hf
    simp only [verifyWalk] at hf
    split at hf
    · split at hf
      · exact ih _ _ f hf
      · split at hf
        · exact ih _ _ f hf
        · split at hf
          · exact ((StoreFiles.mem_remove _ _ _).mp (ih _ _ f hf)).1
          · exact ih _ _ f hf
    · exact ih _ _ f hf

theorem verifyWalk_no_repair (unc : Bool) (valid : Bytes → Bytes → Bool)
    (todo : List ((Bytes × Bytes) × Bytes)) :
    ∀ (d : StoreFiles) (out : List VerifyLine), (verifyWalk unc false valid todo d out).1 = d := by
  induction todo with
  | nil => intro d out; simp [verifyWalk]
  | cons x rest ih =>
    obtain ⟨⟨dir, name⟩, c⟩ := x
    intro d out
    simp only [verifyWalk]
    split
    · split
      · exact ih _ _
      · split
        · exact ih _ _
        · simp only [Bool.false_eq_true, ↓reduceIte]
          exact ih _ _
    · exact ih _ _

theorem verifyWalk_removes_only_invalid (unc : Bool) (valid : Bytes → Bytes → Bool)
    (todo : List ((Bytes × Bytes) × Bytes)) :
    ∀ (d : StoreFiles) (out : List VerifyLine), d.Nodup →
      ∀ f ∈ d, f ∉ (verifyWalk unc true valid todo d out).1 →
        ∃ id, id.length = 32 ∧ f.1 = nameFromID unc id ∧ valid id f.2 = false := by
  induction todo with
  | nil => intro d out _ f hf hn; simp [verifyWalk] at hn; exact absurd hf hn
  | cons x rest ih =>
    obtain ⟨⟨dir, name⟩, c⟩ := x
    intro d out hd f hf hn
    simp only [verifyWalk] at hn
    split at hn
    · rename_i id hcl
      split at hn
      · exact ih _ _ hd f hf hn
      · rename_i content hget
        split at hn
        · exact ih _ _ hd f hf hn
        · rename_i hv
          simp only [↓reduceIte] at hn
          by_cases hfe : f.1 = nameFromID unc id
          · refine ⟨id, verifyClassify_consider_length _ _ _ hcl, hfe, ?_⟩
            have h1 : d.get f.1 = some f.2 := StoreFiles.get_of_mem _ _ d hd hf
            rw [hfe, hget] at h1
            injection h1 with h1
            rw [← h1]
            simpa using hv
          · exact ih _ _ (StoreFiles.nodup_remove _ _ hd) f
              ((StoreFiles.mem_remove _ _ _).mpr ⟨hf, hfe⟩) hn
    · exact ih _ _ hd f hf hn

theorem verifyWalk_removes_every_invalid (unc : Bool) (valid : Bytes → Bytes → Bool)
    (id content : Bytes) (hbad : valid id content = false)
    (todo : List ((Bytes × Bytes) × Bytes)) :
    ∀ (d : StoreFiles) (out : List VerifyLine), d.Nodup →
      (∃ e ∈ todo, verifyClassify unc e.1.2 = .consider id) →
      (nameFromID unc id, content) ∉ (verifyWalk unc true valid todo d out).1 := by
  induction todo with
  | nil => intro d out _ ⟨e, he, _⟩; cases he
  | cons x rest ih =>
    obtain ⟨⟨dir, name⟩, c⟩ := x
    intro d out hd ⟨e, he, hce⟩ hin
    rcases List.mem_cons.mp he with rfl | he
    · -- the head is a name of `id`
      simp only at hce
      have hind := verifyWalk_subset unc true valid _ d out _ hin
      have hget := StoreFiles.get_of_mem _ _ d hd hind
      simp only [verifyWalk, hce, hget, hbad, Bool.false_eq_true, ↓reduceIte] at hin
      have := verifyWalk_subset unc true valid _ _ _ _ hin
      exact ((StoreFiles.mem_remove _ _ _).mp this).2 rfl
    · simp only [verifyWalk] at hin
      split at hin
      · split at hin
        · exact ih _ _ hd ⟨e, he, hce⟩ hin
        · split at hin
          · exact ih _ _ hd ⟨e, he, hce⟩ hin
          · simp only [↓reduceIte] at hin
            exact ih _ _ (StoreFiles.nodup_remove _ _ hd) ⟨e, he, hce⟩ hin
      · exact ih _ _ hd ⟨e, he, hce⟩ hin

theorem verifyWalk_out_mono (unc repair : Bool) (valid : Bytes → Bytes → Bool)
    (todo : List ((Bytes × Bytes) × Bytes)) :
    ∀ (d : StoreFiles) (out : List VerifyLine), ∀ l ∈ out, l ∈ (verifyWalk unc repair valid todo d out).2 := by
  induction todo with
  | nil => intro d out l hl; simpa [verifyWalk] using hl
  | cons x rest ih =>
    obtain ⟨⟨dir, name⟩, c⟩ := x
    intro d out l hl
    simp only [verifyWalk]
    split
    · split
      · exact ih _ _ l (List.mem_cons_of_mem _ hl)
      · split
        · exact ih _ _ l hl
        · split
          · exact ih _ _ l (List.mem_cons_of_mem _ hl)
          · exact ih _ _ l (List.mem_cons_of_mem _ hl)
    · exact ih _ _ l hl

/-- every `invalid` line comes from a canonical file with rejected content -/
theorem verifyWalk_invalid_sound (unc repair : Bool) (valid : Bytes → Bytes → Bool) (id : Bytes) (r : Bool)
    (todo : List ((Bytes × Bytes) × Bytes)) :
    ∀ (d : StoreFiles) (out : List VerifyLine),
      VerifyLine.invalid id r ∈ (verifyWalk unc repair valid todo d out).2 →
      VerifyLine.invalid id r ∈ out ∨ ∃ content, (nameFromID unc id, content) ∈ d ∧ valid id content = false := by
  induction todo with
  | nil => intro d out h; left; simpa [verifyWalk] using h
  | cons x rest ih =>
    obtain ⟨⟨dir, name⟩, c⟩ := x
    intro d out h
    simp only [verifyWalk] at h
    split at h
    · rename_i id' hcl
      split at h
      · rcases ih _ _ h with h | h
        · left; simpa using h
        · exact .inr h
      · rename_i content hget
        have hmem := StoreFiles.get_some_mem _ _ d hget
        split at h
        · exact ih _ _ h
        · rename_i hv
          have hv' : valid id' content = false := by simpa using hv
          split at h
          · rcases ih _ _ h with h | ⟨c', h1, h2⟩
            · rcases List.mem_cons.mp h with h | h
              · injection h with h1 h2
                subst h1
                exact .inr ⟨content, hmem, hv'⟩
              · exact .inl h
            · exact .inr ⟨c', ((StoreFiles.mem_remove _ _ _).mp h1).1, h2⟩
          · rcases ih _ _ h with h | h
            · rcases List.mem_cons.mp h with h | h
              · injection h with h1 h2
                subst h1
                exact .inr ⟨content, hmem, hv'⟩
              · exact .inl h
            · exact .inr h
    · exact ih _ _ h

/-- a canonical file with rejected content that the walk still has to meet is reported -/
theorem verifyWalk_invalid_complete (unc repair : Bool) (valid : Bytes → Bytes → Bool)
    (id content : Bytes) (hbad : valid id content = false)
    (todo : List ((Bytes × Bytes) × Bytes)) :
    ∀ (d : StoreFiles) (out : List VerifyLine), d.Nodup →
      (∃ e ∈ todo, verifyClassify unc e.1.2 = .consider id) →
      (nameFromID unc id, content) ∈ d →
      ∃ r, VerifyLine.invalid id r ∈ (verifyWalk unc repair valid todo d out).2 := by
  induction todo with
  | nil => intro d out _ ⟨e, he, _⟩; cases he
  | cons x rest ih =>
    obtain ⟨⟨dir, name⟩, c⟩ := x
    intro d out hd ⟨e, he, hce⟩ hin
    rcases List.mem_cons.mp he with rfl | he
    · simp only at hce
      have hget := StoreFiles.get_of_mem _ _ d hd hin
      simp only [verifyWalk, hce, hget, hbad, Bool.false_eq_true, ↓reduceIte]
      split
      · exact ⟨true, verifyWalk_out_mono _ _ _ _ _ _ _ List.mem_cons_self⟩
      · exact ⟨false, verifyWalk_out_mono _ _ _ _ _ _ _ List.mem_cons_self⟩
    · simp only [verifyWalk]
      split
      · rename_i id' hcl
        split
        · exact ih _ _ hd ⟨e, he, hce⟩ hin
        · split
          · exact ih _ _ hd ⟨e, he, hce⟩ hin
          · split
            · by_cases hid : id' = id
              · subst hid
                exact ⟨true, verifyWalk_out_mono _ _ _ _ _ _ _ List.mem_cons_self⟩
              · refine ih _ _ (StoreFiles.nodup_remove _ _ hd) ⟨e, he, hce⟩
                  ((StoreFiles.mem_remove _ _ _).mpr ⟨hin, ?_⟩)
                intro heq
                exact hid (nameFromID_injective unc _ _ heq).symm
            · exact ih _ _ hd ⟨e, he, hce⟩ hin
      · exact ih _ _ hd ⟨e, he, hce⟩ hin

/-! Statements to prove (no `sorry` may remain).  `d` is a store directory with unique paths. -/

/-- verify never changes a file's content and never creates one: what is left is a sub-list of what was there -/
theorem verify_subset (unc repair : Bool) (valid : Bytes → Bytes → Bool) (d : StoreFiles) :
    ∀ f ∈ (verify unc repair valid d).1, f ∈ d :=
  verifyWalk_subset unc repair valid d d []

/-- without repair nothing is removed -/
theorem verify_no_repair_keeps_all (unc : Bool) (valid : Bytes → Bytes → Bool) (d : StoreFiles) :
    (verify unc false valid d).1 = d :=
  verifyWalk_no_repair unc valid d d []

/-- **removes only invalid chunks of its own format**: a file that is gone after verify --repair is the canonical file
    of an ID whose content the verifying constructor rejects -/
theorem verify_removes_only_invalid (unc : Bool) (valid : Bytes → Bytes → Bool) (d : StoreFiles) (hd : d.Nodup)
    (f : (Bytes × Bytes) × Bytes) (hf : f ∈ d) (hgone : f ∉ (verify unc true valid d).1) :
    ∃ id, id.length = 32 ∧ f.1 = nameFromID unc id ∧ valid id f.2 = false :=
  verifyWalk_removes_only_invalid unc valid d d [] hd f hf hgone

/-- **removes every invalid chunk of its own format**: after verify --repair no canonical own-format file with
    rejected content is left -/
theorem verify_removes_every_invalid (unc : Bool) (valid : Bytes → Bytes → Bool) (d : StoreFiles) (hd : d.Nodup)
    (id content : Bytes) (hid : id.length = 32) (hin : (nameFromID unc id, content) ∈ d)
    (hbad : valid id content = false) :
    (nameFromID unc id, content) ∉ (verify unc true valid d).1 :=
  verifyWalk_removes_every_invalid unc valid id content hbad d d [] hd
    ⟨_, hin, (classify_own unc id hid).2⟩

/-- **reports exactly the invalid ones**: an `invalid` line is printed for `id` iff the canonical own-format file of
    `id` is in the store with content the constructor rejects (with or without repair) -/
theorem verify_reports_exactly_invalid (unc repair : Bool) (valid : Bytes → Bytes → Bool) (d : StoreFiles) (hd : d.Nodup)
    (id : Bytes) (hid : id.length = 32) :
    (∃ r, VerifyLine.invalid id r ∈ (verify unc repair valid d).2) ↔
      ∃ content, (nameFromID unc id, content) ∈ d ∧ valid id content = false := by
  constructor
  · rintro ⟨r, h⟩
    rcases verifyWalk_invalid_sound unc repair valid id r d d [] h with h | h
    · cases h
    · exact h
  · rintro ⟨content, hin, hbad⟩
    exact verifyWalk_invalid_complete unc repair valid id content hbad d d [] hd
      ⟨_, hin, (classify_own unc id hid).2⟩ hin

/-- valid chunks, files of the other format (wherever they lie) and files that are not chunk names are never removed -/
theorem verify_keeps_valid_and_foreign (unc : Bool) (valid : Bytes → Bytes → Bool) (d : StoreFiles) (hd : d.Nodup)
    (f : (Bytes × Bytes) × Bytes) (hf : f ∈ d)
    (h : (∃ id, id.length = 32 ∧ f.1 = nameFromID unc id ∧ valid id f.2 = true) ∨
         (∃ dir id, id.length = 32 ∧ f.1 = (dir, (nameFromID (!unc) id).2)) ∨
         verifyClassify unc f.1.2 = .skip) :
    f ∈ (verify unc true valid d).1 := by
  apply Classical.byContradiction
  intro hgone
  obtain ⟨id, hid, hname, hbad⟩ := verify_removes_only_invalid unc valid d hd f hf hgone
  have hown : verifyClassify unc f.1.2 = .consider id := by
    rw [hname]; exact (classify_own unc id hid).2
  rcases h with ⟨id', _, hname', hgood⟩ | ⟨dir, id', hid', hname'⟩ | hskip
  · have : id = id' := nameFromID_injective unc _ _ (hname.symm.trans hname')
    subst this
    rw [hgood] at hbad; cases hbad
  · rw [hname'] at hown
    simp only at hown
    rw [(classify_other_format unc id' hid').2] at hown
    cases hown
  · rw [hskip] at hown; cases hown

end Desync
