/-
  Lemmas about the byte-list file operations of `Desync.Model.Assemble`
  (`writeAt`, `readUpTo`, `readFull`, `truncate`).
-/
import Desync.Model.Assemble

namespace Desync.Asm

theorem zeros_length (n : Nat) : (zeros n).length = n := by simp [zeros]

theorem truncate_length (f : Bytes) (n : Nat) : (truncate f n).length = n := by
  simp only [truncate, List.length_take, List.length_append, zeros_length]; omega

/-- a write inside the file: the plain splice -/
theorem writeAt_inside (f : Bytes) (off : Nat) (b : Bytes) (h : off + b.length ≤ f.length) :
    writeAt f off b = f.take off ++ b ++ f.drop (off + b.length) := by
  unfold writeAt
  by_cases hb : b = []
  · subst hb; simp
  · have : b.isEmpty = false := by cases b <;> simp_all
    have hz : off - f.length = 0 := by omega
    simp [this, hz, zeros]

/-- a write inside the file does not change its length -/
theorem writeAt_length (f : Bytes) (off : Nat) (b : Bytes) (h : off + b.length ≤ f.length) :
    (writeAt f off b).length = f.length := by
  rw [writeAt_inside f off b h]
  simp only [List.length_append, List.length_take, List.length_drop]; omega

theorem writeAt_getElem? (f : Bytes) (off : Nat) (b : Bytes) (h : off + b.length ≤ f.length) (i : Nat) :
    (writeAt f off b)[i]? = if off ≤ i ∧ i < off + b.length then b[i - off]? else f[i]? := by
  rw [writeAt_inside f off b h]
  have hto : (f.take off).length = off := by simp only [List.length_take]; omega
  by_cases h1 : i < off
  · have : ¬ (off ≤ i ∧ i < off + b.length) := by omega
    rw [if_neg this, List.append_assoc, List.getElem?_append_left (by omega)]
    rw [List.getElem?_take]; simp [h1]
  · by_cases h2 : i < off + b.length
    · rw [if_pos ⟨by omega, h2⟩, List.append_assoc, List.getElem?_append_right (by omega), hto,
        List.getElem?_append_left (by omega)]
    · have : ¬ (off ≤ i ∧ i < off + b.length) := by omega
      rw [if_neg this, List.getElem?_append_right (by simp only [List.length_append, hto]; omega)]
      simp only [List.length_append, hto, List.getElem?_drop]
      congr 1; omega

theorem readUpTo_getElem? (f : Bytes) (off n i : Nat) :
    (readUpTo f off n)[i]? = if i < n then f[off + i]? else none := by
  simp only [readUpTo, List.getElem?_take, List.getElem?_drop]

theorem readUpTo_length (f : Bytes) (off n : Nat) (h : off + n ≤ f.length) :
    (readUpTo f off n).length = n := by
  simp only [readUpTo, List.length_take, List.length_drop]; omega

/-- reading a range disjoint from the written one -/
theorem readUpTo_writeAt_disjoint (f : Bytes) (off : Nat) (b : Bytes) (o n : Nat)
    (h : off + b.length ≤ f.length) (hd : o + n ≤ off ∨ off + b.length ≤ o) :
    readUpTo (writeAt f off b) o n = readUpTo f o n := by
  apply List.ext_getElem?
  intro i
  rw [readUpTo_getElem?, readUpTo_getElem?]
  by_cases hi : i < n
  · rw [if_pos hi, if_pos hi, writeAt_getElem? f off b h]
    have : ¬ (off ≤ o + i ∧ o + i < off + b.length) := by omega
    rw [if_neg this]
  · rw [if_neg hi, if_neg hi]

/-- reading back exactly what was written -/
theorem readUpTo_writeAt_same (f : Bytes) (off : Nat) (b : Bytes) (h : off + b.length ≤ f.length) :
    readUpTo (writeAt f off b) off b.length = b := by
  apply List.ext_getElem?
  intro i
  rw [readUpTo_getElem?]
  by_cases hi : i < b.length
  · rw [if_pos hi, writeAt_getElem? f off b h, if_pos ⟨by omega, by omega⟩]
    congr 1; omega
  · rw [if_neg hi]; symm; exact List.getElem?_eq_none (by omega)

theorem readFull_eq_some {f : Bytes} {off n : Nat} {b : Bytes} (h : readFull f off n = some b) :
    b = readUpTo f off n := by
  unfold readFull at h
  split at h
  · exact (Option.some.inj h).symm
  · cases h

/-- `take` over a range that ends where a read ends -/
theorem take_add_readUpTo (f : Bytes) (a n : Nat) :
    f.take (a + n) = f.take a ++ readUpTo f a n := by
  simp only [readUpTo, List.take_add]

end Desync.Asm
