/-
  ReadSeeker proofs (C09), top level: sequences of `Seek`/`Read` operations return exactly the
  blob's bytes.  Parts: `ReadSeekerSearch` (tilings, `searchChunk`), `ReadSeekerSeek` (`Setup`,
  `Inv`, `findOffset_spec`, `seek_spec`), `ReadSeekerRead` (`read_safe`, `read_exact`,
  `fuseRead_safe`, `fuseRead_exact`), this file (`ops_exact`, `ops_safe`).
-/
import Desync.Model.ReadSeeker
import Desync.Proofs.ReadSeekerRead

namespace Desync

/-- an operation on the reader -/
inductive Op
  | seek (off : Int) (w : Whence)
  | read (n : Nat)

/-- what an operation returns: the new position or the error of a `Seek`; the result of a `Read` -/
inductive Out
  | seek (r : Except SeekErr Nat)
  | read (r : ReadRes)

/-- run a sequence of operations on the model; outputs, final reader, final store-call count -/
def run (fetch : Fetch) : IdxPos → Nat → List Op → List Out × IdxPos × Nat
  | ip, calls, [] => ([], ip, calls)
  | ip, calls, .seek off w :: ops =>
    match ip.seek off w with
    | .ok ip' => let r := run fetch ip' calls ops; (.seek (.ok ip'.pos) :: r.1, r.2)
    | .error e => let r := run fetch ip calls ops; (.seek (.error e) :: r.1, r.2)
  | ip, calls, .read n :: ops =>
    let r1 := ip.read fetch n calls
    let r := run fetch r1.2.1 r1.2.2 ops
    (.read r1.1 :: r.1, r.2)

/-- the absolute target of a seek, in terms of the blob only -/
def specTarget (L pos : Nat) (off : Int) : Whence → Int
  | .start => off
  | .current => pos + off
  | .end_ => L + off

/-- the reference semantics: a plain `io.ReadSeeker` over the byte string `blob`, as a function of
    the position only; outputs and final position -/
def specRun (blob : Bytes) : Nat → List Op → List Out × Nat
  | pos, [] => ([], pos)
  | pos, .seek off w :: ops =>
    if specTarget blob.length pos off w < 0 then
      let r := specRun blob pos ops; (.seek (.error .before) :: r.1, r.2)
    else if specTarget blob.length pos off w > blob.length then
      let r := specRun blob pos ops; (.seek (.error .beyond) :: r.1, r.2)
    else
      let r := specRun blob (specTarget blob.length pos off w).toNat ops
      (.seek (.ok (specTarget blob.length pos off w).toNat) :: r.1, r.2)
  | pos, .read n :: ops =>
    if pos = blob.length then
      let r := specRun blob pos ops; (.read (.eof []) :: r.1, r.2)
    else
      let r := specRun blob (pos + min n (blob.length - pos)) ops
      (.read (.data ((blob.drop pos).take n)) :: r.1, r.2)

theorem seekTarget_eq {blob : Bytes} {ip : IdxPos} {fetch : Fetch} (hs : Setup blob ip fetch)
    (off : Int) (w : Whence) : seekTarget ip off w = specTarget blob.length ip.pos off w := by
  cases w <;> simp [seekTarget, specTarget, hs.len.1]

/-- with a sound store that never fails, every sequence of seeks and reads behaves exactly like a
    plain reader over `blob`: every read returns the blob's bytes at the position reached by the
    previous operations -/
theorem ops_exact {blob : Bytes} {fetch : Fetch} (ops : List Op) :
    ∀ (ip : IdxPos) (calls : Nat), Setup blob ip fetch → Inv blob ip → NeverFails ip fetch →
      (run fetch ip calls ops).1 = (specRun blob ip.pos ops).1 ∧
      (run fetch ip calls ops).2.1.pos = (specRun blob ip.pos ops).2 ∧
      Inv blob (run fetch ip calls ops).2.1 ∧ SameIdx ip (run fetch ip calls ops).2.1 := by
  induction ops with
  | nil => intro ip calls _ hi _; exact ⟨rfl, rfl, hi, SameIdx.refl ip⟩
  | cons op ops ih =>
    intro ip calls hs hi hnf
    cases op with
    | seek off w =>
      obtain ⟨s1, s2, s3⟩ := seek_spec hs hi off w
      rw [seekTarget_eq hs] at s1 s2 s3
      simp only [run, specRun]
      by_cases ht1 : specTarget blob.length ip.pos off w < 0
      · rw [s2 ht1, if_pos ht1]
        obtain ⟨a1, a2, a3, a4⟩ := ih ip calls hs hi hnf
        exact ⟨by simp only [a1], a2, a3, a4⟩
      · rw [if_neg ht1]
        by_cases ht2 : specTarget blob.length ip.pos off w > blob.length
        · rw [s3 ht2, if_pos ht2]
          obtain ⟨a1, a2, a3, a4⟩ := ih ip calls hs hi hnf
          exact ⟨by simp only [a1], a2, a3, a4⟩
        · rw [if_neg ht2]
          obtain ⟨ip', e1, e2, e3, e4⟩ := s1 ⟨by omega, by omega⟩
          rw [e1]
          obtain ⟨a1, a2, a3, a4⟩ := ih ip' calls (hs.of_same e4) e3 (hnf.of_same e4)
          rw [e2] at a1 a2
          exact ⟨by simp only [a1, e2], a2, a3, e4.trans a4⟩
    | read n =>
      obtain ⟨r1, r2⟩ := read_exact hs hi hnf n calls
      have hle := inv_pos_le hs hi
      simp only [run, specRun]
      by_cases hp : ip.pos = blob.length
      · rw [r2 hp, if_pos hp]
        obtain ⟨a1, a2, a3, a4⟩ := ih ip calls hs hi hnf
        exact ⟨by simp only [a1], a2, a3, a4⟩
      · rw [if_neg hp]
        obtain ⟨ip', calls', e1, e2, e3, e4⟩ := r1 (by omega)
        rw [e1]
        obtain ⟨a1, a2, a3, a4⟩ := ih ip' calls' (hs.of_same e3) e2 (hnf.of_same e3)
        rw [e4] at a1 a2
        exact ⟨by simp only [a1], a2, a3, e3.trans a4⟩

/-- bytes carried by a read result -/
def ReadRes.bytes : ReadRes → Bytes
  | .data b => b
  | .eof b => b
  | .err b => b
  | .panic => []

/-- a trace of outputs is safe for `blob` from position `pos`: seeks behave as specified; every
    read returns a correct run of the blob's bytes at the current position (complete when there is
    no error, a prefix when a store call failed), never panics, EOF only at the end; the position
    advances by the bytes delivered -/
def SafeTrace (blob : Bytes) : Nat → List Op → List Out → Prop
  | _, [], [] => True
  | pos, .seek off w :: ops, .seek r :: outs =>
    if specTarget blob.length pos off w < 0 then r = .error .before ∧ SafeTrace blob pos ops outs
    else if specTarget blob.length pos off w > blob.length then
      r = .error .beyond ∧ SafeTrace blob pos ops outs
    else r = .ok (specTarget blob.length pos off w).toNat ∧
      SafeTrace blob (specTarget blob.length pos off w).toNat ops outs
  | pos, .read n :: ops, .read r :: outs =>
    (match r with
     | .data b => pos < blob.length ∧ b = (blob.drop pos).take n
     | .eof b => b = [] ∧ pos = blob.length
     | .err b => pos < blob.length ∧ b = (blob.drop pos).take b.length ∧ b.length ≤ n
     | .panic => False) ∧ SafeTrace blob (pos + r.bytes.length) ops outs
  | _, _, _ => False

/-- whatever the (sound) store does — including failing at any call — every sequence of seeks and
    reads yields a safe trace: no panic, no altered byte, positions as specified -/
theorem ops_safe {blob : Bytes} {fetch : Fetch} (ops : List Op) :
    ∀ (ip : IdxPos) (calls : Nat), Setup blob ip fetch → Inv blob ip →
      SafeTrace blob ip.pos ops (run fetch ip calls ops).1 ∧
      Inv blob (run fetch ip calls ops).2.1 ∧ SameIdx ip (run fetch ip calls ops).2.1 := by
  induction ops with
  | nil => intro ip calls _ hi; exact ⟨trivial, hi, SameIdx.refl ip⟩
  | cons op ops ih =>
    intro ip calls hs hi
    cases op with
    | seek off w =>
      obtain ⟨s1, s2, s3⟩ := seek_spec hs hi off w
      rw [seekTarget_eq hs] at s1 s2 s3
      simp only [run]
      by_cases ht1 : specTarget blob.length ip.pos off w < 0
      · rw [s2 ht1]
        obtain ⟨a1, a3, a4⟩ := ih ip calls hs hi
        refine ⟨?_, a3, a4⟩
        simp only [SafeTrace, if_pos ht1]
        exact ⟨trivial, a1⟩
      · by_cases ht2 : specTarget blob.length ip.pos off w > blob.length
        · rw [s3 ht2]
          obtain ⟨a1, a3, a4⟩ := ih ip calls hs hi
          refine ⟨?_, a3, a4⟩
          simp only [SafeTrace, if_neg ht1, if_pos ht2]
          exact ⟨trivial, a1⟩
        · obtain ⟨ip', e1, e2, e3, e4⟩ := s1 ⟨by omega, by omega⟩
          rw [e1]
          obtain ⟨a1, a3, a4⟩ := ih ip' calls (hs.of_same e4) e3
          refine ⟨?_, a3, e4.trans a4⟩
          simp only [SafeTrace, if_neg ht1, if_neg ht2]
          rw [e2] at a1
          exact ⟨by rw [e2], a1⟩
    | read n =>
      have hsafe := read_safe hs hi n calls
      simp only [run]
      rcases hr : ip.read fetch n calls with ⟨res, ip', calls'⟩
      rw [hr] at hsafe
      cases res with
      | data b =>
        obtain ⟨h1, h2, h3, h4, h5⟩ := hsafe
        obtain ⟨a1, a3, a4⟩ := ih ip' calls' (hs.of_same h5) h4
        refine ⟨?_, a3, h5.trans a4⟩
        simp only [SafeTrace, ReadRes.bytes]
        rw [h3] at a1
        exact ⟨⟨h2, h1⟩, a1⟩
      | eof b =>
        obtain ⟨h1, h2, h3⟩ := hsafe
        subst h3
        obtain ⟨a1, a3, a4⟩ := ih ip' calls' hs hi
        refine ⟨?_, a3, a4⟩
        simp only [SafeTrace, ReadRes.bytes]
        subst h1
        exact ⟨⟨rfl, h2⟩, by simpa using a1⟩
      | err b =>
        obtain ⟨h1, h2, h3, h4, h5, h6, _⟩ := hsafe
        obtain ⟨a1, a3, a4⟩ := ih ip' calls' (hs.of_same h6) h5
        refine ⟨?_, a3, h6.trans a4⟩
        simp only [SafeTrace, ReadRes.bytes]
        rw [h4] at a1
        exact ⟨⟨h3, h1, h2⟩, a1⟩
      | panic => exact hsafe.elim

/-! ### why `Inv` records "offset = chunk size only in the last chunk"

  Without that clause (i.e. with only `curOff ≤ c.size`) exactness of `Read` is false: in the state
  below (never produced by `new`/`findOffset`) the reader sits at the end of chunk 0 of 2, the loop
  copies an empty piece, `findOffset pos` is a no-op, and the loop spins (in Go: forever; in the
  model: until the fuel runs out, returning 0 bytes instead of `[12]`). -/

/-- the weak invariant of the first sketch -/
def WeakInv (blob : Bytes) (ip : IdxPos) : Prop :=
  (ip.chunks = [] → ip.pos = 0) ∧
  (ip.chunks ≠ [] → ∃ c, ip.chunks[ip.curIdx]? = some c ∧ ip.curID = c.id ∧ ip.curOff ≤ c.size ∧
      ip.pos = c.start + ip.curOff ∧ (ip.curChunk ≠ [] → ip.curChunk = slice blob c))

theorem weakInv_counterexample :
    let blob : Bytes := [10, 11, 12, 13]
    let ip : IdxPos := { chunks := [⟨1, 0, 2⟩, ⟨2, 2, 2⟩], length := 4, nullID := 0, nullLen := 8,
                         pos := 2, curID := 1, curIdx := 0, curOff := 2 }
    let fetch : Fetch := fun _ id => if id = 1 then some [10, 11] else if id = 2 then some [12, 13] else none
    WeakInv blob ip ∧ (ip.read fetch 1 0).1 = .data [] ∧ (blob.drop ip.pos).take 1 = [12] := by
  refine ⟨⟨by simp, fun _ => ⟨⟨1, 0, 2⟩, rfl, rfl, by decide, rfl, by simp⟩⟩, by decide, by decide⟩

/-- the hypotheses are satisfiable (non-vacuity): a two-chunk index over a four-byte blob -/
theorem setup_example :
    let blob : Bytes := [10, 11, 12, 13]
    let ip : IdxPos := IdxPos.new [⟨1, 0, 2⟩, ⟨2, 2, 2⟩] 4 0 8
    let fetch : Fetch := fun _ id => if id = 1 then some [10, 11] else if id = 2 then some [12, 13] else none
    Setup blob ip fetch ∧ Inv blob ip ∧ NeverFails ip fetch := by
  refine ⟨⟨by simp [IdxPos.new, TilesFrom], by simp [IdxPos.new, endOf], ?_, ?_, ?_⟩,
    inv_new _ _ _ _ _ (by simp [TilesFrom]), ?_⟩
  · intro c hc k b hb
    simp [IdxPos.new] at hc
    rcases hc with rfl | rfl <;> simp at hb <;> subst hb <;> rfl
  · intro c hc d hd h
    simp [IdxPos.new] at hc hd
    rcases hc with rfl | rfl <;> rcases hd with rfl | rfl <;> simp at h <;> rfl
  · intro c hc h
    simp [IdxPos.new] at hc
    rcases hc with rfl | rfl <;> simp [IdxPos.new] at h
  · intro k id ⟨c, hc, h⟩
    simp [IdxPos.new] at hc
    rcases hc with rfl | rfl <;> subst h <;> rfl

end Desync
