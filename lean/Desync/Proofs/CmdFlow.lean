/-
  Helper lemmas for the command-flow model (Model/CmdFlow.lean): the static checks of a block carry over to every
  linearisation, and the invariants of `exec` the property theorems are made of.
-/
import Desync.Model.CmdFlow

namespace Desync.Cmd

/-! ### static checks carry over to every run -/

mutual
theorem Stmt.all_lin (p : Atom → Bool) (env : Env) :
    (s : Stmt) → s.all p = true → ∀ a ∈ s.lin env, p a = true
  | .step s, h, a, ha => by simp [Stmt.lin] at ha; subst ha; simpa [Stmt.all] using h
  | .ret s, h, a, ha => by simp [Stmt.lin] at ha; subst ha; simpa [Stmt.all] using h
  | .fail, h, a, ha => by simp [Stmt.lin] at ha; subst ha; simpa [Stmt.all] using h
  | .retNil, h, a, ha => by simp [Stmt.lin] at ha; subst ha; simpa [Stmt.all] using h
  | .deferred c, h, a, ha => by simp [Stmt.lin] at ha; subst ha; simpa [Stmt.all] using h
  | .spawn s, h, a, ha => by simp [Stmt.lin] at ha; subst ha; simpa [Stmt.all] using h
  | .join c e, h, a, ha => by simp [Stmt.lin] at ha; subst ha; simpa [Stmt.all] using h
  | .mayStop w, h, a, ha => by simp [Stmt.lin] at ha; subst ha; simpa [Stmt.all] using h
  | .cond c t e, h, a, ha => by
    simp only [Stmt.all, Bool.and_eq_true] at h
    simp only [Stmt.lin] at ha
    split at ha
    · exact Block.all_lin p env t h.1 a ha
    · exact Block.all_lin p env e h.2 a ha
  | .loop o b, h, a, ha => by
    simp only [Stmt.all] at h
    simp only [Stmt.lin, List.mem_flatten] at ha
    obtain ⟨l, hl, hal⟩ := ha
    have := List.eq_of_mem_replicate hl
    subst this
    exact Block.all_lin p env b h a hal
theorem Block.all_lin (p : Atom → Bool) (env : Env) :
    (b : Block) → b.all p = true → ∀ a ∈ b.lin env, p a = true
  | .nil, _, a, ha => by simp [Block.lin] at ha
  | .cons s r, h, a, ha => by
    simp only [Block.all, Bool.and_eq_true] at h
    simp only [Block.lin, List.mem_append] at ha
    rcases ha with ha | ha
    · exact Stmt.all_lin p env s h.1 a ha
    · exact Block.all_lin p env r h.2 a ha
end

/-! ### invariants of `exec` -/

theorem St.push_effects (st : St) (c : String) (k : EffKind) (ok : Bool) :
    (st.push c k ok).effects = st.effects ++ [⟨c, k, ok, st.effects.length⟩] := rfl

/-- with every error propagated, a run that does not return an error has seen no failing effect -/
theorem exec_success_all_ok (orc : Oracle) :
    ∀ (as : List Atom) (st : St), (∀ a ∈ as, a.propagates = true) → (∀ e ∈ st.effects, e.ok = true) →
      (exec orc as st).1 ≠ .err → ∀ e ∈ (exec orc as st).2.effects, e.ok = true
  | [], st, _, hst, _ => by simpa [exec] using hst
  | a :: rest, st, hp, hst, hr => by
    have hrest : ∀ a ∈ rest, a.propagates = true := fun x hx => hp x (List.mem_cons_of_mem _ hx)
    have ha := hp a (List.mem_cons_self ..)
    cases a with
    | step s =>
      simp only [exec] at hr ⊢
      cases hb : orc.fails st.effects s
      · simp only [hb] at hr ⊢
        exact exec_success_all_ok orc rest _ hrest
          (by intro e he; simp [St.push_effects] at he; rcases he with he | he; exact hst e he; subst he; rfl) hr
      · simp only [hb] at hr ⊢
        simp only [Atom.propagates] at ha
        cases ho : s.onErr <;> simp [ho, ErrUse.returnsErr] at ha <;> simp [ho] at hr
    | ret s =>
      simp only [exec] at hr ⊢
      cases hb : orc.fails st.effects s
      · intro e he
        simp [St.push_effects] at he
        rcases he with he | he
        · exact hst e he
        · subst he; rfl
      · simp only [Atom.propagates] at ha
        simp [hb, ha] at hr
    | fail => simp [exec] at hr
    | retNil => simpa [exec] using hst
    | deferred c =>
      simp only [exec] at hr ⊢
      exact exec_success_all_ok orc rest _ hrest hst hr
    | spawn s =>
      simp only [exec] at hr ⊢
      exact exec_success_all_ok orc rest _ hrest
        (by intro e he; simp [St.push_effects] at he; rcases he with he | he; exact hst e he; subst he; rfl) hr
    | join c eu =>
      simp only [exec] at hr ⊢
      cases hl : st.pending.lookup c with
      | none =>
        simp only [hl] at hr ⊢
        exact exec_success_all_ok orc rest _ hrest hst hr
      | some bad =>
        simp only [hl] at hr ⊢
        cases bad
        · simp only [Bool.false_eq_true, if_false] at hr ⊢
          exact exec_success_all_ok orc rest _ hrest
            (by intro e he; simp [St.push_effects] at he; rcases he with he | he; exact hst e he; subst he; rfl) hr
        · simp only [Atom.propagates] at ha
          cases ho : eu <;> simp [ho, ErrUse.returnsErr] at ha <;> simp [ho] at hr
    | mayStop w =>
      simp only [exec] at hr ⊢
      split
      · exact hst
      · rename_i hs
        simp only [hs] at hr
        exact exec_success_all_ok orc rest _ hrest hst hr

/-- what holds for every effect except possibly the last one of the body -/
def Effect.quiet (e : Effect) : Bool := e.ok && !isIndexStore e.callee

theorem mem_push_quiet {st : St} {c : String} {k : EffKind} (hst : ∀ e ∈ st.effects, e.quiet = true)
    (hc : isIndexStore c = false) : ∀ e ∈ (st.push c k true).effects, e.quiet = true := by
  intro e he
  simp [St.push_effects] at he
  rcases he with he | he
  · exact hst e he
  · subst he; simp [Effect.quiet, hc]

theorem dropLast_push {st : St} {c : String} {k : EffKind} {ok : Bool} (hst : ∀ e ∈ st.effects, e.quiet = true) :
    ∀ e ∈ (st.push c k ok).effects.dropLast, e.quiet = true := by
  intro e he
  rw [St.push_effects, List.dropLast_concat] at he
  exact hst e he

/-- with every error propagated and the index written only by a `return storeCaibxFile(…)`: every effect of the body
    except the last one succeeded and was not the index write -/
theorem exec_all_but_last_quiet (orc : Oracle) :
    ∀ (as : List Atom) (st : St), (∀ a ∈ as, a.propagates = true) → (∀ a ∈ as, a.indexStoreOnlyReturned = true) →
      (∀ e ∈ st.effects, e.quiet = true) → ∀ e ∈ (exec orc as st).2.effects.dropLast, e.quiet = true
  | [], st, _, _, hst => by
    intro e he
    exact hst e (List.dropLast_subset _ he)
  | a :: rest, st, hp, hq, hst => by
    have hp' : ∀ a ∈ rest, a.propagates = true := fun x hx => hp x (List.mem_cons_of_mem _ hx)
    have hq' : ∀ a ∈ rest, a.indexStoreOnlyReturned = true := fun x hx => hq x (List.mem_cons_of_mem _ hx)
    have ha := hp a (List.mem_cons_self ..)
    have hb := hq a (List.mem_cons_self ..)
    have hdl : ∀ e ∈ st.effects.dropLast, e.quiet = true := fun e he => hst e (List.dropLast_subset _ he)
    cases a with
    | step s =>
      simp only [Atom.indexStoreOnlyReturned, Bool.not_eq_true'] at hb
      simp only [exec]
      cases hf : orc.fails st.effects s
      · simp only [Bool.false_eq_true, if_false, Bool.not_false]
        exact exec_all_but_last_quiet orc rest _ hp' hq' (mem_push_quiet hst hb)
      · simp only [Atom.propagates] at ha
        cases ho : s.onErr <;> simp [ho, ErrUse.returnsErr] at ha <;> simp only [if_true, Bool.not_true] <;>
          exact dropLast_push hst
    | ret s =>
      simp only [exec]
      split <;> exact dropLast_push hst
    | fail => simpa [exec] using hdl
    | retNil => simpa [exec] using hdl
    | deferred c =>
      simp only [exec]
      exact exec_all_but_last_quiet orc rest _ hp' hq' hst
    | spawn s =>
      simp only [Atom.indexStoreOnlyReturned, Bool.not_eq_true'] at hb
      simp only [exec]
      exact exec_all_but_last_quiet orc rest _ hp' hq' (mem_push_quiet hst hb)
    | join c eu =>
      simp only [Atom.indexStoreOnlyReturned, Bool.not_eq_true'] at hb
      simp only [exec]
      cases hl : st.pending.lookup c with
      | none => exact exec_all_but_last_quiet orc rest _ hp' hq' hst
      | some bad =>
        cases bad
        · simp only [Bool.false_eq_true, if_false, Bool.not_false]
          exact exec_all_but_last_quiet orc rest _ hp' hq' (mem_push_quiet hst hb)
        · simp only [Atom.propagates] at ha
          cases ho : eu <;> simp [ho, ErrUse.returnsErr] at ha <;> simp only [if_true, Bool.not_true] <;>
            exact dropLast_push hst
    | mayStop w =>
      simp only [exec]
      split
      · exact hdl
      · exact exec_all_but_last_quiet orc rest _ hp' hq' hst

/-- the library contract used for cancellation: once the command's context is cancelled (after `cancelAt` effects),
    a long-running call that was given that context returns an error (its work being incomplete) -/
def CancelContract (orc : Oracle) (cancelAt : Nat) : Prop :=
  ∀ (hist : List Effect) (s : Step), isLong s.callee = true → s.ctx = .cmd → cancelAt ≤ hist.length →
    orc.fails hist s = true

def CancelInv (cancelAt : Nat) (es : List Effect) : Prop :=
  ∀ e ∈ es, e.kind = .call → isLong e.callee = true → cancelAt ≤ e.pos → e.ok = false

theorem cancelInv_push_call {orc : Oracle} {cancelAt : Nat} (hlib : CancelContract orc cancelAt) {st : St} {s : Step}
    (hs : (!isLong s.callee || decide (s.ctx = .cmd)) = true) (hst : CancelInv cancelAt st.effects) :
    CancelInv cancelAt (st.push s.callee .call (!orc.fails st.effects s)).effects := by
  intro e he hk hl hc
  simp [St.push_effects] at he
  rcases he with he | he
  · exact hst e he hk hl hc
  · subst he
    simp only at hl hc ⊢
    have hctx : s.ctx = .cmd := by
      simp only [Bool.or_eq_true, Bool.not_eq_true', decide_eq_true_eq] at hs
      rcases hs with hs | hs
      · rw [hs] at hl; cases hl
      · exact hs
    simp [hlib st.effects s hl hctx hc]

theorem cancelInv_push_other {cancelAt : Nat} {st : St} {c : String} {k : EffKind} {ok : Bool} (hk : k ≠ .call)
    (hst : CancelInv cancelAt st.effects) : CancelInv cancelAt (st.push c k ok).effects := by
  intro e he hk' hl hc
  simp [St.push_effects] at he
  rcases he with he | he
  · exact hst e he hk' hl hc
  · subst he; exact absurd hk' hk

theorem exec_cancelInv (orc : Oracle) (cancelAt : Nat) (hlib : CancelContract orc cancelAt) :
    ∀ (as : List Atom) (st : St), (∀ a ∈ as, a.longGetsCmdCtx = true) → CancelInv cancelAt st.effects →
      CancelInv cancelAt (exec orc as st).2.effects
  | [], st, _, hst => by simpa [exec] using hst
  | a :: rest, st, hq, hst => by
    have hq' : ∀ a ∈ rest, a.longGetsCmdCtx = true := fun x hx => hq x (List.mem_cons_of_mem _ hx)
    have hb := hq a (List.mem_cons_self ..)
    cases a with
    | step s =>
      simp only [Atom.longGetsCmdCtx] at hb
      have h' := cancelInv_push_call hlib hb hst
      simp only [exec]
      split
      · split
        · exact h'
        · exact h'
        · exact h'
        · exact exec_cancelInv orc cancelAt hlib rest _ hq' h'
        · exact exec_cancelInv orc cancelAt hlib rest _ hq' h'
      · exact exec_cancelInv orc cancelAt hlib rest _ hq' h'
    | ret s =>
      simp only [Atom.longGetsCmdCtx] at hb
      have h' := cancelInv_push_call hlib hb hst
      simp only [exec]
      split <;> exact h'
    | fail => simpa [exec] using hst
    | retNil => simpa [exec] using hst
    | deferred c =>
      simp only [exec]
      exact exec_cancelInv orc cancelAt hlib rest _ hq' hst
    | spawn s =>
      simp only [exec]
      exact exec_cancelInv orc cancelAt hlib rest _ hq' (cancelInv_push_other (by decide) hst)
    | join c eu =>
      simp only [exec]
      cases hl : st.pending.lookup c with
      | none => exact exec_cancelInv orc cancelAt hlib rest _ hq' hst
      | some bad =>
        have h' : CancelInv cancelAt (st.push c .joined (!bad)).effects := cancelInv_push_other (by decide) hst
        simp only
        split
        · split
          · exact h'
          · exact h'
          · exact h'
          · exact exec_cancelInv orc cancelAt hlib rest _ hq' h'
          · exact exec_cancelInv orc cancelAt hlib rest _ hq' h'
        · exact exec_cancelInv orc cancelAt hlib rest _ hq' h'
    | mayStop w =>
      simp only [exec]
      split
      · exact hst
      · exact exec_cancelInv orc cancelAt hlib rest _ hq' hst

/-- effects are only ever added: a failed effect of the history is still there at the end -/
theorem exec_keeps_failed (orc : Oracle) :
    ∀ (as : List Atom) (st : St), (∃ e ∈ st.effects, e.ok = false) → ∃ e ∈ (exec orc as st).2.effects, e.ok = false
  | [], st, h => by simpa [exec] using h
  | a :: rest, st, h => by
    have push : ∀ (c : String) (k : EffKind) (ok : Bool), ∃ e ∈ (st.push c k ok).effects, e.ok = false := by
      intro c k ok
      obtain ⟨e, he, hb⟩ := h
      exact ⟨e, by simp [St.push_effects, he], hb⟩
    cases a with
    | step s =>
      simp only [exec]
      split
      · split
        · exact push _ _ _
        · exact push _ _ _
        · exact push _ _ _
        · exact exec_keeps_failed orc rest _ (push _ _ _)
        · exact exec_keeps_failed orc rest _ (push _ _ _)
      · exact exec_keeps_failed orc rest _ (push _ _ _)
    | ret s =>
      simp only [exec]
      split <;> exact push _ _ _
    | fail => simpa [exec] using h
    | retNil => simpa [exec] using h
    | deferred c =>
      simp only [exec]
      exact exec_keeps_failed orc rest _ h
    | spawn s =>
      simp only [exec]
      exact exec_keeps_failed orc rest { st.push s.callee .started true with pending := _ } (push _ _ _)
    | join c eu =>
      simp only [exec]
      cases hl : st.pending.lookup c with
      | none => exact exec_keeps_failed orc rest _ h
      | some bad =>
        simp only
        split
        · split
          · exact push _ _ _
          · exact push _ _ _
          · exact push _ _ _
          · exact exec_keeps_failed orc rest _ (push _ _ _)
          · exact exec_keeps_failed orc rest _ (push _ _ _)
        · exact exec_keeps_failed orc rest _ (push _ _ _)
    | mayStop w =>
      simp only [exec]
      split
      · exact h
      · exact exec_keeps_failed orc rest _ h

/-- an error result has a cause: a failed effect, or a `return <fresh error>` on the path -/
theorem exec_err_has_cause (orc : Oracle) :
    ∀ (as : List Atom) (st : St), (∀ e ∈ st.effects, e.ok = true) → (exec orc as st).1 = .err →
      (∃ e ∈ (exec orc as st).2.effects, e.ok = false) ∨ Atom.fail ∈ as
  | [], st, _, hr => by simp [exec] at hr
  | a :: rest, st, hst, hr => by
    have lift : ∀ {st' : St}, (∀ e ∈ st'.effects, e.ok = true) → (exec orc rest st').1 = .err →
        (∃ e ∈ (exec orc rest st').2.effects, e.ok = false) ∨ Atom.fail ∈ a :: rest := by
      intro st' h1 h2
      rcases exec_err_has_cause orc rest st' h1 h2 with h | h
      · exact .inl h
      · exact .inr (List.mem_cons_of_mem _ h)
    have pushOk : ∀ (c : String) (k : EffKind), ∀ e ∈ (st.push c k true).effects, e.ok = true := by
      intro c k e he
      simp [St.push_effects] at he
      rcases he with he | he
      · exact hst e he
      · subst he; rfl
    have pushBad : ∀ (c : String) (k : EffKind), ∃ e ∈ (st.push c k false).effects, e.ok = false :=
      fun c k => ⟨⟨c, k, false, st.effects.length⟩, by simp [St.push_effects], rfl⟩
    cases a with
    | step s =>
      simp only [exec] at hr ⊢
      cases hf : orc.fails st.effects s
      · simp only [hf, Bool.false_eq_true, if_false, Bool.not_false] at hr ⊢
        exact lift (pushOk _ _) hr
      · simp only [hf, if_true, Bool.not_true] at hr ⊢
        cases ho : s.onErr <;> simp only [ho] at hr ⊢
        · exact .inl (pushBad _ _)
        · exact .inl (pushBad _ _)
        · -- ignored: the failed effect stays in the history of the rest of the run
          left
          exact exec_keeps_failed orc rest _ (pushBad _ _)
        · left
          exact exec_keeps_failed orc rest _ (pushBad _ _)
        · cases hr
    | ret s =>
      simp only [exec] at hr ⊢
      cases hf : orc.fails st.effects s
      · simp [hf] at hr
      · simp only [hf, Bool.true_and, Bool.not_true] at hr ⊢
        split
        · exact .inl (pushBad _ _)
        · rename_i h; simp [h] at hr
    | fail => exact .inr (List.mem_cons_self ..)
    | retNil => simp [exec] at hr
    | deferred c =>
      simp only [exec] at hr ⊢
      exact lift hst hr
    | spawn s =>
      simp only [exec] at hr ⊢
      exact lift (st' := { st.push s.callee .started true with pending := _ }) (pushOk _ _) hr
    | join c eu =>
      simp only [exec] at hr ⊢
      cases hl : st.pending.lookup c with
      | none =>
        simp only [hl] at hr ⊢
        exact lift hst hr
      | some bad =>
        simp only [hl] at hr ⊢
        cases bad
        · simp only [Bool.false_eq_true, if_false, Bool.not_false] at hr ⊢
          exact lift (pushOk _ _) hr
        · simp only [if_true, Bool.not_true] at hr ⊢
          cases ho : eu <;> simp only [ho] at hr ⊢
          · exact .inl (pushBad _ _)
          · exact .inl (pushBad _ _)
          · left; exact exec_keeps_failed orc rest _ (pushBad _ _)
          · left; exact exec_keeps_failed orc rest _ (pushBad _ _)
          · cases hr
    | mayStop w =>
      simp only [exec] at hr ⊢
      split
      · rename_i h; simp [h] at hr
      · rename_i h
        simp only [h] at hr
        exact lift hst hr

theorem closeEffects_ok : ∀ (n : Nat) (cs : List String), ∀ e ∈ closeEffects n cs, e.ok = true ∧ e.kind = .closed
  | _, [], e, he => by simp [closeEffects] at he
  | n, c :: cs, e, he => by
    simp only [closeEffects, List.mem_cons] at he
    rcases he with he | he
    · subst he; exact ⟨rfl, rfl⟩
    · exact closeEffects_ok (n + 1) cs e he

end Desync.Cmd
